/- line-protocol driver for the C14 model (Mathlib-free).  Bits are strings over '0','1' ("-" = empty). -/
import Ipv8.Base.Proto
import Ipv8.C14.Model
open Ipv8 Ipv8.C14

structure St where
  m : Nat
  rt : RT
  trie : Trie Nat

def bits? (s : String) : Option Bits :=
  if s == "-" then some [] else
  s.toList.mapM (fun c => if c == '0' then some false else if c == '1' then some true else none)

def showBits (b : Bits) : String :=
  if b.isEmpty then "-" else String.ofList (b.map (fun x => if x then '1' else '0'))

def bool? (s : String) : Option Bool :=
  if s == "0" then some false else if s == "1" then some true else none

def showNode (n : Node) : String :=
  s!"{n.tag}.{n.addr}.{if n.bad then 1 else 0}.{n.rtt}"

/-- insertion sort on strings / naturals for canonical output -/
def insSorted {α : Type} (lt : α → α → Bool) (x : α) : List α → List α
  | [] => [x]
  | y :: ys => if lt y x then y :: insSorted lt x ys else x :: y :: ys

def sortBy {α : Type} (lt : α → α → Bool) (l : List α) : List α := l.foldr (insSorted lt) []

def showBucket (b : Bucket) : String :=
  showBits b.pfx ++ "/" ++ toString b.cap ++ "=" ++ ",".intercalate ((sortBy (fun a b => a.tag < b.tag) b.nodes).map showNode)

def step (st : St) (toks : List String) : St × String :=
  let bad : St × String := (st, "bad-op")
  match toks with
  | ["rt.new", me, m] =>
    match bits? me, m.toNat? with
    | some me, some m => ({ st with m := m, rt := RT.init me m }, "ok")
    | _, _ => bad
  | ["rt.add", id, f, rc, rtt, addr, tag] =>
    match bits? id, f.toNat?, bool? rc, rtt.toNat?, addr.toNat?, tag.toNat? with
    | some id, some f, some rc, some rtt, some addr, some tag =>
      let r := st.rt.add { id := id, failed := f, recent := rc, rtt := rtt, addr := addr, tag := tag }
      ({ st with rt := r.1 },
        match r.2 with
        | .stored x => s!"stored {x.tag} {x.addr}"
        | .none => "none"
        | .keyError => "keyerror"
        | .outOfFuel => "fuel")
    | _, _, _, _, _, _ => bad
  | ["rt.rmbad"] =>
    let r := st.rt.removeBad
    ({ st with rt := r.1 }, Proto.showNatList (sortBy (fun a b => a < b) (r.2.map (·.tag))))
  | ["rt.set", id, f, rc, rtt] =>
    match bits? id, f.toNat?, bool? rc, rtt.toNat? with
    | some id, some f, some rc, some rtt => ({ st with rt := st.rt.setNode id f rc rtt }, "ok")
    | _, _, _, _ => bad
  | ["rt.status", id] =>
    match bits? id with
    | some id => (st, match st.rt.get id with | some x => (if x.bad then "bad" else "live") | none => "none")
    | none => bad
  | ["node.status", f, rc] =>
    match f.toNat?, bool? rc with
    | some f, some rc =>
      (st, if ({ id := [], failed := f, recent := rc, rtt := 0, addr := 0, tag := 0 } : Node).bad then "bad" else "live")
    | _, _ => bad
  | ["rt.closest", target, k, excl] =>
    match bits? target, (if k == "default" then some Gen.closestDefaultK else k.toNat?) with
    | some target, some k =>
      let ex : Option (Option Bits) := if excl == "none" then some none else (bits? excl).map some
      match ex with
      | some ex => (st, Proto.showNatList ((st.rt.closest target k ex).map (·.tag)))
      | none => bad
    | _, _ => bad
  | ["rt.get", id] =>
    match bits? id with
    | some id => (st, match st.rt.get id with | some x => toString x.tag | none => "none")
    | none => bad
  | ["rt.bucket", id] =>
    match bits? id with
    | some id => (st, match st.rt.getBucket id with | some (p, b) => showBits p ++ " " ++ showBits b.pfx | none => "keyerror")
    | none => bad
  | ["rt.refresh", r, keys] =>
    match r.toNat?, (if keys == "none" then some [] else (Proto.splitChar keys ',').mapM bits?) with
    | some r, some ks =>
      let res := st.rt.refresh Gen.idWidth (fun k => ks.contains k) (fun k => r % Gen.genIdDrawBound (Gen.idWidth - k.length))
      let items := res.map (fun kt => showBits kt.1 ++ ">" ++ (match kt.2 with | some id => showBits id | none => "raised"))
      (st, "|".intercalate (sortBy (fun a b => a < b) items))
    | _, _ => bad
  | ["rt.dump"] =>
    -- keys of the trie with the bucket stored there, in key order
    let ks := st.rt.trie.keys
    let items := ks.filterMap (fun k => (st.rt.trie.get k).map (fun b => showBits k ++ ":" ++ showBucket b))
    (st, "|".intercalate (sortBy (fun a b => a < b) items))
  | ["rt.genid", pfx, width, r] =>
    match bits? pfx, width.toNat?, r.toNat? with
    | some pfx, some w, some r =>
      (st, match Bucket.generateId w { pfx := pfx, nodes := [], cap := 0 } r with | some id => showBits id | none => "raised")
    | _, _, _ => bad
  | ["rt.genid_old", pfx, width, r] =>
    match bits? pfx, width.toNat?, r.toNat? with
    | some pfx, some w, some r =>
      (st, match Bucket.generateIdOld w { pfx := pfx, nodes := [], cap := 0 } r with | some id => showBits id | none => "raised")
    | _, _, _ => bad
  | ["dist", a, b] =>
    match bits? a, bits? b with
    | some a, some b => (st, toString (dist a b))
    | _, _ => bad
  | ["t.new"] => ({ st with trie := Trie.empty }, "ok")
  | ["t.set", k, v] =>
    match bits? k, v.toNat? with
    | some k, some v => ({ st with trie := st.trie.set k v }, "ok")
    | _, _ => bad
  | ["t.del", k] =>
    match bits? k with
    | some k => let d := st.trie.del k; ({ st with trie := d.1 }, if d.2 then "keyerror" else "ok")
    | none => bad
  | ["t.get", k] =>
    match bits? k with
    | some k => (st, match st.trie.get k with | some v => toString v | none => "keyerror")
    | none => bad
  | ["t.lpi", k] =>
    match bits? k with
    | some k => (st, match st.trie.lpi (fun v => v != 0) k with | some (p, v) => showBits p ++ " " ++ toString v | none => "none")
    | none => bad
  | ["t.lp", k] =>
    match bits? k with
    | some k => (st, match st.trie.lpi (fun v => v != 0) k with | some (p, _) => showBits p | none => "none")
    | none => bad
  | ["t.lpv", k] =>
    match bits? k with
    | some k => (st, match st.trie.lpi (fun v => v != 0) k with | some (_, v) => toString v | none => "none")
    | none => bad
  | ["t.suf", k] =>
    match bits? k with
    | some k => (st, Proto.showStrList (sortBy (fun a b => a < b) ((st.trie.suffixes k).map showBits)))
    | none => bad
  | ["t.vals"] => (st, Proto.showNatList (sortBy (fun a b => a < b) st.trie.values))
  | ["t.keys"] => (st, Proto.showStrList (sortBy (fun a b => a < b) (st.trie.keys.map showBits)))
  | _ => bad

def main : IO Unit := Proto.run ({ m := 8, rt := RT.init [] 8, trie := Trie.empty } : St) step
