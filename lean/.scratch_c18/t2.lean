import Ipv8.C18.LemmasProto
import Mathlib.Data.ZMod.Basic
namespace Ipv8.C18
section
variable {A : Type} [AddCommGroup A] [DecidableEq A]
local notation "𝔾" => GroupOps.ofAdd A

/-- The positivity test is the only thing between a prover who knows a multiple n of the order of g and acceptance:
    for ANY value (inside or outside [a, b]) the prover that follows the algebra with
    m2 = mst − m1 − m4² + K·n passes the check as soon as both answers are positive. -/
theorem order_shift_accepted' (hash : A → A → Int) (g h : A) (n K value a b : Int) (rnd : RangeRand) (s t : Int)
    (hn : n • g = 0)
    (hx : 0 < s * rnd.m1 + (mstOf rnd.w value a b - rnd.m1 - rnd.m4 * rnd.m4 + K * n) + rnd.m4 * rnd.m4)
    (hy : 0 < rnd.m1 + t * (mstOf rnd.w value a b - rnd.m1 - rnd.m4 * rnd.m4 + K * n) + rnd.m4 * rnd.m4) :
    cheatRound (𝔾) hash g h value a b rnd (mstOf rnd.w value a b - rnd.m1 - rnd.m4 * rnd.m4 + K * n) s t = true := by
  have hK : (K * n) • g = 0 := by rw [mul_smul, hn, smul_zero]
  unfold cheatRound
  simp only [rangeCommitWith, RangePriv.response, rangeCheck, pow_ofAdd, ofAdd_mul, ofAdd_div, ofAdd_eq,
    Bool.and_eq_true, decide_eq_true_eq]
  refine ⟨⟨⟨⟨⟨⟨⟨⟨⟨?_, ?_⟩, ?_⟩, ?_⟩, ?_⟩, ?_⟩, ?_⟩, ?_⟩, ?_⟩, ?_⟩
  · apply el_complete' <;> first | trivial | module
  · apply sqr_complete'; first | trivial | module
  · apply sqr_complete'; rw [← sub_eq_zero]; refine Eq.trans ?_ (neg_eq_zero.mpr hK); unfold mstOf; module
  · first | trivial | module
  · first | trivial | module
  · first | trivial | module
  · rw [← sub_eq_zero]; refine Eq.trans ?_ hK; unfold mstOf; module
  · rw [← sub_eq_zero]; refine Eq.trans ?_ hK; unfold mstOf; module
  · exact hx
  · exact hy

end
end Ipv8.C18
