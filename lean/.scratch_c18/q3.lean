import Ipv8.C18.LemmasProto
namespace Ipv8.C18
section
variable {A : Type} [AddCommGroup A] [DecidableEq A]
local notation "𝔾" => GroupOps.ofAdd A

structure BonehHyp (sk : PrivKey A) : Prop where
  g_order : (sk.p + 1) • sk.g = 0
  h_order : sk.t1 • sk.h = 0
  t_ne : sk.t1 • sk.g ≠ 0
  t2_ne : (2 * sk.t1) • sk.g ≠ 0
theorem response_pair (sk : PrivKey A) (H : BonehHyp sk) (a0 a1 r0 r1 : Nat) (x0 x1 y z : A)
    (ha0 : a0 ≤ 1) (ha1 : a1 ≤ 1)
    (hx0 : sk.t1 • x0 = 0) (hx1 : sk.t1 • x1 = 0) (hy : sk.t1 • y = 0) (hz : sk.t1 • z = 0) :
    respond (𝔾) sk (challengeWith (𝔾) sk.toPubKey
      { a := encWith (𝔾) sk.g (a0 + r0) x0, b := encWith (𝔾) sk.g (a1 + r1) x1,
        complement := encWith (𝔾) sk.g (complExp sk.p r0 r1) y } z) = a0 + a1 := by sorry

/-- answers to the challenges on all pairs produced by `mkPairs`, whatever blinding `zf` the verifier uses -/
theorem mkPairs_responses (sk : PrivKey A) (H : BonehHyp sk) (zf : BitPair A → A) (hz : ∀ bp, sk.t1 • zf bp = 0) :
    ∀ (As Rs : List Nat) (xs ys : List A), (∀ a ∈ As, a ≤ 1) → (∀ x ∈ xs, sk.t1 • x = 0) → (∀ y ∈ ys, sk.t1 • y = 0) →
      As.length ≤ Rs.length → As.length ≤ xs.length → As.length / 2 ≤ ys.length →
      (mkPairs (𝔾) sk.toPubKey As Rs xs ys).map (fun bp => respond (𝔾) sk (challengeWith (𝔾) sk.toPubKey bp (zf bp)))
        = pairSums As := by
  intro As
  induction As using pairSums.induct with
  | case1 a0 a1 rest ih =>
    intro Rs xs ys hA hx hy hR hX hY
    match Rs, xs, ys with
    | r0 :: r1 :: rs, x0 :: x1 :: xs', y :: ys' =>
      simp only [mkPairs, pairSums, List.map_cons]
      congr 1
      · exact response_pair sk H a0 a1 r0 r1 x0 x1 y _ (hA a0 (by simp)) (hA a1 (by simp))
          (hx x0 (by simp)) (hx x1 (by simp)) (hy y (by simp)) (hz _)
      · apply ih
        · intro a ha; exact hA a (by simp [ha])
        · intro x hx'; exact hx x (by simp [hx'])
        · intro y' hy'; exact hy y' (by simp [hy'])
        · simp at hR ⊢; omega
        · simp at hX ⊢; omega
        · simp at hY ⊢; omega
    | [], _, _ => simp at hR
    | [_], _, _ => simp at hR
    | _ :: _ :: _, [], _ => simp at hX
    | _ :: _ :: _, [_], _ => simp at hX
    | _ :: _ :: _, _ :: _ :: _, [] => simp at hY; omega
  | case2 l hl =>
    intro Rs xs ys _ _ _ _ _ _
    have hp : pairSums l = [] := by
      match l, hl with
      | [], _ => rfl
      | [_], _ => rfl
      | a :: b :: r, hl => exact absurd rfl (hl a b r)
    have hm : mkPairs (𝔾) sk.toPubKey l Rs xs ys = [] := by
      match l, hl with
      | [], _ => simp [mkPairs]
      | [_], _ => simp [mkPairs]
      | a :: b :: r, hl => exact absurd rfl (hl a b r)
    rw [hp, hm]; rfl

theorem applyPerm_map {α β : Type} (f : α → β) (perm : List Nat) (l : List α) :
    applyPerm perm (l.map f) = (applyPerm perm l).map f := by
  simp [applyPerm, List.map_filterMap, List.getElem?_map]

theorem bitsOf_le_one (value bitspace : Nat) : ∀ a ∈ bitsOf value bitspace, a ≤ 1 := by
  have aux : ∀ (n : Nat) (acc : List Nat), (∀ a ∈ acc, a ≤ 1) → ∀ a ∈ binDigitsAux n acc, a ≤ 1 := by
    intro n
    induction n using Nat.strongRecOn with
    | _ n ih =>
      intro acc hacc
      rw [binDigitsAux]
      split
      · exact hacc
      · apply ih (n / 2) (by omega)
        intro a ha
        simp only [List.mem_cons] at ha
        rcases ha with rfl | ha
        · omega
        · exact hacc a ha
  intro a ha
  simp only [bitsOf, List.mem_append, List.mem_replicate] at ha
  rcases ha with ⟨_, rfl⟩ | ha
  · omega
  · unfold binDigits at ha
    split at ha
    · simp at ha; omega
    · exact aux value [] (by simp) a ha

end
end Ipv8.C18
