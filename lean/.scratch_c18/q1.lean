import Ipv8.C18.LemmasProto
namespace Ipv8.C18
section
variable {A : Type} [AddCommGroup A] [DecidableEq A]
local notation "𝔾" => GroupOps.ofAdd A

/-- the order hypotheses on a Boneh key (checked at run time on every fresh key by the harness) -/
structure BonehHyp (sk : PrivKey A) : Prop where
  g_order : (sk.p + 1) • sk.g = 0
  h_order : sk.t1 • sk.h = 0
  t_ne : sk.t1 • sk.g ≠ 0
  t2_ne : (2 * sk.t1) • sk.g ≠ 0

theorem decode_blinded (sk : PrivKey A) (space : List Nat) (m : Nat) (c x : A) (hc : c = m • sk.g + x)
    (hx : sk.t1 • x = 0) (hm : m ∈ space)
    (hinj : ∀ m' ∈ space, m' • (sk.t1 • sk.g) = m • (sk.t1 • sk.g) → m' = m) :
    decode (𝔾) sk space c = some m := by
  subst hc
  unfold decode
  simp only [powNat_ofAdd, ofAdd_eq]
  have key : sk.t1 • (m • sk.g + x) = m • sk.t1 • sk.g := by
    rw [smul_add, hx, add_zero, smul_comm]
  apply find_first
  · exact hm
  · simp [key]
  · intro m' hm' h
    simp only [decide_eq_true_eq] at h
    apply hinj m' hm'
    rw [← h, key]

theorem decode_correct (sk : PrivKey A) (space : List Nat) (m : Nat) (x : A)
    (hx : sk.t1 • x = 0) (hm : m ∈ space)
    (hinj : ∀ m' ∈ space, m' • (sk.t1 • sk.g) = m • (sk.t1 • sk.g) → m' = m) :
    decode (𝔾) sk space (encWith (𝔾) sk.g m x) = some m :=
  decode_blinded sk space m _ x (by simp) hx hm hinj

theorem small_inj (sk : PrivKey A) (H : BonehHyp sk) (m : Nat) (hm : m ≤ 2) :
    ∀ m' ∈ [0, 1, 2], m' • (sk.t1 • sk.g) = m • (sk.t1 • sk.g) → m' = m := by
  have h1 := H.t_ne
  have h2 := H.t2_ne
  rw [mul_smul, two_smul] at h2
  intro m' hm' h
  simp only [List.mem_cons, List.not_mem_nil, or_false] at hm'
  have hm3 : m = 0 ∨ m = 1 ∨ m = 2 := by omega
  rcases hm' with rfl | rfl | rfl <;> rcases hm3 with rfl | rfl | rfl <;> simp_all [two_smul]
  

end
end Ipv8.C18
