import Mathlib.Tactic.Module
import Mathlib.Tactic.Abel
import Mathlib.Algebra.Field.Rat
import Mathlib.Data.ZMod.Basic
example {A : Type} [AddCommGroup A] (g h : A) (w c x n1 r1 : Int) :
   (w + c*x) • g + (n1 + c*r1) • h + (-c) • (x • g + r1 • h) = w • g + n1 • h := by module
example (e : Nat) (h : e ≠ 0) : (e : Rat) / (e : Rat) = 1 := by
  have : (e : Rat) ≠ 0 := by exact_mod_cast h
  exact div_self this
example : (3 : ZMod 15) + 13 = 1 := by decide
#check @List.Perm.filterMap
#check @List.Perm.count_eq
#check @zsmul_eq_mul
