import Mathlib.Data.ZMod.Basic
import Mathlib.Tactic.Ring
#check @ZMod.intCast_eq_intCast_iff
#check @ZMod.intCast_zmod_eq_zero_iff_dvd
#check @ZMod.intCast_cast
#check @Int.gcd_comm
#check @Int.gcd_emod
#check @Int.emod_emod_of_dvd
#check @Int.gcd_rec
#check @Int.gcd_eq_gcd_ab
#check (1/2 : Rat)
#check @Nat.Prime
example : (ZMod 5) := 3
