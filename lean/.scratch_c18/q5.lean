import Ipv8.C18.LemmasProto
import Mathlib.Tactic.Linarith
namespace Ipv8.C18
section
variable {A : Type} [AddCommGroup A] [DecidableEq A]
local notation "𝔾" => GroupOps.ofAdd A

theorem el_complete' (hash : A → A → Int) (x r1 r2 : Int) (g1 h1 g2 h2 y1 y2 : A) (rnd : ELRand)
    (hy1 : y1 = x • g1 + r1 • h1) (hy2 : y2 = x • g2 + r2 • h2) :
    elCheck (𝔾) hash (elCreate (𝔾) hash x r1 r2 g1 h1 g2 h2 rnd) g1 h1 g2 h2 y1 y2 = true := by
  subst hy1 hy2
  simp only [elCheck, elCreate, elCheckPre, elCommit, pow_ofAdd, ofAdd_mul]
  generalize hc : hash (rnd.w • g1 + rnd.n1 • h1) (rnd.w • g2 + rnd.n2 • h2) = c
  have e1 : (rnd.w + c * x) • g1 + (rnd.n1 + c * r1) • h1 + (-c) • (x • g1 + r1 • h1) = rnd.w • g1 + rnd.n1 • h1 := by
    module
  have e2 : (rnd.w + c * x) • g2 + (rnd.n2 + c * r2) • h2 + (-c) • (x • g2 + r2 • h2) = rnd.w • g2 + rnd.n2 • h2 := by
    module
  rw [e1, e2, hc]
  simp


theorem sqr_complete' (hash : A → A → Int) (x r1 : Int) (g h y : A) (r2 : Int) (rnd : ELRand)
    (hy : y = (x * x) • g + r1 • h) :
    sqrCheck (𝔾) hash (sqrCreate (𝔾) hash x r1 g h r2 rnd) g h y = true := by
  simp only [sqrCheck, sqrCreate, pow_ofAdd, ofAdd_mul]
  apply el_complete'
  · rfl
  · rw [hy]; module

theorem mst_pos_inside (w value a b : Int) (hw : 3 ≤ w) (h1 : a ≤ value) (h2 : value ≤ b) : 9 ≤ mstOf w value a b := by
  unfold mstOf
  have hw2 : 9 ≤ w * w := by nlinarith
  have u1 : 1 ≤ value - a + 1 := by omega
  have u2 : 1 ≤ b - value + 1 := by omega
  have s1 : 9 ≤ w * w * (value - a + 1) := by nlinarith
  nlinarith

theorem mst_nonpos_outside (w value a b : Int) (hab : a ≤ b) (hout : value < a ∨ b < value) : mstOf w value a b ≤ 0 := by
  unfold mstOf
  have hw2 : 0 ≤ w * w := mul_self_nonneg w
  rcases hout with h | h
  · have u1 : value - a + 1 ≤ 0 := by omega
    have u2 : 0 ≤ b - value + 1 := by omega
    have : w * w * (value - a + 1) ≤ 0 := mul_nonpos_of_nonneg_of_nonpos hw2 u1
    exact mul_nonpos_of_nonpos_of_nonneg this u2
  · have u1 : 0 ≤ value - a + 1 := by omega
    have u2 : b - value + 1 ≤ 0 := by omega
    have : 0 ≤ w * w * (value - a + 1) := mul_nonneg hw2 u1
    exact mul_nonpos_of_nonneg_of_nonpos this u2

/-- no attestation comes out of the honest construction for a value outside the range -/
theorem create_outside_none (hash : A → A → Int) (g h : A) (value a b : Int) (rnd : RangeRand)
    (hab : a ≤ b) (hout : value < a ∨ b < value) :
    createAttestPair (𝔾) hash g h value a b rnd = none := by
  unfold createAttestPair
  simp only [mst_nonpos_outside rnd.w value a b hab hout, if_true]

/-- whatever split m1 + m2 + m3 of a non-positive mst a prover uses (m3 a square, hence ≥ 0), one of the two answers
    is not positive for every challenge s, t ≥ 1 -/
theorem answers_nonpos (m1 m2 m3 mst s t : Int) (hsum : m1 + m2 + m3 = mst) (hm : mst ≤ 0) (h3 : 0 ≤ m3)
    (hs : 1 ≤ s) (ht : 1 ≤ t) : s * m1 + m2 + m3 ≤ 0 ∨ m1 + t * m2 + m3 ≤ 0 := by
  by_cases h1 : m1 < 0
  · left
    have : (s - 1) * m1 ≤ 0 := mul_nonpos_of_nonneg_of_nonpos (by omega) (by omega)
    nlinarith
  · by_cases h2 : m2 < 0
    · right
      have : (t - 1) * m2 ≤ 0 := mul_nonpos_of_nonneg_of_nonpos (by omega) (by omega)
      nlinarith
    · left
      have e1 : m1 = 0 := by omega
      have e2 : m2 = 0 := by omega
      have e3 : m3 = 0 := by omega
      subst e1 e2 e3; simp

theorem rangeCheck_nonpos (hash : A → A → Int) (g h : A) (pd : RangePublic A) (a b s t x y u v : Int)
    (hxy : x ≤ 0 ∨ y ≤ 0) : rangeCheck (𝔾) hash g h pd a b s t x y u v = false := by
  unfold rangeCheck
  rcases hxy with hx | hy
  · have : decide (x > 0) = false := by simp; omega
    simp [this]
  · have : decide (y > 0) = false := by simp; omega
    simp [this]

theorem range_complete' (hash : A → A → Int) (g h : A) (value a b : Int) (rnd : RangeRand) (s t : Int)
    (h1 : a ≤ value) (h2 : value ≤ b) (hw : 3 ≤ rnd.w)
    (hm1 : 0 ≤ rnd.m1) (hm2 : 0 ≤ mstOf rnd.w value a b - rnd.m1 - rnd.m4 * rnd.m4) (hs : 1 ≤ s) (ht : 1 ≤ t) :
    rangeRound (𝔾) hash g h value a b rnd s t = some true := by
  have hmst := mst_pos_inside rnd.w value a b hw h1 h2
  have hsq : ¬ Nat.sqrt (mstOf rnd.w value a b).toNat < 3 := by
    rw [not_lt, Nat.le_sqrt]
    omega
  unfold rangeRound createAttestPair
  rw [if_neg (by omega), if_neg hsq]
  simp only [rangeCommit, RangePriv.response, rangeCheck, pow_ofAdd, ofAdd_mul, ofAdd_div, ofAdd_eq,
    Bool.and_eq_true, decide_eq_true_eq, Option.some.injEq]
  refine ⟨⟨⟨⟨⟨⟨⟨⟨⟨?_, ?_⟩, ?_⟩, ?_⟩, ?_⟩, ?_⟩, ?_⟩, ?_⟩, ?_⟩, ?_⟩
  · apply el_complete' <;> first | trivial | rfl | module
  · apply sqr_complete'; first | trivial | rfl | module
  · apply sqr_complete'; first | trivial | rfl | (unfold mstOf; module)
  · first | trivial | rfl | module
  · first | trivial | rfl | module
  · first | trivial | rfl | module
  · unfold mstOf; module
  · unfold mstOf; module
  · have : 0 ≤ (s - 1) * rnd.m1 := mul_nonneg (by omega) hm1
    nlinarith
  · have : 0 ≤ (t - 1) * (mstOf rnd.w value a b - rnd.m1 - rnd.m4 * rnd.m4) := mul_nonneg (by omega) hm2
    nlinarith

end
end Ipv8.C18
