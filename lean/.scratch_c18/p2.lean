#check (1/2 : Rat)
#eval (3/6 : Rat)
#check @List.find?
#check @List.foldl
#check Nat.toDigits
#eval (255 : Nat).toDigits 256
