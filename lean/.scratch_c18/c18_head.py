"""
C18 — attribute proofs: field arithmetic of FP2Value (translator + laws + correspondence).

Link to the code:
  * translator tools/gen_fp2.py regenerates lean/Ipv8/C18/GenFP2.lean from value.py on every run;
  * correspondence: the model's integer-level functions (driver drv_c18) vs the Python methods on random operands
    with general denominators and several primes;
  * oracle (independent of the model): every result is compared with exact fraction arithmetic in
    F_p[w]/(w^2+w+1) computed here from first principles.
"""
from __future__ import annotations

import gen_fp2
from vlib import Ctx

PROPERTY = "C18"
LEAN_TARGETS = ["Ipv8.C18.Props"]
PROPS_FILE = "Ipv8/C18/Props.lean"
DRIVER = "drv_c18"
RULE = ("operands: random FP2Value coefficient 6-tuples over primes p in PRIMES (p = 2 mod 3 and others), with classes "
        "{general denominators, c/cC non-zero, zero numerator, unit denominator}; distinct = distinct (op, p, operands); "
        "non-trivial = at least one operand has bC != 0 or cC != 0 (general denominator)")
TRUSTED_BASE = [
    "tools/gen_fp2.py: AST translation of FP2Value.__add__/__sub__/__mul__/__floordiv__/inverse/wp_nominator (polynomial expressions only)",
    "hand-written model of normalize/__eq__/intpow/_modinv/wp_* (Ipv8/C18/Model.lean), tied by the correspondence run",
    "key generation, Weil pairing, primality testing and the computational soundness of the range proof are outside the model",
]
ASSUMPTIONS = ["FP2Value operands share one modulus (asserted by the code)",
               "theorems hold in every commutative ring; invertibility of denominators is needed only to read a cross-multiplied identity as equality of fractions"]

PRIMES = [5, 11, 23, 29, 101, 1019, 65537, 2 ** 61 - 1, 2 ** 127 - 1]


def generate(ctx: Ctx):
    src, _ = gen_fp2.translate()
    return [("Ipv8/C18/GenFP2.lean", src)]


# ---- exact arithmetic in F_p[w]/(w^2+w+1), written independently of both the model and the code -------------
def e_mul(x, y, p):
    return ((x[0] * y[0] - x[1] * y[1]) % p, (x[0] * y[1] + x[1] * y[0] - x[1] * y[1]) % p)


def e_add(x, y, p):
    return ((x[0] + y[0]) % p, (x[1] + y[1]) % p)


def e_sub(x, y, p):
    return ((x[0] - y[0]) % p, (x[1] - y[1]) % p)


def num(v, p):
    return ((v[0] - v[2]) % p, (v[1] - v[2]) % p)


def den(v, p):
    return ((v[3] - v[5]) % p, (v[4] - v[5]) % p)


def frac_eq(n1, d1, n2, d2, p):
    return e_mul(n1, d2, p) == e_mul(n2, d1, p)


def expected(op, s, o, p):
    """(numerator, denominator) the fraction-arithmetic result must be equal to (as a fraction)."""
    ns, ds = num(s, p), den(s, p)
    if op == "inv":
        return ds, ns
    no, do = num(o, p), den(o, p)
    if op == "add":
        return e_add(e_mul(ns, do, p), e_mul(no, ds, p), p), e_mul(ds, do, p)
    if op == "sub":
        return e_sub(e_mul(ns, do, p), e_mul(no, ds, p), p), e_mul(ds, do, p)
    if op == "mul":
        return e_mul(ns, no, p), e_mul(ds, do, p)
    if op == "div":
        return e_mul(ns, do, p), e_mul(ds, no, p)
    raise ValueError(op)


def e_pow(x, n, p):
    r = (1 % p, 0)
    for _ in range(n):
        r = e_mul(r, x, p)
    return r


def tup(v):
    return (v.a, v.b, v.c, v.aC, v.bC, v.cC)


def rand_operand(rng, p, cls):
    r = lambda: rng.randrange(p)  # noqa: E731
    if cls == "general":
        return (r(), r(), 0, r(), r(), 0)
    if cls == "full":
        return (r(), r(), r(), r(), r(), r())
    if cls == "unit":
        return (r(), r(), 0, 1, 0, 0)
    if cls == "zero":
        return (0, 0, 0, r(), r(), 0)
    if cls == "small":
        return tuple(rng.randrange(min(p, 3)) for _ in range(6))
    raise ValueError(cls)


PYOP = {"add": lambda a, b: a + b, "sub": lambda a, b: a - b, "mul": lambda a, b: a * b, "div": lambda a, b: a // b}


def run_cases(ctx: Ctx, n_cases: int, use_model: bool):
    from ipv8.attestation.wallet.primitives.value import FP2Value, _modinv
    rng = ctx.rng
    lines, expect = [], []
    classes = ["general", "general", "full", "unit", "zero", "small"]
    for i in range(n_cases):
        p = rng.choice(PRIMES)
        op = rng.choice(["add", "sub", "mul", "div", "add", "inv", "pow", "eq", "norm", "modinv", "wpc"])
        cs, co = rng.choice(classes), rng.choice(classes)
        s, o = rand_operand(rng, p, cs), rand_operand(rng, p, co)
        S, O = FP2Value(p, *s), FP2Value(p, *o)
        nontrivial = bool(s[4] or s[5] or o[4] or o[5])
        ctx.count(f"op:{op}")
        ctx.count(f"class:{cs}")
        ctx.count("prime_bits:%d" % p.bit_length())
        sv = " ".join(map(str, s))
        ov = " ".join(map(str, o))
        if op in PYOP:
            res = tup(PYOP[op](S, O))
            line, got = f"{op} {p} {sv} {ov}", " ".join(map(str, res))
            en, ed = expected(op, s, o, p)
            if not frac_eq(num(res, p), den(res, p), en, ed, p) or den(res, p) != ed:
                ctx.oracle_fail(f"FP2Value.__{ {'add':'add','sub':'sub','mul':'mul','div':'floordiv'}[op]}__:fraction-law",
                                f"{op} of {s} and {o} mod {p} gives {res}, which is not the field result "
                                f"(expected numerator {en} over denominator {ed})",
                                {"op": op, "p": p, "self": s, "other": o, "result": res,
                                 "expected_num": en, "expected_den": ed})
            ctx.case((op, p, s, o), nontrivial)
        elif op == "inv":
            res = tup(S.inverse())
            line, got = f"inv {p} {sv}", " ".join(map(str, res))
            if num(res, p) != den(s, p) or den(res, p) != num(s, p):
                ctx.oracle_fail("FP2Value.inverse:swap", f"inverse of {s} mod {p} gives {res}",
                                {"op": op, "p": p, "self": s, "result": res})
            ctx.case((op, p, s), nontrivial)
        elif op == "pow":
            k = rng.choice([0, 1, 2, 3, 5, 8, 13, 64, 255, rng.randrange(1, 2000)])
            neg = rng.random() < 0.25
            res = tup(S.intpow(-k if neg else k))
            line, got = f"pow {p} {sv} {-k if neg else k}", " ".join(map(str, res))
            if not neg and k <= 300:
                en, ed = e_pow(num(s, p), k, p), e_pow(den(s, p), k, p)
                if num(res, p) != en or den(res, p) != ed:
                    ctx.oracle_fail("FP2Value.intpow:power", f"({s})^{k} mod {p} gives {res}",
                                    {"op": op, "p": p, "self": s, "k": k, "result": res})
            ctx.case((op, p, s, k, neg), nontrivial)
        elif op == "eq":
            # a value compared with a re-scaled copy of itself must be equal; with a perturbed one, not equal
            variant = rng.choice(["same", "scaled", "other"])
            if variant == "scaled":
                lam = rand_operand(rng, p, "general")
                ln = num(lam, p)
                n2, d2 = e_mul(num(s, p), ln, p), e_mul(den(s, p), ln, p)
                o = (n2[0], n2[1], 0, d2[0], d2[1], 0)
            elif variant == "same":
                o = s
            O = FP2Value(p, *o)
            ov = " ".join(map(str, o))
            res = (S == O)
            line, got = f"eq {p} {sv} {ov}", "true" if res else "false"
            cross = frac_eq(num(s, p), den(s, p), num(o, p), den(o, p), p)
            # the code compares N == D for N/D = self // other; equal to the cross-multiplied test
            if res != cross:
                ctx.oracle_fail("FP2Value.__eq__:cross", f"{s} == {o} mod {p} is {res}, cross-multiplication says {cross}",
                                {"op": op, "p": p, "self": s, "other": o, "result": res})
            ctx.count(f"eq:{variant}:{res}")
            ctx.case((op, p, s, o), nontrivial)
        elif op == "norm":
            res = tup(S.normalize())
            line, got = f"norm {p} {sv}", " ".join(map(str, res))
            if not frac_eq(num(res, p), den(res, p), num(s, p), den(s, p), p):
                ctx.oracle_fail("FP2Value.normalize:value", f"normalize of {s} mod {p} gives {res}: another fraction",
                                {"op": op, "p": p, "self": s, "result": res})
            ctx.case((op, p, s), nontrivial)
        elif op == "modinv":
            e = rng.randrange(p)
            r = _modinv(e, p)
            line, got = f"modinv {e} {p}", str(r)
            if e % p and (r * e) % p != 1:
                ctx.oracle_fail("_modinv:inverse", f"_modinv({e},{p})={r}", {"op": op, "e": e, "p": p, "result": r})
            ctx.case((op, p, e), True)
        else:  # wpc
            s = (s[0], s[1], 0, s[3], s[4], 0)
            S = FP2Value(p, *s)
            sv = " ".join(map(str, s))
            try:
                res = tup(S.wp_compress())
                got = " ".join(map(str, res))
                # compressed form denotes the same field element when the denominator is invertible
                if res[3:] == (1, 0, 0) and not frac_eq(num(res, p), den(res, p), num(s, p), den(s, p), p):
                    dn = den(s, p)
                    norm = (dn[0] * dn[0] - dn[0] * dn[1] + dn[1] * dn[1]) % p
                    if norm and s[3] % p:
                        ctx.oracle_fail("FP2Value.wp_compress:value", f"wp_compress of {s} mod {p} gives {res}",
                                        {"op": op, "p": p, "self": s, "result": res})
            except AssertionError:
                got = "none"
            line = f"wpc {p} {sv}"
            ctx.case((op, p, s), nontrivial)
        lines.append(line)
        expect.append(got)
        if i < 4:
            ctx.sample({"line": line, "implementation": got})
    if use_model:
        d = ctx.driver()
        replies = d.batch(lines)
        for ln, model, impl in zip(lines, replies, expect):
            if model != impl:
                ctx.disagree(f"model {model!r} != implementation {impl!r} on `{ln}`", {"line": ln, "model": model, "impl": impl})


