import Ipv8.C18.LemmasProto
import Mathlib.Algebra.Order.Field.Basic
namespace Ipv8.C18

theorem foldl_bump_counts (l : List Nat) : ∀ r : Rel, l.foldl Rel.bump r =
    ⟨r.c0 + l.count 0, r.c1 + l.count 1, r.c2 + l.count 2, r.c3 + l.count 3⟩ := by
  induction l with
  | nil => intro r; simp
  | cons a tl ih =>
    intro r
    rw [List.foldl_cons, ih]
    match a with
    | 0 => simp [Rel.bump]; omega
    | 1 => simp [Rel.bump]; omega
    | 2 => simp [Rel.bump]; omega
    | 3 => simp [Rel.bump]; omega
    | n + 4 => simp [Rel.bump]

theorem aggregate_counts (l : List Nat) : aggregate l = ⟨l.count 0, l.count 1, l.count 2, l.count 3⟩ := by
  simp [aggregate, foldl_bump_counts, Rel.empty]

theorem aggregate_perm {l₁ l₂ : List Nat} (h : l₁.Perm l₂) : aggregate l₁ = aggregate l₂ := by
  simp [aggregate_counts, h.count_eq]

theorem range_filterMap_getElem {α : Type} (l : List α) : (List.range l.length).filterMap (fun i => l[i]?) = l := by
  induction l using List.reverseRecOn with
  | nil => simp
  | append_singleton l a ih =>
    rw [List.length_append, List.length_singleton, List.range_succ, List.filterMap_append]
    have h1 : (List.range l.length).filterMap (fun i => (l ++ [a])[i]?) = (List.range l.length).filterMap (fun i => l[i]?) := by
      apply List.filterMap_congr
      intro i hi
      simp only [List.mem_range] at hi
      rw [List.getElem?_append_left hi]
    rw [h1, ih]
    simp

theorem applyPerm_perm {α : Type} (order : List Nat) (l : List α) (h : order.Perm (List.range l.length)) :
    (applyPerm order l).Perm l := by
  have := h.filterMap (fun i => l[i]?)
  rw [range_filterMap_getElem] at this
  exact this

theorem total_aggregate (l : List Nat) (h : ∀ a ∈ l, a ≤ 3) : (aggregate l).total = l.length := by
  induction l using List.reverseRecOn with
  | nil => rfl
  | append_singleton l a ih =>
    have ha : a ≤ 3 := h a (by simp)
    have ih' := ih (fun b hb => h b (by simp [hb]))
    simp only [aggregate, List.foldl_append, List.foldl_cons, List.foldl_nil, List.length_append, List.length_singleton] at *
    generalize List.foldl Rel.bump Rel.empty l = r at *
    have : a = 0 ∨ a = 1 ∨ a = 2 ∨ a = 3 := by omega
    rcases this with rfl | rfl | rfl | rfl <;> simp [Rel.bump, Rel.total] at * <;> omega

theorem halfPow_eq (n : Nat) : halfPow n = 1 / (2 : Rat) ^ n := by
  induction n with
  | zero => simp [halfPow]
  | succ n ih => rw [halfPow, ih, pow_succ, div_div]

theorem matchFactor_self (e : Nat) : matchFactor e e = 1 := by
  unfold matchFactor
  split
  · rfl
  · rename_i h
    have : (e : Rat) ≠ 0 := by
      intro h0; apply h; left; exact_mod_cast h0
    exact div_self this

theorem matchQ_self (e : Rel) : matchQ e e = 1 := by
  unfold matchQ
  simp [matchFactor_self]

/-- the true value after a complete round: 1 − 2⁻ⁿ -/
theorem certainty_self (e : Rel) : certaintyQ e e = 1 - 1 / (2 : Rat) ^ e.total := by
  simp [certaintyQ, matchQ_self, halfPow_eq]

theorem matchQ_other (e v : Rel) (hne : e ≠ v) (htot : e.total = v.total) : matchQ e v = 0 := by
  unfold matchQ
  split
  · rfl
  · rename_i h
    exfalso
    apply hne
    simp only [Rel.total] at htot
    cases e; cases v
    simp only [Rel.mk.injEq] at *
    omega

theorem matchFactor_pos (e v : Nat) : 0 < matchFactor e v := by
  unfold matchFactor
  split
  · exact one_pos
  · rename_i h
    have he : 0 < (e : Rat) := by
      have : e ≠ 0 := fun h0 => h (Or.inl h0)
      exact_mod_cast Nat.pos_of_ne_zero this
    have hv : 0 < (v : Rat) := by
      have : v ≠ 0 := fun h0 => h (Or.inr h0)
      exact_mod_cast Nat.pos_of_ne_zero this
    exact div_pos hv he

theorem matchFactor_le_one (e v : Nat) (h : v ≤ e) : matchFactor e v ≤ 1 := by
  unfold matchFactor
  split
  · exact le_refl _
  · rename_i h0
    have he : 0 < (e : Rat) := by
      have : e ≠ 0 := fun h1 => h0 (Or.inl h1)
      exact_mod_cast Nat.pos_of_ne_zero this
    rw [div_le_one he]
    exact_mod_cast h

end Ipv8.C18
