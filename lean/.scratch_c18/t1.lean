import Mathlib.Tactic.Module
import Mathlib.Tactic.LinearCombination
example {A : Type} [AddCommGroup A] (g h : A) (K n m1 s u : Int) (hK : (K*n) • g = 0) :
   (s*m1 + K*n) • g + u • h = s • (m1 • g) + u • h := by
  linear_combination hK
