import Ipv8.C18.Verifier
import Ipv8.C18.LemmasProto
import Mathlib.Data.List.Perm.Basic
import Mathlib.Data.List.Nodup
namespace Ipv8.C18
open VState

/-- the invariant of the verifier's bookkeeping, on the components that matter -/
structure Inv5 (n : Nat) (un : List Nat) (pend : List (Nat × Int)) (rel : Rel) (log : List (Nat × Nat)) : Prop where
  un_nodup : un.Nodup
  un_lt : ∀ id ∈ un, id < n
  pend : ∀ e ∈ pend, (e.2 < 0 → e.1 ∈ un) ∧ (0 ≤ e.2 → n ≤ e.1)
  rel : rel = aggregate (log.map Prod.snd)
  log_nodup : (log.map Prod.fst).Nodup
  log_lt : ∀ id ∈ log.map Prod.fst, id < n ∧ id ∉ un
  cover : ∀ id, id < n → id ∈ un ∨ id ∈ log.map Prod.fst

def VInv (s : VState) : Prop := Inv5 s.n s.unanswered s.pending s.relmap s.log

theorem aggregate_snoc (l : List Nat) (r : Nat) : aggregate (l ++ [r]) = (aggregate l).bump r := by
  simp [aggregate, List.foldl_append]

theorem inv_init (n : Nat) : VInv (init n) := by
  refine ⟨List.nodup_range, ?_, ?_, rfl, by simp [init], by simp [init], ?_⟩
  · intro id h; simpa [init] using h
  · intro e he
    simp only [init, List.mem_map] at he
    obtain ⟨i, hi, rfl⟩ := he
    exact ⟨fun _ => List.mem_of_mem_take hi, fun h => absurd h (by decide)⟩
  · intro id h; left; simpa [init] using h

theorem inv_sendNext (s : VState) (h : VInv s) (honesty : Option Nat) : VInv (s.sendNext honesty) := by
  unfold sendNext
  cases honesty with
  | some v =>
    refine ⟨h.un_nodup, h.un_lt, ?_, h.rel, h.log_nodup, h.log_lt, h.cover⟩
    intro e he
    simp only [List.mem_append, List.mem_singleton] at he
    rcases he with he | rfl
    · exact h.pend e he
    · exact ⟨fun hv => absurd hv (by simp), fun _ => Nat.le_add_right _ _⟩
  | none =>
    simp only
    split
    · exact h
    · rename_i c hc
      refine ⟨h.un_nodup, h.un_lt, ?_, h.rel, h.log_nodup, h.log_lt, h.cover⟩
      intro e he
      simp only [List.mem_append, List.mem_singleton] at he
      rcases he with he | rfl
      · exact h.pend e he
      · exact ⟨fun _ => List.mem_of_find?_eq_some hc, fun hv => absurd hv (by decide)⟩

theorem inv_onTimeout (s : VState) (h : VInv s) (id : Nat) : VInv (s.onTimeout id) := by
  refine ⟨h.un_nodup, h.un_lt, ?_, h.rel, h.log_nodup, h.log_lt, h.cover⟩
  intro e he
  exact h.pend e (List.mem_of_mem_filter he)

/-- completions / liar do not matter for the invariant -/
theorem inv_congr {s s' : VState} (h : VInv s) (h1 : s'.n = s.n) (h2 : s'.unanswered = s.unanswered)
    (h3 : s'.pending = s.pending) (h4 : s'.relmap = s.relmap) (h5 : s'.log = s.log) : VInv s' := by
  unfold VInv; rw [h1, h2, h3, h4, h5]; exact h

theorem inv_onResponse (s : VState) (h : VInv s) (id r : Nat) (honesty : Option Nat) :
    VInv (s.onResponse id r honesty) := by
  unfold onResponse
  split
  · exact h
  · rename_i id' hc hfind
    have hmem : (id', hc) ∈ s.pending := List.mem_of_find?_eq_some hfind
    have hid : id' = id := by
      have := List.find?_some hfind
      simpa using this
    subst hid
    have hp := h.pend _ hmem
    -- the state after pop / removal / counting
    have core : VInv
        (if hc < 0 then
          { s with pending := s.pending.filter (fun e => e.1 != id'), unanswered := s.unanswered.erase id',
                   relmap := s.relmap.bump r, log := s.log ++ [(id', r)] }
         else if (r : Int) ≠ hc then
          { s with pending := s.pending.filter (fun e => e.1 != id'), unanswered := s.unanswered.erase id',
                   liar := true, completions := s.completions ++ [Rel.empty] }
         else { s with pending := s.pending.filter (fun e => e.1 != id'), unanswered := s.unanswered.erase id' }) := by
      by_cases hneg : hc < 0
      · rw [if_pos hneg]
        have hin : id' ∈ s.unanswered := hp.1 hneg
        have hnl : id' ∉ s.log.map Prod.fst := fun hl => (h.log_lt _ hl).2 hin
        refine ⟨h.un_nodup.erase _, fun x hx => h.un_lt x (List.mem_of_mem_erase hx), ?_, ?_, ?_, ?_, ?_⟩
        · intro e he
          have he' := List.mem_filter.mp he
          have hne : e.1 ≠ id' := by simpa using he'.2
          exact ⟨fun hv => (List.mem_erase_of_ne hne).mpr ((h.pend e he'.1).1 hv), (h.pend e he'.1).2⟩
        · show s.relmap.bump r = aggregate ((s.log ++ [(id', r)]).map Prod.snd)
          rw [List.map_append, List.map_singleton, aggregate_snoc, ← h.rel]
        · show ((s.log ++ [(id', r)]).map Prod.fst).Nodup
          rw [List.map_append, List.map_singleton]
          exact List.Nodup.append h.log_nodup (List.nodup_singleton _) (by
            intro a ha hb
            simp only [List.mem_singleton] at hb
            exact hnl (hb ▸ ha))
        · intro x hx
          have hx' : x ∈ s.log.map Prod.fst ∨ x = id' := by
            simpa [List.map_append] using hx
          rcases hx' with hx' | rfl
          · exact ⟨(h.log_lt x hx').1, fun hm => (h.log_lt x hx').2 (List.mem_of_mem_erase hm)⟩
          · exact ⟨h.un_lt _ hin, fun hm => (List.Nodup.mem_erase_iff h.un_nodup).mp hm |>.1 rfl⟩
        · intro x hx
          by_cases hxe : x = id'
          · right; subst hxe; simp [List.map_append]
          · rcases h.cover x hx with hu | hl
            · left; exact (List.mem_erase_of_ne hxe).mpr hu
            · right; simp only [List.map_append, List.mem_append]; left; exact hl
      · rw [if_neg hneg]
        have hge : s.n ≤ id' := hp.2 (by omega)
        have hnot : id' ∉ s.unanswered := fun hm => by have := h.un_lt _ hm; omega
        have herase : s.unanswered.erase id' = s.unanswered := List.erase_of_not_mem hnot
        have base : VInv { s with pending := s.pending.filter (fun e => e.1 != id'),
                                  unanswered := s.unanswered.erase id' } := by
          refine ⟨by rw [herase]; exact h.un_nodup, by rw [herase]; exact h.un_lt, ?_, h.rel, h.log_nodup,
            by rw [herase]; exact h.log_lt, by rw [herase]; exact h.cover⟩
          intro e he
          rw [herase]
          exact h.pend e (List.mem_of_mem_filter he)
        split
        · exact inv_congr base rfl rfl rfl rfl rfl
        · exact base
    -- completion or next challenge
    simp only []
    split
    · refine inv_congr core ?_ ?_ ?_ ?_ ?_ <;> rfl
    · exact inv_sendNext _ core honesty

theorem inv_run (n : Nat) (evs : List VEvent) : VInv (run n evs) := by
  unfold run
  suffices ∀ s, VInv s → VInv (evs.foldl step s) from this _ (inv_init n)
  induction evs with
  | nil => intro s h; exact h
  | cons e tl ih =>
    intro s h
    apply ih
    cases e with
    | response id r hon => exact inv_onResponse s h id r hon
    | timeout id => exact inv_onTimeout s h id

end Ipv8.C18
