import Ipv8.C18.LemmasProto
namespace Ipv8.C18
section
variable {A : Type} [AddCommGroup A] [DecidableEq A]
local notation "𝔾" => GroupOps.ofAdd A

structure BonehHyp (sk : PrivKey A) : Prop where
  g_order : (sk.p + 1) • sk.g = 0
  h_order : sk.t1 • sk.h = 0
  t_ne : sk.t1 • sk.g ≠ 0
  t2_ne : (2 * sk.t1) • sk.g ≠ 0
theorem decode_blinded (sk : PrivKey A) (space : List Nat) (m : Nat) (c x : A) (hc : c = m • sk.g + x)
    (hx : sk.t1 • x = 0) (hm : m ∈ space)
    (hinj : ∀ m' ∈ space, m' • (sk.t1 • sk.g) = m • (sk.t1 • sk.g) → m' = m) :
    decode (𝔾) sk space c = some m := by sorry
theorem small_inj (sk : PrivKey A) (H : BonehHyp sk) (m : Nat) (hm : m ≤ 2) :
    ∀ m' ∈ [0, 1, 2], m' • (sk.t1 • sk.g) = m • (sk.t1 • sk.g) → m' = m := by sorry

theorem complExp_sum (p r0 r1 : Nat) : ∃ q : Nat, r0 + r1 + complExp p r0 r1 = (p + 1) * q := by
  refine ⟨(r0 + r1) / (p + 1) + 1, ?_⟩
  unfold complExp
  have h1 := Nat.mod_add_div (r0 + r1) (p + 1)
  have h2 : (r0 + r1) % (p + 1) < p + 1 := Nat.mod_lt _ (by omega)
  generalize (r0 + r1) % (p + 1) = r at *
  generalize (r0 + r1) / (p + 1) = d at *
  rw [Nat.mul_add, Nat.mul_one]
  generalize (p+1) * d = e at *
  omega

/-- the response to the challenge on one honest bit pair is the sum of its two bits -/
theorem response_pair (sk : PrivKey A) (H : BonehHyp sk) (a0 a1 r0 r1 : Nat) (x0 x1 y z : A)
    (ha0 : a0 ≤ 1) (ha1 : a1 ≤ 1)
    (hx0 : sk.t1 • x0 = 0) (hx1 : sk.t1 • x1 = 0) (hy : sk.t1 • y = 0) (hz : sk.t1 • z = 0) :
    respond (𝔾) sk (challengeWith (𝔾) sk.toPubKey
      { a := encWith (𝔾) sk.g (a0 + r0) x0, b := encWith (𝔾) sk.g (a1 + r1) x1,
        complement := encWith (𝔾) sk.g (complExp sk.p r0 r1) y } z) = a0 + a1 := by
  obtain ⟨q, hq⟩ := complExp_sum sk.p r0 r1
  have hg : (r0 + r1 + complExp sk.p r0 r1) • sk.g = 0 := by
    rw [hq, mul_comm, mul_smul, H.g_order, smul_zero]
  have hdec : decode (𝔾) sk [0, 1, 2] (challengeWith (𝔾) sk.toPubKey
      { a := encWith (𝔾) sk.g (a0 + r0) x0, b := encWith (𝔾) sk.g (a1 + r1) x1,
        complement := encWith (𝔾) sk.g (complExp sk.p r0 r1) y } z) = some (a0 + a1) := by
    apply decode_blinded sk [0, 1, 2] (a0 + a1) _ (x0 + x1 + y + z)
    · simp only [challengeWith, BitPair.compress, encWith_ofAdd, ofAdd_mul]
      have : (a0 + r0) • sk.g + x0 + ((a1 + r1) • sk.g + x1) + (complExp sk.p r0 r1 • sk.g + y) + (0 • sk.g + z)
          = (a0 + a1) • sk.g + (r0 + r1 + complExp sk.p r0 r1) • sk.g + (x0 + x1 + y + z) := by module
      rw [this, hg, add_zero]
    · simp [smul_add, hx0, hx1, hy, hz]
    · have : a0 + a1 = 0 ∨ a0 + a1 = 1 ∨ a0 + a1 = 2 := by omega
      rcases this with h | h | h <;> simp [h]
    · exact small_inj sk H (a0 + a1) (by omega)
  unfold respond; rw [hdec]

/-- an undecodable challenge is answered 3 -/
theorem respond_three (sk : PrivKey A) (c : A)
    (h : ∀ m' ∈ [0, 1, 2], sk.t1 • c ≠ m' • (sk.t1 • sk.g)) : respond (𝔾) sk c = 3 := by
  have : decode (𝔾) sk [0, 1, 2] c = none := by
    unfold decode
    apply find_none
    intro m' hm'
    simp only [powNat_ofAdd, ofAdd_eq, decide_eq_false_iff_not]
    exact h m' hm'
  unfold respond; rw [this]

end
end Ipv8.C18
