/- line-protocol driver for the C09 model (Mathlib-free).

   maxjoined <n>                                 -> ok   (max_joined_circuits of all nodes)
   delay <ticks>                                 -> ok   (remove_tunnel_delay of the nodes created afterwards … of all nodes)
   node <label> <start>                          -> ok
   <label> <time> mk <id> <goal> <peer> <cands> <ident>
   <label> <time> cell <id> <early> <plain> <ok> <body…>
        body: junk | create <peer> | created <ident> <ok> <next> | extended <ident> <ok> <next>
              | extend <reqId> <toId> <toPeer> <candOk> | ping | pong | data <sent> | testreq | other
        next: - | <cands>,<ident>
   <label> <time> destroy <id> <peer> <forwarded: reason != 0>
   <label> <time> rmc <id> <destroy> | rmr <id> <destroy> | rmx <id> <destroy> <removeNow>
   <label> <time> retry <id> <peer> <next>
   <label> <time> outside <id> | traffic <tbl> <id> <amount>
   <label> <time> obs                             -> canonical snapshot, outputs since the previous obs
   every other request answers `ok`.
-/
import Ipv8.Base.Proto
import Ipv8.C09.Model
open Ipv8 Ipv8.C09

/-- configuration (the generated one unless a `delay` line overrode remove_tunnel_delay) and the nodes -/
abbrev St := Cfg × List (Nat × Node)

def bool? (s : String) : Option Bool :=
  if s == "1" then some true else if s == "0" then some false else none

def next? (s : String) : Option (Option (Nat × Nat)) :=
  if s == "-" then some none
  else match Proto.splitChar s ',' with
    | [a, b] => do
      let x ← a.toNat?
      let y ← b.toNat?
      pure (some (x, y))
    | _ => none

def body? : List String → Option Body
  | ["junk"] => some .junk
  | ["create", p] => do pure (.create (← p.toNat?))
  | ["created", i, ok, nx] => do pure (.created (← i.toNat?) (← bool? ok) (← next? nx))
  | ["extended", i, ok, nx] => do pure (.extended (← i.toNat?) (← bool? ok) (← next? nx))
  | ["extend", r, t, p, ok] => do pure (.extend (← r.toNat?) (← t.toNat?) (← p.toNat?) (← bool? ok))
  | ["ping"] => some .ping
  | ["pong"] => some .pong
  | ["data", s] => do pure (.data (← bool? s))
  | ["testreq"] => some .testReq
  | ["other"] => some .other
  | _ => none

def ev? : List String → Option Ev
  | ["mk", i, g, p, c, d] => do pure (.mkCircuit (← i.toNat?) (← g.toNat?) (← p.toNat?) (← c.toNat?) (← d.toNat?))
  | "cell" :: i :: e :: p :: ok :: b => do pure (.cell (← i.toNat?) (← bool? e) (← bool? p) (← bool? ok) (← body? b))
  | ["destroy", i, p, f] => do pure (.destroy (← i.toNat?) (← p.toNat?) (← bool? f))
  | ["rmc", i, d] => do pure (.rmCircuit (← i.toNat?) (← bool? d))
  | ["rmr", i, d] => do pure (.rmRelay (← i.toNat?) (← bool? d))
  | ["rmx", i, d, r] => do pure (.rmExit (← i.toNat?) (← bool? d) (← bool? r))
  | ["retry", i, p, nx] => do pure (.retry (← i.toNat?) (← p.toNat?) (← next? nx))
  | ["outside", i] => do pure (.outside (← i.toNat?))
  | ["traffic", t, i, a] => do pure (.traffic (← t.toNat?) (← i.toNat?) (← a.toNat?))
  | _ => none

/-- insertion sort on strings-with-keys (small lists) -/
def sortBy {α : Type} (lt : α → α → Bool) (l : List α) : List α :=
  l.foldl (fun acc x =>
    let rec ins : List α → List α
      | [] => [x]
      | y :: ys => if lt x y then x :: y :: ys else y :: ins ys
    ins acc) []

def live (t : Tbl) : List (Nat × Entry) :=
  sortBy (fun a b => a.1 < b.1) (t.filter (fun p => !p.2.gone))

def b01 (b : Bool) : String := if b then "1" else "0"

def showC (p : Nat × Entry) : String :=
  let e := p.2
  let r := match e.retry with
    | some r => if e.waiting then "-" else toString r.tries
    | none => "-"
  s!"{p.1}:{b01 e.closing}:{e.hops}:{r}@{e.born}"

def showR (p : Nat × Entry) : String := s!"{p.1}>{p.2.other}@{p.2.born}"
def showX (p : Nat × Entry) : String := s!"{p.1}:{b01 p.2.opened}@{p.2.born}"

def countDup (l : List Nat) : List (Nat × Nat) :=
  let s := sortBy (fun a b => a < b) l
  s.foldl (fun acc x =>
    match acc with
    | (y, k) :: rest => if x == y then (y, k + 1) :: rest else (x, 1) :: (y, k) :: rest
    | [] => [(x, 1)]) [] |>.reverse

def showOuts (o : List Out) : String :=
  let ds := sortBy (fun (a b : Nat × Nat) => a.1 < b.1 || (a.1 == b.1 && a.2 < b.2))
    (o.filterMap fun x => match x with | .destroy p i => some (p, i) | _ => none)
  let fs := countDup (o.filterMap fun x => match x with | .fwd i _ => some i | _ => none)
  let ps := countDup (o.filterMap fun x => match x with | .drop i => some i | _ => none)
  let js := sortBy (fun a b => a < b) (o.filterMap fun x => match x with | .refused i => some i | _ => none)
  -- answers this node originated: created (3), extended (5), pong (7), as kind*1e10+id
  let ss := countDup (o.filterMap fun x => match x with
    | .cell _ i k => if k == 3 || k == 5 || k == 7 then some (k * 10000000000 + i) else none
    | _ => none)
  let pair (sep : String) (p : Nat × Nat) : String := s!"{p.1}{sep}{p.2}"
  "D[" ++ ",".intercalate (ds.map (pair ":")) ++ "] F[" ++ ",".intercalate (fs.map (pair "*")) ++
  "] P[" ++ ",".intercalate (ps.map (pair "*")) ++ "] J[" ++ ",".intercalate (js.map toString) ++ "] S[" ++
  ",".intercalate (ss.map (fun p => s!"{p.1 / 10000000000}:{p.1 % 10000000000}*{p.2}")) ++ "] G" ++
  -- pings sent for closing circuits (`pingOuts` never emits one)
  toString (o.filter (fun x => match x with | .cell _ _ 66 => true | _ => false)).length

def showNode (s : Node) : String :=
  "C[" ++ ",".intercalate ((live s.circuits).map showC) ++ "] R[" ++ ",".intercalate ((live s.relays).map showR) ++
  "] X[" ++ ",".intercalate ((live s.exits).map showX) ++ s!"] L{s.leaked} " ++ showOuts s.outs

def setNode (st : St) (k : Nat) (n : Node) : St := (st.1, (k, n) :: st.2.filter (fun p => p.1 != k))

def step (st : St) (toks : List String) : St × String :=
  match toks with
  | ["delay", d] =>
    match d.toNat? with
    | some d => (({ st.1 with delay := d }, st.2), "ok")
    | none => (st, "bad-op")
  | ["maxjoined", d] =>
    match d.toNat? with
    | some d => (({ st.1 with maxJoined := d }, st.2), "ok")
    | none => (st, "bad-op")
  | ["node", l, t] =>
    match l.toNat?, t.toNat? with
    | some l, some t => (setNode st l (Node.init st.1 t), "ok")
    | _, _ => (st, "bad-op")
  | l :: t :: rest =>
    match l.toNat?, t.toNat? with
    | some l, some t =>
      match st.2.find? (fun p => p.1 == l) with
      | some (_, n) =>
        let n := n.advance st.1 t
        if rest == ["obs"] then
          (setNode st l { n with outs := [] }, showNode n)
        else match ev? rest with
          | some ev => (setNode st l (n.step st.1 ev), "ok")
          | none => (st, "bad-op")
      | none => (st, "no-node")
    | _, _ => (st, "bad-op")
  | _ => (st, "bad-op")

def main : IO Unit := Proto.run ((Gen.cfg, []) : St) step
