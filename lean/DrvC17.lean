/- line-protocol driver for the C17 model (Mathlib-free).  See harness/c17.py for the line formats. -/
import Ipv8.Base.Proto
import Ipv8.C17.Model
open Ipv8 Ipv8.C17

abbrev St := List (Nat × Node)

def insSorted (x : String) : List String → List String
  | [] => [x]
  | y :: ys => if y < x then y :: insSorted x ys else x :: y :: ys

def sortStr (l : List String) : List String := l.foldr insSorted []

def joinOr (l : List String) : String := if l.isEmpty then "-" else " ".intercalate l

def nats? (s : String) (sep : Char) : Option (List Nat) := (Proto.splitChar s sep).mapM String.toNat?

def sig? (s : String) : Option Sig :=
  match s.toList with
  | 'e' :: r => (String.ofList r).toNat?.map Sig.ext
  | 'o' :: r =>
    match nats? (String.ofList r) '.' with
    | some [k, mp] => some (Sig.own k mp)
    | _ => none
  | _ => none

def showSig : Sig → String
  | .ext n => s!"e{n}"
  | .own k mp => s!"o{k}.{mp}"

/-- "[a,b,!]" → items and abort flag -/
def items? (s : String) : Option (List String × Bool) := do
  let l ← Proto.listItems? s
  match l.reverse with
  | "!" :: r => some (r.reverse, true)
  | _ => some (l, false)

def token? (s : String) : Option Token :=
  match nats? s ':' with
  | some [id, prev, content, vk] => some { id := id, prev := prev, content := content, vk := vk }
  | _ => none

def md? (s : String) : Option Metadata :=
  match nats? s ':' with
  | some [id, tp, vk, kind, f, name, extra] =>
    some { id := id, tokenPtr := tp, vk := vk,
           json := if kind = 0 then none else some { fields := f, name := name, extra := extra } }
  | _ => none

def att? (s : String) : Option (Key × Att) :=
  match Proto.splitChar s ':' with
  | [auth, mp, sg, vk] => do
    let auth ← auth.toNat?
    let mp ← mp.toNat?
    let sg ← sig? sg
    let vk ← vk.toNat?
    some (auth, { mptr := mp, sig := sg, vk := vk })
  | _ => none

def att1? (s : String) : Option Att :=
  match Proto.splitChar s ':' with
  | [mp, sg, vk] => do
    let mp ← mp.toNat?
    let sg ← sig? sg
    let vk ← vk.toNat?
    some { mptr := mp, sig := sg, vk := vk }
  | _ => none

def showOut : Out → String
  | .attest to mp => s!"A{to}:{mp}"
  | .requestMissing to k => s!"R{to}:{k}"
  | .missingResponse to ts => s!"S{to}:[{",".intercalate (ts.map toString)}]"
  | .disclose to md cands n => s!"P{to}:[{md}]:{n}:{if n == cands.length then "all" else "sub"}"

/-- after a restart the own chain may fork (not mirrored): the token count of a Disclose is not predicted -/
def showOutNoCount : Out → String
  | .disclose to md _ _ => s!"P{to}:[{md}]:*"
  | o => showOut o

def showRow (r : AttRow) : String := s!"{r.subject}:{r.authority}:{r.att.mptr}:{showSig r.att.sig}"

def showKnown (e : Hash × Reg) : String :=
  s!"{e.1}:{e.2.name}:{e.2.t}:{e.2.key}:{match e.2.md with | none => "-" | some x => toString x}"

def guardName : Guard → String
  | .tokenKnown => "token-unknown"
  | .fields _ => "fields-missing"
  | .registered => "hash-unregistered"
  | .subjectKey => "other-subject"
  | .fresh _ _ => "expired"
  | .nameMatches => "name-differs"
  | .fixedMetadata => "metadata-differs"
  | .notAttestedDb => "attested-db"
  | .notAttestedMem => "attested-mem"

/-- which guard rejects each credential (statistics only; evaluated on the state before the loop) -/
def verdicts (now : Nat) (s : Node) (p : Key) (msg : Msg) (order : List Hash) : List String :=
  if !(s.known.any (fun e => e.2.key == p)) then ["unsolicited"] else
  let sub := substantiate s p msg
  let s1 := sub.1
  if sub.2.2 then ["aborted"] else
  if !sub.2.1 then ["incorrect"] else
  let tree := treeOf s1 p
  (credentials s1 p order).map fun m =>
    match m.json with
    | none => "json-raises"
    | some j =>
      match Gen.guards.find? (fun g => !guardOk now s1 p tree m j g) with
      | none => "signs"
      | some g => guardName g

def getNode (st : St) (v : Nat) : Option Node := lookup v st

def step (st : St) (toks : List String) : St × String :=
  let bad : St × String := (st, "bad-op")
  match toks with
  | "init" :: n :: gens =>
    match n.toNat?, gens.mapM String.toNat? with
    | some n, some gs =>
      let genesis := (List.range gs.length).map (fun i => (i + 1, gs.getD i 0))
      ((List.range n).map (fun i => (i + 1, init (i + 1) genesis)), "ok")
    | _, _ => bad
  | ["K", v, now, len, raw, padded, name, key, md] =>
    match v.toNat?, now.toNat?, len.toNat?, raw.toNat?, padded.toNat?, name.toNat?, key.toNat? with
    | some v, some now, some len, some raw, some padded, some name, some key =>
      match getNode st v with
      | some s =>
        let mdv : Option Extra := if md == "-" then none else md.toNat?
        let (s', _) := Ipv8.C17.step now s (.addKnown len raw padded name key mdv)
        (insertDict v s' st, "ok")
      | none => bad
    | _, _, _, _, _, _, _ => bad
  | ["D", v, now, p, toks, mds, atts, order] =>
    match v.toNat?, now.toNat?, p.toNat?, items? toks, items? mds, items? atts, Proto.natList? order with
    | some v, some now, some p, some (ts, ta), some (ms, ma), some (as, aa), some order =>
      match getNode st v, ts.mapM token?, ms.mapM md?, as.mapM att? with
      | some s, some ts, some ms, some as =>
        let msg : Msg := { tokens := ts, tokAbort := ta, mds := ms, mdAbort := ma, atts := as, attAbort := aa }
        let (s', outs) := Ipv8.C17.step now s (.disclosure p msg order)
        -- the observed iteration order must be a permutation of the model's Metadata rows of that subject
        let mine := sortStr ((s'.mdRows.filter (fun r => r.subject == p)).map (fun r => toString r.md.id))
        let theirs := sortStr (order.map toString)
        if mine != theirs then (insertDict v s' st, s!"metadata-rows-differ model={mine} observed={theirs}") else
        (insertDict v s' st, joinOr (sortStr (outs.map showOut)) ++ " # " ++ " ".intercalate (verdicts now s p msg order))
      | _, _, _, _ => bad
    | _, _, _, _, _, _, _ => bad
  | ["T", v, now, p, a] =>
    match v.toNat?, now.toNat?, p.toNat? with
    | some v, some now, some p =>
      match getNode st v with
      | some s =>
        let av : Option (Option Att) := if a == "!" then some none else (att1? a).map some
        match av with
        | some av =>
          let (s', outs) := Ipv8.C17.step now s (.attestMsg p av)
          (insertDict v s' st, joinOr (sortStr (outs.map showOut)))
        | none => bad
      | none => bad
    | _, _, _ => bad
  | ["Q", v, now, p, k] =>
    match v.toNat?, now.toNat?, p.toNat?, k.toNat? with
    | some v, some now, some p, some k =>
      match getNode st v with
      | some s =>
        let (s', outs) := Ipv8.C17.step now s (.requestMissing p k)
        (insertDict v s' st, joinOr (sortStr (outs.map showOut)))
      | none => bad
    | _, _, _, _ => bad
  | ["V", v, now, to, tok, md, mlen, cnt] =>
    match v.toNat?, now.toNat?, to.toNat?, tok.toNat?, md.toNat?, mlen.toNat? with
    | some v, some now, some to, some tok, some md, some mlen =>
      match getNode st v with
      | some s =>
        if tok = 0 then (st, "-") else
        let (s', outs) := Ipv8.C17.step now s (.advertise to tok md mlen)
        (insertDict v s' st, joinOr (sortStr (outs.map (fun o => if cnt == "x" then showOutNoCount o else showOut o))))
      | none => bad
    | _, _, _, _, _, _ => bad
  | ["S", v, now, tok] =>
    match v.toNat?, now.toNat?, tok.toNat? with
    | some v, some now, some tok =>
      match getNode st v with
      | some s =>
        let (s', _) := Ipv8.C17.step now s (.selfAdvertise tok)
        (insertDict v s' st, "ok")
      | none => bad
    | _, _, _ => bad
  | ["Z", v, chain, keep] =>
    match v.toNat?, Proto.natList? chain with
    | some v, some chain =>
      match getNode st v with
      | some s => (insertDict v (restartOf s chain (keep == "1")) st, "ok")
      | none => bad
    | _, _ => bad
  | ["X", v] =>
    match v.toNat?.bind (getNode st) with
    | some s =>
      (st, joinOr (sortStr (s.attRows.map showRow)) ++ " | " ++ joinOr (s.known.map showKnown) ++ " | "
           ++ joinOr (sortStr (s.perms.map (fun e => s!"{e.1}:{e.2}"))))
    | none => bad
  | _ => bad

def main : IO Unit := Proto.run ([] : St) step
