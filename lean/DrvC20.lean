/- line-protocol driver for the C20 model (Mathlib-free).

   request:  <op> <form> <fmts|types> <names> <init> <defaults> <fixpack> <fixunpack> <args> <kw>
     op      init | pack | unpack | gen | tmap
     form    I (interpreted) | C (vp_compile) | D (dataclass; third token holds type annotations)
     fmts    [s:I,s:bits,c:Cls,l:Cls]             types  [bool,int,tv:varlenH,co:int,cot:int,cos:int,cs:Cls,cot:se:Cls,se:Cls,lit:Cls,other]
     init    - | kw | nokw | kwo:<k> | kwok:<k> (last k names keyword-only) | super:<n>             (no user __init__ | with **kwargs | without | old-style
                                                    superclass whose __init__ takes the first n names)
     defaults [b=d1>d1]                            name=value>value-the-generated-default-denotes (the harness always sends
                                                    the identity since defaults are bound as objects; "!" = does not compile)
     fixpack / fixunpack  [a,c]                    fields with a hook
     args    [v0,N,v2]      kw  [k=v3]             values are opaque atoms; N is None
   Values in the driver are terms of the free algebra over atoms and hook applications, so agreement here is
   agreement for every interpretation of the hooks.
-/
import Ipv8.Base.Proto
import Ipv8.C20.Model
import Ipv8.C20.Gen
open Ipv8 Ipv8.C20

inductive Term
  | atom (s : String)
  | app (f : String) (t : Term)
deriving Inhabited

def Term.render : Term → String
  | .atom s => s
  | .app f t => f ++ "(" ++ t.render ++ ")"

def Term.isNone : Term → Bool
  | .atom s => s == "N"
  | _ => false

def items (s : String) : Option (List String) := Proto.listItems? s

def splitOnce (s : String) (sep : Char) : Option (String × String) :=
  let cs := s.toList
  let pre := cs.takeWhile (· != sep)
  if pre.length < cs.length then some (String.ofList pre, String.ofList (cs.drop (pre.length + 1))) else none

def parseFmt (s : String) : Option Fmt := do
  let (k, v) ← splitOnce s ':'
  match k with
  | "s" => some (.str v)
  | "c" => some (.cls v)
  | "l" => some (.lst v)
  | _ => none

partial def parseTy (s : String) : Option Ty :=
  match s with
  | "bool" => some .bool
  | "int" => some .int
  | "float" => some .float
  | "bytes" => some .bytes
  | "str" => some .str
  | "other" => some .other
  | _ => do
    let (k, v) ← splitOnce s ':'
    match k with
    | "tv" => some (.tvar v)
    | "co" => (parseTy v).map (.coll .list)
    | "cot" => (parseTy v).map (.coll .tuple)
    | "cos" => (parseTy v).map (.coll .set)
    | "cs" => some (.coll .list (.ser v))
    | "se" => some (.ser v)
    | "lit" => some (.lit v)
    | _ => none

def parseKw (s : String) : Option (KW Term) := do
  let its ← items s
  its.mapM (fun it => do
    let (k, v) ← splitOnce it '='
    pure (k, Term.atom v))

/-- defaults with their splice outcome -/
def parseDefaults (s : String) : Option (KW Term × List (String × Option Term)) := do
  let its ← items s
  let ps ← its.mapM (fun it => do
    let (k, rest) ← splitOnce it '='
    let (v, w) ← splitOnce rest '>'
    pure (k, v, w))
  pure (ps.map (fun (k, v, _) => (k, Term.atom v)),
        ps.map (fun (_, v, w) => (v, if w == "!" then none else some (Term.atom w))))

def hookList (pre : String) (s : String) : Option (List (String × (Term → Term))) := do
  let its ← items s
  pure (its.map (fun n => (n, fun t => Term.app (pre ++ n) t)))

def convTerm : CKind → Term → Term
  | .list, t => t
  | .tuple, t => Term.app "tuple" t
  | .set, t => Term.app "set" t

def showFmt : Fmt → String
  | .str s => "s:" ++ s
  | .cls c => "c:" ++ c
  | .lst c => "l:" ++ c

def showAttrs (a : Attrs Term) : String :=
  "ok " ++ ";".intercalate (a.reverse.map (fun (k, v) => k ++ "=" ++ v.render))

def showPack (p : PackList Term) : String :=
  "ok " ++ "|".intercalate (p.map (fun (t, vs) => t ++ ":" ++ ",".intercalate (vs.map Term.render)))

def showErr (e : Err) : String := "err:" ++ e.name

def showGen (c : Compiled Term) : String :=
  let ip := ",".intercalate (c.init.params.map (fun (n, d) => match d with
    | none => n
    | some v => n ++ "=" ++ v.render))
  let is := ",".intercalate (c.init.setters.map (fun (a, p) => a ++ "=" ++ p))
  let up := ",".intercalate c.unpack.params
  let ua := ",".intercalate (c.unpack.callArgs.map (fun a => match a with
    | .plain n => n
    | .guarded n => "G:" ++ n))
  let pk := "|".intercalate (c.pack.entries.map (fun (t, as) => t ++ ":" ++ ",".intercalate (as.map (fun a => match a with
    | .attr n => n
    | .hooked n => "H:" ++ n))))
  s!"ok init {ip};{is} unpack {up};{ua} pack {pk}"

def step (_ : Unit) (toks : List String) : Unit × String :=
  let r : Option String := do
    match toks with
    | ["tmap", ty] =>
      let t ← parseTy ty
      match typeMap t with
      | .ok f => some ("ok " ++ showFmt f)
      | .error e => some (showErr e)
    | ["hier", tysS, namesS, evS] =>
      -- class-level data of every class of a dataclass inheritance chain after a sequence of instantiations
      let tyLevels ← (Proto.splitChar tysS '/').mapM (fun l => do (← items l).mapM parseTy)
      let nameLevels ← (Proto.splitChar namesS '/').mapM items
      let evs ← Proto.natList? evS
      let c : DChain Term := { levels := (nameLevels.zip tyLevels).map (fun (ns, ts) =>
        (ns.zip ts).map (fun (n, t) => (n, t, (none : Option Term)))) }
      let conv := c.run Gen.newGuard evs
      let parts := (List.range c.levels.length).map (fun k =>
        -- the container converters visible on class k: those of the class whose data it sees (recomputed per class
        -- from that class's OWN annotations)
        let hooks := match nearest conv k with
          | none => []
          | some j => (derivedUnpack convTerm [] (c.eff j)).map (fun (n, f) => n ++ "=" ++ (f (Term.atom "x")).render)
        match c.classData conv k with
        | .ok (fs, ns) => s!"{k}:" ++ ",".intercalate (fs.map showFmt) ++ ";" ++ ",".intercalate ns
                          ++ ";" ++ ",".intercalate hooks
        | .error e => s!"{k}:" ++ showErr e)
      some ("ok " ++ " ".intercalate parts)
    | [op, form, fmtsS, namesS, initS, dfS, fpS, fuS, argsS, kwS] =>
      let names ← items namesS
      let (userInit, superN) : Option Bool × Nat ← match initS with
        | "-" => some (none, 0)
        | "kw" => some (some true, 0)
        | "nokw" => some (some false, 0)
        | other => match splitOnce other ':' with
          | some ("super", n) => n.toNat?.map (fun k => (none, k))
          | some ("kwo", n) => n.toNat?.map (fun k => (some false, 1000 + k))      -- last k names keyword-only
          | some ("kwok", n) => n.toNat?.map (fun k => (some true, 1000 + k))      -- same, with **kwargs
          | _ => none
      let (defaults, spliceTab) ← parseDefaults dfS
      let splice : Term → Option Term := fun t => match alookup spliceTab t.render with
        | some r => r
        | none => some t
      let fp ← hookList "fp_" fpS
      let fu ← hookList "fu_" fuS
      let args := (← items argsS).map Term.atom
      let kw ← parseKw kwS
      let fitems ← items fmtsS
      -- the definition, per form
      let defE : Except Err (PDef Term) ← match form with
        | "D" => do
          let tys ← fitems.mapM parseTy
          let fields := (names.zip tys).map (fun (n, t) => (n, t, alookup defaults n))
          some (DDef.toPDef { fields := fields, fixPack := fp, fixUnpack := fu, conv := convTerm })
        | _ => do
          let fmts ← fitems.mapM parseFmt
          some (.ok { fmts := fmts, names := names, userInit := userInit, defaults := defaults,
                      fixPack := fp, fixUnpack := fu,
                      superArgs := if superN ≥ 1000 then [] else names.take superN,
                      kwOnly := if superN ≥ 1000 then names.drop (names.length - (superN - 1000)) else [] })
      match defE with
      | .error e => some (showErr e)
      | .ok d =>
        let compiled := form != "I"
        match op with
        | "init" =>
          let r := if compiled then compiledInit splice d args kw else interpInit d args kw
          some (match r with | .ok a => showAttrs a | .error e => showErr e)
        | "pack" =>
          let attrs : Attrs Term := kw.reverse
          let r := if compiled then compiledPack splice d attrs else interpPack d attrs
          some (match r with | .ok p => showPack p | .error e => showErr e)
        | "unpack" =>
          let r := if compiled then compiledUnpack splice Term.isNone d args else interpUnpack d args
          some (match r with | .ok a => showAttrs a | .error e => showErr e)
        | "gen" =>
          some (match vpCompile splice d with | .ok c => showGen c | .error e => showErr e)
        | "dfirst" =>
          -- the dataclass class before its first instantiation (form D only): nothing is unpacked, cls() is called
          if form != "D" then none else
          let tys := (fitems.filterMap parseTy)
          let dd : DDef Term := { fields := (names.zip tys).map (fun (n, t) => (n, t, alookup defaults n)),
                                  fixPack := fp, fixUnpack := fu, conv := convTerm }
          let r := dataclassDecodeFirst (fun fmts _ => some (fmts.map (fun _ => Term.atom "u"))) splice dd []
          some (match r with | .ok a => showAttrs a | .error e => showErr e)
        | "fmts" =>
          some ("ok " ++ ",".intercalate (d.fmts.map showFmt))
        | _ => none
    | _ => none
  ((), r.getD "bad-op")

def main : IO Unit := Proto.run () step
