/- line-protocol driver for the C07 model (Mathlib-free)

   reset <cap|->                      fresh endpoint (cap "-" = the generated queueCap)
   anon <hexprefix> <0|1>             set_anonymity
   settc <0|1> <hops>                 set_tunnel_community(tc or None, hops)
   overlay <hexcid> <0|1>             Community.__init__ with settings.anonymize
   service <0|1> [cid:anon,…]         ipv8_service.IPv8.__init__ (enable_statistics, configured overlays)
   send <addr> <hexpacket>            TunnelEndpoint.send
   burst <n> <addr> <hexprefix> <b>   n sends of prefix ++ be16(b+i); aggregated reply
   newc <goal> <ctype>                a circuit appears in the community
   hop <idx> <addr> <flags|none>      Circuit.add_hop on the idx-th circuit (dict order)
   close <idx> | rm <idx>             Circuit.close / circuits.pop
   cancreate <0|1>
   fail <k|none>                      the (k+1)-th send_cell from now raises
   tcinit <hexprefix>                 TunnelCommunity.__init__ on this endpoint
   rmreq <cid> | rmdone <cid>         remove_circuit: close at once / pop after remove_tunnel_delay
   listener <lid> <0|1|none>          add_listener
   notify <0|1> <hexpacket>           notify_listeners((origin, packet), from_tunnel); deliveries printed sorted by id
   unload <lid>                       Community.unload of the overlay with that listener id
   dump                               canonical state
   consts                             the generated constants
   seq <cap|-> <op_args;op_args;…>    run a whole history from a fresh endpoint: last reply | dump
   enum <alphabet> <cap> <len> <prefix|->   every word of length <len> over the named alphabet that starts with
                                      <prefix> (letters 0-9a-z), in lexicographic order, from a fresh endpoint:
                                      adler32 of "last reply | dump" per word, space separated
-/
import Ipv8.Base.Proto
import Ipv8.C07.Model
open Ipv8 Ipv8.C07

def showOptNat : Option Nat → String
  | some n => toString n
  | none => "none"

def showFlags : Option (List Nat) → String
  | some l => Proto.showNatList l
  | none => "none"

def showEvent : Event → String
  | .raw a p => s!"raw:{a}:{Proto.toHex p}"
  | .data cid t d p => s!"data:{cid}:{showOptNat t}:{d}:{Proto.toHex p}"
  | .create h f m => s!"create:{h}:{showFlags f}:{showOptNat m}"
  | .drop o a p => s!"drop:{if o then "o" else "n"}:{a}:{Proto.toHex p}"
  | .fail a p => s!"fail:{a}:{Proto.toHex p}"
  | .deliver l => s!"deliver:{l}"

def deliverIds (evs : List Event) : List Nat :=
  (evs.filterMap (fun e => match e with | .deliver i => some i | _ => none)).mergeSort (fun a b => decide (a ≤ b))

def showEvents (evs : List Event) (s : State) : String :=
  let other := evs.filter (fun e => match e with | .deliver _ => false | _ => true)
  let strs := other.map showEvent ++ (deliverIds evs).map (fun i => s!"deliver:{i}")
  (if strs.isEmpty then "-" else " ".intercalate strs) ++ s!" q={s.queue.length}"

def ctypeOf? : String → Option CType
  | "0" => some .data | "1" => some .ipSeeder | "2" => some .rpSeeder | "3" => some .rpDownloader | _ => none

def ctypeNum : CType → Nat
  | .data => 0 | .ipSeeder => 1 | .rpSeeder => 2 | .rpDownloader => 3

def bool? : String → Option Bool
  | "0" => some false | "1" => some true | _ => none

def b01 (b : Bool) : String := if b then "1" else "0"

def showCircuit (c : Circuit) : String :=
  s!"{c.cid}/{c.goalHops}/{ctypeNum c.ctype}/{b01 c.closing}/"
    ++ "<" ++ ";".intercalate (c.hops.map (fun h => s!"{h.addr}:{Proto.showNatList h.flags}")) ++ ">"

def dump (s : State) : String :=
  let sets := (s.settings.map (fun kv => s!"{Proto.toHex kv.1}={b01 kv.2}")).mergeSort (fun a b => decide (a ≤ b))
  s!"cap={s.cap} hops={s.hops} att={b01 s.attached} can={b01 s.comm.canCreate} fail={showOptNat s.comm.failAfter} "
    ++ "set=" ++ Proto.showStrList sets
    ++ " q=" ++ Proto.showStrList (s.queue.map (fun x => s!"{x.1}:{Proto.toHex x.2}"))
    ++ " circ=" ++ Proto.showStrList (s.comm.circuits.map showCircuit)
    ++ " lis=" ++ Proto.showStrList (s.listeners.map (fun l => s!"{l.lid}:" ++ (match l.anonymize with
        | some b => b01 b | none => "none")))
    ++ " plis=" ++ Proto.showStrList ((s.plisteners.map (fun e => s!"{e.2.lid}:{Proto.toHex e.1}:" ++ (match e.2.anonymize with
        | some b => b01 b | none => "none"))).mergeSort (fun a b => decide (a ≤ b)))

def be16 (n : Nat) : Bytes := [UInt8.ofNat (n / 256 % 256), UInt8.ofNat (n % 256)]

def parseOp (toks : List String) : Option Op :=
  match toks with
  | ["anon", p, b] => do some (.setAnonymity (← Proto.ofHex? p) (← bool? b))
  | ["settc", a, h] => do some (.setTunnelCommunity (← bool? a) (← h.toNat?))
  | ["overlay", c, b] => do some (.overlay (← Proto.ofHex? c) (← bool? b))
  | ["overlayf", c, b] => do some (.overlayForeign (← Proto.ofHex? c) (← bool? b))
  | ["send", a, p] => do some (.send (← a.toNat?) (← Proto.ofHex? p))
  | ["newc", g, t] => do some (.newCircuit (← g.toNat?) (← ctypeOf? t))
  | ["hop", i, a, f] => do
      let fl ← if f == "none" then some [] else Proto.natList? f
      some (.addHop (← i.toNat?) { addr := (← a.toNat?), flags := fl })
  | ["close", i] => do some (.close (← i.toNat?))
  | ["rm", i] => do some (.remove (← i.toNat?))
  | ["cancreate", b] => do some (.setCanCreate (← bool? b))
  | ["fail", k] => do
      let kk ← if k == "none" then some none else k.toNat?.map some
      some (.setFail kk)
  | ["tcinit", p] => do some (.attachCommunity (← Proto.ofHex? p))
  | ["rmreq", c] => do some (.removeRequest (← c.toNat?))
  | ["rmdone", c] => do some (.removeDone (← c.toNat?))
  | ["listener", l, a] => do
      let an ← if a == "none" then some none else (bool? a).map some
      some (.addListener { lid := (← l.toNat?), anonymize := an })
  | ["notify", b, p] => do some (.notify (← bool? b) (← Proto.ofHex? p))
  | ["unload", l] => do some (.unloadOverlay (← l.toNat?))
  | _ => none

def countEv (evs : List Event) : Nat × Nat × Nat × Nat :=
  evs.foldl (fun (r, d, c, x) e => match e with
    | .raw .. => (r + 1, d, c, x) | .data .. => (r, d + 1, c, x) | .create .. => (r, d, c + 1, x)
    | .drop .. => (r, d, c, x + 1) | .fail .. => (r, d, c, x + 1) | .deliver .. => (r, d, c, x)) (0, 0, 0, 0)

def burst (s : State) (n a : Nat) (pfx : Bytes) (base : Nat) : State × String :=
  let rec go (s : State) (i : Nat) (fuel : Nat) (acc : Nat × Nat × Nat × Nat) : State × (Nat × Nat × Nat × Nat) :=
    match fuel with
    | 0 => (s, acc)
    | fuel + 1 =>
      let (s', evs) := send s a (pfx ++ be16 (base + i))
      let (r, d, c, x) := countEv evs
      go s' (i + 1) fuel (acc.1 + r, acc.2.1 + d, acc.2.2.1 + c, acc.2.2.2 + x)
  let (s', (r, d, c, x)) := go s 0 n (0, 0, 0, 0)
  (s', s!"raw={r} data={d} create={c} drop={x} q={s'.queue.length}")

def capOf? (t : String) : Option Nat := if t == "-" then some queueCap else t.toNat?

def stepLine (s : State) (toks : List String) : State × String :=
  match toks with
  | ["reset", c] => match capOf? c with
    | some cap => (init cap, "ok")
    | none => (s, "bad-op")
  | ["dump"] => (s, dump s)
  | ["pseudonym", t, i, a] =>
    -- CommunicationManager.load: `pseudonym <hidden tunnel community loaded> <identity cid> <attestation cid>`
    match bool? t, Proto.ofHex? i, Proto.ofHex? a with
    | some ht, some ic, some ac => (runState s (pseudonymOps ht ic ac), s!"- q={s.queue.length}")
    | _, _, _ => (s, "bad-op")
  | ["service", st, ovs] =>
    -- IPv8.__init__: `service <enable_statistics> [cid:anon,cid:anon,…]`
    let parsed : Option (List (Bytes × Bool)) := do
      let items ← Proto.listItems? ovs
      items.mapM (fun it => match Proto.splitChar it ':' with
        | [c, b] => do some ((← Proto.ofHex? c), (← bool? b))
        | _ => none)
    match bool? st, parsed with
    | some stats, some l =>
      let names := (serviceWrappers stats (l.any (·.2))).map (fun w => match w with
        | .statistics => "StatisticsEndpoint" | .tunnel => "TunnelEndpoint")
      (runState s (serviceOps stats l), "wrappers=" ++ Proto.showStrList names ++ s!" q={s.queue.length}")
    | _, _ => (s, "bad-op")
  | ["consts"] => (s, s!"cap={queueCap} hops={initHops} tchops={defaultTcHops} prefix={prefixLen} "
      ++ s!"ipv8={PEER_FLAG_EXIT_IPV8} head={Proto.toHex communityPrefixHead}")
  | ["burst", n, a, p, b] =>
    match n.toNat?, a.toNat?, Proto.ofHex? p, b.toNat? with
    | some n, some a, some p, some b => burst s n a p b
    | _, _, _, _ => (s, "bad-op")
  | _ => match parseOp toks with
    | some op => let (s', evs) := step s op; (s', showEvents evs s')
    | none => (s, "bad-op")

def runSeq (cap : Nat) (ops : List String) : String :=
  let (s, last) := ops.foldl (fun (acc : State × String) o =>
      stepLine acc.1 ((Proto.splitChar o '_').filter (fun t => !t.isEmpty))) (init cap, "-")
  last ++ " | " ++ dump s

/-! ### exhaustive enumeration over fixed alphabets (same letters as harness/c07.py `alphabet`) -/

def pfxOf (base : Nat) : Bytes := [0, 2] ++ (List.range 20).map (fun i => UInt8.ofNat (base + i))
def PA : Bytes := pfxOf 0xA0
def PB : Bytes := pfxOf 0xB0

def lastIdx (s : State) : Nat := s.comm.circuits.length - 1

/-- letter `l` of alphabet `alpha` at position `i` of a word, in state `s` -/
def letterOp (alpha : String) (l i : Nat) (s : State) : Option Op :=
  if alpha == "A" then
    match l with
    | 0 => some (.send 1 (PA ++ [UInt8.ofNat i]))
    | 1 => some (.send 2 (PB ++ [UInt8.ofNat i]))
    | 2 => some (.setAnonymity PA true)
    | 3 => some (.setAnonymity PA false)
    | 4 => some (.setTunnelCommunity true 1)
    | 5 => some (.setTunnelCommunity false 1)
    | 6 => some (.addHop (lastIdx s) { addr := 7, flags := [4] })
    | 7 => some (.close 0)
    | 8 => some (.remove 0)
    | 9 => some (.addHop (lastIdx s) { addr := 8, flags := [2] })
    | _ => none
  else if alpha == "T" then   -- the property's own event list, anonymity as a toggle
    match l with
    | 0 => some (.send 1 (PA ++ [UInt8.ofNat i]))
    | 1 => some (.send 2 (PB ++ [UInt8.ofNat i]))
    | 2 => some (.setAnonymity PA (!(dictGet s.settings PA).getD false))
    | 3 => some (.setTunnelCommunity true 1)
    | 4 => some (.setTunnelCommunity false 1)
    | 5 => some (.addHop (lastIdx s) { addr := 7, flags := [4] })
    | 6 => some (.close 0)
    | 7 => some (.remove 0)
    | _ => none
  else if alpha == "C" then   -- Community objects: several overlays per prefix, explicit toggles
    match l with
    | 0 => some (.overlay (PA.drop 2) true)
    | 1 => some (.overlay (PA.drop 2) false)
    | 2 => some (.overlay (PB.drop 2) false)
    | 3 => some (.send 1 (PA ++ [UInt8.ofNat i]))
    | 4 => some (.send 2 (PB ++ [UInt8.ofNat i]))
    | 5 => some (.setTunnelCommunity true 1)
    | 6 => some (.setAnonymity PA true)
    | 7 => some (.setAnonymity PA false)
    | _ => none
  else if alpha == "D" then   -- delivery by origin to real Community objects (registered by prefix) and global listeners
    match l with
    | 0 => some (.overlay (PA.drop 2) true)
    | 1 => some (.overlay (PA.drop 2) false)
    | 2 => some (.overlay (PB.drop 2) true)
    | 3 => some (.addListener { lid := 1 + i, anonymize := some true })
    | 4 => some (.addListener { lid := 1 + i, anonymize := none })
    | 5 => some (.notify true (PA ++ [UInt8.ofNat i]))
    | 6 => some (.notify false (PA ++ [UInt8.ofNat i]))
    | 7 => some (.notify true (PB ++ [UInt8.ofNat i]))
    | 8 => some (.unloadOverlay 1000)
    | _ => none
  else if alpha == "B" then
    match l with
    | 0 => some (.send 1 (PA ++ [UInt8.ofNat i]))
    | 1 => some (.setAnonymity PA true)
    | 2 => some (.setTunnelCommunity true 2)
    | 3 => some (.setTunnelCommunity true 1)
    | 4 => some (.setTunnelCommunity false 1)
    | 5 => some (.addHop 0 { addr := 7, flags := [1, 4] })
    | 6 => some (.addHop (lastIdx s) { addr := 8, flags := [4] })
    | 7 => some (.addHop (lastIdx s) { addr := 9, flags := [1] })
    | 8 => some (.close (lastIdx s))
    | 9 => some (.remove 0)
    | 10 => some (.setCanCreate false)
    | 11 => some (.setAnonymity PA false)
    | _ => none
  else none

def adler32 (s : String) : Nat :=
  let r := s.foldl (fun (ab : Nat × Nat) c =>
    let a := (ab.1 + c.toNat) % 65521
    (a, (ab.2 + a) % 65521)) (1, 0)
  r.2 * 65536 + r.1

def digitVal? (c : Char) : Option Nat :=
  if '0' ≤ c ∧ c ≤ '9' then some (c.toNat - 48)
  else if 'a' ≤ c ∧ c ≤ 'z' then some (c.toNat - 87)
  else none

/-- all words of `remaining` more letters (letters `0 … k-1`), depth first in lexicographic order -/
def enumGo (alpha : String) (k : Nat) (s : State) (last : String) (pos : Nat) :
    Nat → Array String → Array String
  | 0, acc => acc.push (toString (adler32 (last ++ " | " ++ dump s)))
  | r + 1, acc =>
    (List.range k).foldl (fun acc l =>
      match letterOp alpha l pos s with
      | some op =>
        let (s', evs) := step s op
        enumGo alpha k s' (showEvents evs s') (pos + 1) r acc
      | none => acc.push "bad-letter") acc

def enumCmd (alpha : String) (k cap len : Nat) (pre : List Nat) : String :=
  -- run the prefix
  let (s, last, pos, ok) := pre.foldl (fun (acc : State × String × Nat × Bool) l =>
      let (s, last, pos, ok) := acc
      match letterOp alpha l pos s with
      | some op => let (s', evs) := step s op; (s', showEvents evs s', pos + 1, ok)
      | none => (s, last, pos + 1, false)) (init cap, "-", 0, true)
  if !ok || len < pre.length then "bad-op"
  else " ".intercalate (enumGo alpha k s last pos (len - pre.length) #[]).toList

def alphaSize (alpha : String) : Nat :=
  if alpha == "A" then 10 else if alpha == "B" then 12 else if alpha == "T" then 8 else if alpha == "C" then 8 else if alpha == "D" then 9 else 0

def top (s : State) (toks : List String) : State × String :=
  match toks with
  | ["seq", c, ops] => match capOf? c with
    | some cap => (s, runSeq cap (Proto.splitChar ops ';'))
    | none => (s, "bad-op")
  | ["enum", alpha, k, c, len, pre] =>
    let preDigits : Option (List Nat) := if pre == "-" then some [] else pre.toList.mapM digitVal?
    match k.toNat?, capOf? c, len.toNat?, preDigits with
    | some k, some cap, some len, some pre =>
      if k ≤ alphaSize alpha then (s, enumCmd alpha k cap len pre) else (s, "bad-op")
    | _, _, _, _ => (s, "bad-op")
  | _ => stepLine s toks

/-- like `Proto.loop`, but flushes after every reply so that the harness can converse interactively (`Driver.ask`) -/
partial def loopFlush (h out : IO.FS.Stream) (st : State) : IO Unit := do
  let line ← h.getLine
  if line.isEmpty then
    out.flush
    return ()
  let toks := Proto.tokens (Proto.stripNl line)
  if toks.isEmpty then
    loopFlush h out st
  else
    let (st', reply) := top st toks
    out.putStrLn reply
    out.flush
    loopFlush h out st'

def main : IO Unit := do
  loopFlush (← IO.getStdin) (← IO.getStdout) (init queueCap)
