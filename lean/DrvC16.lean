/-
  line-protocol driver for the C16 model (core Lean only).

  The cryptographic interface of the model is instantiated with TABLES sent by the harness (measured on the real
  SHA3-256 / signature check): `h <in> <out>` and `v <msg> <sig> <0|1>`.  A value that was not sent reads as
  hash = empty and signature VALID (fail-loud: the code rejects what it cannot verify, so a forgotten registration
  cannot agree silently).

    key <genesis> <siglen>                      forget everything, set genesis hash and signature length
    h <in> <out> | v <msg> <sig> <0|1>          extend the tables
    tok <name> <prev> <chash> <sig> <content|none>
    new <cap|default>                           fresh tree (default = the GENERATED unchained_max_size)
    gather <name>      -> <kind> <state>        kind: invalid | orphan | shadow | added
    append <name>      -> <state>               `_append` (own add)
    state              -> E=<id8>:<content|none>,... U=<id8>,...    (E in insertion order, U in waiting order)
    verify <name> <maxdepth|default> -> true|false      path <name> <maxdepth|default> -> <id8>,...
    missing -> <hex>,...                        ser -> <hex>        serupto <name> -> <hex>
    unser <hex>        -> true|false|error <state>
    recv <name> <content> -> true|false <content|none>     (Token.receive_content on the named token)
    fromdb <name> <prev> <sig> <chash> <content|none> -> <content|none>    (Token.from_database_tuple; registers <name>)
    todb <name> -> <prev> <sig> <chash> <content|none>                     (to_database_tuple)
    create <name> <prevname> <content> <sig> -> <prev> <chash> <content>   (Token.create; registers <name>)

    init <name> <prev> <content|none> <content_hash|none> <sig> -> ok <chash> <content|none> | error   (Token.__init__)
    pnew <cap|default> | psubst <hex> | pcred <name> | prestart -> <state> D=<rows>   (PseudonymManager + database)

  several trees of different keys (the tokens registered with `tok` are shared by all of them):
    vk <key> <msg> <sig> <0|1>                  keyed signature table
    view <vname> <key> <cap|default>            fresh TokenTree(public_key=key); genesis = hash(key) (send `h`)
    viewobj <vname> <pubbin> <privbin|none> <cap|default> -> ok <genesis>   the constructor given a key OBJECT
    offer <vname> <name>  -> <kind> <state>     vverify / vpath <vname> <name> <depth|default>
    vser <vname> -> <hex>                       vunser <vname> <hex> -> true|false|error <state>
-/
import Ipv8.Base.Proto
import Ipv8.C16.Model
open Ipv8 Ipv8.C16 Ipv8.Proto

structure St where
  hashTab : List (Bytes × Bytes) := []
  vfyTab : List (Bytes × Bytes × Bool) := []
  sigLen : Nat := 64
  g : Bytes := []
  cap : Nat := 100
  toks : List (String × Token) := []
  tree : Tree := Tree.empty
  pseudo : Pseudo := Pseudo.fresh
  vkTab : List (Bytes × Bytes × Bytes × Bool) := []
  views : List (String × View) := []

def St.crypto (s : St) : Crypto :=
  { hash := fun x => ((s.hashTab.find? (fun e => e.1 == x)).map (·.2)).getD []
    vfy := fun m sg => ((s.vfyTab.find? (fun e => e.1 == m && e.2.1 == sg)).map (·.2.2)).getD true
    sigLen := s.sigLen }

def St.keyed (s : St) : Keyed :=
  { hash := s.crypto.hash
    vfyK := fun k m sg =>
      ((s.vkTab.find? (fun e => e.1 == k && e.2.1 == m && e.2.2.1 == sg)).map (·.2.2.2)).getD true
    sigLenK := fun _ => s.sigLen }

def id8 (b : Bytes) : String := toHex (b.take 8)

def showContent : Option Bytes → String
  | none => "none"
  | some c => toHex c

def showState (C : Crypto) (tr : Tree) : String :=
  "E=" ++ ",".intercalate (tr.els.map (fun t => id8 (t.id C) ++ ":" ++ showContent t.content))
    ++ " U=" ++ ",".intercalate (tr.unc.map (fun t => id8 (t.id C)))

def showKind : Kind → String
  | .invalid => "invalid"
  | .orphan => "orphan"
  | .shadow => "shadow"
  | .added => "added"

def depth? (s : String) : Option Int :=
  if s == "default" then some defaultMaxDepth else s.toInt?

def content? (s : String) : Option (Option Bytes) :=
  if s == "none" then some none else (ofHex? s).map some

def step (s : St) (toks : List String) : St × String :=
  let C := s.crypto
  let bad := (s, "bad-op")
  let find (n : String) : Option Token := (s.toks.find? (fun e => e.1 == n)).map (·.2)
  let K := s.keyed
  let findV (n : String) : Option View := (s.views.find? (fun e => e.1 == n)).map (·.2)
  let setV (n : String) (v : View) : St := { s with views := (n, v) :: s.views.filter (fun e => e.1 != n) }
  match toks with
  | ["key", gh, sl] =>
    match ofHex? gh, sl.toNat? with
    | some g, some n => ({ sigLen := n, g := g }, "ok")
    | _, _ => bad
  | ["h", a, b] =>
    match ofHex? a, ofHex? b with
    | some x, some y => ({ s with hashTab := (x, y) :: s.hashTab }, "ok")
    | _, _ => bad
  | ["v", m, sg, f] =>
    match ofHex? m, ofHex? sg with
    | some x, some y => ({ s with vfyTab := (x, y, f == "1") :: s.vfyTab }, "ok")
    | _, _ => bad
  | ["tok", n, p, c, sg, ct] =>
    match ofHex? p, ofHex? c, ofHex? sg, content? ct with
    | some p, some c, some sg, some ct =>
      ({ s with toks := (n, ⟨p, c, sg, ct⟩) :: s.toks.filter (fun e => e.1 != n) }, "ok")
    | _, _, _, _ => bad
  | ["new", c] =>
    match (if c == "default" then some defaultCap else c.toNat?) with
    | some c => ({ s with cap := c, tree := Tree.empty }, "ok")
    | none => bad
  | ["gather", n] =>
    match find n with
    | some t =>
      let k := gatherKind C s.g s.tree t
      let tr := gather C s.g s.cap s.tree t
      ({ s with tree := tr }, showKind k ++ " " ++ showState C tr)
    | none => bad
  | ["append", n] =>
    match find n with
    | some t =>
      let tr := append C s.tree t
      ({ s with tree := tr }, showState C tr)
    | none => bad
  | ["vk", k, m, sg, f] =>
    match ofHex? k, ofHex? m, ofHex? sg with
    | some k, some x, some y => ({ s with vkTab := (k, x, y, f == "1") :: s.vkTab }, "ok")
    | _, _, _ => bad
  | ["view", vn, k, c] =>
    match ofHex? k, (if c == "default" then some defaultCap else c.toNat?) with
    | some k, some c => (setV vn (View.fresh k c), "ok")
    | _, _ => bad
  | ["viewobj", vn, pb, sec, c] =>    -- TokenTree(public_key=<key object>), secret = its private serialisation or none
    match ofHex? pb, content? sec, (if c == "default" then some defaultCap else c.toNat?) with
    | some pb, some sec, some c => (setV vn (View.open ⟨pb, sec⟩ c), "ok " ++ toHex ((View.open ⟨pb, sec⟩ c).genesis K))
    | _, _, _ => bad
  | ["offer", vn, n] =>
    match findV vn, find n with
    | some v, some t =>
      -- the world model itself: the offer is event (i, t) of `runWorld` on the list of all views
      let k := gatherKind (K.at v.key) (v.genesis K) v.tree t
      let i := (s.views.findIdx? (fun e => e.1 == vn)).getD 0
      let w := runWorld K (s.views.map (·.2)) [(i, t)]
      let views' := (s.views.zip w).map (fun e => (e.1.1, e.2))
      let v' := (w[i]?).getD v
      ({ s with views := views' }, showKind k ++ " " ++ showState (K.at v.key) v'.tree)
    | _, _ => bad
  | ["vverify", vn, n, d] =>
    match findV vn, find n, depth? d with
    | some v, some t, some d => (s, toString (verify (K.at v.key) (v.genesis K) v.tree t d))
    | _, _, _ => bad
  | ["vpath", vn, n, d] =>
    match findV vn, find n, depth? d with
    | some v, some t, some d =>
      (s, ",".intercalate ((rootPath (K.at v.key) (v.genesis K) v.tree t d).map (fun t => id8 (t.id C))))
    | _, _, _ => bad
  | ["vser", vn] =>
    match findV vn with
    | some v => (s, toHex (serializeAll v.tree))
    | none => bad
  | ["vunser", vn, hx] =>
    match findV vn, ofHex? hx with
    | some v, some b =>
      let r := unserializePublic (K.at v.key) (v.genesis K) v.cap v.tree b
      let flag := match r.2 with
        | none => "error"
        | some true => "true"
        | some false => "false"
      (setV vn { v with tree := r.1 }, flag ++ " " ++ showState (K.at v.key) r.1)
    | _, _ => bad
  | ["fromdb", n, p, sg, c, ct] =>
    match ofHex? p, ofHex? sg, ofHex? c, content? ct with
    | some p, some sg, some c, some ct =>
      let t := Token.ofDatabaseTuple C p sg c ct
      ({ s with toks := (n, t) :: s.toks.filter (fun e => e.1 != n) }, showContent t.content)
    | _, _, _, _ => bad
  | ["todb", n] =>
    match find n with
    | some t =>
      let d := t.toDatabaseTuple
      (s, toHex d.1 ++ " " ++ toHex d.2.1 ++ " " ++ toHex d.2.2.1 ++ " " ++ showContent d.2.2.2)
    | none => bad
  | ["create", n, pn, ct, sg] =>
    match find pn, ofHex? ct, ofHex? sg with
    | some pt, some ct, some sg =>
      let t := Token.create C pt ct sg
      ({ s with toks := (n, t) :: s.toks.filter (fun e => e.1 != n) },
        toHex t.prev ++ " " ++ toHex t.chash ++ " " ++ showContent t.content)
    | _, _, _ => bad
  | ["init", n, p, ct, ch, sg] =>       -- Token(prev, content=…, content_hash=…, signature=…)
    match ofHex? p, content? ct, content? ch, ofHex? sg with
    | some p, some ct, some ch, some sg =>
      match Token.init C p ct ch sg with
      | some t => ({ s with toks := (n, t) :: s.toks.filter (fun e => e.1 != n) },
                   "ok " ++ toHex t.chash ++ " " ++ showContent t.content)
      | none => (s, "error")
    | _, _, _, _ => bad
  | ["pnew", c] =>                      -- a PseudonymManager on an empty database
    match (if c == "default" then some defaultCap else c.toNat?) with
    | some c => ({ s with cap := c, pseudo := Pseudo.fresh }, "ok")
    | none => bad
  | ["psubst", hx] =>
    match ofHex? hx with
    | some b =>
      let p := s.pseudo.substantiate C s.g s.cap b
      ({ s with pseudo := p }, showState C p.tree ++ " D=" ++ toString p.db.length)
    | none => bad
  | ["pcred", n] =>
    match find n with
    | some t =>
      let p := s.pseudo.addCredential C s.g s.cap t
      ({ s with pseudo := p }, showState C p.tree ++ " D=" ++ toString p.db.length)
    | none => bad
  | ["prestart"] =>
    let p := s.pseudo.restart C
    ({ s with pseudo := p }, showState C p.tree ++ " D=" ++ toString p.db.length)
  | ["state"] => (s, showState C s.tree)
  | ["verify", n, d] =>
    match find n, depth? d with
    | some t, some d => (s, toString (verify C s.g s.tree t d))
    | _, _ => bad
  | ["path", n, d] =>
    match find n, depth? d with
    | some t, some d => (s, ",".intercalate ((rootPath C s.g s.tree t d).map (fun t => id8 (t.id C))))
    | _, _ => bad
  | ["missing"] => (s, ",".intercalate ((missing s.tree).map toHex))
  | ["ser"] => (s, toHex (serializeAll s.tree))
  | ["serupto", n] =>
    match find n with
    | some t => (s, toHex (serializeUpTo C s.tree t))
    | none => bad
  | ["unser", hx] =>
    match ofHex? hx with
    | some b =>
      let r := unserializePublic C s.g s.cap s.tree b
      let flag := match r.2 with
        | none => "error"
        | some true => "true"
        | some false => "false"
      ({ s with tree := r.1 }, flag ++ " " ++ showState C r.1)
    | none => bad
  | ["recv", n, ct] =>
    match find n, ofHex? ct with
    | some t, some c =>
      let r := t.receiveContent C c
      ({ s with toks := (n, r.1) :: s.toks.filter (fun e => e.1 != n) },
        toString r.2 ++ " " ++ showContent r.1.content)
    | _, _ => bad
  | _ => bad

def main : IO Unit := Proto.run ({} : St) step
