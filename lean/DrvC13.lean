/- line-protocol driver for the C13 model (Mathlib-free).  State: one simulated world. -/
import Ipv8.Base.Proto
import Ipv8.C13.Model
open Ipv8 Ipv8.C13

def showAddr (a : Addr) : String := s!"{a.ip}:{a.port}"

def showOut : Outcome → String
  | .lan j => s!"lan:{j}"
  | .wan j => s!"wan:{j}"
  | .drop .null => "drop:null"
  | .drop .lanNoHost => "drop:lanNoHost"
  | .drop .unroutable => "drop:unroutable"
  | .drop .hairpin => "drop:hairpin"
  | .drop .noHost => "drop:noHost"
  | .drop .filtered => "drop:filtered"

def b01 (b : Bool) : String := if b then "1" else "0"

def showMsg : Msg → String
  | .introReq ns key id p =>
    s!"req{b01 ns} k={key} id={id} d={showAddr p.destination_address} l={showAddr p.source_lan_address} w={showAddr p.source_wan_address}"
  | .introResp ns key id p ins =>
    s!"resp{b01 ns} k={key} id={id} d={showAddr p.destination_address} l={showAddr p.source_lan_address} w={showAddr p.source_wan_address} li={showAddr p.lan_introduction_address} wi={showAddr p.wan_introduction_address} ins={b01 ins}"
  | .punctReq ns id p => s!"preq{b01 ns} id={id} lw={showAddr p.lan_walker_address} ww={showAddr p.wan_walker_address}"
  | .puncture ns key id l w => s!"punc{b01 ns} k={key} id={id} l={showAddr l} w={showAddr w}"

def showEv (e : Ev) : String := s!"{e.src}/{e.svc}>{showAddr e.dst} {showMsg e.msg} ={showOut e.out}"

def showTrace (evs : List Ev) : String :=
  if evs.isEmpty then "-" else " ; ".intercalate (evs.map showEv)

def natTypeOf? : Nat → Option NatType
  | 0 => some .none | 1 => some .fullCone | 2 => some .addrRestricted | 3 => some .portRestricted | _ => none

def showPeer (p : PeerRec) : String :=
  let l := match p.lan with | some a => showAddr a | none => "-"
  s!"{p.key}/{showAddr p.v4}/{l}/{b01 p.ns}"

/-- run an op and answer with the trace it added (or "fuel" when the queue did not drain) -/
def traced (w : World) (f : World → World) : World × String :=
  let w' := f { w with trace := [] }
  (w', if w'.queue.isEmpty then showTrace w'.trace else "fuel")

def step (w : World) (toks : List String) : World × String :=
  let bad := (w, "bad-op")
  match toks with
  | ["reset"] => ({}, "ok")
  | ["host", a, b, c, d, e, f] =>
    match a.toNat?, b.toNat?, c.toNat?, d.toNat?, e.toNat?, f.toNat? >>= natTypeOf? with
    | some a, some b, some c, some d, some e, some t =>
      (w.addHost { lan := ⟨a, b⟩, wan := ⟨c, d⟩, box := e, typ := t }, toString w.hosts.length)
    | _, _, _, _, _, _ => bad
  | ["pref", i, l] =>
    match i.toNat?, Proto.natList? l with
    | some i, some l =>
      match w.nodes[i]? with
      | some n => ({ w with nodes := w.nodes.set i { n with pref := l } }, "ok")
      | none => bad
    | _, _ => bad
  | ["blacklist", i, ip, port] =>
    match i.toNat?, ip.toNat?, port.toNat? with
    | some i, some ip, some port =>
      match w.nodes[i]? with
      | some n => ({ w with nodes := w.nodes.set i { n with blacklist := n.blacklist ++ [⟨ip, port⟩] } }, "ok")
      | none => bad
    | _, _, _ => bad
  | ["remap", i, b, ip, port] =>
    match i.toNat?, b.toNat?, ip.toNat?, port.toNat? with
    | some i, some b, some ip, some port => (w.remap i b ⟨ip, port⟩, "ok")
    | _, _, _, _ => bad
  | ["relan", i, b, lip, lport, ip, port] =>
    match i.toNat?, b.toNat?, lip.toNat?, lport.toNat?, ip.toNat?, port.toNat? with
    | some i, some b, some lip, some lport, some ip, some port => (w.relan i b ⟨lip, lport⟩ ⟨ip, port⟩, "ok")
    | _, _, _, _, _, _ => bad
  | ["tracker", i] =>
    match i.toNat? with
    | some i =>
      match w.nodes[i]? with
      | some n => ({ w with nodes := w.nodes.set i { n with isTracker := true } }, "ok")
      | none => bad
    | none => bad
  | ["rwstep", i, sv, now, ip, port] =>
    match i.toNat?, sv.toNat?, now.toNat?, ip.toNat?, port.toNat? with
    | some i, some sv, some now, some ip, some port =>
      let pk : Option Addr := if ip == 0 && port == 0 then none else some ⟨ip, port⟩
      match (w.rwStep i sv now pk) with
      | some _ => traced w (fun w => (w.rwStep i sv now pk).getD w)
      | none => (w, "bad-pick")
    | _, _, _, _, _ => bad
  | ["restart", i] =>
    match i.toNat? with
    | some i => (w.restart i, "ok")
    | none => bad
  | ["remove", i, k] =>
    match i.toNat?, k.toNat? with
    | some i, some k => (w.removePeerAt i k, "ok")
    | _, _ => bad
  | ["maxpeers", i, m] =>
    match i.toNat?, m.toInt? with
    | some i, some m =>
      match w.nodes[i]? with
      | some n => ({ w with nodes := w.nodes.set i { n with maxPeers := m } }, "ok")
      | none => bad
    | _, _ => bad
  | ["clock", i, c] =>
    match i.toNat?, c.toNat? with
    | some i, some c =>
      match w.nodes[i]? with
      | some n => ({ w with nodes := w.nodes.set i { n with clock := if c > n.clock then c else n.clock } }, "ok")
      | none => bad
    | _, _ => bad
  | ["walk", i, sv, ip, port] =>
    match i.toNat?, sv.toNat?, ip.toNat?, port.toNat? with
    | some i, some sv, some ip, some port =>
      match w.nodes[i]? with
      | some n =>
        if ((n.walkTo ⟨ip, port⟩ sv).2).isSome then traced w (fun w => w.walk i ⟨ip, port⟩ sv)
        else (w.walk i ⟨ip, port⟩ sv, "nosend")
      | none => bad
    | _, _, _, _ => bad
  | ["ask", i, sv, k] =>
    match i.toNat?, sv.toNat?, k.toNat? with
    | some i, some sv, some k =>
      match w.nodes[i]? >>= (fun n => n.askPeer k sv) with
      | some r => if r.2.isSome then traced w (fun w => w.ask i k sv) else (w.ask i k sv, "nosend")
      | none => (w, "nopeer")
    | _, _, _ => bad
  | ["peers", i, sv] =>
    match i.toNat? >>= (fun i => w.nodes[i]?), sv.toNat? with
    | some n, some sv => (w, Proto.showStrList ((n.getPeers sv).map showPeer))
    | _, _ => bad
  | ["walkable", i, sv] =>
    match i.toNat? >>= (fun i => w.nodes[i]?), sv.toNat? with
    | some n, some sv => (w, Proto.showStrList ((n.walkable sv).map (fun a => s!"{showAddr a}/{b01 (n.isNewStyle a)}")))
    | _, _ => bad
  | ["est", i, sv] =>
    match i.toNat? >>= (fun i => w.nodes[i]?), sv.toNat? with
    | some n, some sv => (w, s!"{showAddr (n.myWan sv)} {showAddr n.myLan} {n.clock}")
    | _, _ => bad
  | ["sent", i] =>
    match i.toNat? >>= (fun i => w.hosts[i]?) with
    | some h => (w, Proto.showStrList (h.sent.map showAddr))
    | none => bad
  | ["inlan", ip] =>
    match ip.toNat? with
    | some ip => (w, toString (inLanSubnets ip))
    | none => bad
  | _ => bad

def main : IO Unit := Proto.run ({} : World) step
