/-
  C18 model, serialisation part (core Lean only, executable).

  Mirrors primitives/structs.py: _num_to_str, _str_to_num, ipack, iunpack, pack_pair/unpack_pair,
  BonehPublicKey/BonehPrivateKey.serialize/unserialize, and bonehexact/structs.py:
  BitPairAttestation/BonehAttestation.serialize/unserialize (as sequences of `ipack`ed integers).
-/
namespace Ipv8.C18

abbrev ByteStr := List UInt8

/-- `_num_to_str` loop: big-endian base-256 digits, prepended to `acc` -/
def numToBytesAux (n : Nat) (acc : ByteStr) : ByteStr :=
  if h : n < 256 then UInt8.ofNat n :: acc
  else numToBytesAux (n / 256) (UInt8.ofNat (n % 256) :: acc)
termination_by n
decreasing_by omega

/-- `_num_to_str(num)` for num ≥ 0: minimal big-endian encoding, 0 ↦ b"\x00" -/
def numToBytes (n : Nat) : ByteStr := numToBytesAux n []

/-- `_str_to_num(s)` -/
def bytesToNum (s : ByteStr) : Nat := s.foldl (fun acc b => acc * 256 + b.toNat) 0

/-- `ipack(num)`: [len(len)] ++ len ++ digits -/
def ipack (n : Nat) : ByteStr :=
  let pn := numToBytes n
  let l := numToBytes pn.length
  UInt8.ofNat l.length :: (l ++ pn)

/-- `iunpack(s)` (Python slices truncate silently; an empty input raises struct.error = `none`) -/
def iunpack (s : ByteStr) : Option (Nat × ByteStr) :=
  match s with
  | [] => none
  | b :: rest =>
    let llen := b.toNat
    let l := bytesToNum (rest.take llen)
    some (bytesToNum ((rest.drop llen).take l), rest.drop (llen + l))

def packMany (ns : List Nat) : ByteStr := ns.flatMap ipack

/-- `while rem and len(nums) < k: unpacked, rem = iunpack(rem)` -/
def unpackMany : Nat → ByteStr → List Nat × ByteStr
  | 0, s => ([], s)
  | k + 1, s =>
    match iunpack s with
    | none => ([], s)
    | some (n, rest) =>
      let (ns, rest') := unpackMany k rest
      (n :: ns, rest')

/-- a Boneh key as the integers that are serialised (g, h in compressed form a + b·x) -/
structure KeyInts where
  p : Nat
  ga : Nat
  gb : Nat
  ha : Nat
  hb : Nat
deriving DecidableEq, Repr

/-- `BonehPublicKey.serialize` -/
def KeyInts.serialize (k : KeyInts) : ByteStr := packMany [k.p, k.ga, k.gb, k.ha, k.hb]

/-- `BonehPublicKey.unserialize` (FP2Value(p, a, b) reduces its coefficients modulo p) -/
def KeyInts.unserialize (s : ByteStr) : Option (KeyInts × ByteStr) :=
  match unpackMany 5 s with
  | ([p, ga, gb, ha, hb], rest) =>
    if p = 0 then none      -- FP2Value(0, …) raises ZeroDivisionError
    else some (⟨p, ga % p, gb % p, ha % p, hb % p⟩, rest)
  | _ => none

/-- `BonehPrivateKey.serialize` -/
def privSerialize (k : KeyInts) (n t1 : Nat) : ByteStr := k.serialize ++ packMany [n, t1]

/-- `BonehPrivateKey.unserialize` -/
def privUnserialize (s : ByteStr) : Option (KeyInts × Nat × Nat) :=
  match unpackMany 7 s with
  | ([p, ga, gb, ha, hb, n, t1], _) =>
    if p = 0 then none else some (⟨p, ga % p, gb % p, ha % p, hb % p⟩, n, t1)
  | _ => none

/-- one bit pair as six integers -/
abbrev PairInts := List Nat

/-- `BonehAttestation.serialize`: key, then 6 integers per bit pair -/
def attSerialize (k : KeyInts) (pairs : List PairInts) : ByteStr :=
  k.serialize ++ (pairs.map packMany).flatten

/-- the `while rem:` loop of `BonehAttestation.unserialize` (fuel = input length; each round consumes ≥ 1 byte) -/
def unserPairs (p : Nat) : Nat → ByteStr → List PairInts
  | 0, _ => []
  | fuel + 1, s =>
    if s.isEmpty then []
    else
      let (ns, rest) := unpackMany 6 s
      (ns.map (· % p)) :: unserPairs p fuel rest

/-- `BonehAttestation.unserialize` -/
def attUnserialize (s : ByteStr) : Option (KeyInts × List PairInts) :=
  match KeyInts.unserialize s with
  | none => none
  | some (k, rest) => some (k, unserPairs k.p rest.length rest)

end Ipv8.C18
