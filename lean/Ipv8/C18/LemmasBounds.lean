/- helper lemmas: the range check binds the verifier's bounds (proof side) -/
import Ipv8.C18.LemmasProto
namespace Ipv8.C18
section
variable {A : Type} [AddCommGroup A] [DecidableEq A]
local notation "𝔾" => GroupOps.ofAdd A

/-- the two bound tests of the check, extracted -/
theorem rangeCheck_bounds (hash : A → A → Int) (g h : A) (pd : RangePublic A) (a b s t x y u v : Int)
    (hacc : rangeCheck (𝔾) hash g h pd a b s t x y u v = true) :
    pd.com.c1 = pd.com.c - (a - 1) • g ∧ pd.com.c2 = (b + 1) • g - pd.com.c := by
  simp only [rangeCheck, Bool.and_eq_true, decide_eq_true_eq, ofAdd_eq, ofAdd_div, pow_ofAdd] at hacc
  tauto

/-- one public datum cannot be accepted for two ranges whose bounds differ modulo the order of g -/
theorem accept_two_ranges (hash : A → A → Int) (g h : A) (pd : RangePublic A)
    (a b s t x y u v a' b' s' t' x' y' u' v' : Int)
    (h1 : rangeCheck (𝔾) hash g h pd a b s t x y u v = true)
    (h2 : rangeCheck (𝔾) hash g h pd a' b' s' t' x' y' u' v' = true) :
    (a - a') • g = 0 ∧ (b - b') • g = 0 := by
  have e1 := rangeCheck_bounds hash g h pd a b s t x y u v h1
  have e2 := rangeCheck_bounds hash g h pd a' b' s' t' x' y' u' v' h2
  constructor
  · have : pd.com.c - (a - 1) • g = pd.com.c - (a' - 1) • g := by rw [← e1.1, ← e2.1]
    have h3 : (a - 1) • g = (a' - 1) • g := sub_right_injective this
    have : (a - a') • g = (a - 1) • g - (a' - 1) • g := by module
    rw [this, h3, sub_self]
  · have : (b + 1) • g - pd.com.c = (b' + 1) • g - pd.com.c := by rw [← e1.2, ← e2.2]
    have h3 : (b + 1) • g = (b' + 1) • g := sub_left_injective this
    have : (b - b') • g = (b + 1) • g - (b' + 1) • g := by module
    rw [this, h3, sub_self]

/-- a proof honestly built for [a, b] that a verifier with range [a', b'] accepts: the bounds agree modulo the order of g -/
theorem honest_accept_binds (hash : A → A → Int) (g h : A) (value a b : Int) (rnd : RangeRand)
    (pd : RangePublic A) (pv : RangePriv)
    (hc : createAttestPair (𝔾) hash g h value a b rnd = some (pd, pv))
    (a' b' s t x y u v : Int) (hacc : rangeCheck (𝔾) hash g h pd a' b' s t x y u v = true) :
    (a - a') • g = 0 ∧ (b - b') • g = 0 := by
  have e := rangeCheck_bounds hash g h pd a' b' s t x y u v hacc
  unfold createAttestPair at hc
  simp only [] at hc
  split at hc
  · simp at hc
  · split at hc
    · simp at hc
    · split at hc
      · simp at hc
      · simp only [Option.some.injEq, Prod.mk.injEq] at hc
        obtain ⟨rfl, _⟩ := hc
        simp only [attestAlgebra, pow_ofAdd, ofAdd_mul, ofAdd_div] at e
        obtain ⟨e1, e2⟩ := e
        constructor
        · have h3 : (a - 1) • g = (a' - 1) • g := sub_right_injective e1
          have : (a - a') • g = (a - 1) • g - (a' - 1) • g := by module
          rw [this, h3, sub_self]
        · have h3 : (b + 1) • g = (b' + 1) • g := sub_left_injective e2
          have : (b - b') • g = (b + 1) • g - (b' + 1) • g := by module
          rw [this, h3, sub_self]

/-- The positivity test is the only thing between a prover who knows a multiple n of the order of g and acceptance:
    for ANY value (inside or outside [a, b]) the prover that follows the algebra with
    m2 = mst − m1 − m4² + K·n passes the check as soon as both answers are positive. -/
theorem order_shift_accepted' (hash : A → A → Int) (g h : A) (n K value a b : Int) (rnd : RangeRand) (s t : Int)
    (hn : n • g = 0)
    (hx : 0 < s * rnd.m1 + (mstOf rnd.w value a b - rnd.m1 - rnd.m4 * rnd.m4 + K * n) + rnd.m4 * rnd.m4)
    (hy : 0 < rnd.m1 + t * (mstOf rnd.w value a b - rnd.m1 - rnd.m4 * rnd.m4 + K * n) + rnd.m4 * rnd.m4) :
    cheatRound (𝔾) hash g h value a b rnd (mstOf rnd.w value a b - rnd.m1 - rnd.m4 * rnd.m4 + K * n) s t = true := by
  have hK : (K * n) • g = 0 := by rw [mul_smul, hn, smul_zero]
  unfold cheatRound
  simp only [attestAlgebra, RangePriv.response, rangeCheck, pow_ofAdd, ofAdd_mul, ofAdd_div, ofAdd_eq,
    Bool.and_eq_true, decide_eq_true_eq]
  repeat' apply And.intro
  all_goals first
    | trivial
    | exact hx
    | exact hy
    | (apply el_complete' <;> first | trivial | module)
    | (apply sqr_complete'; first | trivial | module)
    | (apply sqr_complete'; rw [← sub_eq_zero]; refine Eq.trans ?_ (neg_eq_zero.mpr hK); unfold mstOf; module)
    | module
    | (rw [← sub_eq_zero]; refine Eq.trans ?_ hK; unfold mstOf; module)


omit [DecidableEq A] in
/-- with g of order n and bounds closer than n, "agree modulo the order" is equality -/
theorem eq_of_order (g : A) (n : Nat) (hord : ∀ k : Int, k • g = 0 → (n : Int) ∣ k) (a a' : Int)
    (hk : (a - a') • g = 0) (hlt : |a - a'| < (n : Int)) : a = a' := by
  have := Int.eq_zero_of_abs_lt_dvd (hord _ hk) hlt
  omega

end
end Ipv8.C18
