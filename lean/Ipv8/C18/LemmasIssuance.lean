/- helper lemmas for the issuance bookkeeping model (proof side) -/
import Ipv8.C18.Issuance
import Mathlib.Data.List.Basic
namespace Ipv8.C18

structure ReqInv (reqs : List (Nat × Nat)) (att : Nat → Nat) (s : ReqState) : Prop where
  origin : ∀ c ∈ s.outstanding, (c.gt, c.key) ∈ reqs
  bound : ∀ p ∈ s.stored, ∃ gt, (gt, p.2) ∈ reqs ∧ p.1 = att gt

theorem reqInv_onChunk (reqs : List (Nat × Nat)) (att : Nat → Nat) (s : ReqState) (h : ReqInv reqs att s)
    (gt a seq n : Nat) (ha : a = att gt) : ReqInv reqs att (onChunk s gt a seq n) := by
  unfold onChunk
  split
  · exact h
  · rename_i c hc
    have hmem : c ∈ s.outstanding := List.mem_of_find?_eq_some hc
    have hgt : c.gt = gt := by
      have := List.find?_some hc
      simpa using this
    simp only []
    generalize addChunk c.got a seq = got'
    split
    · refine ⟨?_, ?_⟩
      · intro d hd
        exact h.origin d (List.mem_of_mem_filter hd)
      · intro p hp
        simp only [List.mem_append, List.mem_singleton] at hp
        rcases hp with hp | rfl
        · exact h.bound p hp
        · exact ⟨gt, by rw [← hgt]; exact h.origin c hmem, ha⟩
    · refine ⟨?_, h.bound⟩
      intro d hd
      simp only [List.mem_map] at hd
      obtain ⟨d0, hd0, rfl⟩ := hd
      split
      · exact h.origin d0 hd0
      · exact h.origin d0 hd0

theorem reqInv_run (reqs : List (Nat × Nat)) (att : Nat → Nat) (evs : List (Nat × Nat × Nat × Nat))
    (hon : ∀ e ∈ evs, e.2.1 = att e.1) : ReqInv reqs att (runChunks reqs evs) := by
  unfold runChunks
  have h0 : ReqInv reqs att { outstanding := reqs.map (fun r => { gt := r.1, key := r.2, got := [] }), stored := [] } := by
    refine ⟨?_, by simp⟩
    intro c hc
    simp only [List.mem_map] at hc
    obtain ⟨r, hr, rfl⟩ := hc
    exact hr
  revert h0
  generalize ({ outstanding := reqs.map (fun r => { gt := r.1, key := r.2, got := [] }), stored := [] } : ReqState) = s0
  induction evs generalizing s0 with
  | nil => intro h; exact h
  | cons e tl ih =>
    intro h
    rw [List.foldl_cons]
    apply ih (fun e' he' => hon e' (by simp [he']))
    exact reqInv_onChunk reqs att s0 h _ _ _ _ (hon e (by simp))

end Ipv8.C18
