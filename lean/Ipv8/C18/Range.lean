/-
  C18 model, range-proof part (core Lean only, executable).

  The EL / SQR proofs, `generate_response` and `PengBaoPublicData.check` are GENERATED (GenRange.lean) from boudot.py and
  structs.py on every run; this file holds the hand-written rest: create_attest_pair and whole rounds.

  Mirrors
    pengbaorange/boudot.py       EL.create / EL.check, SQR.create / SQR.check
    pengbaorange/attestation.py  create_attest_pair
    pengbaorange/structs.py      PengBaoCommitmentPrivate.generate_response, PengBaoPublicData.check

  As in Proto.lean all group arithmetic goes through a `GroupOps G` record.  The Fiat–Shamir hash
  (`sha256_as_int` of the decimal strings of the compressed coordinates) is a parameter `hash : G → G → Int`.
  Randomness is explicit: the record `RangeRand` holds the values the code ends up using (for the `while not m`
  loops: the accepted draw).
-/
import Ipv8.C18.GenAttest

namespace Ipv8.C18

section
variable {G : Type} (o : GroupOps G) (hash : G → G → Int)

/-- `create_attest_pair(PK, value, a, b, bitspace)`: the failure modes (hand-written, they mirror exceptions and a loop
    that does not end) in front of the GENERATED algebra `attestAlgebra`.
    `none` models "no attestation comes out": for `mst < 0` the code raises (`isqrt` of a negative number), for
    `mst = 0` and `4 ≤ mst < 9` the `while not m4` loop never ends, for `0 < mst < 4` the modulus is 0
    (ZeroDivisionError); for a format with `max ≤ 0` `EL.create` raises (known finding). -/
def createAttestPair (g h : G) (value a b : Int) (rnd : RangeRand) : Option (RangePublic G × RangePriv) :=
  let mst := attestMst value a b rnd
  if mst ≤ 0 then none
  else if Nat.sqrt mst.toNat < 3 then none
  else if b ≤ 0 then none      -- EL.create: `maxrange_w = 2 ^ (l + t) * b - 1` (XOR) is negative, secure_randint raises
  else some (attestAlgebra o hash g h value a b rnd none)

/-- a prover who follows `create_attest_pair`'s algebra for ANY value (no failure for values outside the range) but
    chooses m2 itself, answers the challenge (s, t) with `generate_response`, and is checked -/
def cheatRound (g h : G) (value a b : Int) (rnd : RangeRand) (m2 s t : Int) : Bool :=
  let (pd, pv) := attestAlgebra o hash g h value a b rnd (some m2)
  let (x, y, u, v) := pv.response s t
  rangeCheck o hash g h pd a b s t x y u v

/-- one query to the verifier: its range, the challenge and the answers -/
structure RangeQuery where
  a : Int
  b : Int
  s : Int
  t : Int
  x : Int
  y : Int
  u : Int
  v : Int

/-- a verifier that keeps ONE received attestation object and is asked a whole history of queries on it (several
    challenges, several identity formats / ranges): the list of verdicts.  `PengBaoPublicData` carries no state besides
    the public data, so every verdict is `rangeCheck` of that query alone. -/
def rangeCheckSeq (g h : G) (pd : RangePublic G) (qs : List RangeQuery) : List Bool :=
  qs.map (fun q => rangeCheck o hash g h pd q.a q.b q.s q.t q.x q.y q.u q.v)

/-- a whole honest round: create, answer the challenge (s, t), check -/
def rangeRound (g h : G) (value a b : Int) (rnd : RangeRand) (s t : Int) : Option Bool :=
  match createAttestPair o hash g h value a b rnd with
  | none => none
  | some (pd, pv) =>
    let (x, y, u, v) := pv.response s t
    some (rangeCheck o hash g h pd a b s t x y u v)

end
end Ipv8.C18
