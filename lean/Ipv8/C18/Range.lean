/-
  C18 model, range-proof part (core Lean only, executable).

  Mirrors
    pengbaorange/boudot.py       EL.create / EL.check, SQR.create / SQR.check
    pengbaorange/attestation.py  create_attest_pair
    pengbaorange/structs.py      PengBaoCommitmentPrivate.generate_response, PengBaoPublicData.check

  As in Proto.lean all group arithmetic goes through a `GroupOps G` record.  The Fiat–Shamir hash
  (`sha256_as_int` of the decimal strings of the compressed coordinates) is a parameter `hash : G → G → Int`.
  Randomness is explicit: the record `RangeRand` holds the values the code ends up using (for the `while not m`
  loops: the accepted draw).
-/
import Ipv8.C18.Proto

namespace Ipv8.C18

structure ELProof where
  c : Int
  D : Int
  D1 : Int
  D2 : Int
deriving DecidableEq, Repr

structure SQRProof (G : Type) where
  F : G
  el : ELProof

/-- randomness of one EL.create -/
structure ELRand where
  w : Int
  n1 : Int
  n2 : Int

section
variable {G : Type} (o : GroupOps G) (hash : G → G → Int)

/-- the two commitments W1, W2 of `EL.create` -/
def elCommit (g1 h1 g2 h2 : G) (rnd : ELRand) : G × G :=
  (o.mul (o.pow g1 rnd.w) (o.pow h1 rnd.n1), o.mul (o.pow g2 rnd.w) (o.pow h2 rnd.n2))

/-- `EL.create(x, r1, r2, g1, h1, g2, h2, …)` -/
def elCreate (x r1 r2 : Int) (g1 h1 g2 h2 : G) (rnd : ELRand) : ELProof :=
  let W := elCommit o g1 h1 g2 h2 rnd
  let c := hash W.1 W.2
  { c := c, D := rnd.w + c * x, D1 := rnd.n1 + c * r1, D2 := rnd.n2 + c * r2 }

/-- the two values `EL.check` hashes -/
def elCheckPre (e : ELProof) (g1 h1 g2 h2 y1 y2 : G) : G × G :=
  (o.mul (o.mul (o.pow g1 e.D) (o.pow h1 e.D1)) (o.pow y1 (-e.c)),
   o.mul (o.mul (o.pow g2 e.D) (o.pow h2 e.D2)) (o.pow y2 (-e.c)))

/-- `EL.check(g1, h1, g2, h2, y1, y2)` -/
def elCheck (e : ELProof) (g1 h1 g2 h2 y1 y2 : G) : Bool :=
  let W := elCheckPre o e g1 h1 g2 h2 y1 y2
  e.c == hash W.1 W.2

/-- `SQR.create(x, r1, g, h, …)` with its own draw r2 and the randomness of the inner EL -/
def sqrCreate (x r1 : Int) (g h : G) (r2 : Int) (rnd : ELRand) : SQRProof G :=
  let F := o.mul (o.pow g x) (o.pow h r2)
  let r3 := r1 - r2 * x
  { F := F, el := elCreate o hash x r2 r3 g h F h rnd }

/-- `SQR.check(g, h, y)` -/
def sqrCheck (s : SQRProof G) (g h y : G) : Bool :=
  elCheck o hash s.el g h s.F h s.F y

end

structure Commitment (G : Type) where
  c : G
  c1 : G
  c2 : G
  ca : G
  ca1 : G
  ca2 : G
  ca3 : G
  caa : G

structure RangePriv where
  m1 : Int
  m2 : Int
  m3 : Int
  r1 : Int
  r2 : Int
  r3 : Int
deriving DecidableEq, Repr

structure RangePublic (G : Type) where
  com : Commitment G
  el : ELProof
  sqr1 : SQRProof G
  sqr2 : SQRProof G

/-- the values `create_attest_pair` draws (accepted draws of the rejection loops) -/
structure RangeRand where
  r : Int
  ra : Int
  raa0 : Int      -- raa = raa0 * raa0
  w : Int
  m4 : Int
  m1 : Int
  r1 : Int
  r2 : Int
  el : ELRand
  sq1r2 : Int
  sq1 : ELRand
  sq2r2 : Int
  sq2 : ELRand

/-- `mst = w2 * (value - a + 1) * (b - value + 1)` -/
def mstOf (w value a b : Int) : Int := w * w * (value - a + 1) * (b - value + 1)

/-- `PengBaoCommitmentPrivate.generate_response(s, t)` -/
def RangePriv.response (pv : RangePriv) (s t : Int) : Int × Int × Int × Int :=
  (s * pv.m1 + pv.m2 + pv.m3, pv.m1 + t * pv.m2 + pv.m3, s * pv.r1 + pv.r2 + pv.r3, pv.r1 + t * pv.r2 + pv.r3)

section
variable {G : Type} (o : GroupOps G) (hash : G → G → Int)

/-- the commitments and private values of `create_attest_pair`'s algebra for an arbitrary m2 (the honest code takes
    m2 = mst - m1 - m4²; a prover who deviates only there is `cheatRound` below) -/
def rangeCommitWith (g h : G) (value a b : Int) (rnd : RangeRand) (m2 : Int) : Commitment G × RangePriv :=
  let raa := rnd.raa0 * rnd.raa0
  let w2 := rnd.w * rnd.w
  let c := o.mul (o.pow g value) (o.pow h rnd.r)
  let c1 := o.div c (o.pow g (a - 1))
  let c2 := o.div (o.pow g (b + 1)) c
  let ca := o.mul (o.pow c1 (b - value + 1)) (o.pow h rnd.ra)
  let caa := o.mul (o.pow ca w2) (o.pow h raa)
  let m3 := rnd.m4 * rnd.m4
  let rst := w2 * ((b - value + 1) * rnd.r + rnd.ra) + raa
  let r3 := rst - rnd.r1 - rnd.r2
  let ca1 := o.mul (o.pow g rnd.m1) (o.pow h rnd.r1)
  let ca2 := o.mul (o.pow g m2) (o.pow h rnd.r2)
  let ca3 := o.div caa (o.mul ca1 ca2)
  ({ c := c, c1 := c1, c2 := c2, ca := ca, ca1 := ca1, ca2 := ca2, ca3 := ca3, caa := caa },
   { m1 := rnd.m1, m2 := m2, m3 := m3, r1 := rnd.r1, r2 := rnd.r2, r3 := r3 })

/-- the commitments and private values of `create_attest_pair` (no failure modelled here) -/
def rangeCommit (g h : G) (value a b : Int) (rnd : RangeRand) : Commitment G × RangePriv :=
  rangeCommitWith o g h value a b rnd (mstOf rnd.w value a b - rnd.m1 - rnd.m4 * rnd.m4)

/-- `create_attest_pair(PK, value, a, b, bitspace)`.
    `none` models "no attestation comes out": for `mst < 0` the code raises (`sqrt` of a negative number), for
    `mst = 0` and `4 ≤ mst < 9` the `while not m4` loop never ends, for `0 < mst < 4` the modulus is 0
    (ZeroDivisionError); for a format with `max ≤ 0` `EL.create` raises (known finding). -/
def createAttestPair (g h : G) (value a b : Int) (rnd : RangeRand) : Option (RangePublic G × RangePriv) :=
  let mst := mstOf rnd.w value a b
  if mst ≤ 0 then none
  else if Nat.sqrt mst.toNat < 3 then none
  else if b ≤ 0 then none      -- EL.create: `maxrange_w = 2 ^ (l + t) * b - 1` (XOR) is negative, secure_randint raises
  else
    let (com, pv) := rangeCommit o g h value a b rnd
    let raa := rnd.raa0 * rnd.raa0
    let el := elCreate o hash (b - value + 1) (-rnd.r) rnd.ra g h com.c1 h rnd.el
    let sqr1 := sqrCreate o hash rnd.w raa com.ca h rnd.sq1r2 rnd.sq1
    let sqr2 := sqrCreate o hash rnd.m4 pv.r3 g h rnd.sq2r2 rnd.sq2
    some ({ com := com, el := el, sqr1 := sqr1, sqr2 := sqr2 }, pv)

/-- `PengBaoPublicData.check(a, b, s, t, x, y, u, v)` -/
def rangeCheck (g h : G) (pd : RangePublic G) (a b s t x y u v : Int) : Bool :=
  let cm := pd.com
  elCheck o hash pd.el g h cm.c1 h cm.c2 cm.ca
  && sqrCheck o hash pd.sqr1 cm.ca h cm.caa
  && sqrCheck o hash pd.sqr2 g h cm.ca3
  && o.eq cm.c1 (o.div cm.c (o.pow g (a - 1)))
  && o.eq cm.c2 (o.div (o.pow g (b + 1)) cm.c)
  && o.eq cm.caa (o.mul (o.mul cm.ca1 cm.ca2) cm.ca3)
  && o.eq (o.mul (o.pow g x) (o.pow h u)) (o.mul (o.mul (o.pow cm.ca1 s) cm.ca2) cm.ca3)
  && o.eq (o.mul (o.pow g y) (o.pow h v)) (o.mul (o.mul cm.ca1 (o.pow cm.ca2 t)) cm.ca3)
  && decide (x > 0)
  && decide (y > 0)

/-- a prover who follows `create_attest_pair` for ANY value (no failure for values outside the range) but chooses m2
    itself, answers the challenge (s, t) with `generate_response`, and is checked -/
def cheatRound (g h : G) (value a b : Int) (rnd : RangeRand) (m2 s t : Int) : Bool :=
  let (com, pv) := rangeCommitWith o g h value a b rnd m2
  let raa := rnd.raa0 * rnd.raa0
  let el := elCreate o hash (b - value + 1) (-rnd.r) rnd.ra g h com.c1 h rnd.el
  let sqr1 := sqrCreate o hash rnd.w raa com.ca h rnd.sq1r2 rnd.sq1
  let sqr2 := sqrCreate o hash rnd.m4 pv.r3 g h rnd.sq2r2 rnd.sq2
  let (x, y, u, v) := pv.response s t
  rangeCheck o hash g h { com := com, el := el, sqr1 := sqr1, sqr2 := sqr2 } a b s t x y u v

/-- one query to the verifier: its range, the challenge and the answers -/
structure RangeQuery where
  a : Int
  b : Int
  s : Int
  t : Int
  x : Int
  y : Int
  u : Int
  v : Int

/-- a verifier that keeps ONE received attestation object and is asked a whole history of queries on it (several
    challenges, several identity formats / ranges): the list of verdicts.  `PengBaoPublicData` carries no state besides
    the public data, so every verdict is `rangeCheck` of that query alone. -/
def rangeCheckSeq (g h : G) (pd : RangePublic G) (qs : List RangeQuery) : List Bool :=
  qs.map (fun q => rangeCheck o hash g h pd q.a q.b q.s q.t q.x q.y q.u q.v)

/-- a whole honest round: create, answer the challenge (s, t), check -/
def rangeRound (g h : G) (value a b : Int) (rnd : RangeRand) (s t : Int) : Option Bool :=
  match createAttestPair o hash g h value a b rnd with
  | none => none
  | some (pd, pv) =>
    let (x, y, u, v) := pv.response s t
    some (rangeCheck o hash g h pd a b s t x y u v)

end
end Ipv8.C18
