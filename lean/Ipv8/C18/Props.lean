/-
  C18 — property theorems (field arithmetic part).
  Every `theorem` in this file is an obligation of the check; helper lemmas live in Lemmas.lean.

  The operations `FP2.add/sub/mul/div/inv/wpNum` are GENERATED from value.py on every run, so these theorems
  are re-proved against what the code says now.  `R` is an arbitrary commutative ring, hence every `ZMod p`
  ("all operands and all moduli, symbolically").  A value (a + bx + cx²)/(aC + bCx + cCx²) mod (x²+x+1) denotes
  the fraction `num v / den v` in R[ω]/(ω²+ω+1); each law says the code computes the fraction-arithmetic result.
-/
import Ipv8.C18.Lemmas
import Ipv8.C18.LemmasProto
import Ipv8.C18.LemmasSer
import Ipv8.C18.LemmasVerifier
import Ipv8.C18.LemmasBounds
import Ipv8.C18.LemmasMore
import Ipv8.C18.LemmasIssuance
import Mathlib.Data.ZMod.Basic

namespace Ipv8.C18
open Ipv8 FP2

variable {R : Type} [CommRing R]

/-- `__add__`: n₁/d₁ + n₂/d₂ = (n₁d₂ + n₂d₁)/(d₁d₂) -/
theorem add_num (s o : FP2 R) : (add s o).num = s.num * o.den + o.num * s.den := by
  ext <;> simp [add, num, den] <;> ring
theorem add_den (s o : FP2 R) : (add s o).den = s.den * o.den := by
  ext <;> simp [add, den] <;> ring

/-- `__sub__` -/
theorem sub_num (s o : FP2 R) : (sub s o).num = s.num * o.den - o.num * s.den := by
  ext <;> simp [sub, num, den] <;> ring
theorem sub_den (s o : FP2 R) : (sub s o).den = s.den * o.den := by
  ext <;> simp [sub, den] <;> ring

/-- `__mul__` -/
theorem mul_num (s o : FP2 R) : (mul s o).num = s.num * o.num := mul_num' s o
theorem mul_den (s o : FP2 R) : (mul s o).den = s.den * o.den := mul_den' s o

/-- `__floordiv__` -/
theorem div_num (s o : FP2 R) : (div s o).num = s.num * o.den := by
  ext <;> simp [div, num, den] <;> ring
theorem div_den (s o : FP2 R) : (div s o).den = s.den * o.num := by
  ext <;> simp [div, num, den] <;> ring

/-- `inverse` swaps numerator and denominator -/
theorem inv_num (s : FP2 R) : (inv s).num = s.den := by
  ext <;> simp [inv, num, den]
theorem inv_den (s : FP2 R) : (inv s).den = s.num := by
  ext <;> simp [inv, num, den]

/-- `(a + b) − b = a` as fractions (cross-multiplied), for all operands -/
theorem add_sub_cancel_cross (s o : FP2 R) :
    (sub (add s o) o).num * s.den = s.num * (sub (add s o) o).den := by
  rw [sub_num, sub_den, add_num, add_den]; ring

/-- `intpow` (non-negative power): square-and-multiply computes the n-th power of the fraction -/
theorem intpow_num (v : FP2 R) (n : Nat) : (intpowNat v n).num = v.num ^ n := by
  simp [intpowNat, intpowLoop_num, one_num]
theorem intpow_den (v : FP2 R) (n : Nat) : (intpowNat v n).den = v.den ^ n := by
  simp [intpowNat, intpowLoop_den, one_den]

/-- non-vacuity: the laws are used at a concrete value with general denominators -/
example : (add (⟨3, 4, 0, 5, 6, 0⟩ : FP2 Int) ⟨7, 8, 0, 9, 10, 0⟩).den
    = (⟨5, 6, 0, 5, 6, 0⟩ : FP2 Int).num * (⟨9, 10, 0, 9, 10, 0⟩ : FP2 Int).num := by decide


/-! ## What CPython computes (unbounded integers reduced modulo p) is this ring arithmetic

  `castV` maps the integer coefficients into any commutative ring `S` in which `p = 0` (in particular `ZMod p`).
  The integer-level functions of Model.lean (`addP`, … — compared with the real methods by the correspondence run)
  commute with the cast, so the fraction laws above hold for what the code returns. -/

section cast_laws
variable {S : Type} [CommRing S]

theorem addP_law (p : Int) (hp : ((p : Int) : S) = 0) (s o : FP2 Int) :
    (castV (addP p s o) : FP2 S).num = (castV s : FP2 S).num * (castV o : FP2 S).den + (castV o : FP2 S).num * (castV s : FP2 S).den
    ∧ (castV (addP p s o) : FP2 S).den = (castV s : FP2 S).den * (castV o : FP2 S).den := by
  rw [castV_addP p hp]; exact ⟨add_num _ _, add_den _ _⟩

theorem subP_law (p : Int) (hp : ((p : Int) : S) = 0) (s o : FP2 Int) :
    (castV (subP p s o) : FP2 S).num = (castV s : FP2 S).num * (castV o : FP2 S).den - (castV o : FP2 S).num * (castV s : FP2 S).den
    ∧ (castV (subP p s o) : FP2 S).den = (castV s : FP2 S).den * (castV o : FP2 S).den := by
  rw [castV_subP p hp]; exact ⟨sub_num _ _, sub_den _ _⟩

theorem mulP_law (p : Int) (hp : ((p : Int) : S) = 0) (s o : FP2 Int) :
    (castV (mulP p s o) : FP2 S).num = (castV s : FP2 S).num * (castV o : FP2 S).num
    ∧ (castV (mulP p s o) : FP2 S).den = (castV s : FP2 S).den * (castV o : FP2 S).den := by
  rw [castV_mulP p hp]; exact ⟨mul_num _ _, mul_den _ _⟩

theorem divP_law (p : Int) (hp : ((p : Int) : S) = 0) (s o : FP2 Int) :
    (castV (divP p s o) : FP2 S).num = (castV s : FP2 S).num * (castV o : FP2 S).den
    ∧ (castV (divP p s o) : FP2 S).den = (castV s : FP2 S).den * (castV o : FP2 S).num := by
  rw [castV_divP p hp]; exact ⟨div_num _ _, div_den _ _⟩

theorem invP_law (p : Int) (hp : ((p : Int) : S) = 0) (s : FP2 Int) :
    (castV (invP p s) : FP2 S).num = (castV s : FP2 S).den ∧ (castV (invP p s) : FP2 S).den = (castV s : FP2 S).num := by
  rw [castV_invP p hp]; exact ⟨inv_num _, inv_den _⟩

/-- `intpow` with a non-negative exponent, as computed on integers mod p: the n-th power of the fraction -/
theorem intpowP_law (p : Int) (hp : ((p : Int) : S) = 0) (v : FP2 Int) (n : Nat) :
    (castV (intpowP p v n) : FP2 S).num = (castV v : FP2 S).num ^ n
    ∧ (castV (intpowP p v n) : FP2 S).den = (castV v : FP2 S).den ^ n := by
  have h : intpowP p v (n : Int) = intpowLoopP p (modP p FP2.one) v n := by
    simp [intpowP]
  have h1 : (castV (modP p FP2.one) : FP2 S) = FP2.one := by
    rw [castV_modP p hp]; simp [castV, FP2.one]
  rw [h, castV_intpowLoopP p hp, h1]
  exact ⟨intpow_num _ n, intpow_den _ n⟩

end cast_laws

/-- `intpow` with a NEGATIVE exponent (`R.inverse().normalize()`, used by every `EL.check` and by `g.intpow(a - 1)`
    for a = 0): the inverse of the n-th power, for every prime modulus -/
theorem intpowP_neg_law (p : Nat) (hp : p.Prime) (v : FP2 Int) (n : Nat) (hn : 0 < n) :
    (castV (intpowP p v (-(n : Int))) : FP2 (ZMod p)).num * (castV v : FP2 (ZMod p)).num ^ n
      = (castV v : FP2 (ZMod p)).den ^ n * (castV (intpowP p v (-(n : Int))) : FP2 (ZMod p)).den :=
  intpowP_neg_cross p hp v n hn

/-- `_modinv` (extended Euclid): `_modinv(e, m)·e ≡ gcd(e, m) (mod m)` for all e ≥ 0, m > 0 — the inverse when coprime -/
theorem modinv_correct (e m : Int) (he : 0 ≤ e) (hm : 0 < m) (hg : Int.gcd e m = 1) :
    (modinv e m * e) % m = 1 % m := by
  have := modinv_mul e m he hm
  rw [hg] at this
  exact_mod_cast this

/-- `normalize` is value preserving for every prime modulus and every operand -/
theorem normalize_value_preserving (p : Nat) (hp : p.Prime) (v : FP2 Int) :
    (castV (normalizeP p v) : FP2 (ZMod p)).num * (castV v : FP2 (ZMod p)).den
      = (castV v : FP2 (ZMod p)).num * (castV (normalizeP p v) : FP2 (ZMod p)).den :=
  normalizeP_cross p hp v

/-- `__eq__` is equality of fractions in F_p[ω]/(ω²+ω+1), for every prime modulus and all operands -/
theorem eq_is_fraction_equality (p : Nat) (hp : p.Prime) (s o : FP2 Int) :
    eqP p s o = true ↔
      (castV s : FP2 (ZMod p)).num * (castV o : FP2 (ZMod p)).den
        = (castV s : FP2 (ZMod p)).den * (castV o : FP2 (ZMod p)).num :=
  eqP_iff' p hp s o

example : eqP 23 ⟨3, 4, 0, 5, 6, 0⟩ ⟨6, 8, 0, 10, 12, 0⟩ = true :=
  (eq_is_fraction_equality 23 (by decide) _ _).2 (by decide)

/-! ## Serialisation (primitives/structs.py) -/

/-- `iunpack(ipack(n) + rest) = (n, rest)` for every packable n (every n < 256^255) and every trailing data -/
theorem iunpack_ipack (n : Nat) (rest : ByteStr) (h : Packable n) : iunpack (ipack n ++ rest) = some (n, rest) :=
  iunpack_ipack' n rest h

theorem packable_below_2040_bits (n : Nat) (h : n < 256 ^ 255) : Packable n := packable_of_lt n h

/-- any sequence of integers (pairs, keys, bit pairs) survives pack/unpack, with trailing data untouched -/
theorem unpackMany_packMany (ns : List Nat) (rest : ByteStr) (h : ∀ n ∈ ns, Packable n) :
    unpackMany ns.length (packMany ns ++ rest) = (ns, rest) :=
  unpackMany_packMany' ns rest h

/-- public keys survive serialisation (coordinates are reduced modulo p, as the code keeps them) -/
theorem public_key_roundtrip (k : KeyInts) (rest : ByteStr)
    (hp : Packable k.p) (h1 : Packable k.ga) (h2 : Packable k.gb) (h3 : Packable k.ha) (h4 : Packable k.hb)
    (l1 : k.ga < k.p) (l2 : k.gb < k.p) (l3 : k.ha < k.p) (l4 : k.hb < k.p) :
    KeyInts.unserialize (k.serialize ++ rest) = some (k, rest) :=
  key_roundtrip' k rest hp h1 h2 h3 h4 l1 l2 l3 l4

theorem private_key_roundtrip (k : KeyInts) (n t1 : Nat)
    (hp : Packable k.p) (h1 : Packable k.ga) (h2 : Packable k.gb) (h3 : Packable k.ha) (h4 : Packable k.hb)
    (h5 : Packable n) (h6 : Packable t1)
    (l1 : k.ga < k.p) (l2 : k.gb < k.p) (l3 : k.ha < k.p) (l4 : k.hb < k.p) :
    privUnserialize (privSerialize k n t1) = some (k, n, t1) :=
  priv_roundtrip' k n t1 hp h1 h2 h3 h4 h5 h6 l1 l2 l3 l4

example : iunpack (ipack 70000 ++ [1, 2]) = some (70000, [1, 2]) :=
  iunpack_ipack _ _ (packable_below_2040_bits _ (by norm_num))

/-! ## Protocol part

  `A` is an arbitrary commutative group in additive notation with decidable equality (`n • x` is the code's
  `x.intpow(n)`, `+` its `*`); `GroupOps.ofAdd A` turns it into the record of operations the executable model is
  written against (the driver runs the same functions at the FP2Value operations).  A key must satisfy `BonehHyp`
  (orders of g, h; checked on every fresh key by the harness).  Randomness is universally quantified: blinding
  factors are arbitrary elements with `t1 • x = 0`, tapes and shuffles are arbitrary lists. -/

section protocol
variable {A : Type} [AddCommGroup A] [DecidableEq A]

local notation "𝔾" => GroupOps.ofAdd A

/-- `decode` returns the encrypted message whenever it is in the message space and the space is separated by g^t1 -/
theorem decode_encode (sk : PrivKey A) (space : List Nat) (m : Nat) (x : A)
    (hx : sk.t1 • x = 0) (hm : m ∈ space)
    (hinj : ∀ m' ∈ space, m' • (sk.t1 • sk.g) = m • (sk.t1 • sk.g) → m' = m) :
    decode (𝔾) sk space (encWith (𝔾) sk.g m x) = some m :=
  decode_correct sk space m x hx hm hinj

/-- `decode` over the byte message space `range(256)` (PengBaoCommitmentPrivate.MSGSPACE): correct as soon as the
    order of g^t1 exceeds 255 -/
theorem decode_encode_byte_space (sk : PrivKey A) (m : Nat) (x : A) (hx : sk.t1 • x = 0) (hm : m < 256)
    (hsep : ∀ k : Nat, 0 < k → k < 256 → k • (sk.t1 • sk.g) ≠ 0) :
    decode (𝔾) sk (List.range 256) (encWith (𝔾) sk.g m x) = some m :=
  decode_correct sk (List.range 256) m x hx (by simpa using hm) (range_space_inj _ 256 hsep m hm)

/-- `encode` on any tape yields g^m times a blinding factor of the subgroup of h -/
theorem encode_blinded (sk : PrivKey A) (H : BonehHyp sk) (m : Nat) (tape rest : List Nat) (c : A)
    (h : encode (𝔾) sk.toPubKey m tape = some (c, rest)) : ∃ x, sk.t1 • x = 0 ∧ c = m • sk.g + x := by
  unfold encode at h
  split at h
  · simp at h
  · rename_i x r hr
    simp only [Option.some.injEq, Prod.mk.injEq] at h
    exact ⟨x, randExp_blinding sk.h sk.t1 H.h_order _ _ _ hr, by rw [← h.1]; simp⟩

/-- response_is_pair_sum: the answer to the challenge on an honest bit pair (bits a0, a1; any blinding exponents
    and factors) is a0 + a1 -/
theorem response_is_pair_sum (sk : PrivKey A) (H : BonehHyp sk) (a0 a1 r0 r1 : Nat) (x0 x1 y z : A)
    (ha0 : a0 ≤ 1) (ha1 : a1 ≤ 1)
    (hx0 : sk.t1 • x0 = 0) (hx1 : sk.t1 • x1 = 0) (hy : sk.t1 • y = 0) (hz : sk.t1 • z = 0) :
    respond (𝔾) sk (challengeWith (𝔾) sk.toPubKey
      { a := encWith (𝔾) sk.g (a0 + r0) x0, b := encWith (𝔾) sk.g (a1 + r1) x1,
        complement := encWith (𝔾) sk.g (complExp sk.p r0 r1) y } z) = a0 + a1 :=
  response_pair sk H a0 a1 r0 r1 x0 x1 y z ha0 ha1 hx0 hx1 hy hz

/-- a challenge that decodes to none of 0, 1, 2 is answered 3 -/
theorem undecodable_is_three (sk : PrivKey A) (c : A)
    (h : ∀ m' ∈ [0, 1, 2], sk.t1 • c ≠ m' • (sk.t1 • sk.g)) : respond (𝔾) sk c = 3 :=
  respond_three sk c h

/-- profile_reconstructed: for the attestation `attest` produces from ANY randomness (draws, shuffles, tape), and for
    ANY list `order` of challenge positions (any subset, any order, repetitions allowed) and any verifier blinding
    `zf`, the answers are exactly the pair sums of the value's bits at those (shuffled) positions. -/
theorem profile_reconstructed (sk : PrivKey A) (H : BonehHyp sk) (value bitspace : Nat)
    (draws permR perm2 tape rest : List Nat) (bps : List (BitPair A))
    (hR : (bitsOf value bitspace).length ≤ (genModAddInv sk.p draws permR).length)
    (hatt : attest (𝔾) sk.toPubKey value bitspace draws permR perm2 tape = some (bps, rest))
    (zf : BitPair A → A) (hz : ∀ bp, sk.t1 • zf bp = 0) (order : List Nat) :
    (applyPerm order bps).map (fun bp => respond (𝔾) sk (challengeWith (𝔾) sk.toPubKey bp (zf bp)))
      = applyPerm order (applyPerm perm2 (pairSums (bitsOf value bitspace))) := by
  unfold attest at hatt
  simp only at hatt
  split at hatt
  · simp at hatt
  · rename_i xs tape1 hxs
    split at hatt
    · simp at hatt
    · rename_i ys tape2 hys
      simp only [Option.some.injEq, Prod.mk.injEq] at hatt
      obtain ⟨rfl, _⟩ := hatt
      have bx := drawMany_blinding sk.h sk.t1 H.h_order _ _ _ _ hxs
      have by' := drawMany_blinding sk.h sk.t1 H.h_order _ _ _ _ hys
      rw [← applyPerm_map, ← applyPerm_map]
      rw [mkPairs_responses sk H zf hz _ _ _ _ (bitsOf_le_one value bitspace) bx.1 by'.1 hR
        (by rw [bx.2]) (by rw [by'.2])]

/-- the aggregate only depends on how often each answer occurred: it is the histogram … -/
theorem aggregate_is_histogram (l : List Nat) :
    aggregate l = ⟨l.count 0, l.count 1, l.count 2, l.count 3⟩ := aggregate_counts l

/-- … hence independent of the order in which challenges are answered -/
theorem aggregate_order_independent {l₁ l₂ : List Nat} (h : l₁.Perm l₂) : aggregate l₁ = aggregate l₂ :=
  aggregate_perm h

/-- full round: if every position is challenged exactly once (`order` and the attestation's shuffle are permutations),
    the verifier's aggregate is the relativity map of the attested value -/
theorem full_round_aggregate (sk : PrivKey A) (H : BonehHyp sk) (value bitspace : Nat)
    (draws permR perm2 tape rest : List Nat) (bps : List (BitPair A))
    (hlen : (bitsOf value bitspace).length = bitspace)
    (hR : (bitsOf value bitspace).length ≤ (genModAddInv sk.p draws permR).length)
    (hatt : attest (𝔾) sk.toPubKey value bitspace draws permR perm2 tape = some (bps, rest))
    (zf : BitPair A → A) (hz : ∀ bp, sk.t1 • zf bp = 0) (order : List Nat)
    (hperm2 : perm2.Perm (List.range (pairSums (bitsOf value bitspace)).length))
    (horder : order.Perm (List.range (applyPerm perm2 (pairSums (bitsOf value bitspace))).length)) :
    aggregate ((applyPerm order bps).map (fun bp => respond (𝔾) sk (challengeWith (𝔾) sk.toPubKey bp (zf bp))))
      = binaryRelativity value bitspace := by
  rw [profile_reconstructed sk H value bitspace draws permR perm2 tape rest bps hR hatt zf hz order]
  unfold binaryRelativity
  rw [List.take_of_length_le (by omega)]
  exact aggregate_perm ((applyPerm_perm order _ horder).trans (applyPerm_perm perm2 _ hperm2))

end protocol

/-- true_value_scores: against its own relativity map (full round) the score is 1 − 2⁻ⁿ, n = number of answers -/
theorem true_value_scores (e : Rel) : certaintyQ e e = 1 - 1 / (2 : Rat) ^ e.total := certainty_self e

/-- other_profile_scores_zero: after a complete round (same number of pairs) every other profile scores 0 -/
theorem other_profile_scores_zero (e v : Rel) (hne : e ≠ v) (htot : e.total = v.total) : certaintyQ e v = 0 := by
  simp [certaintyQ, matchQ_other e v hne htot]

/-- partial rounds: while the observed histogram stays below the true profile the true value's score is positive
    and at most 1 − 2⁻ⁿ; as soon as it exceeds a profile in one class that profile scores 0 -/
theorem partial_round_score (e v : Rel) (h0 : v.c0 ≤ e.c0) (h1 : v.c1 ≤ e.c1) (h2 : v.c2 ≤ e.c2) (h3 : v.c3 ≤ e.c3)
    (hn : 0 < v.total) : 0 < certaintyQ e v ∧ certaintyQ e v ≤ 1 - 1 / (2 : Rat) ^ v.total := by
  have hm : matchQ e v = matchFactor e.c0 v.c0 * matchFactor e.c1 v.c1 * matchFactor e.c2 v.c2 * matchFactor e.c3 v.c3 := by
    unfold matchQ
    rw [if_neg (by omega)]
  have p0 := matchFactor_pos e.c0 v.c0
  have p1 := matchFactor_pos e.c1 v.c1
  have p2 := matchFactor_pos e.c2 v.c2
  have p3 := matchFactor_pos e.c3 v.c3
  have l0 := matchFactor_le_one e.c0 v.c0 h0
  have l1 := matchFactor_le_one e.c1 v.c1 h1
  have l2 := matchFactor_le_one e.c2 v.c2 h2
  have l3 := matchFactor_le_one e.c3 v.c3 h3
  have hpos : 0 < matchQ e v := by rw [hm]; positivity
  have hle : matchQ e v ≤ 1 := by
    rw [hm]
    have a1 : matchFactor e.c0 v.c0 * matchFactor e.c1 v.c1 ≤ 1 := mul_le_one₀ l0 p1.le l1
    have a2 : matchFactor e.c0 v.c0 * matchFactor e.c1 v.c1 * matchFactor e.c2 v.c2 ≤ 1 :=
      mul_le_one₀ a1 p2.le l2
    exact mul_le_one₀ a2 p3.le l3
  have hh : (0 : Rat) < 1 - 1 / (2 : Rat) ^ v.total := by
    have : (1 : Rat) < (2 : Rat) ^ v.total := one_lt_pow₀ (by norm_num) (by omega)
    have h2 : (0 : Rat) < (2 : Rat) ^ v.total := by positivity
    rw [sub_pos, div_lt_one h2]
    exact this
  unfold certaintyQ
  rw [halfPow_eq]
  exact ⟨mul_pos hpos hh, by nlinarith⟩

theorem exceeded_profile_scores_zero (e v : Rel) (h : e.c0 < v.c0 ∨ e.c1 < v.c1 ∨ e.c2 < v.c2 ∨ e.c3 < v.c3) :
    certaintyQ e v = 0 := by
  simp [certaintyQ, matchQ, h]

/-! ### range proof (Peng–Bao with Boudot's EL / SQR), as identities in an arbitrary commutative group with an
    arbitrary Fiat–Shamir hash -/

section range
variable {A : Type} [AddCommGroup A] [DecidableEq A]

local notation "𝔾" => GroupOps.ofAdd A

/-- EL: a proof created for commitments y1 = g1^x h1^r1, y2 = g2^x h2^r2 passes its check (any randomness, any hash) -/
theorem el_complete (hash : A → A → Int) (x r1 r2 : Int) (g1 h1 g2 h2 : A) (rnd : ELRand) :
    elCheck (𝔾) hash (elCreate (𝔾) hash x r1 r2 g1 h1 g2 h2 rnd) g1 h1 g2 h2
      (x • g1 + r1 • h1) (x • g2 + r2 • h2) = true :=
  el_complete' hash x r1 r2 g1 h1 g2 h2 _ _ rnd rfl rfl

/-- SQR: a proof created for x, r1 passes the check against y = g^(x²) h^r1 -/
theorem sqr_complete (hash : A → A → Int) (x r1 : Int) (g h : A) (r2 : Int) (rnd : ELRand) :
    sqrCheck (𝔾) hash (sqrCreate (𝔾) hash x r1 g h r2 rnd) g h ((x * x) • g + r1 • h) = true :=
  sqr_complete' hash x r1 g h _ r2 rnd rfl

/- FULL STATEMENT ("a range proof for a value inside the range is accepted", for every format): NOT true of the code —
   for a format with max ≤ 0 no attestation can be created (`inside_not_attestable_for_max_nonpos`, known finding
   `EL.create:max-not-positive`).  Proved part: every format with max ≥ 1 — for a value inside [a, b] the honest
   construction (any randomness with w ≥ 3 and a split m1, m2 ≥ 0 of mst) produces an attestation whose answers to
   every challenge s, t ≥ 1 pass the check. -/
theorem range_complete_partial (hash : A → A → Int) (g h : A) (value a b : Int) (rnd : RangeRand) (s t : Int)
    (h1 : a ≤ value) (h2 : value ≤ b) (hb : 1 ≤ b) (hw : 3 ≤ rnd.w)
    (hm1 : 0 ≤ rnd.m1) (hm2 : 0 ≤ mstOf rnd.w value a b - rnd.m1 - rnd.m4 * rnd.m4) (hs : 1 ≤ s) (ht : 1 ≤ t) :
    rangeRound (𝔾) hash g h value a b rnd s t = some true :=
  range_complete' hash g h value a b rnd s t h1 h2 hb hw hm1 hm2 hs ht

/-- NEGATION of the full statement: for a format with max ≤ 0 the construction yields nothing, also for values inside
    the range (`EL.create` computes its randomness range with `^`, which is XOR: negative for b ≤ 0) -/
theorem inside_not_attestable_for_max_nonpos (hash : A → A → Int) (g h : A) (value a b : Int) (rnd : RangeRand)
    (hb : b ≤ 0) : createAttestPair (𝔾) hash g h value a b rnd = none := by
  unfold createAttestPair
  simp only [hb, if_true]
  split
  · rfl
  · split <;> rfl

/-- outside_rejected: for a value outside the range the honest construction yields no attestation at all
    (the code raises or does not terminate), whatever the randomness -/
theorem outside_rejected (hash : A → A → Int) (g h : A) (value a b : Int) (rnd : RangeRand) (s t : Int)
    (hab : a ≤ b) (hout : value < a ∨ b < value) :
    createAttestPair (𝔾) hash g h value a b rnd = none ∧ rangeRound (𝔾) hash g h value a b rnd s t = none := by
  have := create_outside_none hash g h value a b rnd hab hout
  exact ⟨this, by unfold rangeRound; rw [this]⟩

/- FULL STATEMENT the property text suggests (NOT provable, refuted by `outside_accepted_by_order_shift` below):
     "whatever a prover does, a proof for a value outside [a, b] is rejected".
   Proved part: provers that follow the algebra with an INTEGER split m1 + m2 + m3 = mst ≤ 0 (m3 a square, hence ≥ 0)
   fail the positivity test for every challenge s, t ≥ 1.  What is missing: splits that satisfy the equation only
   modulo the order of g (a prover who owns the key knows that order). -/
theorem outside_integer_split_rejected_partial (hash : A → A → Int) (g h : A) (pd : RangePublic A) (pv : RangePriv)
    (w value a b s t : Int) (hab : a ≤ b) (hout : value < a ∨ b < value)
    (hsum : pv.m1 + pv.m2 + pv.m3 = mstOf w value a b) (h3 : 0 ≤ pv.m3) (hs : 1 ≤ s) (ht : 1 ≤ t) :
    rangeCheck (𝔾) hash g h pd a b s t (pv.response s t).1 (pv.response s t).2.1 (pv.response s t).2.2.1
      (pv.response s t).2.2.2 = false := by
  apply rangeCheck_nonpos
  exact answers_nonpos pv.m1 pv.m2 pv.m3 _ s t hsum (mst_nonpos_outside w value a b hab hout) h3 hs ht

/-- NEGATION of the full statement (known finding `…outside-accepted:prover-knows-group-order`): a prover who knows a
    multiple n of the order of g and shifts m2 by K·n passes the check for ANY value — inside or outside [a, b] — as
    soon as both answers are positive (always achievable: choose K large). -/
theorem outside_accepted_by_order_shift (hash : A → A → Int) (g h : A) (n K value a b : Int) (rnd : RangeRand)
    (s t : Int) (hn : n • g = 0)
    (hx : 0 < s * rnd.m1 + (mstOf rnd.w value a b - rnd.m1 - rnd.m4 * rnd.m4 + K * n) + rnd.m4 * rnd.m4)
    (hy : 0 < rnd.m1 + t * (mstOf rnd.w value a b - rnd.m1 - rnd.m4 * rnd.m4 + K * n) + rnd.m4 * rnd.m4) :
    cheatRound (𝔾) hash g h value a b rnd (mstOf rnd.w value a b - rnd.m1 - rnd.m4 * rnd.m4 + K * n) s t = true :=
  order_shift_accepted' hash g h n K value a b rnd s t hn hx hy

end range

/-! ### the verifier's range is bound by the proof (prover's and verifier's ranges are independent arguments) -/

section bounds
variable {A : Type} [AddCommGroup A] [DecidableEq A]

local notation "𝔾" => GroupOps.ofAdd A

/-- a proof honestly built for [a, b] (any value, any randomness) that passes the check of a verifier whose format
    says [a', b'] (any challenge, any answers): a ≡ a' and b ≡ b' modulo the order of g -/
theorem accepted_binds_verifier_range (hash : A → A → Int) (g h : A) (value a b : Int) (rnd : RangeRand)
    (pd : RangePublic A) (pv : RangePriv)
    (hc : createAttestPair (𝔾) hash g h value a b rnd = some (pd, pv))
    (a' b' s t x y u v : Int) (hacc : rangeCheck (𝔾) hash g h pd a' b' s t x y u v = true) :
    (a - a') • g = 0 ∧ (b - b') • g = 0 :=
  honest_accept_binds hash g h value a b rnd pd pv hc a' b' s t x y u v hacc

/-- … hence, when g has order n and the bounds differ by less than n, the verifier's range IS the prover's range -/
theorem accepted_only_for_own_range (hash : A → A → Int) (g h : A) (n : Nat)
    (hord : ∀ k : Int, k • g = 0 → (n : Int) ∣ k) (value a b : Int) (rnd : RangeRand)
    (pd : RangePublic A) (pv : RangePriv)
    (hc : createAttestPair (𝔾) hash g h value a b rnd = some (pd, pv))
    (a' b' s t x y u v : Int) (ha : |a - a'| < (n : Int)) (hb : |b - b'| < (n : Int))
    (hacc : rangeCheck (𝔾) hash g h pd a' b' s t x y u v = true) : a = a' ∧ b = b' := by
  have := honest_accept_binds hash g h value a b rnd pd pv hc a' b' s t x y u v hacc
  exact ⟨eq_of_order g n hord a a' this.1 ha, eq_of_order g n hord b b' this.2 hb⟩

/-- for ANY public data (not only honest ones): it cannot pass the check for two different ranges -/
theorem one_proof_one_range (hash : A → A → Int) (g h : A) (pd : RangePublic A)
    (a b s t x y u v a' b' s' t' x' y' u' v' : Int)
    (h1 : rangeCheck (𝔾) hash g h pd a b s t x y u v = true)
    (h2 : rangeCheck (𝔾) hash g h pd a' b' s' t' x' y' u' v' = true) :
    (a - a') • g = 0 ∧ (b - b') • g = 0 :=
  accept_two_ranges hash g h pd a b s t x y u v a' b' s' t' x' y' u' v' h1 h2

end bounds

/-! ### the verifier's bookkeeping (wallet/community.py): every answer is counted at most once, whatever the network does

  `VState.run n evs` is the verifier's state after ANY sequence of events (arrival of a challenge-response datagram
  for any challenge id with any answer, time-out of any pending challenge): duplicated, re-ordered, lost, late and
  unsolicited datagrams are all event sequences. -/

/-- the aggregate is the histogram of the counted answers, the counted challenges are DISTINCT real challenges that
    are no longer outstanding, and every real challenge is outstanding, counted, or was consumed by an answer byte
    above 3 (the handler is left by a KeyError after the pending cache and the challenge were removed) -/
theorem verifier_counts_each_challenge_once (n : Nat) (evs : List VEvent) :
    let s := VState.run n evs
    s.relmap = aggregate (s.log.map Prod.snd) ∧ (s.log.map Prod.fst).Nodup
      ∧ (∀ id ∈ s.log.map Prod.fst, id < n ∧ id ∉ s.unanswered)
      ∧ (∀ id, id < n → id ∈ s.unanswered ∨ id ∈ s.log.map Prod.fst ∨ id ∈ s.dropped) := by
  intro s
  have h := inv_run n evs
  have hn := run_n n evs
  exact ⟨h.rel, h.log_nodup, fun id hid => by rw [← hn]; exact h.log_lt id hid,
    fun id hid => h.cover id (by rw [hn]; exact hid)⟩

/-- honest prover (the answer to challenge id is always `ans id ≤ 3`), any schedule: no challenge is lost, and the
    aggregate is the histogram of `ans` over the distinct counted challenges … -/
theorem verifier_aggregate_any_schedule (ans : Nat → Nat) (hans : ∀ id, ans id ≤ 3) (n : Nat) (evs : List VEvent)
    (hon : ∀ id r h, VEvent.response id r h ∈ evs → id < n → r = ans id) :
    (VState.run n evs).dropped = [] ∧
    (VState.run n evs).relmap = aggregate (((VState.run n evs).log.map Prod.fst).map ans) := by
  have g := good_run ans hans n evs hon
  exact ⟨g.nodrop, relmap_of_honest ans _ g.inv g.honest⟩

/-- … and every aggregate the completion callback ever receives is the complete profile (or the empty map of the
    failed-honesty-check path): duplicates can neither inflate a class nor complete the round early -/
theorem verifier_completion_is_full_profile (ans : Nat → Nat) (hans : ∀ id, ans id ≤ 3) (n : Nat)
    (evs : List VEvent) (hon : ∀ id r h, VEvent.response id r h ∈ evs → id < n → r = ans id) :
    ∀ c ∈ (VState.run n evs).completions, c = Rel.empty ∨ c = aggregate ((List.range n).map ans) := by
  have g := good_run ans hans n evs hon
  have hn := run_n n evs
  intro c hc
  have := g.done c hc
  rwa [hn] at this

/-- a wrong answer to a honesty check (known plaintext hc, answer r ≠ hc) makes the verifier report the empty
    aggregate: every value then scores 0 -/
theorem failed_honesty_check_reports_empty (s : VState) (id r : Nat) (hc : Int) (h0 : 0 ≤ hc) (hne : (r : Int) ≠ hc) :
    (s.afterAnswer id r hc).1.liar = true ∧ Rel.empty ∈ (s.afterAnswer id r hc).1.completions
      ∧ ∀ e : Rel, certaintyQ e Rel.empty = 0 := by
  have hn : ¬ hc < 0 := by omega
  refine ⟨by simp [VState.afterAnswer, hn, hne], by simp [VState.afterAnswer, hn, hne], ?_⟩
  intro e
  simp [certaintyQ, Rel.empty, Rel.total, halfPow]

/-- non-vacuity: two challenges, the answer to challenge 0 delivered three times, then challenge 1 -/
example : (VState.run 2 [.response 0 1 none, .response 0 1 none, .response 0 1 (some 2), .response 1 2 none]).completions
    = [⟨0, 1, 1, 0⟩] := by decide

/-! ### non-vacuity: a toy key over ℤ/15 (n = 15 = 3·5, t1 = 3, p = 29 ≡ 2 mod 3, g = 1, h = 5) satisfies the
    hypotheses, and the concrete model functions run on it -/

def toyKey : PrivKey (ZMod 15) := { p := 29, g := 1, h := 5, n := 15, t1 := 3 }

example : BonehHyp toyKey := by
  refine ⟨?_, ?_, ?_, ?_⟩ <;> simp [toyKey] <;> decide

example : respond (GroupOps.ofAdd (ZMod 15)) toyKey
    (challengeWith (GroupOps.ofAdd (ZMod 15)) toyKey.toPubKey
      { a := encWith (GroupOps.ofAdd (ZMod 15)) toyKey.g (1 + 7) 5,
        b := encWith (GroupOps.ofAdd (ZMod 15)) toyKey.g (1 + 20) 10,
        complement := encWith (GroupOps.ofAdd (ZMod 15)) toyKey.g (complExp toyKey.p 7 20) 5 } 10) = 1 + 1 :=
  response_is_pair_sum toyKey (by refine ⟨?_, ?_, ?_, ?_⟩ <;> simp [toyKey] <;> decide) 1 1 7 20 5 10 5 10
    (by decide) (by decide) (by decide) (by decide) (by decide) (by decide)

example : certaintyQ ⟨4, 7, 5, 0⟩ ⟨4, 7, 5, 0⟩ = 1 - 1 / (2 : Rat) ^ 16 := true_value_scores _
example : certaintyQ ⟨5, 6, 5, 0⟩ ⟨4, 7, 5, 0⟩ = 0 := other_profile_scores_zero _ _ (by decide) (by decide)

/-- the range theorems' hypotheses are satisfiable: value 20 in [18, 30], w = 5 -/
example : rangeRound (GroupOps.ofAdd (ZMod 15)) (fun _ _ => 7) 1 5 20 18 30
    ⟨2, 3, 4, 5, 6, 100, 11, 12, ⟨1, 2, 3⟩, 4, ⟨5, 6, 7⟩, 8, ⟨9, 10, 11⟩⟩ 40000 50000 = some true :=
  range_complete_partial _ _ _ _ _ _ _ _ _ (by decide) (by decide) (by decide) (by decide) (by decide) (by decide)
    (by decide) (by decide)


/-- concrete witness of the known finding: value 5 outside [18, 20], g = 1 of order 15 in ℤ/15, m2 shifted by 40·15 -/
example : cheatRound (GroupOps.ofAdd (ZMod 15)) (fun _ _ => 7) 1 5 5 18 20
    ⟨2, 3, 4, 1, 1, 1, 11, 12, ⟨1, 2, 3⟩, 4, ⟨5, 6, 7⟩, 8, ⟨9, 10, 11⟩⟩
    (mstOf 1 5 18 20 - 1 - 1 * 1 + 40 * 15) 40000 50000 = true :=
  outside_accepted_by_order_shift _ 1 5 15 40 5 18 20 _ 40000 50000 (by decide) (by decide) (by decide)


/-- non-vacuity of the decode and serialisation theorems -/
example : decode (GroupOps.ofAdd (ZMod 15)) toyKey [0, 1, 2] (encWith (GroupOps.ofAdd (ZMod 15)) toyKey.g 2 5) = some 2 :=
  decode_encode toyKey [0, 1, 2] 2 5 (by decide) (by simp)
    (small_inj toyKey (by refine ⟨?_, ?_, ?_, ?_⟩ <;> simp [toyKey] <;> decide) 2 (by decide))

example : KeyInts.unserialize ((⟨29, 3, 4, 5, 6⟩ : KeyInts).serialize ++ [9]) = some (⟨29, 3, 4, 5, 6⟩, [9]) :=
  public_key_roundtrip _ _ (packable_of_lt _ (by norm_num)) (packable_of_lt _ (by norm_num))
    (packable_of_lt _ (by norm_num)) (packable_of_lt _ (by norm_num)) (packable_of_lt _ (by norm_num))
    (by decide) (by decide) (by decide) (by decide)


/-! ### issuance: outstanding attestation requests (wallet/community.py request_attestation / on_attestation_chunk)

  For EVERY sequence of chunk arrivals (interleaved, re-ordered, duplicated transfers of several attestations requested
  at the same time) from an honest attester — the chunks sent for the request with global time gt belong to the
  attestation `att gt` made for that request's public key — every attestation is stored with the fresh key of the
  request it answers. -/
theorem attestation_stored_with_its_own_key (reqs : List (Nat × Nat)) (att : Nat → Nat)
    (evs : List (Nat × Nat × Nat × Nat)) (hon : ∀ e ∈ evs, e.2.1 = att e.1) :
    ∀ p ∈ (runChunks reqs evs).stored, ∃ gt, (gt, p.2) ∈ reqs ∧ p.1 = att gt :=
  (reqInv_run reqs att evs hon).bound

/-- every challenge the verifier of the range format can draw is answered honestly by the prover.  Both tests
    (`verifierRedraws` from `_safe_rndint`, `proverRefuses` from `create_challenge_response`) are GENERATED from
    algorithm.py on every run, so the theorem is re-proved against the two code sites as they are now -/
theorem challenge_threshold_consistent (large s t : Int) (hs : verifierAccepts large s = true)
    (ht : verifierAccepts large t = true) : proverAnswersHonestly large s t = true := by
  simp only [verifierAccepts, proverAnswersHonestly, verifierRedraws, proverRefuses, Bool.not_eq_true',
    decide_eq_false_iff_not, Bool.or_eq_false_iff, Bool.and_eq_false_iff, Bool.or_eq_true, Bool.and_eq_true,
    decide_eq_true_eq] at *
  omega

/-- … and the generator does accept its own threshold (the hypotheses are satisfiable at the boundary) -/
example : verifierAccepts largeInteger largeInteger = true ∧ proverAnswersHonestly largeInteger largeInteger largeInteger = true := by
  decide

/-- two requests answered in reverse order with interleaved chunks: each attestation gets its own key -/
example : (runChunks [(1, 100), (2, 200)] [(2, 8, 0, 2), (1, 7, 1, 2), (2, 8, 0, 2), (1, 7, 0, 2), (2, 8, 1, 2)]).stored
    = [(7, 100), (8, 200)] := by decide


/-- the verifier's report for a list of reference values (repeats allowed, any order): as many rows as references, and
    row i is the i-th reference value with ITS OWN score — so in a complete round every listed value with another
    profile is reported with 0 and the attested one with 1 − 2⁻ⁿ, wherever and however often it is listed -/
theorem report_rows_aligned {α : Type} (refs : List α) (score : α → Rat) :
    (reportRows refs score).length = refs.length ∧
      ∀ i (h : i < refs.length), (reportRows refs score)[i]? = some (refs[i], score refs[i]) := by
  refine ⟨by simp [reportRows], ?_⟩
  intro i h
  simp [reportRows, List.getElem?_zip_eq_some, h]

example : reportRows [1, 1, 2] (fun v => if v = 1 then (7 : Rat) else 0) = [(1, 7), (1, 7), (2, 0)] := by
  simp [reportRows]

end Ipv8.C18
