/-
  C18 — property theorems (field arithmetic part).
  Every `theorem` in this file is an obligation of the check; helper lemmas live in Lemmas.lean.

  The operations `FP2.add/sub/mul/div/inv/wpNum` are GENERATED from value.py on every run, so these theorems
  are re-proved against what the code says now.  `R` is an arbitrary commutative ring, hence every `ZMod p`
  ("all operands and all moduli, symbolically").  A value (a + bx + cx²)/(aC + bCx + cCx²) mod (x²+x+1) denotes
  the fraction `num v / den v` in R[ω]/(ω²+ω+1); each law says the code computes the fraction-arithmetic result.
-/
import Ipv8.C18.Lemmas

namespace Ipv8.C18
open Ipv8 FP2

variable {R : Type} [CommRing R]

/-- `__add__`: n₁/d₁ + n₂/d₂ = (n₁d₂ + n₂d₁)/(d₁d₂) -/
theorem add_num (s o : FP2 R) : (add s o).num = s.num * o.den + o.num * s.den := by
  ext <;> simp [add, num, den] <;> ring
theorem add_den (s o : FP2 R) : (add s o).den = s.den * o.den := by
  ext <;> simp [add, den] <;> ring

/-- `__sub__` -/
theorem sub_num (s o : FP2 R) : (sub s o).num = s.num * o.den - o.num * s.den := by
  ext <;> simp [sub, num, den] <;> ring
theorem sub_den (s o : FP2 R) : (sub s o).den = s.den * o.den := by
  ext <;> simp [sub, den] <;> ring

/-- `__mul__` -/
theorem mul_num (s o : FP2 R) : (mul s o).num = s.num * o.num := mul_num' s o
theorem mul_den (s o : FP2 R) : (mul s o).den = s.den * o.den := mul_den' s o

/-- `__floordiv__` -/
theorem div_num (s o : FP2 R) : (div s o).num = s.num * o.den := by
  ext <;> simp [div, num, den] <;> ring
theorem div_den (s o : FP2 R) : (div s o).den = s.den * o.num := by
  ext <;> simp [div, num, den] <;> ring

/-- `inverse` swaps numerator and denominator -/
theorem inv_num (s : FP2 R) : (inv s).num = s.den := by
  ext <;> simp [inv, num, den]
theorem inv_den (s : FP2 R) : (inv s).den = s.num := by
  ext <;> simp [inv, num, den]

/-- `(a + b) − b = a` as fractions (cross-multiplied), for all operands -/
theorem add_sub_cancel_cross (s o : FP2 R) :
    (sub (add s o) o).num * s.den = s.num * (sub (add s o) o).den := by
  rw [sub_num, sub_den, add_num, add_den]; ring

/-- `intpow` (non-negative power): square-and-multiply computes the n-th power of the fraction -/
theorem intpow_num (v : FP2 R) (n : Nat) : (intpowNat v n).num = v.num ^ n := by
  simp [intpowNat, intpowLoop_num, one_num]
theorem intpow_den (v : FP2 R) (n : Nat) : (intpowNat v n).den = v.den ^ n := by
  simp [intpowNat, intpowLoop_den, one_den]

/-- non-vacuity: the laws are used at a concrete value with general denominators -/
example : (add (⟨3, 4, 0, 5, 6, 0⟩ : FP2 Int) ⟨7, 8, 0, 9, 10, 0⟩).den
    = (⟨5, 6, 0, 5, 6, 0⟩ : FP2 Int).num * (⟨9, 10, 0, 9, 10, 0⟩ : FP2 Int).num := by decide

end Ipv8.C18
