/-
  C18 model, protocol part (core Lean only, executable, used by the driver).

  Mirrors
    primitives/boneh.py        get_random_exponentiation, encode, decode
    bonehexact/attestation.py  attest, binary_relativity, binary_relativity_match, binary_relativity_certainty,
                               create_challenge, create_challenge_response, process_challenge_response
    bonehexact/structs.py      BitPairAttestation.compress

  Everything is written against an explicit record of group operations `GroupOps G`, so that the *same* functions are
    * run by the driver at  G := FP2 Int  with the integer-level operations of Model.lean (exactly what CPython computes,
      compared with the real code on recorded randomness), and
    * reasoned about in Props.lean at  G := any commutative group  (`GroupOps.ofGroup`, Lemmas.lean).
  Randomness is an explicit input: a "tape" of the integers the code draws with `randint`, in drawing order.
-/
import Ipv8.C18.Model

namespace Ipv8.C18

structure GroupOps (G : Type) where
  mul : G → G → G
  div : G → G → G
  one : G
  inv : G → G
  eq  : G → G → Bool

namespace GroupOps
variable {G : Type} (o : GroupOps G)

/-- the `while n > 0` loop of `FP2Value.intpow` (square and multiply) -/
def powLoop (acc u : G) (n : Nat) : G :=
  if h : n = 0 then acc
  else powLoop (if n % 2 = 1 then o.mul acc u else acc) (o.mul u u) (n / 2)
termination_by n
decreasing_by omega

def powNat (x : G) (n : Nat) : G := o.powLoop o.one x n

/-- `x.intpow(k)` for any integer k (`R.inverse().normalize() if power < 0 else R`) -/
def pow (x : G) (k : Int) : G :=
  if k < 0 then o.inv (o.powNat x k.natAbs) else o.powNat x k.natAbs

end GroupOps

/-- the operations CPython performs on FP2Value objects modulo p -/
def fp2Ops (p : Int) : GroupOps (FP2 Int) where
  mul := mulP p
  div := divP p
  one := modP p FP2.one
  inv := fun v => normalizeP p (invP p v)
  eq := eqP p

/-! ### Boneh 2-DNF scheme -/

structure PubKey (G : Type) where
  p : Nat
  g : G
  h : G

structure PrivKey (G : Type) extends PubKey G where
  n : Nat
  t1 : Nat

section
variable {G : Type} (o : GroupOps G)

/-- `get_random_exponentiation(h, n)`: draw r until h^r ≠ 1; returns the factor and the rest of the tape
    (`none` = the tape ran out, i.e. not a recorded run) -/
def randExp (h : G) : List Nat → Option (G × List Nat)
  | [] => none
  | r :: rest =>
    let t := o.powNat h r
    if o.eq t o.one then randExp h rest else some (t, rest)

/-- the deterministic part of `encode`: g^m · x for a blinding factor x -/
def encWith (g : G) (m : Nat) (x : G) : G := o.mul (o.powNat g m) x

/-- `encode(PK, m)` on a tape -/
def encode (pk : PubKey G) (m : Nat) (tape : List Nat) : Option (G × List Nat) :=
  match randExp o pk.h tape with
  | none => none
  | some (x, rest) => some (encWith o pk.g m x, rest)

/-- k blinding factors in drawing order -/
def drawMany (h : G) : Nat → List Nat → Option (List G × List Nat)
  | 0, tape => some ([], tape)
  | k + 1, tape =>
    match randExp o h tape with
    | none => none
    | some (x, rest) =>
      match drawMany h k rest with
      | none => none
      | some (xs, rest') => some (x :: xs, rest')

/-- `decode(SK, msgspace, c)` -/
def decode (sk : PrivKey G) (msgspace : List Nat) (c : G) : Option Nat :=
  let d := o.powNat c sk.t1
  let t := o.powNat sk.g sk.t1
  msgspace.find? (fun m => o.eq d (o.powNat t m))

end

/-! ### bits and relativity maps -/

def binDigitsAux (n : Nat) (acc : List Nat) : List Nat :=
  if h : n = 0 then acc else binDigitsAux (n / 2) ((n % 2) :: acc)
termination_by n
decreasing_by omega

/-- `[int(c) for c in str(bin(value))[2:]]` -/
def binDigits (n : Nat) : List Nat := if n = 0 then [0] else binDigitsAux n []

/-- … padded with leading zeros up to `bitspace` -/
def bitsOf (value bitspace : Nat) : List Nat :=
  let d := binDigits value
  List.replicate (bitspace - d.length) 0 ++ d

/-- sums of consecutive pairs (an odd last element is dropped, as `range(0, len - 1, 2)` does) -/
def pairSums : List Nat → List Nat
  | a0 :: a1 :: rest => (a0 + a1) :: pairSums rest
  | _ => []

/-- a relativity map {0: c0, 1: c1, 2: c2, 3: c3} -/
structure Rel where
  c0 : Nat
  c1 : Nat
  c2 : Nat
  c3 : Nat
deriving DecidableEq, Repr

namespace Rel
/-- `create_empty_relativity_map` -/
def empty : Rel := ⟨0, 0, 0, 0⟩

def get (r : Rel) : Nat → Nat
  | 0 => r.c0 | 1 => r.c1 | 2 => r.c2 | 3 => r.c3 | _ => 0

/-- `process_challenge_response`: relativity_map[response] += 1 (responses are 0..3; anything else is a KeyError
    in Python and leaves the map unchanged here) -/
def bump (r : Rel) : Nat → Rel
  | 0 => { r with c0 := r.c0 + 1 }
  | 1 => { r with c1 := r.c1 + 1 }
  | 2 => { r with c2 := r.c2 + 1 }
  | 3 => { r with c3 := r.c3 + 1 }
  | _ => r

def total (r : Rel) : Nat := r.c0 + r.c1 + r.c2 + r.c3
end Rel

/-- the verifier's aggregate after the given responses, in arrival order -/
def aggregate (responses : List Nat) : Rel := responses.foldl Rel.bump Rel.empty

/-- `binary_relativity(value, bitspace)` -/
def binaryRelativity (value bitspace : Nat) : Rel :=
  aggregate (pairSums ((bitsOf value bitspace).take bitspace))

/-- one factor of `binary_relativity_match` -/
def matchFactor (e v : Nat) : Rat := if e = 0 ∨ v = 0 then 1 else (v : Rat) / (e : Rat)

/-- `binary_relativity_match(expected, value)` over the rationals (the code returns 0.0 as soon as one expected
    count is below the observed one; otherwise the product of the non-trivial ratios) -/
def matchQ (e v : Rel) : Rat :=
  if e.c0 < v.c0 ∨ e.c1 < v.c1 ∨ e.c2 < v.c2 ∨ e.c3 < v.c3 then 0
  else matchFactor e.c0 v.c0 * matchFactor e.c1 v.c1 * matchFactor e.c2 v.c2 * matchFactor e.c3 v.c3

/-- 0.5 ** n -/
def halfPow : Nat → Rat
  | 0 => 1
  | n + 1 => halfPow n / 2

/-- `binary_relativity_certainty(expected, value)` -/
def certaintyQ (e v : Rel) : Rat := matchQ e v * (1 - halfPow v.total)

/-! ### bit-pair attestation -/

structure BitPair (G : Type) where
  a : G
  b : G
  complement : G

section
variable {G : Type} (o : GroupOps G)

/-- `BitPairAttestation.compress` -/
def BitPair.compress (bp : BitPair G) : G := o.mul (o.mul bp.a bp.b) bp.complement

/-- exponent of the complement: `PK.p - ((R[i] + R[i+1]) % (PK.p + 1)) + 1` -/
def complExp (p r0 r1 : Nat) : Nat := p - ((r0 + r1) % (p + 1)) + 1

/-- the bit pairs in bit order, given bits A, blinding exponents R, and the blinding factors of the public (xs, one
    per bit) and private (ys, one per pair) encodings -/
def mkPairs (pk : PubKey G) : List Nat → List Nat → List G → List G → List (BitPair G)
  | a0 :: a1 :: as, r0 :: r1 :: rs, x0 :: x1 :: xs, y :: ys =>
    { a := encWith o pk.g (a0 + r0) x0, b := encWith o pk.g (a1 + r1) x1,
      complement := encWith o pk.g (complExp pk.p r0 r1) y } :: mkPairs pk as rs xs ys
  | _, _, _, _ => []

/-- `random.shuffle` with a recorded outcome: new[i] = old[perm[i]] -/
def applyPerm {α : Type} (perm : List Nat) (xs : List α) : List α :=
  perm.filterMap (fun i => xs[i]?)

/-- `generate_modular_additive_inverse(p, n)` given the n-1 draws and the recorded shuffle -/
def genModAddInv (p : Nat) (draws : List Nat) (perm : List Nat) : List Nat :=
  applyPerm perm (draws ++ [p - (draws.sum % (p + 1)) + 1])

/-- `attest(PK, value, bitspace)`.
    `draws`/`permR`: randomness of generate_modular_additive_inverse; `perm2`: the shuffle of `out_private`;
    `tape`: the `randint` draws of the 3·bitspace/2 `encode` calls, in order.
    (The intermediate shuffle of `t_out_public` only moves entries that are looked up again through `shuffle_map`;
    it has no effect on the result and is not modelled; the correspondence run compares whole attestations.) -/
def attest (pk : PubKey G) (value bitspace : Nat) (draws permR perm2 tape : List Nat) :
    Option (List (BitPair G) × List Nat) :=
  let A := bitsOf value bitspace
  let R := genModAddInv pk.p draws permR
  match drawMany o pk.h A.length tape with
  | none => none
  | some (xs, tape1) =>
    match drawMany o pk.h (A.length / 2) tape1 with
    | none => none
    | some (ys, tape2) => some (applyPerm perm2 (mkPairs o pk A R xs ys), tape2)

/-- `create_challenge(PK, bitpair)` = compress · encode(PK, 0), with blinding factor z -/
def challengeWith (pk : PubKey G) (bp : BitPair G) (z : G) : G :=
  o.mul (bp.compress o) (encWith o pk.g 0 z)

def createChallenge (pk : PubKey G) (bp : BitPair G) (tape : List Nat) : Option (G × List Nat) :=
  match encode o pk 0 tape with
  | none => none
  | some (e, rest) => some (o.mul (bp.compress o) e, rest)

/-- `create_challenge_response(SK, challenge)` -/
def respond (sk : PrivKey G) (challenge : G) : Nat :=
  match decode o sk [0, 1, 2] challenge with
  | some m => m
  | none => 3

end
end Ipv8.C18
