/-
  C18 model, range-proof part: data structures (core Lean only).
-/
import Ipv8.C18.Proto

namespace Ipv8.C18

structure ELProof where
  c : Int
  D : Int
  D1 : Int
  D2 : Int
deriving DecidableEq, Repr

structure SQRProof (G : Type) where
  F : G
  el : ELProof

/-- randomness of one EL.create -/
structure ELRand where
  w : Int
  n1 : Int
  n2 : Int

structure Commitment (G : Type) where
  c : G
  c1 : G
  c2 : G
  ca : G
  ca1 : G
  ca2 : G
  ca3 : G
  caa : G

structure RangePriv where
  m1 : Int
  m2 : Int
  m3 : Int
  r1 : Int
  r2 : Int
  r3 : Int
deriving DecidableEq, Repr

structure RangePublic (G : Type) where
  com : Commitment G
  el : ELProof
  sqr1 : SQRProof G
  sqr2 : SQRProof G

/-- the values `create_attest_pair` draws (accepted draws of the rejection loops) -/
structure RangeRand where
  r : Int
  ra : Int
  raa0 : Int      -- raa = raa0 * raa0
  w : Int
  m4 : Int
  m1 : Int
  r1 : Int
  r2 : Int
  el : ELRand
  sq1r2 : Int
  sq1 : ELRand
  sq2r2 : Int
  sq2 : ELRand

/-- `mst = w2 * (value - a + 1) * (b - value + 1)` -/
def mstOf (w value a b : Int) : Int := w * w * (value - a + 1) * (b - value + 1)

end Ipv8.C18
