/- helper lemmas for the verifier bookkeeping model (proof side) -/
import Ipv8.C18.Verifier
import Ipv8.C18.LemmasProto
import Mathlib.Data.List.Perm.Basic
import Mathlib.Data.List.Nodup
namespace Ipv8.C18
open VState

/-- the invariant of the verifier's bookkeeping, on the components that matter -/
structure Inv5 (n : Nat) (un : List Nat) (pend : List (Nat × Int)) (rel : Rel) (log : List (Nat × Nat))
    (drop : List Nat) : Prop where
  un_nodup : un.Nodup
  un_lt : ∀ id ∈ un, id < n
  pend : ∀ e ∈ pend, (e.2 < 0 → e.1 ∈ un) ∧ (0 ≤ e.2 → n ≤ e.1)
  rel : rel = aggregate (log.map Prod.snd)
  log_nodup : (log.map Prod.fst).Nodup
  log_lt : ∀ id ∈ log.map Prod.fst, id < n ∧ id ∉ un
  cover : ∀ id, id < n → id ∈ un ∨ id ∈ log.map Prod.fst ∨ id ∈ drop

def VInv (s : VState) : Prop := Inv5 s.n s.unanswered s.pending s.relmap s.log s.dropped

theorem aggregate_snoc (l : List Nat) (r : Nat) : aggregate (l ++ [r]) = (aggregate l).bump r := by
  simp [aggregate, List.foldl_append]

theorem inv_init (n : Nat) : VInv (init n) := by
  refine ⟨List.nodup_range, ?_, ?_, rfl, by simp [init], by simp [init], ?_⟩
  · intro id h; simpa [init] using h
  · intro e he
    simp only [init, List.mem_map] at he
    obtain ⟨i, hi, rfl⟩ := he
    exact ⟨fun _ => List.mem_of_mem_take hi, fun h => absurd h (by simp)⟩
  · intro id h; left; simpa [init] using h

theorem inv_sendNext (s : VState) (h : VInv s) (honesty : Option Nat) : VInv (s.sendNext honesty) := by
  unfold sendNext
  cases honesty with
  | some v =>
    refine ⟨h.un_nodup, h.un_lt, ?_, h.rel, h.log_nodup, h.log_lt, h.cover⟩
    intro e he
    simp only [List.mem_append, List.mem_singleton] at he
    rcases he with he | rfl
    · exact h.pend e he
    · exact ⟨fun hv => absurd hv (by simp), fun _ => Nat.le_add_right _ _⟩
  | none =>
    simp only
    split
    · exact h
    · rename_i c hc
      refine ⟨h.un_nodup, h.un_lt, ?_, h.rel, h.log_nodup, h.log_lt, h.cover⟩
      intro e he
      simp only [List.mem_append, List.mem_singleton] at he
      rcases he with he | rfl
      · exact h.pend e he
      · exact ⟨fun _ => List.mem_of_find?_eq_some hc, fun hv => absurd hv (by simp)⟩

theorem inv_onTimeout (s : VState) (h : VInv s) (id : Nat) : VInv (s.onTimeout id) := by
  refine ⟨h.un_nodup, h.un_lt, ?_, h.rel, h.log_nodup, h.log_lt, h.cover⟩
  intro e he
  exact h.pend e (List.mem_of_mem_filter he)

/-- completions / liar do not matter for the invariant -/
theorem inv_congr {s s' : VState} (h : VInv s) (h1 : s'.n = s.n) (h2 : s'.unanswered = s.unanswered)
    (h3 : s'.pending = s.pending) (h4 : s'.relmap = s.relmap) (h5 : s'.log = s.log)
    (h6 : s'.dropped = s.dropped) : VInv s' := by
  unfold VInv; rw [h1, h2, h3, h4, h5, h6]; exact h

theorem inv_afterAnswer (s : VState) (h : VInv s) (id' r : Nat) (hc : Int) (hmem : (id', hc) ∈ s.pending) :
    VInv (s.afterAnswer id' r hc).1 := by
  have hp := h.pend _ hmem
  unfold afterAnswer
  simp only []
  by_cases hneg : hc < 0
  · rw [if_pos hneg]
    have hin : id' ∈ s.unanswered := hp.1 hneg
    have hnl : id' ∉ s.log.map Prod.fst := fun hl => (h.log_lt _ hl).2 hin
    have hpend : ∀ e ∈ s.pending.filter (fun e => e.1 != id'),
        (e.2 < 0 → e.1 ∈ s.unanswered.erase id') ∧ (0 ≤ e.2 → s.n ≤ e.1) := by
      intro e he
      have he' := List.mem_filter.mp he
      have hne : e.1 ≠ id' := by simpa using he'.2
      exact ⟨fun hv => (List.mem_erase_of_ne hne).mpr ((h.pend e he'.1).1 hv), (h.pend e he'.1).2⟩
    by_cases hr : r ≤ 3
    · rw [if_pos hr]
      refine ⟨h.un_nodup.erase _, fun x hx => h.un_lt x (List.mem_of_mem_erase hx), hpend, ?_, ?_, ?_, ?_⟩
      · show s.relmap.bump r = aggregate ((s.log ++ [(id', r)]).map Prod.snd)
        rw [List.map_append, List.map_singleton, aggregate_snoc, ← h.rel]
      · show ((s.log ++ [(id', r)]).map Prod.fst).Nodup
        rw [List.map_append, List.map_singleton]
        exact List.Nodup.append h.log_nodup (List.nodup_singleton _) (by
          intro a ha hb
          simp only [List.mem_singleton] at hb
          exact hnl (hb ▸ ha))
      · intro x hx
        have hx' : x ∈ s.log.map Prod.fst ∨ x = id' := by
          simpa [List.map_append] using hx
        rcases hx' with hx' | rfl
        · exact ⟨(h.log_lt x hx').1, fun hm => (h.log_lt x hx').2 (List.mem_of_mem_erase hm)⟩
        · exact ⟨h.un_lt _ hin, fun hm => ((List.Nodup.mem_erase_iff h.un_nodup).mp hm).1 rfl⟩
      · intro x hx
        by_cases hxe : x = id'
        · right; left; subst hxe; simp [List.map_append]
        · rcases h.cover x hx with hu | hl | hd
          · left; exact (List.mem_erase_of_ne hxe).mpr hu
          · right; left; simp only [List.map_append, List.mem_append]; left; exact hl
          · right; right; exact hd
    · rw [if_neg hr]
      refine ⟨h.un_nodup.erase _, fun x hx => h.un_lt x (List.mem_of_mem_erase hx), hpend, h.rel, h.log_nodup,
        ?_, ?_⟩
      · intro x hx
        exact ⟨(h.log_lt x hx).1, fun hm => (h.log_lt x hx).2 (List.mem_of_mem_erase hm)⟩
      · intro x hx
        by_cases hxe : x = id'
        · right; right; subst hxe; show x ∈ s.dropped ++ [x]; simp
        · rcases h.cover x hx with hu | hl | hd
          · left; exact (List.mem_erase_of_ne hxe).mpr hu
          · right; left; exact hl
          · right; right; show x ∈ s.dropped ++ [id']; simp [hd]
  · rw [if_neg hneg]
    have hge : s.n ≤ id' := hp.2 (by omega)
    have hnot : id' ∉ s.unanswered := fun hm => by have := h.un_lt _ hm; omega
    have herase : s.unanswered.erase id' = s.unanswered := List.erase_of_not_mem hnot
    have base : VInv { s with pending := s.pending.filter (fun e => e.1 != id'),
                              unanswered := s.unanswered.erase id' } := by
      refine ⟨by rw [herase]; exact h.un_nodup, by rw [herase]; exact h.un_lt, ?_, h.rel, h.log_nodup,
        by rw [herase]; exact h.log_lt, by rw [herase]; exact h.cover⟩
      intro e he
      rw [herase]
      exact h.pend e (List.mem_of_mem_filter he)
    split
    · exact inv_congr base rfl rfl rfl rfl rfl rfl
    · exact base

theorem inv_finish (s : VState) (h : VInv s) (honesty : Option Nat) : VInv (s.finish honesty) := by
  unfold finish
  split
  · exact inv_congr h rfl rfl rfl rfl rfl rfl
  · exact inv_sendNext s h honesty

theorem inv_onResponse (s : VState) (h : VInv s) (id r : Nat) (honesty : Option Nat) :
    VInv (s.onResponse id r honesty) := by
  unfold onResponse
  split
  · exact h
  · rename_i id' hc hfind
    have hmem : (id', hc) ∈ s.pending := List.mem_of_find?_eq_some hfind
    have hid : id' = id := by
      have := List.find?_some hfind
      simpa using this
    subst hid
    split
    · exact inv_finish _ (inv_afterAnswer s h id' r hc hmem) honesty
    · exact inv_afterAnswer s h id' r hc hmem

theorem inv_run (n : Nat) (evs : List VEvent) : VInv (run n evs) := by
  unfold run
  suffices ∀ s, VInv s → VInv (evs.foldl step s) from this _ (inv_init n)
  induction evs with
  | nil => intro s h; exact h
  | cons e tl ih =>
    intro s h
    apply ih
    cases e with
    | response id r hon => exact inv_onResponse s h id r hon
    | timeout id => exact inv_onTimeout s h id


/-! ### what the invariant gives -/

theorem step_n (s : VState) (e : VEvent) : (step s e).n = s.n := by
  cases e with
  | timeout id => rfl
  | response id r h =>
    simp only [step, onResponse]
    split
    · rfl
    · simp only [finish, afterAnswer, sendNext]
      repeat' split <;> try rfl

theorem run_n (n : Nat) (evs : List VEvent) : (run n evs).n = n := by
  unfold run
  suffices ∀ s, (evs.foldl step s).n = s.n from this _
  induction evs with
  | nil => intro s; rfl
  | cons e tl ih => intro s; rw [List.foldl_cons, ih, step_n]

/-- when nothing is unanswered, the counted challenges are exactly 0 … n-1, each once -/
theorem log_perm_range (s : VState) (h : VInv s) (hdone : s.unanswered = []) (hnd : s.dropped = []) :
    (s.log.map Prod.fst).Perm (List.range s.n) := by
  rw [List.perm_ext_iff_of_nodup h.log_nodup List.nodup_range]
  intro a
  simp only [List.mem_range]
  constructor
  · intro ha; exact (h.log_lt a ha).1
  · intro ha
    rcases h.cover a ha with hu | hl | hd
    · rw [hdone] at hu; simp at hu
    · exact hl
    · rw [hnd] at hd; simp at hd

/-- state reached by honest answers: invariant + every counted answer is the prover's answer + no challenge was lost
    to a bad answer byte + every aggregate handed to the completion callback is empty (liar path) or the complete
    profile -/
structure Good (ans : Nat → Nat) (s : VState) : Prop where
  inv : VInv s
  honest : ∀ p ∈ s.log, p.2 = ans p.1
  nodrop : s.dropped = []
  done : ∀ c ∈ s.completions, c = Rel.empty ∨ c = aggregate ((List.range s.n).map ans)

theorem relmap_of_honest (ans : Nat → Nat) (s : VState) (h : VInv s) (hh : ∀ p ∈ s.log, p.2 = ans p.1) :
    s.relmap = aggregate ((s.log.map Prod.fst).map ans) := by
  rw [h.rel, List.map_map]
  congr 1
  apply List.map_congr_left
  intro p hp
  exact hh p hp

theorem full_of_done (ans : Nat → Nat) (s : VState) (h : VInv s) (hh : ∀ p ∈ s.log, p.2 = ans p.1)
    (hdone : s.unanswered = []) (hnd : s.dropped = []) : s.relmap = aggregate ((List.range s.n).map ans) := by
  rw [relmap_of_honest ans s h hh]
  exact aggregate_perm ((log_perm_range s h hdone hnd).map ans)

theorem good_init (ans : Nat → Nat) (n : Nat) : Good ans (init n) :=
  ⟨inv_init n, by simp [init], by simp [init], by simp [init]⟩

theorem afterAnswer_goes (s : VState) (id r : Nat) (hc : Int) (hr : hc < 0 → r ≤ 3) :
    (s.afterAnswer id r hc).2 = true := by
  unfold afterAnswer
  simp only []
  split
  · rename_i hneg; rw [if_pos (hr hneg)]
  · split <;> rfl

theorem good_step (ans : Nat → Nat) (hans : ∀ id, ans id ≤ 3) (s : VState) (g : Good ans s) (e : VEvent)
    (he : ∀ id r h, e = VEvent.response id r h → id < s.n → r = ans id) : Good ans (step s e) := by
  cases e with
  | timeout id => exact ⟨inv_onTimeout s g.inv id, g.honest, g.nodrop, g.done⟩
  | response id r hon =>
    have hinv := inv_onResponse s g.inv id r hon
    simp only [step] at hinv ⊢
    unfold onResponse at hinv ⊢
    split
    · exact g
    · rename_i id' hc hfind
      rw [hfind] at hinv
      simp only [] at hinv
      have hmem : (id', hc) ∈ s.pending := List.mem_of_find?_eq_some hfind
      have hid : id' = id := by
        have := List.find?_some hfind
        simpa using this
      subst hid
      have hrle : hc < 0 → r ≤ 3 := by
        intro hneg
        have hin := (g.inv.pend _ hmem).1 hneg
        rw [he id' r hon rfl (g.inv.un_lt _ hin)]
        exact hans id'
      have hgo := afterAnswer_goes s id' r hc hrle
      rw [hgo] at hinv ⊢
      simp only [if_true] at hinv ⊢
      have hA := inv_afterAnswer s g.inv id' r hc hmem
      -- the log, dropped list and completions after the answer
      have hlogA : ∀ p ∈ (s.afterAnswer id' r hc).1.log, p.2 = ans p.1 := by
        intro p hp
        unfold afterAnswer at hp
        simp only [] at hp
        split at hp
        · rename_i hneg
          rw [if_pos (hrle hneg)] at hp
          simp only [List.mem_append, List.mem_singleton] at hp
          rcases hp with hp | rfl
          · exact g.honest p hp
          · have hin := (g.inv.pend _ hmem).1 hneg
            exact he id' r hon rfl (g.inv.un_lt _ hin)
        · split at hp <;> exact g.honest p hp
      have hdropA : (s.afterAnswer id' r hc).1.dropped = [] := by
        unfold afterAnswer
        simp only []
        split
        · rename_i hneg; rw [if_pos (hrle hneg)]; exact g.nodrop
        · split <;> exact g.nodrop
      have hnA : (s.afterAnswer id' r hc).1.n = s.n := by
        unfold afterAnswer; simp only []; repeat' split <;> try rfl
      have hcA : ∀ c ∈ (s.afterAnswer id' r hc).1.completions,
          c = Rel.empty ∨ c = aggregate ((List.range s.n).map ans) := by
        intro c hc'
        unfold afterAnswer at hc'
        simp only [] at hc'
        split at hc'
        · rename_i hneg
          rw [if_pos (hrle hneg)] at hc'
          exact g.done c hc'
        · split at hc'
          · simp only [List.mem_append, List.mem_singleton] at hc'
            rcases hc' with hc' | rfl
            · exact g.done c hc'
            · left; rfl
          · exact g.done c hc'
      refine ⟨hinv, ?_, ?_, ?_⟩
      · intro p hp
        unfold finish at hp
        split at hp
        · exact hlogA p hp
        · have : ((s.afterAnswer id' r hc).1.sendNext hon).log = (s.afterAnswer id' r hc).1.log := by
            unfold sendNext; repeat' split <;> try rfl
          rw [this] at hp; exact hlogA p hp
      · unfold finish
        split
        · exact hdropA
        · have : ((s.afterAnswer id' r hc).1.sendNext hon).dropped = (s.afterAnswer id' r hc).1.dropped := by
            unfold sendNext; repeat' split <;> try rfl
          rw [this]; exact hdropA
      · have hnF : ((s.afterAnswer id' r hc).1.finish hon).n = s.n := by
          rw [← hnA]; unfold finish sendNext; repeat' split <;> try rfl
        rw [hnF]
        intro c hc'
        unfold finish at hc'
        split at hc'
        · rename_i hempty
          simp only [List.mem_append, List.mem_singleton] at hc'
          rcases hc' with hc' | rfl
          · exact hcA c hc'
          · right
            have hd : (s.afterAnswer id' r hc).1.unanswered = [] := by simpa using hempty
            rw [← hnA]
            exact full_of_done ans _ hA hlogA hd hdropA
        · have : ((s.afterAnswer id' r hc).1.sendNext hon).completions
              = (s.afterAnswer id' r hc).1.completions := by
            unfold sendNext; repeat' split <;> try rfl
          rw [this] at hc'; exact hcA c hc'

theorem good_foldl (ans : Nat → Nat) (hans : ∀ id, ans id ≤ 3) (n : Nat) : ∀ (evs : List VEvent) (s : VState),
    s.n = n → Good ans s →
    (∀ id r h, VEvent.response id r h ∈ evs → id < n → r = ans id) → Good ans (evs.foldl step s) := by
  intro evs
  induction evs with
  | nil => intro s _ g _; exact g
  | cons e tl ih =>
    intro s hn g hon'
    rw [List.foldl_cons]
    apply ih (step s e) (by rw [step_n, hn])
    · apply good_step ans hans s g e
      intro id r h heq hlt
      exact hon' id r h (by rw [heq]; simp) (by rw [← hn]; exact hlt)
    · intro id r h hm hlt
      exact hon' id r h (by simp [hm]) hlt

theorem good_run (ans : Nat → Nat) (hans : ∀ id, ans id ≤ 3) (n : Nat) (evs : List VEvent)
    (hon : ∀ id r h, VEvent.response id r h ∈ evs → id < n → r = ans id) : Good ans (run n evs) :=
  good_foldl ans hans n evs (init n) rfl (good_init ans n) hon

end Ipv8.C18
