/- helper lemmas for the serialisation part of C18 (proof side) -/
import Ipv8.C18.Ser
import Mathlib.Tactic.Ring
import Mathlib.Tactic.Linarith
import Mathlib.Data.List.Basic
import Mathlib.Data.List.Induction
namespace Ipv8.C18

theorem foldl_bytes_acc (ys : ByteStr) : ∀ a : Nat,
    ys.foldl (fun acc b => acc * 256 + b.toNat) a = a * 256 ^ ys.length + ys.foldl (fun acc b => acc * 256 + b.toNat) 0 := by
  induction ys with
  | nil => intro a; simp
  | cons b tl ih =>
    intro a
    simp only [List.foldl_cons, List.length_cons]
    rw [ih (a * 256 + b.toNat), ih (0 * 256 + b.toNat), pow_succ]
    ring

theorem bytesToNum_append (xs ys : ByteStr) :
    bytesToNum (xs ++ ys) = bytesToNum xs * 256 ^ ys.length + bytesToNum ys := by
  unfold bytesToNum
  rw [List.foldl_append, foldl_bytes_acc]

theorem bytesToNum_cons (b : UInt8) (ys : ByteStr) :
    bytesToNum (b :: ys) = b.toNat * 256 ^ ys.length + bytesToNum ys := by
  have := bytesToNum_append [b] ys
  simpa [bytesToNum] using this

theorem toNat_ofNat_lt (n : Nat) (h : n < 256) : (UInt8.ofNat n).toNat = n := by
  simp [UInt8.toNat_ofNat']
  omega

theorem numToBytesAux_spec (n : Nat) : ∀ acc : ByteStr,
    bytesToNum (numToBytesAux n acc) = n * 256 ^ acc.length + bytesToNum acc := by
  induction n using Nat.strongRecOn with
  | _ n ih =>
    intro acc
    rw [numToBytesAux]
    split
    · rename_i h
      rw [bytesToNum_cons, toNat_ofNat_lt n h]
    · rename_i h
      rw [ih (n / 256) (by omega), bytesToNum_cons, toNat_ofNat_lt _ (Nat.mod_lt _ (by omega))]
      simp only [List.length_cons, pow_succ]
      have := Nat.div_add_mod n 256
      conv_rhs => rw [← this]
      ring

/-- `_str_to_num(_num_to_str(n)) = n` -/
theorem bytesToNum_numToBytes (n : Nat) : bytesToNum (numToBytes n) = n := by
  rw [numToBytes, numToBytesAux_spec]
  simp [bytesToNum]

theorem iunpack_ipack' (n : Nat) (rest : ByteStr) (h : (numToBytes (numToBytes n).length).length < 256) :
    iunpack (ipack n ++ rest) = some (n, rest) := by
  simp only [ipack, List.cons_append, iunpack]
  rw [toNat_ofNat_lt _ h]
  simp only [List.append_assoc, List.take_left', List.drop_left', bytesToNum_numToBytes]
  simp [List.drop_append]

theorem unpackMany_packMany' (ns : List Nat) (rest : ByteStr)
    (h : ∀ n ∈ ns, (numToBytes (numToBytes n).length).length < 256) :
    unpackMany ns.length (packMany ns ++ rest) = (ns, rest) := by
  induction ns with
  | nil => simp [unpackMany, packMany]
  | cons n tl ih =>
    simp only [packMany, List.flatMap_cons, List.length_cons, unpackMany, List.append_assoc]
    rw [iunpack_ipack' n _ (h n (by simp))]
    have := ih (fun m hm => h m (by simp [hm]))
    simp only [packMany] at this
    simp [this]


/-- an integer is packable when the length of its length fits the one-byte prefix (always, below 256^(256^255)) -/
def Packable (n : Nat) : Prop := (numToBytes (numToBytes n).length).length < 256

theorem key_roundtrip' (k : KeyInts) (rest : ByteStr)
    (hp : Packable k.p) (h1 : Packable k.ga) (h2 : Packable k.gb) (h3 : Packable k.ha) (h4 : Packable k.hb)
    (l1 : k.ga < k.p) (l2 : k.gb < k.p) (l3 : k.ha < k.p) (l4 : k.hb < k.p) :
    KeyInts.unserialize (k.serialize ++ rest) = some (k, rest) := by
  have := unpackMany_packMany' [k.p, k.ga, k.gb, k.ha, k.hb] rest (by
    intro n hn
    simp only [List.mem_cons, List.not_mem_nil, or_false] at hn
    rcases hn with rfl | rfl | rfl | rfl | rfl <;> assumption)
  simp only [List.length_cons, List.length_nil] at this
  unfold KeyInts.unserialize KeyInts.serialize
  rw [this]
  have hp0 : k.p ≠ 0 := by omega
  simp [Nat.mod_eq_of_lt, l1, l2, l3, l4, hp0]

theorem priv_roundtrip' (k : KeyInts) (n t1 : Nat)
    (hp : Packable k.p) (h1 : Packable k.ga) (h2 : Packable k.gb) (h3 : Packable k.ha) (h4 : Packable k.hb)
    (h5 : Packable n) (h6 : Packable t1)
    (l1 : k.ga < k.p) (l2 : k.gb < k.p) (l3 : k.ha < k.p) (l4 : k.hb < k.p) :
    privUnserialize (privSerialize k n t1) = some (k, n, t1) := by
  have := unpackMany_packMany' [k.p, k.ga, k.gb, k.ha, k.hb, n, t1] [] (by
    intro m hm
    simp only [List.mem_cons, List.not_mem_nil, or_false] at hm
    rcases hm with rfl | rfl | rfl | rfl | rfl | rfl | rfl <;> assumption)
  simp only [List.length_cons, List.length_nil, List.append_nil] at this
  unfold privUnserialize privSerialize KeyInts.serialize
  have e : packMany [k.p, k.ga, k.gb, k.ha, k.hb] ++ packMany [n, t1] = packMany [k.p, k.ga, k.gb, k.ha, k.hb, n, t1] := by
    simp [packMany]
  rw [e, this]
  have hp0 : k.p ≠ 0 := by omega
  simp [Nat.mod_eq_of_lt, l1, l2, l3, l4, hp0]

theorem numToBytesAux_length (k : Nat) : ∀ (n : Nat) (acc : ByteStr), n < 256 ^ (k + 1) →
    (numToBytesAux n acc).length ≤ acc.length + k + 1 := by
  induction k with
  | zero =>
    intro n acc h
    rw [numToBytesAux, dif_pos (by simpa using h)]
    simp
  | succ k ih =>
    intro n acc h
    rw [numToBytesAux]
    split
    · simp
    · have h' : n / 256 < 256 ^ (k + 1) := by
        rw [Nat.div_lt_iff_lt_mul (by omega)]
        rw [pow_succ] at h
        exact h
      have := ih (n / 256) (UInt8.ofNat (n % 256) :: acc) h'
      simp only [List.length_cons] at this
      omega

/-- every integer below 256^255 (2040 bits; keys and group elements are far smaller) is packable -/
theorem packable_of_lt (n : Nat) (h : n < 256 ^ 255) : Packable n := by
  unfold Packable
  have h1 : (numToBytes n).length ≤ 255 := by
    have := numToBytesAux_length 254 n [] h
    simpa [numToBytes] using this
  have h2 := numToBytesAux_length 0 (numToBytes n).length [] (by simp; omega)
  simp only [List.length_nil] at h2
  show (numToBytesAux (numToBytes n).length []).length < 256
  omega

end Ipv8.C18
