/- further helper lemmas for C18: negative powers, message spaces (proof side) -/
import Ipv8.C18.Lemmas
import Ipv8.C18.LemmasProto
namespace Ipv8.C18
open Ipv8

/-- `intpow` with a NEGATIVE exponent (`R.inverse().normalize()`), as computed on integers mod a prime p: the
    fraction is the inverse of the n-th power (cross-multiplied in F_p[ω]) -/
theorem intpowP_neg_cross (p : Nat) (hp : p.Prime) (v : FP2 Int) (n : Nat) (hn : 0 < n) :
    (castV (intpowP p v (-(n : Int))) : FP2 (ZMod p)).num * (castV v : FP2 (ZMod p)).num ^ n
      = (castV v : FP2 (ZMod p)).den ^ n * (castV (intpowP p v (-(n : Int))) : FP2 (ZMod p)).den := by
  have hz := zmod_p_zero p hp
  have hneg : (-(n : Int)) < 0 := by omega
  have h : intpowP p v (-(n : Int)) = normalizeP p (invP p (intpowLoopP p (modP p FP2.one) v n)) := by
    unfold intpowP; simp only [Int.natAbs_neg, Int.natAbs_natCast]; rw [if_pos hneg]
  rw [h]
  have hc := normalizeP_cross p hp (invP p (intpowLoopP p (modP p FP2.one) v n))
  have h1 : (castV (modP p FP2.one) : FP2 (ZMod p)) = FP2.one := by
    rw [castV_modP p hz]; simp [castV, FP2.one]
  rw [castV_invP (p : Int) hz, castV_intpowLoopP (p : Int) hz, h1] at hc
  have e1 : (FP2.inv (FP2.intpowLoop FP2.one (castV v : FP2 (ZMod p)) n)).num = (castV v : FP2 (ZMod p)).den ^ n := by
    have := FP2.intpowLoop_den (FP2.one : FP2 (ZMod p)) (castV v) n
    rw [FP2.one_den, one_mul] at this
    rw [← this]; ext <;> simp [FP2.inv, FP2.num, FP2.den]
  have e2 : (FP2.inv (FP2.intpowLoop FP2.one (castV v : FP2 (ZMod p)) n)).den = (castV v : FP2 (ZMod p)).num ^ n := by
    have := FP2.intpowLoop_num (FP2.one : FP2 (ZMod p)) (castV v) n
    rw [FP2.one_num, one_mul] at this
    rw [← this]; ext <;> simp [FP2.inv, FP2.num, FP2.den]
  rw [e1, e2] at hc
  exact hc

section
variable {A : Type} [AddCommGroup A]

/-- a message space of consecutive integers below L is separated by t as soon as no k with 0 < k < L kills t
    (for `PengBaoCommitmentPrivate.MSGSPACE = range(256)`: the order of g^t1 exceeds 255) -/
theorem range_space_inj (t : A) (L : Nat) (hsep : ∀ k : Nat, 0 < k → k < L → k • t ≠ 0) (m : Nat) (hm : m < L) :
    ∀ m' ∈ List.range L, m' • t = m • t → m' = m := by
  intro m' hm' h
  simp only [List.mem_range] at hm'
  by_contra hne
  rcases Nat.lt_or_gt_of_ne hne with hlt | hgt
  · have : (m - m') • t = 0 := by
      have e : m • t = (m - m') • t + m' • t := by rw [← add_smul]; congr 1; omega
      rw [e] at h
      have := add_eq_right.mp h.symm
      exact this
    exact hsep (m - m') (by omega) (by omega) this
  · have : (m' - m) • t = 0 := by
      have e : m' • t = (m' - m) • t + m • t := by rw [← add_smul]; congr 1; omega
      rw [e] at h
      exact add_eq_right.mp h
    exact hsep (m' - m) (by omega) (by omega) this

end
end Ipv8.C18
