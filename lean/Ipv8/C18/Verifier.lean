/-
  C18 model, verifier bookkeeping of the protocol driver (core Lean only, executable).

  Mirrors wallet/community.py: on_received_attestation (first 10 challenges go out), on_challenge_response
  (PendingChallengeCache lookup and pop, removal from hashed_challenges / challenges, relativity map update, honesty
  checks, completion, choice of the next challenge) and the time-out of a PendingChallengeCache.

  Challenges are identified by their position in the list `create_challenges` returned (real challenges: ids < n);
  the k-th honesty challenge the verifier makes up gets id n + k.  The network and the prover are not part of the
  model: the verifier's behaviour is defined for EVERY sequence of events "a response datagram for challenge id with
  answer r arrives" / "the pending cache of id times out" — duplicated, re-ordered, lost and late datagrams are just
  particular event sequences.  The random decision "send a honesty check next" is an input of the event.
-/
import Ipv8.C18.Proto

namespace Ipv8.C18

structure VState where
  n : Nat
  /-- `proving_cache.challenges` / `hashed_challenges`: ids not yet answered, in order -/
  unanswered : List Nat
  /-- the PendingChallengeCache entries: (id, honesty_check) with honesty_check = -1 for a real challenge -/
  pending : List (Nat × Int)
  /-- `proving_cache.relativity_map` -/
  relmap : Rel
  /-- ghost: the (id, answer) pairs that were counted, oldest first -/
  log : List (Nat × Nat)
  /-- ghost: real challenges consumed by an answer byte above 3 (`relativity_map[response]` raises KeyError after the
      pending cache and the challenge were already removed; the handler is left by the exception) -/
  dropped : List Nat
  /-- number of honesty challenges made up so far -/
  fresh : Nat
  /-- the aggregates handed to the completion callback, oldest first -/
  completions : List Rel
  /-- a honesty check failed ("tried to cheat") -/
  liar : Bool

inductive VEvent where
  /-- a challenge-response datagram arrives; `honesty = some v`: if another challenge is sent now, it is a honesty
      check on the value v -/
  | response (id r : Nat) (honesty : Option Nat)
  | timeout (id : Nat)

namespace VState

def pendingIds (s : VState) : List Nat := s.pending.map Prod.fst

/-- on_received_attestation: all challenges unanswered, the first 10 pending -/
def init (n : Nat) : VState :=
  { n := n, unanswered := List.range n, pending := ((List.range n).take 10).map (fun i => (i, -1)),
    relmap := Rel.empty, log := [], dropped := [], fresh := 0, completions := [], liar := false }

/-- "Send another proving hash" -/
def sendNext (s : VState) (honesty : Option Nat) : VState :=
  match honesty with
  | some v => { s with pending := s.pending ++ [(s.n + s.fresh, (v : Int))], fresh := s.fresh + 1 }
  | none =>
    match s.unanswered.find? (fun c => !(s.pendingIds.contains c)) with
    | none => s
    | some c => { s with pending := s.pending ++ [(c, -1)] }

/-- the part of on_challenge_response that handles the answer to the pending challenge (id, hc):
    pop the pending cache, remove the challenge from the unanswered ones, count the answer / check honesty.
    The Bool says whether the handler goes on (false: it was left by the KeyError of an answer byte above 3). -/
def afterAnswer (s : VState) (id r : Nat) (hc : Int) : VState × Bool :=
  -- request_cache.pop("proving-hash", hash); if hash in hashed_challenges: remove it and the challenge
  let s2 := { s with pending := s.pending.filter (fun e => e.1 != id), unanswered := s.unanswered.erase id }
  if hc < 0 then
    if r ≤ 3 then ({ s2 with relmap := s2.relmap.bump r, log := s2.log ++ [(id, r)] }, true)
    else ({ s2 with dropped := s2.dropped ++ [id] }, false)
  else if (r : Int) ≠ hc then ({ s2 with liar := true, completions := s2.completions ++ [Rel.empty] }, true)
  else (s2, true)

/-- "Completed" or "Send another proving hash" -/
def finish (s : VState) (honesty : Option Nat) : VState :=
  if s.unanswered.isEmpty then { s with completions := s.completions ++ [s.relmap] }
  else sendNext s honesty

/-- on_challenge_response -/
def onResponse (s : VState) (id r : Nat) (honesty : Option Nat) : VState :=
  match s.pending.find? (fun e => e.1 == id) with
  | none => s
  | some (_, hc) =>
    if (afterAnswer s id r hc).2 then finish (afterAnswer s id r hc).1 honesty else (afterAnswer s id r hc).1

/-- the PendingChallengeCache of `id` times out (it is only dropped) -/
def onTimeout (s : VState) (id : Nat) : VState :=
  { s with pending := s.pending.filter (fun e => e.1 != id) }

def step (s : VState) : VEvent → VState
  | .response id r h => s.onResponse id r h
  | .timeout id => s.onTimeout id

def run (n : Nat) (evs : List VEvent) : VState := evs.foldl step (init n)

end VState
/-- `CommunicationChannel.verify` / `on_verification_results` (communication_manager.py): the verifier's report for a
    LIST of reference values — row i pairs the i-th reference value with the i-th certainty the overlay computed for
    the same list -/
def reportRows {α : Type} (refs : List α) (score : α → Rat) : List (α × Rat) :=
  (refs.zip (refs.map score))

end Ipv8.C18
