/-
  C18 model: the attestee's bookkeeping of outstanding attestation requests (core Lean only, executable).

  Mirrors wallet/community.py: request_attestation (a ReceiveAttestationRequestCache per request, identified by the
  attester and the request's global time, holding the fresh secret key), on_attestation_chunk (a chunk is handed to the
  cache whose global time equals the chunk's global time; chunks are collected as a set; when the collected chunks are
  the whole attestation it is stored with THAT cache's key and the cache is dropped), and the responder's threshold
  for range-proof challenges (pengbaorange/algorithm.py: `_safe_rndint` / `create_challenge_response`).

  An attestation `a` consists of the chunks (a, 0) … (a, nchunks a - 1).  Events are arbitrary chunk arrivals
  (gt, a, seq): duplicated, re-ordered and interleaved transfers are just event lists.
-/
import Ipv8.C18.GenGuard

namespace Ipv8.C18

structure ReqCache where
  gt : Nat                       -- global time of the request
  key : Nat                      -- the fresh secret key of this request
  got : List (Nat × Nat)         -- chunks collected so far: (attestation, sequence number)
deriving Repr

structure ReqState where
  outstanding : List ReqCache
  /-- (attestation, key) pairs handed to on_attestation_complete, oldest first -/
  stored : List (Nat × Nat)
deriving Repr

/-- are the collected chunks exactly the attestation `a` with `n` chunks? (sha1 of the concatenation matches) -/
def wholeAttestation (got : List (Nat × Nat)) (a n : Nat) : Bool :=
  got.all (fun c => c.1 == a && c.2 < n) && (List.range n).all (fun i => got.contains (a, i))

/-- `attestation_map |= {(sequence_number, data)}` -/
def addChunk (got : List (Nat × Nat)) (a seq : Nat) : List (Nat × Nat) :=
  if got.contains (a, seq) then got else got ++ [(a, seq)]

/-- on_attestation_chunk for a chunk (gt, a, seq) of an attestation with `n` chunks -/
def onChunk (s : ReqState) (gt a seq n : Nat) : ReqState :=
  match s.outstanding.find? (fun c => c.gt == gt) with
  | none => s                                    -- "Received Attestation chunk which we did not request!"
  | some c =>
    let got' := addChunk c.got a seq
    if wholeAttestation got' a n then
      { outstanding := s.outstanding.filter (fun d => d.gt != gt), stored := s.stored ++ [(a, c.key)] }
    else
      { s with outstanding := s.outstanding.map (fun d => if d.gt == gt then { d with got := got' } else d) }

/-- chunk arrivals (gt, a, seq, n) in any order -/
def runChunks (reqs : List (Nat × Nat)) (evs : List (Nat × Nat × Nat × Nat)) : ReqState :=
  evs.foldl (fun s e => onChunk s e.1 e.2.1 e.2.2.1 e.2.2.2)
    { outstanding := reqs.map (fun r => { gt := r.1, key := r.2, got := [] }), stored := [] }

/-! ### challenge threshold of the range format -/

/-- a draw is accepted by the verifier's generator iff `_safe_rndint`'s loop test (GENERATED from the source) fails -/
def verifierAccepts (large out : Int) : Bool := !(verifierRedraws large out)

/-- the prover answers honestly iff `create_challenge_response`'s refusal test (GENERATED from the source) fails -/
def proverAnswersHonestly (large s t : Int) : Bool := !(proverRefuses large s t)

end Ipv8.C18
