/-
  C18 model, hand-written part (core Lean only; the arithmetic itself is in the GENERATED GenFP2.lean).

  Mirrors ipv8/attestation/wallet/primitives/value.py:
    _modinv, FP2Value.__init__ (reduction mod p), normalize, __eq__, intpow, wp_denom_inverse, wp_compress.
  Two layers:
    * ring level  (any type with + - * 0 1): `FP2.intpowLoop`, `FP2.eqCross`  — theorems are stated here, for every
      commutative ring (hence every ZMod p);
    * integer level (`…P p`): exactly what Python computes — unbounded integers, every constructor call reduces
      modulo p — used by the driver for the correspondence check, and tied to the ring level by cast lemmas.
-/
import Ipv8.C18.GenFP2

namespace Ipv8.C18

namespace FP2
variable {R : Type} [Add R] [Sub R] [Mul R] [Neg R] [OfNat R 0] [OfNat R 1]

/-- FP2Value(mod, 1) -/
def one : FP2 R := { a := 1, b := 0, c := 0, aC := 1, bC := 0, cC := 0 }

/-- FP2Value(mod, x) -/
def ofScalar (x : R) : FP2 R := { a := x, b := 0, c := 0, aC := 1, bC := 0, cC := 0 }

/-- the `while n > 0` loop of `intpow` (square and multiply), ring level -/
def intpowLoop (acc u : FP2 R) (n : Nat) : FP2 R :=
  if h : n = 0 then acc
  else intpowLoop (if n % 2 = 1 then mul acc u else acc) (mul u u) (n / 2)
termination_by n
decreasing_by omega

/-- `intpow` for a non-negative power -/
def intpowNat (v : FP2 R) (n : Nat) : FP2 R := intpowLoop one v n

/-- normalize when a multiplicative inverse `mp` of `aC` is known -/
def normalizeWith (mp : R) (v : FP2 R) : FP2 R :=
  { a := v.a * mp, b := v.b * mp, c := v.c * mp, aC := 1, bC := v.bC * mp, cC := v.cC * mp }

end FP2

/-! ### integer level: what CPython computes -/

/-- `_modinv(e, m)`: the loop -/
def modinvGo (a b x1 x2 : Int) : Int :=
  if h : b > 0 then modinvGo b (a % b) x2 (x1 - (a / b) * x2) else x1
termination_by b.toNat
decreasing_by
  have : a % b < b := Int.emod_lt_of_pos a h
  have : 0 ≤ a % b := Int.emod_nonneg a (by omega)
  omega

def modinv (e m : Int) : Int := (modinvGo e m 1 0) % m

/-- the constructor's reduction -/
def modP (p : Int) (v : FP2 Int) : FP2 Int :=
  { a := v.a % p, b := v.b % p, c := v.c % p, aC := v.aC % p, bC := v.bC % p, cC := v.cC % p }

def addP (p : Int) (s o : FP2 Int) : FP2 Int := modP p (FP2.add s o)
def subP (p : Int) (s o : FP2 Int) : FP2 Int := modP p (FP2.sub s o)
def mulP (p : Int) (s o : FP2 Int) : FP2 Int := modP p (FP2.mul s o)
def divP (p : Int) (s o : FP2 Int) : FP2 Int := modP p (FP2.div s o)
def invP (p : Int) (s : FP2 Int) : FP2 Int := modP p (FP2.inv s)
def wpNumP (p : Int) (s : FP2 Int) : FP2 Int := modP p (FP2.wpNum s)

/-- FP2Value.normalize -/
def normalizeP (p : Int) (v : FP2 Int) : FP2 Int :=
  let mp := modinv (v.aC % p) p
  if mp > 0 then
    modP p { a := (v.a * mp) % p, b := (v.b * mp) % p, c := (v.c * mp) % p, aC := 1,
             bC := (v.bC * mp) % p, cC := (v.cC * mp) % p }
  else modP p v

/-- FP2Value.__eq__ -/
def eqP (p : Int) (s o : FP2 Int) : Bool :=
  let d := normalizeP p (divP p s o)
  d.a == d.aC && d.b == d.bC && d.c == d.cC

def intpowLoopP (p : Int) (acc u : FP2 Int) (n : Nat) : FP2 Int :=
  if h : n = 0 then acc
  else intpowLoopP p (if n % 2 = 1 then mulP p acc u else acc) (mulP p u u) (n / 2)
termination_by n
decreasing_by omega

/-- FP2Value.intpow -/
def intpowP (p : Int) (v : FP2 Int) (power : Int) : FP2 Int :=
  let r := intpowLoopP p (modP p FP2.one) v power.natAbs
  if power < 0 then normalizeP p (invP p r) else r

/-- FP2Value.wp_denom_inverse -/
def wpDenomInverseP (p : Int) (s : FP2 Int) : FP2 Int :=
  let iq := modP p (FP2.ofScalar (s.aC * s.aC - s.aC * s.bC + s.bC * s.bC))
  let a := divP p (modP p (FP2.ofScalar (s.aC - s.bC))) iq
  let b := divP p (modP p (FP2.ofScalar (-s.bC))) iq
  modP p { a := (normalizeP p a).a, b := (normalizeP p b).a, c := 0, aC := 1, bC := 0, cC := 0 }

/-- FP2Value.wp_compress (the two asserts are the caller's obligation; `none` when they fail) -/
def wpCompressP (p : Int) (s : FP2 Int) : Option (FP2 Int) :=
  if s.c == 0 && s.cC == 0 then
    let n := normalizeP p s
    some (mulP p (wpNumP p n) (wpDenomInverseP p n))
  else none

end Ipv8.C18
