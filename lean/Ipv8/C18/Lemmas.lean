/- helper lemmas for C18 (proof side; may import Mathlib modules) -/
import Ipv8.Base.Eis
import Ipv8.C18.Model
import Mathlib.Tactic.Linarith
import Mathlib.Tactic.LinearCombination
import Mathlib.Data.Int.GCD
import Mathlib.Data.ZMod.Basic

namespace Ipv8.C18
open Ipv8

namespace FP2
variable {R : Type} [CommRing R]

/-- numerator as an element of R[ω]/(ω²+ω+1): a + bω + cω² = (a − c) + (b − c)ω -/
def num (v : FP2 R) : Eis R := ⟨v.a - v.c, v.b - v.c⟩
/-- denominator likewise -/
def den (v : FP2 R) : Eis R := ⟨v.aC - v.cC, v.bC - v.cC⟩

theorem one_num : (one : FP2 R).num = 1 := by ext <;> simp [one, num]
theorem one_den : (one : FP2 R).den = 1 := by ext <;> simp [one, den]

theorem mul_num' (s o : FP2 R) : (mul s o).num = s.num * o.num := by
  ext <;> simp [mul, num] <;> ring
theorem mul_den' (s o : FP2 R) : (mul s o).den = s.den * o.den := by
  ext <;> simp [mul, den] <;> ring

theorem intpowLoop_num (acc u : FP2 R) (n : Nat) :
    (intpowLoop acc u n).num = acc.num * u.num ^ n := by
  induction n using Nat.strongRecOn generalizing acc u with
  | _ n ih =>
    rw [intpowLoop]
    split
    · subst_vars; simp
    · rename_i hn
      rw [ih (n / 2) (by omega)]
      rw [mul_num']
      have h2 : n = 2 * (n / 2) + n % 2 := by omega
      split
      · rename_i h1
        rw [mul_num']
        conv_rhs => rw [h2, h1]
        ring
      · rename_i h1
        have h0 : n % 2 = 0 := by omega
        conv_rhs => rw [h2, h0]
        ring

theorem intpowLoop_den (acc u : FP2 R) (n : Nat) :
    (intpowLoop acc u n).den = acc.den * u.den ^ n := by
  induction n using Nat.strongRecOn generalizing acc u with
  | _ n ih =>
    rw [intpowLoop]
    split
    · subst_vars; simp
    · rename_i hn
      rw [ih (n / 2) (by omega)]
      rw [mul_den']
      have h2 : n = 2 * (n / 2) + n % 2 := by omega
      split
      · rename_i h1
        rw [mul_den']
        conv_rhs => rw [h2, h1]
        ring
      · rename_i h1
        have h0 : n % 2 = 0 := by omega
        conv_rhs => rw [h2, h0]
        ring

end FP2

/-! ### `_modinv`: extended Euclid -/

theorem modinvGo_spec (e m : Int) : ∀ (a b x1 x2 : Int), 0 ≤ a → 0 ≤ b → m ∣ x1 * e - a → m ∣ x2 * e - b →
    m ∣ modinvGo a b x1 x2 * e - (Int.gcd a b : Int) := by
  intro a b x1 x2
  induction a, b, x1, x2 using modinvGo.induct with
  | case1 a b x1 x2 hb ih =>
    intro ha hb0 h1 h2
    rw [modinvGo, dif_pos hb]
    have hg : Int.gcd b (a % b) = Int.gcd a b := by
      rw [Int.gcd_comm, Int.gcd_emod]
    rw [← hg]
    apply ih (by omega) (Int.emod_nonneg a (by omega)) h2
    have : (x1 - a / b * x2) * e - a % b = (x1 * e - a) - (a / b) * (x2 * e - b) := by
      rw [Int.emod_def]; ring
    rw [this]
    exact Dvd.dvd.sub h1 (Dvd.dvd.mul_left h2 _)
  | case2 a b x1 x2 hb =>
    intro ha hb0 h1 h2
    rw [modinvGo, dif_neg hb]
    have : b = 0 := by omega
    subst this
    simp only [Int.gcd_zero_right]
    rw [Int.natAbs_of_nonneg ha]
    exact h1

/-- `_modinv(e, m) * e ≡ gcd(e, m) (mod m)`; in particular it is the inverse when e and m are coprime -/
theorem modinv_mul (e m : Int) (he : 0 ≤ e) (hm : 0 < m) : (modinv e m * e) % m = (Int.gcd e m : Int) % m := by
  have h := modinvGo_spec e m e m 1 0 he (le_of_lt hm) (by simp) (by simp)
  unfold modinv
  rw [Int.mul_emod, Int.emod_emod_of_dvd _ (dvd_refl m), ← Int.mul_emod]
  exact Int.emod_eq_emod_iff_emod_sub_eq_zero.mpr (Int.emod_eq_zero_of_dvd h)

theorem modinv_nonneg (e m : Int) (hm : 0 < m) : 0 ≤ modinv e m := Int.emod_nonneg _ (by omega)

theorem modinv_zero (m : Int) (hm : 0 < m) : modinv 0 m = 0 := by
  unfold modinv
  rw [modinvGo, dif_pos hm, modinvGo, dif_neg (by simp)]
  simp

/-! ### from the integers CPython computes with to any commutative ring in which p = 0 (e.g. ZMod p) -/

section cast
variable {R : Type} [CommRing R]

/-- coefficient-wise cast -/
def castV (v : FP2 Int) : FP2 R :=
  { a := (v.a : R), b := (v.b : R), c := (v.c : R), aC := (v.aC : R), bC := (v.bC : R), cC := (v.cC : R) }

theorem cast_emod (p x : Int) (hp : ((p : Int) : R) = 0) : (((x % p : Int)) : R) = (x : R) := by
  rw [Int.emod_def]; push_cast; rw [hp]; ring

theorem castV_modP (p : Int) (hp : ((p : Int) : R) = 0) (v : FP2 Int) : (castV (modP p v) : FP2 R) = castV v := by
  simp [castV, modP, cast_emod p _ hp]

theorem castV_add (s o : FP2 Int) : (castV (FP2.add s o) : FP2 R) = FP2.add (castV s) (castV o) := by
  simp [castV, FP2.add]
theorem castV_sub (s o : FP2 Int) : (castV (FP2.sub s o) : FP2 R) = FP2.sub (castV s) (castV o) := by
  simp [castV, FP2.sub]
theorem castV_mul (s o : FP2 Int) : (castV (FP2.mul s o) : FP2 R) = FP2.mul (castV s) (castV o) := by
  simp [castV, FP2.mul]
theorem castV_div (s o : FP2 Int) : (castV (FP2.div s o) : FP2 R) = FP2.div (castV s) (castV o) := by
  simp [castV, FP2.div]
theorem castV_inv (s : FP2 Int) : (castV (FP2.inv s) : FP2 R) = FP2.inv (castV s) := by
  simp [castV, FP2.inv]

theorem castV_addP (p : Int) (hp : ((p : Int) : R) = 0) (s o : FP2 Int) :
    (castV (addP p s o) : FP2 R) = FP2.add (castV s) (castV o) := by rw [addP, castV_modP p hp, castV_add]
theorem castV_subP (p : Int) (hp : ((p : Int) : R) = 0) (s o : FP2 Int) :
    (castV (subP p s o) : FP2 R) = FP2.sub (castV s) (castV o) := by rw [subP, castV_modP p hp, castV_sub]
theorem castV_mulP (p : Int) (hp : ((p : Int) : R) = 0) (s o : FP2 Int) :
    (castV (mulP p s o) : FP2 R) = FP2.mul (castV s) (castV o) := by rw [mulP, castV_modP p hp, castV_mul]
theorem castV_divP (p : Int) (hp : ((p : Int) : R) = 0) (s o : FP2 Int) :
    (castV (divP p s o) : FP2 R) = FP2.div (castV s) (castV o) := by rw [divP, castV_modP p hp, castV_div]
theorem castV_invP (p : Int) (hp : ((p : Int) : R) = 0) (s : FP2 Int) :
    (castV (invP p s) : FP2 R) = FP2.inv (castV s) := by rw [invP, castV_modP p hp, castV_inv]

theorem castV_intpowLoopP (p : Int) (hp : ((p : Int) : R) = 0) (n : Nat) : ∀ (acc u : FP2 Int),
    (castV (intpowLoopP p acc u n) : FP2 R) = FP2.intpowLoop (castV acc) (castV u) n := by
  induction n using Nat.strongRecOn with
  | _ n ih =>
    intro acc u
    rw [intpowLoopP, FP2.intpowLoop]
    split
    · rfl
    · rw [ih (n / 2) (by omega), castV_mulP p hp]
      split <;> simp [castV_mulP p hp]

theorem castV_normalize_pos (p : Int) (hz : ((p : Int) : R) = 0) (v : FP2 Int) (mp : Int) :
    (castV (modP p { a := (v.a * mp) % p, b := (v.b * mp) % p, c := (v.c * mp) % p, aC := 1,
                     bC := (v.bC * mp) % p, cC := (v.cC * mp) % p }) : FP2 R)
      = FP2.normalizeWith (mp : R) (castV v) := by
  simp [castV, modP, FP2.normalizeWith, cast_emod p _ hz]

/-- ring-level: normalising with an inverse mp of aC keeps the fraction -/
theorem normalizeWith_cross (mp : R) (v : FP2 R) (h : mp * v.aC = 1) :
    (FP2.normalizeWith mp v).num * v.den = v.num * (FP2.normalizeWith mp v).den := by
  have h' : (1 : R) = mp * v.aC := h.symm
  ext <;> simp only [FP2.normalizeWith, FP2.num, FP2.den, Eis.mul_re, Eis.mul_im] <;> rw [h'] <;> ring

end cast

section prime
variable (p : Nat) (hp : p.Prime)
include hp

theorem zmod_p_zero : (((p : Int)) : ZMod p) = 0 := by simp

theorem gcd_of_prime (x : Int) (hx0 : 0 ≤ x) (hxp : x < p) (hne : x ≠ 0) : Int.gcd x p = 1 := by
  rw [Int.gcd_eq_natAbs, Int.natAbs_natCast, Nat.gcd_comm]
  apply (Nat.Prime.coprime_iff_not_dvd hp).2
  intro hd
  have h1 : 0 < x.natAbs := Int.natAbs_pos.mpr hne
  have h2 := Nat.le_of_dvd h1 hd
  omega

/-- for a prime modulus `_modinv` of a residue is 0 (residue 0) or its multiplicative inverse -/
theorem modinv_prime (x : Int) : let mp := modinv (x % p) p
    (x % (p : Int) = 0 ∧ mp = 0) ∨ (0 < mp ∧ ((mp : Int) : ZMod p) * ((x : Int) : ZMod p) = 1) := by
  intro mp
  have hp0 : (0 : Int) < p := by exact_mod_cast hp.pos
  by_cases h0 : x % (p : Int) = 0
  · left; exact ⟨h0, by simp only [mp]; rw [h0]; exact modinv_zero _ hp0⟩
  · right
    have hx0 := Int.emod_nonneg x (by omega : (p : Int) ≠ 0)
    have hxp := Int.emod_lt_of_pos x hp0
    have hg := gcd_of_prime p hp (x % p) hx0 hxp h0
    have hm := modinv_mul (x % p) p hx0 hp0
    rw [hg] at hm
    have hz : (((mp * (x % (p : Int)) : Int)) : ZMod p) = 1 := by
      have := congrArg (Int.cast (R := ZMod p)) hm
      rw [cast_emod (p : Int) _ (zmod_p_zero p hp), cast_emod (p : Int) _ (zmod_p_zero p hp)] at this
      simpa using this
    have hz' : ((mp : Int) : ZMod p) * ((x : Int) : ZMod p) = 1 := by
      rw [Int.cast_mul, cast_emod (p : Int) _ (zmod_p_zero p hp)] at hz
      exact hz
    refine ⟨?_, hz'⟩
    have hnn := modinv_nonneg (x % p) p hp0
    rcases lt_or_eq_of_le hnn with h | h
    · exact h
    · exfalso
      have : ((mp : Int) : ZMod p) = 0 := by simp only [mp]; rw [← h]; simp
      rw [this, zero_mul] at hz'
      have := Fact.mk hp
      exact zero_ne_one hz'

/-- `normalize` keeps the value: the normalised fraction equals the original one (cross-multiplied, in F_p[ω]) -/
theorem normalizeP_cross (v : FP2 Int) :
    (castV (normalizeP p v) : FP2 (ZMod p)).num * (castV v : FP2 (ZMod p)).den
      = (castV v : FP2 (ZMod p)).num * (castV (normalizeP p v) : FP2 (ZMod p)).den := by
  have hz := zmod_p_zero p hp
  unfold normalizeP
  simp only []
  rcases modinv_prime p hp v.aC with ⟨_, h0⟩ | ⟨hpos, hinv⟩
  · rw [if_neg (by rw [h0]; simp), castV_modP _ hz]
  · rw [if_pos hpos, castV_normalize_pos (p : Int) hz]
    exact normalizeWith_cross _ _ (by simpa [castV] using hinv)


omit hp in
theorem emod_eq_iff_cast (x y : Int) : x % (p : Int) = y % (p : Int) ↔ ((x : Int) : ZMod p) = ((y : Int) : ZMod p) :=
  (ZMod.intCast_eq_intCast_iff x y p).symm

/-- the test `__eq__` performs on `d0 = self // other` is `num d0 = den d0` in F_p[ω] -/
theorem eq_test_iff (d0 : FP2 Int) (hc : d0.c = 0) (hcC : d0.cC = 0) :
    (let d := normalizeP p d0; (d.a == d.aC && d.b == d.bC && d.c == d.cC)) = true
      ↔ (castV d0 : FP2 (ZMod p)).num = (castV d0 : FP2 (ZMod p)).den := by
  have hz := zmod_p_zero p hp
  have hnd : (castV d0 : FP2 (ZMod p)).num = (castV d0 : FP2 (ZMod p)).den ↔
      ((d0.a : Int) : ZMod p) = ((d0.aC : Int) : ZMod p) ∧ ((d0.b : Int) : ZMod p) = ((d0.bC : Int) : ZMod p) := by
    constructor
    · intro h
      have h1 := congrArg Eis.re h
      have h2 := congrArg Eis.im h
      simpa [FP2.num, FP2.den, castV, hc, hcC] using And.intro h1 h2
    · rintro ⟨h1, h2⟩
      ext <;> simp [FP2.num, FP2.den, castV, hc, hcC, h1, h2]
  rw [hnd]
  unfold normalizeP
  simp only [Bool.and_eq_true, beq_iff_eq]
  rcases modinv_prime p hp d0.aC with ⟨_, h0⟩ | ⟨hpos, hinv⟩
  · rw [if_neg (by rw [h0]; simp)]
    simp only [modP, hc, hcC, and_true]
    rw [emod_eq_iff_cast, emod_eq_iff_cast]
  · rw [if_pos hpos]
    simp only [modP, hc, hcC, zero_mul, Int.zero_emod, and_true]
    rw [emod_eq_iff_cast, emod_eq_iff_cast]
    simp only [cast_emod (p : Int) _ hz, Int.cast_mul, Int.cast_one]
    set mp : ZMod p := ((modinv (d0.aC % (p : Int)) (p : Int) : Int) : ZMod p) with hmp
    set A : ZMod p := ((d0.a : Int) : ZMod p)
    set B : ZMod p := ((d0.b : Int) : ZMod p)
    set AC : ZMod p := ((d0.aC : Int) : ZMod p)
    set BC : ZMod p := ((d0.bC : Int) : ZMod p)
    constructor
    · rintro ⟨h1, h2⟩
      constructor
      · calc A = A * (mp * AC) := by rw [hinv, mul_one]
          _ = (A * mp) * AC := by ring
          _ = AC := by rw [h1, one_mul]
      · calc B = (B * mp) * AC := by rw [mul_assoc, hinv, mul_one]
          _ = (BC * mp) * AC := by rw [h2]
          _ = BC := by rw [mul_assoc, hinv, mul_one]
    · rintro ⟨h1, h2⟩
      exact ⟨by rw [h1, mul_comm, hinv], by rw [h2]⟩

/-- `__eq__` decides equality of the two fractions in F_p[ω] (cross-multiplied) -/
theorem eqP_iff' (s o : FP2 Int) : eqP p s o = true ↔
    (castV s : FP2 (ZMod p)).num * (castV o : FP2 (ZMod p)).den
      = (castV s : FP2 (ZMod p)).den * (castV o : FP2 (ZMod p)).num := by
  have hz := zmod_p_zero p hp
  unfold eqP
  rw [eq_test_iff p hp (divP p s o) (by simp [divP, modP, FP2.div]) (by simp [divP, modP, FP2.div])]
  rw [castV_divP (p : Int) hz]
  have e1 : (FP2.div (castV s : FP2 (ZMod p)) (castV o)).num = (castV s : FP2 (ZMod p)).num * (castV o : FP2 (ZMod p)).den := by
    ext <;> simp [FP2.div, FP2.num, FP2.den] <;> ring
  have e2 : (FP2.div (castV s : FP2 (ZMod p)) (castV o)).den = (castV s : FP2 (ZMod p)).den * (castV o : FP2 (ZMod p)).num := by
    ext <;> simp [FP2.div, FP2.num, FP2.den] <;> ring
  rw [e1, e2]

end prime

end Ipv8.C18
