/- helper lemmas for C18 (proof side; may import Mathlib modules) -/
import Ipv8.Base.Eis
import Ipv8.C18.Model

namespace Ipv8.C18
open Ipv8

namespace FP2
variable {R : Type} [CommRing R]

/-- numerator as an element of R[ω]/(ω²+ω+1): a + bω + cω² = (a − c) + (b − c)ω -/
def num (v : FP2 R) : Eis R := ⟨v.a - v.c, v.b - v.c⟩
/-- denominator likewise -/
def den (v : FP2 R) : Eis R := ⟨v.aC - v.cC, v.bC - v.cC⟩

theorem one_num : (one : FP2 R).num = 1 := by ext <;> simp [one, num]
theorem one_den : (one : FP2 R).den = 1 := by ext <;> simp [one, den]

theorem mul_num' (s o : FP2 R) : (mul s o).num = s.num * o.num := by
  ext <;> simp [mul, num] <;> ring
theorem mul_den' (s o : FP2 R) : (mul s o).den = s.den * o.den := by
  ext <;> simp [mul, den] <;> ring

theorem intpowLoop_num (acc u : FP2 R) (n : Nat) :
    (intpowLoop acc u n).num = acc.num * u.num ^ n := by
  induction n using Nat.strongRecOn generalizing acc u with
  | _ n ih =>
    rw [intpowLoop]
    split
    · subst_vars; simp
    · rename_i hn
      rw [ih (n / 2) (by omega)]
      rw [mul_num']
      have h2 : n = 2 * (n / 2) + n % 2 := by omega
      split
      · rename_i h1
        rw [mul_num']
        conv_rhs => rw [h2, h1]
        ring
      · rename_i h1
        have h0 : n % 2 = 0 := by omega
        conv_rhs => rw [h2, h0]
        ring

theorem intpowLoop_den (acc u : FP2 R) (n : Nat) :
    (intpowLoop acc u n).den = acc.den * u.den ^ n := by
  induction n using Nat.strongRecOn generalizing acc u with
  | _ n ih =>
    rw [intpowLoop]
    split
    · subst_vars; simp
    · rename_i hn
      rw [ih (n / 2) (by omega)]
      rw [mul_den']
      have h2 : n = 2 * (n / 2) + n % 2 := by omega
      split
      · rename_i h1
        rw [mul_den']
        conv_rhs => rw [h2, h1]
        ring
      · rename_i h1
        have h0 : n % 2 = 0 := by omega
        conv_rhs => rw [h2, h0]
        ring

end FP2
end Ipv8.C18
