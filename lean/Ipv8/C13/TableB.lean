/- C13 — kernel-evaluated table, five candidates, the others arrived before P (parallel build unit) -/
import Ipv8.C13.Script
namespace Ipv8.C13
theorem tableB : allCfgs.all (fun c => mutualOk c (scriptK c 4 true)) = true := by
  decide +kernel
end Ipv8.C13
