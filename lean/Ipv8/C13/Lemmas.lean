/- C13 — helper lemmas (core Lean only) -/
import Ipv8.C13.TableA
import Ipv8.C13.TableH
import Ipv8.C13.TableM
import Ipv8.C13.TableN
import Ipv8.C13.TableP

namespace Ipv8.C13

theorem mem_allCfgs (c : Cfg) : c ∈ allCfgs := by
  obtain ⟨tR, tP, pl, ns⟩ := c
  cases tR <;> cases tP <;> cases pl <;> cases ns <;> decide

theorem of_all {p : Cfg → Bool} (h : allCfgs.all p = true) (c : Cfg) : p c = true :=
  List.all_eq_true.mp h c (mem_allCfgs c)

/-! ### `pick` (stands in for random.choice) -/

theorem pick_mem (pref : List Nat) (avail : List PeerRec) (q : PeerRec) (h : pick pref avail = some q) : q ∈ avail := by
  induction pref with
  | nil =>
    cases avail with
    | nil => simp [pick] at h
    | cons a t => simp [pick] at h; simp [h]
  | cons k t ih =>
    simp only [pick] at h
    split at h
    · rename_i p hp
      cases h
      exact List.mem_of_find?_eq_some hp
    · exact ih h

theorem pick_isSome (pref : List Nat) (avail : List PeerRec) (h : avail ≠ []) : (pick pref avail).isSome = true := by
  induction pref with
  | nil =>
    cases avail with
    | nil => exact absurd rfl h
    | cons a t => simp [pick]
  | cons k t ih =>
    simp only [pick]
    split
    · rfl
    · exact ih

/-- preferred key first: the first record with that key is chosen -/
theorem pick_pref (k : Nat) (t : List Nat) (avail : List PeerRec) (q : PeerRec)
    (h : avail.find? (fun p => p.key == k) = some q) : pick (k :: t) avail = some q := by
  simp [pick, h]

theorem find_append_skip (pre post : List PeerRec) (q : PeerRec) (f : PeerRec → Bool)
    (hpre : ∀ p ∈ pre, f p = false) (hq : f q = true) : (pre ++ q :: post).find? f = some q := by
  induction pre with
  | nil => simp [hq]
  | cons a t ih =>
    have ha : f a = false := hpre a (by simp)
    simp only [List.cons_append, List.find?, ha]
    exact ih (fun p hp => hpre p (by simp [hp]))

theorem filter_append_keep (pre post : List PeerRec) (q : PeerRec) (f : PeerRec → Bool) (hq : f q = true) :
    (pre ++ q :: post).filter f = pre.filter f ++ q :: post.filter f := by
  simp [List.filter_append, hq]

/-! ### pins and sanity lemmas (NOT property theorems)

  The first group restates single generated definitions: they pin the translated text (a change of the code that alters
  one of these decisions stops the build) but are not consequences of the property.  The second group is about the
  hand-written scaffolding (`Node.walkable` unfolded, `pick` = stand-in for random.choice, the simulator's `accepts`):
  no change of /repo can break them; they document what the network model assumes. -/

/-- on_introduction_response records the responder's LAN address as well -/
theorem response_teaches_lan (p : IntroRespView) :
    Gen.respLearnsLan p = true ∧ Gen.respLearnedLan p = p.source_lan_address := by
  simp [Gen.respLearnsLan, Gen.respLearnedLan]

/-- Network.get_walkable_addresses, for every node state: an address that was just discovered through overlay s, or
    whose introducer runs overlay s, is reported as walkable for s unless it belongs to a peer already known FOR s —
    peers known only through other overlays do not hide it -/
theorem walkable_iff (n : Node) (s : Nat) (a : Addr) :
    a ∈ n.walkable s ↔ ∃ w ∈ n.all, w.addr = a ∧
      (∀ p ∈ n.getPeers s, a ∉ p.addrs) ∧
      ((∃ k, w.by_ = some k ∧ n.hasSvc k s = true) ∨ w.service = some s) := by
  simp only [Node.walkable, List.mem_map, List.mem_filter]
  constructor
  · rintro ⟨w, ⟨⟨hw, h1⟩, h2⟩, rfl⟩
    refine ⟨w, hw, rfl, ?_, ?_⟩
    · intro p hp hc
      simp only [Bool.not_eq_true', List.any_eq_false] at h1
      exact h1 p hp (by simpa using hc)
    · simp only [Bool.or_eq_true, beq_iff_eq] at h2
      rcases h2 with h2 | h2
      · left
        cases hb : w.by_ with
        | none => rw [hb] at h2; cases h2
        | some k => rw [hb] at h2; exact ⟨k, rfl, h2⟩
      · right; exact h2
  · rintro ⟨w, hw, rfl, h1, h2⟩
    refine ⟨w, ⟨⟨hw, ?_⟩, ?_⟩, rfl⟩
    · simp only [Bool.not_eq_true', List.any_eq_false]
      intro p hp
      simpa using h1 p hp
    · simp only [Bool.or_eq_true, beq_iff_eq]
      rcases h2 with ⟨k, hk, hs⟩ | h2
      · left; rw [hk]; exact hs
      · right; exact h2

/-- `random.choice` returns an element of the candidate list, and returns one whenever the list is non-empty -/
theorem choice_is_a_candidate (pref : List Nat) (avail : List PeerRec) :
    (∀ q, pick pref avail = some q → q ∈ avail) ∧ (avail ≠ [] → (pick pref avail).isSome = true) :=
  ⟨fun q h => pick_mem pref avail q h, pick_isSome pref avail⟩

/-- on_introduction_request records the sender's LAN address — the only place where a LAN address is learned -/
theorem request_teaches_lan (p : IntroReqView) : Gen.learnsLan p = true ∧ Gen.learnedLan p = p.source_lan_address := by
  simp [Gen.learnsLan, Gen.learnedLan]

/-- on_introduction_request answers to the sender's preferred address and names it in the puncture request -/
theorem response_goes_to_sender (p : IntroReqView) (q : PeerView) :
    Gen.respArgs p q = (p.destination_address, q.address, q.address) := by
  simp [Gen.respArgs]

/-- the puncture request goes to the introduced peer and names the requester's socket address as WAN walker -/
theorem puncture_request_names_requester (lanSock sock : Addr) (q : PeerView) :
    (Gen.punctReqSends lanSock sock q).1 = q.address ∧ (Gen.punctReqSends lanSock sock q).2.wan_walker_address = sock := by
  simp [Gen.punctReqSends]

/-- my_estimated_wan is overwritten by a response's destination address exactly when that address is not private -/
theorem response_updates_wan_iff_public (s : SelfView) (p : IntroRespView) :
    Gen.updatesWan s p = !s.address_in_lan_subnets p.destination_address.ip := by
  simp [Gen.updatesWan]

/-- hole punching: once a host has sent to an address, packets from that address pass its filter — whatever the
    (cone) type and whatever else it sent before -/
theorem hole_punch_opens (g : Host) (a : Addr) : accepts { g with sent := g.sent ++ [a] } a = true := by
  cases h : g.typ <;> simp [accepts]

/-- filters only ever open: further sends never close an accepted source -/
theorem filter_monotone (g : Host) (more : List Addr) (src : Addr) (h : accepts g src = true) :
    accepts { g with sent := g.sent ++ more } src = true := by
  cases ht : g.typ <;> simp [accepts, ht] at h ⊢
  · cases hs : g.sent with
    | nil => simp [hs] at h
    | cons a t => simp
  · exact Or.inl h
  · exact Or.inl h

/-- the puncture is necessary: a restricted host that never sent to the source's ip drops its packets -/
theorem no_puncture_no_entry (g : Host) (src : Addr) (ht : g.typ = .addrRestricted ∨ g.typ = .portRestricted)
    (h : ∀ s ∈ g.sent, s.ip ≠ src.ip) : accepts g src = false := by
  rcases ht with ht | ht <;> simp [accepts, ht]
  · intro x hx; exact h x hx
  · intro x hx heq; exact h x hx (by rw [heq])
example : accepts { lan := ⟨1, 1⟩, wan := ⟨2, 2⟩, box := 1, typ := .portRestricted, sent := [⟨9, 9⟩] } ⟨9, 8⟩ = false := by decide

end Ipv8.C13
