/- C13 — helper lemmas (core Lean only) -/
import Ipv8.C13.TableA
import Ipv8.C13.TableB
import Ipv8.C13.TableC
import Ipv8.C13.TableD
import Ipv8.C13.TableE
import Ipv8.C13.TableF
import Ipv8.C13.TableG
import Ipv8.C13.TableH

namespace Ipv8.C13

theorem mem_allCfgs (c : Cfg) : c ∈ allCfgs := by
  obtain ⟨tR, tP, pl, ns⟩ := c
  cases tR <;> cases tP <;> cases pl <;> cases ns <;> decide

theorem of_all {p : Cfg → Bool} (h : allCfgs.all p = true) (c : Cfg) : p c = true :=
  List.all_eq_true.mp h c (mem_allCfgs c)

/-! ### `pick` (stands in for random.choice) -/

theorem pick_mem (pref : List Nat) (avail : List PeerRec) (q : PeerRec) (h : pick pref avail = some q) : q ∈ avail := by
  induction pref with
  | nil =>
    cases avail with
    | nil => simp [pick] at h
    | cons a t => simp [pick] at h; simp [h]
  | cons k t ih =>
    simp only [pick] at h
    split at h
    · rename_i p hp
      cases h
      exact List.mem_of_find?_eq_some hp
    · exact ih h

theorem pick_isSome (pref : List Nat) (avail : List PeerRec) (h : avail ≠ []) : (pick pref avail).isSome = true := by
  induction pref with
  | nil =>
    cases avail with
    | nil => exact absurd rfl h
    | cons a t => simp [pick]
  | cons k t ih =>
    simp only [pick]
    split
    · rfl
    · exact ih

/-- preferred key first: the first record with that key is chosen -/
theorem pick_pref (k : Nat) (t : List Nat) (avail : List PeerRec) (q : PeerRec)
    (h : avail.find? (fun p => p.key == k) = some q) : pick (k :: t) avail = some q := by
  simp [pick, h]

theorem find_append_skip (pre post : List PeerRec) (q : PeerRec) (f : PeerRec → Bool)
    (hpre : ∀ p ∈ pre, f p = false) (hq : f q = true) : (pre ++ q :: post).find? f = some q := by
  induction pre with
  | nil => simp [hq]
  | cons a t ih =>
    have ha : f a = false := hpre a (by simp)
    simp only [List.cons_append, List.find?, ha]
    exact ih (fun p hp => hpre p (by simp [hp]))

theorem filter_append_keep (pre post : List PeerRec) (q : PeerRec) (f : PeerRec → Bool) (hq : f q = true) :
    (pre ++ q :: post).filter f = pre.filter f ++ q :: post.filter f := by
  simp [List.filter_append, hq]

end Ipv8.C13
