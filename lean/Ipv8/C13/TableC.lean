/- C13 — kernel-evaluated table, three candidates, the others arrived after P (parallel build unit) -/
import Ipv8.C13.Script
namespace Ipv8.C13
theorem tableC : allCfgs.all (fun c => mutualOk c (scriptK c 2 false)) = true := by
  decide +kernel
end Ipv8.C13
