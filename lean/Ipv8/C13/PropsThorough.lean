/-
  C13 — property theorems over the kernel tables that are built in the THOROUGH tier only (harness/c13.py adds this module
  to the lake targets when the tier is `thorough`).  Same conventions as Props.lean; all `…_partial` (one fixed address
  assignment, requester knows only the introducer — see the header of Props.lean).
-/
import Ipv8.C13.Props
import Ipv8.C13.TableB
import Ipv8.C13.TableC
import Ipv8.C13.TableD
import Ipv8.C13.TableE
import Ipv8.C13.TableF
import Ipv8.C13.TableG
import Ipv8.C13.TableI
import Ipv8.C13.TableJ
import Ipv8.C13.TableK
import Ipv8.C13.TableL
import Ipv8.C13.TableO

namespace Ipv8.C13

/-- 1..5 candidates: with four further live candidates that walked to the introducer before the introduced peer did, and
    with two that did so afterwards, the script still ends in mutual verification (the introducer's choice falls on P).
    (`introducer_packets_any_table` below is a conditional statement about one step, not a lift of this table.) -/
theorem intro_reaches_more_candidates_partial (c : Cfg) :
    mutualOk c (scriptK c 4 true) = true ∧ mutualOk c (scriptK c 2 false) = true :=
  ⟨of_all tableB c, of_all tableC c⟩
example : (prehistoryK ⟨.none, .none, .diff, false⟩ 4 true).nodes[0]?.map (·.peers.length) = some 5 := by decide +kernel

/-- the other history — the introducer never received a request from the introduced peer and knows it only from its
    RESPONSE (it was introduced to it by a fourth node): same conclusion, including LAN-only contact behind one box.
    (Before the fix of on_introduction_response recorded in known_findings.d/C13.json the same-box rows of this table
    were false: no LAN address was handed out.) -/
theorem intro_reaches_response_history_partial (c : Cfg) :
    introductionOkW c (prehistoryResp c) = true ∧ contactOkW c (prehistoryResp c) = true ∧
    mutualOk c (scriptResp c) = true ∧ (sameBox c = true → lanOnlyW c (prehistoryResp c) = true) := by
  have h := of_all tableD c
  simp only [Bool.and_eq_true, Bool.or_eq_true, Bool.not_eq_true'] at h
  refine ⟨h.1.1.1, h.1.1.2, h.1.2, fun hs => ?_⟩
  rcases h.2 with h' | h'
  · rw [hs] at h'; cases h'
  · exact h'
example : ((prehistoryResp ⟨.portRestricted, .portRestricted, .same, false⟩).verifiedAt 0 2).map (·.lan) =
    some (some ⟨ipv4 192 168 1 3, 8090⟩) := by decide +kernel

/-- the remaining ways the introducer can have learned the introduced peer — repeated requests (the later ones sent after
    the peer knew its WAN address, so source_wan_address ≠ source_lan_address), request then response, response then
    request: in each the introduction reaches P, hands out P's real addresses, R's contact attempt succeeds, both are
    verified at each other, and same-box pairs stay on the LAN -/
theorem intro_reaches_other_histories_partial (c : Cfg) :
    allOkW c (prehistoryRepeat c) = true ∧ allOkW c (prehistoryReqResp c) = true ∧ allOkW c (prehistoryRespReq c) = true :=
  ⟨of_all tableE1 c, of_all tableE2 c, of_all tableF c⟩
example : ((prehistoryRepeat ⟨.portRestricted, .portRestricted, .diff, false⟩).trace.getLast?.isSome) = true := by decide +kernel

/-- the introducer is a bootstrap server whose address everybody else has on the blacklist (so it never becomes a
    verified peer; old-style only, it cannot be `ask`ed): introductions received from it are still recorded and walked -/
theorem intro_reaches_bootstrap_partial (c : Cfg) (h : c.newStyle = false) : allOkW c (prehistoryBootstrap c) = true := by
  have hm : c ∈ oldCfgs := by simp [oldCfgs, mem_allCfgs, h]
  exact List.all_eq_true.mp tableI1 c hm
example : ((prehistoryBootstrap ⟨.none, .none, .diff, false⟩).verifiedAt 2 0) = none := by decide +kernel

/-- the introducer sits behind an unfiltered port-preserving box, knows its WAN address, and the introduced peer runs on
    the introducer's own machine (first branch of create_introduction_response: LAN address as seen, WAN address =
    introducer's WAN ip + the peer's port): a public or separately boxed requester and that peer end up verified at each
    other under their WAN addresses -/
theorem intro_reaches_own_machine_partial (c : Cfg) (h : c.pl = .pub ∨ c.pl = .diff) :
    mutualOwn c (scriptOwn c) = true := by
  have hm : c ∈ ownCfgs := by
    simp only [ownCfgs, List.mem_filter, mem_allCfgs, true_and, Bool.or_eq_true, beq_iff_eq]; exact h
  exact List.all_eq_true.mp tableI2 c hm

/-- address changes, rows in which the host concerned is behind a box (for a public host there is no mapping to renew):
    (1) the introduced peer's mapping is renewed after the introducer learned it and it contacts the introducer again from
    the new mapping; (2) the requester's mapping is renewed while it is a known peer of the introducer; (3) the requester
    roams to another public ip (for placement `same`: away from the box it shared with the introduced peer).  In each case
    (`allOkDyn`, addresses as they are NOW): the puncture request names the requester's current WAN address and reaches
    the introduced peer, which punctures towards it; the response hands out the introduced peer's current WAN address;
    a walk of the requester reaches the introduced peer and the answer returns; both are in each other's get_peers()
    under the current addresses.  (No LAN-path clause here.) -/
theorem intro_reaches_after_address_change_partial (c : Cfg) :
    (boxedP c = true → allOkDyn c (preIntroducedRemapped c) = true) ∧
    (boxedR c = true → allOkDyn c (preRequesterRemapped c) = true ∧ allOkDyn c (preRequesterRoams c) = true) := by
  refine ⟨fun hp => ?_, fun hr => ?_⟩
  · exact List.all_eq_true.mp tableJ c (by simp [List.mem_filter, mem_allCfgs, hp])
  · have h := List.all_eq_true.mp tableK c (by simp [List.mem_filter, mem_allCfgs, hr])
    simpa [Bool.and_eq_true] using h
example : boxedR ⟨.portRestricted, .portRestricted, .same, false⟩ = true ∧
    ((preRequesterRoams ⟨.portRestricted, .portRestricted, .same, false⟩).hosts[1]?.map (·.wan)) = some ⟨ipv4 8 8 8 8, 45001⟩ := by
  decide +kernel

/-- churn at an introducer without peer limit (max_peers = -1), rows with a boxed introduced peer: its mapping is renewed,
    the introducer drops it (Network.remove_peer) and verifies it again from its next request; same conclusion
    (`allOkDyn`) as above -/
theorem intro_reaches_after_churn_partial (c : Cfg) (hp : boxedP c = true) : allOkDyn c (preChurn c) = true :=
  List.all_eq_true.mp tableL c (by simp [List.mem_filter, mem_allCfgs, hp])

/-- the contact attempt made by the stock RandomWalk strategy (node timeout 3 s, window 5): both handed-out addresses
    are probed one second apart; when the unanswered probe times out its address is recognised as an address of the
    (meanwhile verified) introduced peer — `get_verified_by_address` matches the LAN slot too — so `remove_by_address` is
    not called and both are STILL verified at each other after the time-outs have been processed -/
theorem verified_peer_survives_probe_timeout_partial (c : Cfg) : strategyOk c = true := of_all tableO c

end Ipv8.C13
