/- C13 — kernel-evaluated table, three nodes (parallel build unit) -/
import Ipv8.C13.Script
namespace Ipv8.C13
theorem tableA : allCfgs.all (fun c =>
    introductionOk c && contactOk c && mutualOk c (script c) && styleOk c && (!sameBox c || lanOnly c)) = true := by
  decide +kernel
end Ipv8.C13
