/-
  C13 — basic types shared by the generated file (Gen.lean) and the hand-written model (Model.lean).
  Core Lean only.

  An IPv4 UDP address is (ip as a 32 bit number, port).  `("0.0.0.0", 0)` is `Addr.zero`.
  The three "views" are what the translated fragments of ipv8/community.py read:
    SelfView      — `self.my_estimated_wan`, `self.my_estimated_lan`, `self.address_in_lan_subnets(ip)`, `self.address_is_lan(ip)`
    PeerView      — `introduction.address` (preferred address) and `introduction.addresses.get(UDPv4LANAddress, …)`
    IntroRespView — the address fields of an introduction response;  PunctReqView — of a puncture request.
-/
namespace Ipv8.C13

structure Addr where
  ip : Nat
  port : Nat
deriving DecidableEq, Repr, Inhabited

def Addr.zero : Addr := ⟨0, 0⟩

structure SelfView where
  my_estimated_wan : Addr
  my_estimated_lan : Addr
  address_in_lan_subnets : Nat → Bool
  address_is_lan : Nat → Bool

structure PeerView where
  address : Addr
  lan_address : Option Addr     -- `addresses.get(UDPv4LANAddress)`

structure IntroReqView where
  destination_address : Addr
  source_lan_address : Addr
  source_wan_address : Addr

structure IntroRespView where
  destination_address : Addr
  source_lan_address : Addr
  source_wan_address : Addr
  lan_introduction_address : Addr
  wan_introduction_address : Addr

structure PunctReqView where
  lan_walker_address : Addr
  wan_walker_address : Addr

end Ipv8.C13
