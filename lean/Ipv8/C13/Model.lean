/-
  C13 — executable model: a simulated IPv4 network with NAT boxes + the introduction / puncture logic of
  ipv8/community.py running on it.  Core Lean only (no Mathlib) so that the driver links.

  NETWORK (the same rules are implemented by the Python simulator in harness/c13.py, class SimNet)
    A host has a LAN address, a WAN address (equal when it is not behind a translating box), a box id (0 = directly on
    the internet) and a filtering type.  Mapping is endpoint-independent (one fixed WAN address per host, whatever the
    destination).  `sent` is the list of WAN destinations the host has sent to (the NAT's filter state).
      route of a packet from host h to address d:
        d = 0.0.0.0:*                                   -> dropped (null)
        h behind a box, d in h's /24                    -> LAN delivery to the host of the SAME box with that LAN address,
                                                           source seen = h's LAN address, no filtering; else dropped (lanNoHost)
        d in 10/8, 172.16/12, 192.168/16                -> dropped (unroutable)          [RFC 1918, fixed; not the code's table]
        otherwise WAN: h.sent gets d; source seen = h's WAN address;
           h behind a box and d.ip = h's WAN ip         -> dropped (hairpin: boxes do not loop back)
           no host with WAN address d                   -> dropped (noHost)
           target g filters by type:  none: accept | fullCone: g has sent anything | addrRestricted: g has sent to that ip
                                      | portRestricted: g has sent to exactly that ip:port;      else dropped (filtered)
  NODES mirror Community/Network/Peer as far as the introduction protocol uses them — one Network, my_peer (Lamport clock)
    and endpoint shared by any number of overlays, identifiers derived from the clock (IPv4 only, endpoint without an
    `interfaces` attribute, blacklist_mids = own mid):
      lazy_wrapper's known-peer lookup + add_address(source);  on_old/new_introduction_request;  on_introduction_request;
      create_introduction_response (+ get_peer_for_introduction, get_verified_by_address);  on_old/new_introduction_response;
      on_introduction_response;  on_puncture_request;  on_puncture;  walk_to;  send_introduction_request;
      Network.add_verified_peer / discover_address / is_new_style / get_walkable_addresses.
    The address decisions themselves (which address is handed out, which is walked to, where the puncture goes, when
    my_estimated_wan is overwritten, LAN learning) are NOT written here: they are the generated definitions of Gen.lean.
    `random.choice` over the candidate list is a per-node preference list (first preferred key that is available, else the
    first available) — the harness forces the same choice in the real code.
-/
import Ipv8.C13.Gen

namespace Ipv8.C13

/-! ## network -/

inductive NatType where
  | none | fullCone | addrRestricted | portRestricted
deriving DecidableEq, Repr, Inhabited

structure Host where
  lan : Addr
  wan : Addr
  box : Nat
  typ : NatType
  sent : List Addr := []
deriving Repr, Inhabited

inductive Drop where
  | null | lanNoHost | unroutable | hairpin | noHost | filtered
deriving DecidableEq, Repr

inductive Outcome where
  | lan (to : Nat)
  | wan (to : Nat)
  | drop (why : Drop)
deriving DecidableEq, Repr

/-- RFC 1918 ranges as the simulated internet sees them (fixed, independent of the code under test) -/
def isPrivate (ip : Nat) : Bool :=
  ip / 16777216 == 10 || ip / 1048576 == 2753 || ip / 65536 == 49320

def sameNet24 (a b : Nat) : Bool := a / 256 == b / 256

def accepts (g : Host) (src : Addr) : Bool :=
  match g.typ with
  | .none => true
  | .fullCone => !g.sent.isEmpty
  | .addrRestricted => g.sent.any (fun s => s.ip == src.ip)
  | .portRestricted => g.sent.any (fun s => s == src)

/-- index of the first host satisfying p -/
def findIdx (p : Host → Bool) : List Host → Nat → Option Nat
  | [], _ => none
  | h :: t, i => if p h then some i else findIdx p t (i + 1)

/-- routing decision: (hosts after the NAT state update, outcome, source address as seen by the receiver) -/
def route (hosts : List Host) (src : Nat) (d : Addr) : List Host × Outcome × Addr :=
  match hosts[src]? with
  | none => (hosts, .drop .noHost, Addr.zero)
  | some h =>
    if d.ip == 0 then (hosts, .drop .null, h.lan)
    else if h.box != 0 && sameNet24 d.ip h.lan.ip then
      match findIdx (fun g => g.box == h.box && g.lan == d) hosts 0 with
      | some j => (hosts, .lan j, h.lan)
      | none => (hosts, .drop .lanNoHost, h.lan)
    else if isPrivate d.ip then (hosts, .drop .unroutable, h.lan)
    else
      let hosts' := hosts.set src { h with sent := if h.sent.contains d then h.sent else h.sent ++ [d] }
      if h.box != 0 && d.ip == h.wan.ip then (hosts', .drop .hairpin, h.wan)
      else
        match findIdx (fun g => g.wan == d) hosts' 0 with
        | none => (hosts', .drop .noHost, h.wan)
        | some j =>
          match hosts'[j]? with
          | none => (hosts', .drop .noHost, h.wan)
          | some g => if accepts g h.wan then (hosts', .wan j, h.wan) else (hosts', .drop .filtered, h.wan)

/-! ## messages -/

/-- `ident` is the 16 bit identifier field; requests derive it from the sender's clock (`Gen.requestIdentifier`),
    everything else echoes the identifier of the request it belongs to -/
inductive Msg where
  | introReq (ns : Bool) (key : Nat) (ident : Nat) (p : IntroReqView)
  | introResp (ns : Bool) (key : Nat) (ident : Nat) (p : IntroRespView) (introNs : Bool)
  | punctReq (ns : Bool) (ident : Nat) (p : PunctReqView)
  | puncture (ns : Bool) (key : Nat) (ident : Nat) (srcLan srcWan : Addr)

/-- the payload class a message travels as, and through it (generated tables) its msg_id and handler -/
def Msg.kind : Msg → PayloadKind
  | .introReq ns .. => if ns then .introReqNew else .introReqOld
  | .introResp ns .. => if ns then .introRespNew else .introRespOld
  | .punctReq ns .. => if ns then .punctReqNew else .punctReqOld
  | .puncture ns .. => if ns then .punctureNew else .punctureOld

/-- packing the identifier: old-style payload classes reduce it modulo 65536 themselves, new-style ones pack it raw as
    an unsigned 16 bit field — a larger value raises PackError and nothing is sent -/
def packIdent (k : PayloadKind) (i : Nat) : Option Nat :=
  if Gen.identTruncated k then some (i % 65536) else if i < 65536 then some i else none

def lookupHandler (id : Nat) : List (Nat × Handler) → Option Handler
  | [] => none
  | (i, h) :: t => if i == id then some h else lookupHandler id t

/-- Community.on_packet: decode_map[msg_id] -/
def handlerFor (m : Msg) : Option Handler := lookupHandler (Gen.msgId m.kind) Gen.dispatch

/-! ## node state

  One node = one IPv8 instance: ONE Network, ONE my_peer (hence one Lamport clock) and one endpoint shared by all its
  overlays; per overlay (service id `s`) only `my_estimated_wan` differs.  Peers are verified network-wide;
  `get_peers()` of an overlay = the verified peers that are known to run that service. -/

structure PeerRec where
  key : Nat
  v4 : Addr                  -- addresses[UDPv4Address]  (= Peer.address, the preferred one)
  lan : Option Addr := none  -- addresses[UDPv4LANAddress]
  ns : Bool := false         -- new_style_intro
deriving DecidableEq, Repr, Inhabited

structure Walk where
  addr : Addr
  by_ : Option Nat           -- introduced_by (none = b"")
  ns : Bool
  service : Option Nat := none   -- the overlay through which the address was discovered
deriving DecidableEq, Repr, Inhabited

structure Node where
  key : Nat
  myLan : Addr               -- my_estimated_lan (same in every overlay)
  wans : List (Nat × Addr) := []   -- my_estimated_wan per overlay once it differs from the initial value (= my_estimated_lan)
  machineIp : Nat            -- the one LAN interface address of the machine (get_lan_addresses())
  peers : List PeerRec := [] -- verified peers, insertion order (Network.verified_peers)
  svcs : List (Nat × Nat) := []    -- Network.services_per_peer as (peer key, service) pairs
  all : List Walk := []      -- Network._all_addresses, insertion order
  pref : List Nat := []      -- stands in for random.choice
  clock : Nat := 0           -- my_peer's Lamport clock (global time)
  blacklist : List Addr := []      -- Network.blacklist (addresses of bootstrap servers: never verified, never walked to)
  maxPeers : Int := 30       -- Community.max_peers (DEFAULT_MAX_PEERS; negative = unlimited)
  isTracker : Bool := false  -- scripts/tracker_service.py EndpointServer: answers old-style requests of ANY prefix
  timeouts : List (Nat × Addr × Nat) := []   -- RandomWalk.intro_timeouts per overlay: (overlay, address, time of the walk)
deriving Repr, Inhabited

def inLanSubnets (ip : Nat) : Bool :=
  Gen.lanSubnets.any (fun s => ip / 2 ^ (32 - s.2) == s.1 / 2 ^ (32 - s.2))

def lookupWan (s : Nat) : List (Nat × Addr) → Option Addr
  | [] => none
  | (k, a) :: t => if k == s then some a else lookupWan s t

def Node.myWan (n : Node) (s : Nat) : Addr := (lookupWan s n.wans).getD n.myLan

def Node.setWan (n : Node) (s : Nat) (a : Addr) : Node :=
  { n with wans := (s, a) :: n.wans.filter (fun x => x.1 != s) }

def Node.view (n : Node) (s : Nat := 0) : SelfView :=
  { my_estimated_wan := n.myWan s, my_estimated_lan := n.myLan,
    address_in_lan_subnets := inLanSubnets, address_is_lan := fun ip => ip == n.machineIp }

def PeerRec.view (p : PeerRec) : PeerView := { address := p.v4, lan_address := p.lan }

def PeerRec.addrs (p : PeerRec) : List Addr :=
  match p.lan with
  | some l => [p.v4, l]
  | none => [p.v4]

def Node.findPeer (n : Node) (key : Nat) : Option PeerRec := n.peers.find? (fun p => p.key == key)

def Node.knows (n : Node) (key : Nat) : Bool := n.peers.any (fun p => p.key == key)

def Node.hasSvc (n : Node) (key s : Nat) : Bool := n.svcs.any (fun x => x.1 == key && x.2 == s)

/-- Network.remove_peer (churn: a discovery strategy drops a peer that stopped answering): its addresses leave the
    address table, it leaves the verified peers and the service map.  The per-service caches of network.py are not
    modelled: they must be transparent. -/
def Node.removePeer (n : Node) (key : Nat) : Node :=
  match n.findPeer key with
  | none => n          -- (the harness only calls Network.remove_peer for a verified peer)
  | some p =>
    { n with all := n.all.filter (fun w => !p.addrs.contains w.addr),
             peers := n.peers.filter (fun q => q.key != key),
             svcs := n.svcs.filter (fun x => x.1 != key) }

/-- Network.remove_by_address: the address leaves the address table, every verified peer that holds it (in either
    slot) is dropped together with its service entry -/
def Node.removeByAddress (n : Node) (a : Addr) : Node :=
  let gone := n.peers.filter (fun p => p.addrs.contains a)
  { n with all := n.all.filter (fun w => w.addr != a),
           peers := n.peers.filter (fun p => !p.addrs.contains a),
           svcs := n.svcs.filter (fun x => !gone.any (fun p => p.key == x.1)) }

/-- Network.discover_services(peer, [s]) — also recorded for keys that are not (or cannot be) verified -/
def Node.addSvc (n : Node) (key s : Nat) : Node :=
  if n.hasSvc key s then n else { n with svcs := n.svcs ++ [(key, s)] }

/-- Community.get_peers() of overlay s = Network.get_peers_for_service -/
def Node.getPeers (n : Node) (s : Nat) : List PeerRec := n.peers.filter (fun p => n.hasSvc p.key s)

def Node.setPeer (n : Node) (p : PeerRec) : Node :=
  { n with peers := n.peers.map (fun q => if q.key == p.key then p else q) }

def Node.inAll (n : Node) (a : Addr) : Bool := n.all.any (fun w => w.addr == a)

/-- lazy_wrapper: the stored Peer (its UDPv4Address slot overwritten with the source address) or a fresh one -/
def Node.senderRec (n : Node) (key : Nat) (src : Addr) : PeerRec × Node :=
  match n.findPeer key with
  | some p =>
    if Gen.refreshesAddress true then let p' := { p with v4 := src }; (p', n.setPeer p') else (p, n)
  | none => ({ key := key, v4 := src }, n)

def addMissing (all : List Walk) : List Addr → List Walk
  | [] => all
  | a :: t => addMissing (if all.any (fun w => w.addr == a) then all else all ++ [⟨a, none, false, none⟩]) t

/-- The node shuts down and starts again with the same key and socket: a fresh Network filled from
    `Network.snapshot()` / `load_snapshot()` — the preferred address of every verified peer, recorded WITHOUT introducer,
    service or style — fresh overlays (WAN estimate = LAN estimate again, default max_peers, empty blacklist) and a fresh
    my_peer (Lamport clock 0).  Nobody is verified any more. -/
def Node.restart (n : Node) : Node :=
  { key := n.key, myLan := n.myLan, machineIp := n.machineIp, pref := n.pref,
    all := addMissing [] ((n.peers.map (·.v4)).filter (fun a => a != Addr.zero)) }

/-- Network.add_verified_peer (blacklist_mids = [own mid]).  For a known key the stored object
    is the one the handler mutated, so its fields are written back. -/
def Node.addVerified (n : Node) (p : PeerRec) : Node :=
  if p.key == n.key then n
  else if n.knows p.key then n.setPeer p
  else if p.addrs.any n.inAll then { n with peers := n.peers ++ [p] }     -- (no blacklist test on this branch)
  else if p.addrs.all (fun a => !n.blacklist.contains a) then
    { n with all := addMissing n.all p.addrs, peers := n.peers ++ [p] }
  else n

def setWalk (a : Addr) (w : Walk) : List Walk → List Walk
  | [] => [w]
  | x :: t => if x.addr == a then w :: t else x :: setWalk a w t

/-- Network.discover_address(peer, a, service = s, new_style = ns) -/
def Node.discover (n : Node) (p : PeerRec) (a : Addr) (ns : Bool) (s : Nat := 0) : Node :=
  let stale := match n.all.find? (fun w => w.addr == a) with
    | none => Gen.reparents false false
    | some w => Gen.reparents true (match w.by_ with
      | none => false          -- the empty introducer of snapshot / contact-only records is never a verified key
      | some k => n.knows k)
  let n1 := if stale then { n with all := setWalk a ⟨a, some p.key, ns, some s⟩ n.all } else n
  if n.blacklist.contains a then n.addVerified p else n1.addVerified p

/-- Network.is_new_style -/
def Node.isNewStyle (n : Node) (a : Addr) : Bool :=
  match n.all.find? (fun w => w.addr == a) with
  | some w => w.ns
  | none => false

/-- Network.get_walkable_addresses(service_id = s) (as a list in `_all_addresses` order; the code returns a set):
    every known address that is not an address of a peer known FOR THIS SERVICE, and whose introducer runs the service
    or which was discovered through it -/
def Node.walkable (n : Node) (s : Nat := 0) : List Addr :=
  ((n.all.filter (fun w => !((n.getPeers s).any (fun p => p.addrs.contains w.addr)))).filter
    (fun w => (match w.by_ with | some k => n.hasSvc k s | none => false) || w.service == some s)).map (·.addr)

/-- Network.get_verified_by_address (network-wide) -/
def Node.byAddress (n : Node) (a : Addr) : Option PeerRec := n.peers.find? (fun p => p.addrs.contains a)

/-- get_peer_for_introduction with random.choice replaced by the preference list -/
def pick (pref : List Nat) (avail : List PeerRec) : Option PeerRec :=
  match pref with
  | [] => avail.head?
  | k :: t => match avail.find? (fun p => p.key == k) with
    | some p => some p
    | none => pick t avail

def Node.available (n : Node) (sock : Addr) (s : Nat := 0) : List PeerRec :=
  match n.byAddress sock with
  | some o => (n.getPeers s).filter (fun p => p.key != o.key)
  | none => n.getPeers s

structure Send where
  dst : Addr
  msg : Msg

def Node.tick (n : Node) : Node := { n with clock := n.clock + 1 }

/-- create_introduction_response: the sends it causes, in order: puncture request (if a peer is introduced), then —
    by the caller — the response.  Two global times are claimed (response, puncture request); identifiers are echoed. -/
def Node.createResponse (n : Node) (lanSock sock respDst : Addr) (ns : Bool) (ident : Nat := 0) (s : Nat := 0) :
    Node × List Send :=
  let n1 := n.tick
  match pick n1.pref (n1.available sock s) with
  | none =>
    let (il, iw, _) := Gen.introNobody (n1.view s)
    (n1, [⟨respDst, .introResp ns n1.key ident (Gen.respFields (n1.view s) sock il iw) false⟩])
  | some q =>
    let (il, iw, introduced) := Gen.introAddrs (n1.view s) q.view
    let (pd, pr) := Gen.punctReqSends lanSock sock q.view
    (if introduced then n1.tick else n1,
     (if introduced then [⟨pd, .punctReq ns ident pr⟩] else [])
      ++ [⟨respDst, .introResp ns n1.key ident (Gen.respFields (n1.view s) sock il iw) q.ns⟩])

/-- scripts/tracker_service.py `EndpointServer.on_generic_introduction_request` (the production bootstrap server): no
    lazy_wrapper and no capacity guard; a FRESH Peer (source address + the request's LAN address) is merged into a stored
    one by add_verified_peer; the service is the prefix of the packet; the introduced peer is chosen among the peers of
    THAT service other than the sender and handed to create_introduction_response together with the packet's prefix —
    response and puncture request travel under the requester's prefix (overlay `s`), always old-style. -/
def Node.trackerIntroReq (n : Node) (src : Addr) (key ident : Nat) (pl : IntroReqView) (s : Nat) : Node × List Send :=
  let p : PeerRec := match n.findPeer key with
    | some q => { q with v4 := src, lan := some pl.source_lan_address }   -- known.addresses.update(peer.addresses)
    | none => { key := key, v4 := src, lan := some pl.source_lan_address }
  let n1 := ((n.addVerified p).addSvc key s).tick
  match pick n1.pref ((n1.getPeers s).filter (fun q => q.key != key)) with
  | none =>
    let (il, iw, _) := Gen.introNobody (n1.view s)
    (n1, [⟨src, .introResp false n1.key ident (Gen.respFields (n1.view s) src il iw) false⟩])
  | some q =>
    let (il, iw, introduced) := Gen.introAddrs (n1.view s) q.view
    let (pd, pr) := Gen.punctReqSends pl.destination_address src q.view
    (if introduced then n1.tick else n1,
     (if introduced then [⟨pd, .punctReq false ident pr⟩] else [])
      ++ [⟨src, .introResp false n1.key ident (Gen.respFields (n1.view s) src il iw) q.ns⟩])

/-- handler bodies; `src` is the source address the endpoint reports, `s` the overlay whose prefix the packet carries -/
def Node.onIntroReq (n : Node) (src : Addr) (msgNs : Bool) (key ident : Nat) (pl : IntroReqView) (s : Nat := 0) :
    Node × List Send :=
  let (p0, n0) := n.senderRec key src
  let p1 := { p0 with ns := p0.ns || msgNs }
  let n0 := if n0.knows key then n0.setPeer p1 else n0     -- wrapper + on_old/new_introduction_request mutate a stored peer
  -- `if 0 <= self.max_peers < len(self.get_peers()): return` — at capacity the request is not answered
  if Gen.atCapacity n0.maxPeers ((n0.getPeers s).length : Nat) then (n0, []) else
  let p2 := if Gen.learnsLan pl then { p1 with lan := some (Gen.learnedLan pl) } else p1
  let n1 := (n0.addVerified p2).addSvc key s   -- (a stored object is mutated in place; addVerified writes a known key back)
  let (lanSock, sock, dst) := Gen.respArgs pl p2.view
  n1.createResponse lanSock sock dst p2.ns ident s

def Node.onIntroResp (n : Node) (src : Addr) (key : Nat) (pl : IntroRespView) (introNs : Bool) (s : Nat := 0) : Node :=
  let (p0, n0) := n.senderRec key src
  let p1 := { p0 with ns := true }       -- old-style responses always carry supports_new_style = 1
  let n2 := if Gen.updatesWan (n0.view s) pl then n0.setWan s pl.destination_address else n0
  let p2 := if Gen.respLearnsLan pl then { p1 with lan := some (Gen.respLearnedLan pl) } else p1
  let n3 := (n2.addVerified p2).addSvc key s
  (Gen.introductionsOf (n3.view s) pl).foldl (fun acc a => acc.discover p2 a introNs s) n3

def Node.onPunctReq (n : Node) (ns : Bool) (ident : Nat) (pl : PunctReqView) (s : Nat := 0) : Node × List Send :=
  let (dst, sl, sw) := Gen.punctureSends (n.view s) pl
  (n.tick, [⟨dst, .puncture ns n.key ident sl sw⟩])

def Node.onPuncture (n : Node) (src : Addr) (key : Nat) : Node := (n.senderRec key src).2

/-- Community.on_packet for the eight introduction messages, dispatched through the generated table -/
def Node.handle (n : Node) (src : Addr) (m : Msg) (s : Nat := 0) : Node × List Send :=
  if n.isTracker then
    match m with
    | .introReq false key id pl => n.trackerIntroReq src key id pl s     -- msg 246 only; everything else is ignored
    | _ => (n, [])
  else
  match handlerFor m, m with
  | some .oldIntroReq, .introReq ns key id pl => n.onIntroReq src ns key id pl s
  | some .newIntroReq, .introReq _ key id pl => n.onIntroReq src true key id pl s
  | some .oldIntroResp, .introResp _ key _ pl ins => (n.onIntroResp src key pl ins s, [])
  | some .newIntroResp, .introResp _ key _ pl ins => (n.onIntroResp src key pl ins s, [])
  | some .oldPunctReq, .punctReq _ id pl => n.onPunctReq false id pl s
  | some .newPunctReq, .punctReq _ id pl => n.onPunctReq true id pl s
  | some .oldPuncture, .puncture _ key _ _ _ => (n.onPuncture src key, [])
  | some .newPuncture, .puncture _ key _ _ _ => (n.onPuncture src key, [])
  | _, _ => (n, [])      -- no handler / handler cannot decode this payload: packet dropped by on_packet

/-- create_introduction_request: a global time is claimed, the identifier derived from it (generated), and the payload
    packed — which fails (nothing sent) when a raw 16 bit identifier field would overflow -/
def Node.introRequest (n : Node) (dst : Addr) (ns : Bool) (s : Nat := 0) : Node × Option Send :=
  let n1 := n.tick
  let kind : PayloadKind := if ns then .introReqNew else .introReqOld
  (n1, (packIdent kind (Gen.requestIdentifier n1.clock)).map
    (fun i => ⟨dst, .introReq ns n1.key i (Gen.reqFields (n1.view s) dst)⟩))

/-- walk_to -/
def Node.walkTo (n : Node) (a : Addr) (s : Nat := 0) : Node × Option Send := n.introRequest a (n.isNewStyle a) s

/-- send_introduction_request(peer) for a peer of this overlay -/
def Node.askPeer (n : Node) (key : Nat) (s : Nat := 0) : Option (Node × Option Send) :=
  ((n.getPeers s).find? (fun p => p.key == key)).map (fun p => n.introRequest p.v4 p.ns s)

/-! ## world -/

structure Pkt where
  src : Nat
  svc : Nat
  dst : Addr
  msg : Msg

structure Ev where
  src : Nat
  svc : Nat
  dst : Addr
  msg : Msg
  out : Outcome

structure World where
  hosts : List Host := []
  nodes : List Node := []
  queue : List Pkt := []
  trace : List Ev := []

def World.push (w : World) (src : Nat) (s : Nat) (sends : List Send) : World :=
  { w with queue := w.queue ++ sends.map (fun x => ⟨src, s, x.dst, x.msg⟩) }

/-- process the packet at the head of the queue -/
def World.step (w : World) : World :=
  match w.queue with
  | [] => w
  | pk :: rest =>
    let (hosts', out, seen) := route w.hosts pk.src pk.dst
    let w1 := { w with hosts := hosts', queue := rest, trace := w.trace ++ [⟨pk.src, pk.svc, pk.dst, pk.msg, out⟩] }
    let deliver (j : Nat) : World :=
      match w1.nodes[j]? with
      | none => w1
      | some n =>
        let (n', sends) := n.handle seen pk.msg pk.svc
        ({ w1 with nodes := w1.nodes.set j n' }).push j pk.svc sends
    match out with
    | .lan j => deliver j
    | .wan j => deliver j
    | .drop _ => w1

def World.run : Nat → World → World
  | 0, w => w
  | f + 1, w => if w.queue.isEmpty then w else World.run f w.step

/-- enough for every script in this file: each request causes at most three further packets and nothing re-requests -/
def FUEL : Nat := 64

/-- an API call that creates a request: the node's clock advances even when packing fails and nothing is sent -/
def World.request (w : World) (i : Nat) (s : Nat) (r : Node × Option Send) : World :=
  let w1 := { w with nodes := w.nodes.set i r.1 }
  match r.2 with
  | some sd => (w1.push i s [sd]).run FUEL
  | none => w1

def World.walk (w : World) (i : Nat) (a : Addr) (s : Nat := 0) : World :=
  match w.nodes[i]? with
  | none => w
  | some n => w.request i s (n.walkTo a s)

def World.ask (w : World) (i : Nat) (key : Nat) (s : Nat := 0) : World :=
  match w.nodes[i]? with
  | none => w
  | some n => match n.askPeer key s with
    | none => w
    | some r => w.request i s r

/-- One `RandomWalk.take_step()` of node i in overlay s at (virtual) time `now`, node_timeout 3, window 5, with
    `randint` forced to "walk" and `choice(available)` given as `pickA` (none = the harness saw nothing available):
    (1) every walk older than the timeout is forgotten and, unless its address belongs to a verified peer (either slot:
    get_verified_by_address), removed with remove_by_address; (2) nothing more while 5 walks are outstanding; (3) a
    walk to the picked walkable address not yet outstanding, else get_new_introduction() (ask the preferred peer).
    Returns none when the pick is inconsistent with the model's own `available`. -/
def World.rwStep (w : World) (i s now : Nat) (pickA : Option Addr) : Option World :=
  match w.nodes[i]? with
  | none => some w
  | some n =>
    let expired := n.timeouts.filter (fun t => t.1 == s && t.2.2 + 3 < now)
    let n1 := expired.foldl (fun (acc : Node) t => if (acc.byAddress t.2.1).isSome then acc else acc.removeByAddress t.2.1)
      { n with timeouts := n.timeouts.filter (fun t => !(t.1 == s && t.2.2 + 3 < now)) }
    let mine := n1.timeouts.filter (fun t => t.1 == s)
    let w1 := { w with nodes := w.nodes.set i n1 }
    if 5 ≤ mine.length then some w1 else
    let avail := (n1.walkable s).filter (fun a => !mine.any (fun t => t.2.1 == a))
    match pickA with
    | some a =>
      if avail.contains a then
        let n2 := { n1 with timeouts := n1.timeouts ++ [(s, a, now)] }
        some (({ w1 with nodes := w1.nodes.set i n2 }).walk i a s)
      else none
    | none =>
      if !avail.isEmpty then none else
      match pick n1.pref (n1.getPeers s) with
      | some p => some (w1.ask i p.key s)
      | none => some w1

/-- the requester's "next contact attempt": a walk to every address the overlay currently reports as walkable -/
def World.walkAll (w : World) (i : Nat) (s : Nat := 0) : World :=
  match w.nodes[i]? with
  | none => w
  | some n => (n.walkable s).foldl (fun acc a => acc.walk i a s) w

/-- the host's NAT mapping changes (box reboot / mapping timeout: same box, new WAN port; roaming: another box and
    public ip): new WAN address, empty filter state.  The LAN address is kept. -/
def World.remap (w : World) (i : Nat) (box : Nat) (wan : Addr) : World :=
  match w.hosts[i]? with
  | none => w
  | some h => { w with hosts := w.hosts.set i { h with box := box, wan := wan, sent := [] } }

/-- the host moves to a network with another LAN numbering: new LAN address, box and WAN mapping, empty filter.  The
    machine's interface address follows (get_lan_addresses()), but `my_estimated_lan` does NOT: the code computes it once
    and caches it (endpoint.py, `_my_estimated_lan`), so the node keeps advertising the old LAN address. -/
def World.relan (w : World) (i : Nat) (box : Nat) (lan wan : Addr) : World :=
  match w.hosts[i]?, w.nodes[i]? with
  | some h, some n =>
    { w with hosts := w.hosts.set i { h with lan := lan, box := box, wan := wan, sent := [] },
             nodes := w.nodes.set i { n with machineIp := lan.ip } }
  | _, _ => w

def World.restart (w : World) (i : Nat) : World :=
  match w.nodes[i]? with
  | none => w
  | some n => { w with nodes := w.nodes.set i n.restart }

def World.removePeerAt (w : World) (i key : Nat) : World :=
  match w.nodes[i]? with
  | none => w
  | some n => { w with nodes := w.nodes.set i (n.removePeer key) }

def World.addHost (w : World) (h : Host) (clock : Nat := 0) : World :=
  let k := w.hosts.length
  { w with hosts := w.hosts ++ [h],
           nodes := w.nodes ++ [{ key := k, myLan := h.lan, machineIp := h.lan.ip, clock := clock }] }

/-- the record of `key` if it is among get_peers() of overlay s at node i -/
def World.verifiedAt (w : World) (i : Nat) (key : Nat) (s : Nat := 0) : Option PeerRec :=
  match w.nodes[i]? with
  | none => none
  | some n => (n.getPeers s).find? (fun p => p.key == key)

end Ipv8.C13
