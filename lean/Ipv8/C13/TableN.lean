/- C13 — kernel-evaluated tables: tracker introducer, peer limit at the introduced peer, RandomWalk strategy
   (parallel build unit) -/
import Ipv8.C13.Script
namespace Ipv8.C13
theorem tableN : oldCfgs.all (fun c => allOkW c (prehistoryTracker c)) = true := by decide +kernel
theorem tableN2 : allCfgs.all (fun c => allOkW c (prePeerLimit c)) = true := by decide +kernel
end Ipv8.C13
