/- C13 — kernel-evaluated table, address changes / churn, rows in which the host concerned is behind a box
   (parallel build unit) -/
import Ipv8.C13.Script
namespace Ipv8.C13
theorem tableL : (allCfgs.filter boxedP).all (fun c => allOkDyn c (preChurn c)) = true := by decide +kernel
end Ipv8.C13
