/- C13 — kernel-evaluated table, two overlays sharing one Network: connected in overlay 1 first, then introduced in
   overlay 0 (parallel build unit) -/
import Ipv8.C13.Script
namespace Ipv8.C13
theorem tableH : allCfgs.all (fun c =>
    mutualIn c (afterOverlayOne c) 1 && !(mutualIn c (prehistoryTwo c) 0) && allOkW c (prehistoryTwo c)) = true := by
  decide +kernel
end Ipv8.C13
