/- C13 — kernel-evaluated table, LANs numbered outside RFC 1918 (parallel build unit) -/
import Ipv8.C13.Script
namespace Ipv8.C13
theorem tableP : cgnCfgs.all cgnOk = true := by decide +kernel
end Ipv8.C13
