/- C13 — kernel-evaluated table, history "repeated requests" (parallel build unit) -/
import Ipv8.C13.Script
namespace Ipv8.C13
theorem tableE1 : allCfgs.all (fun c => allOkW c (prehistoryRepeat c)) = true := by decide +kernel
end Ipv8.C13
