/- C13 — kernel-evaluated table, history "the introducer learned P from its response" (parallel build unit).
   No style clause here: a peer learned from a response is marked new-style by the code (old-style responses carry
   supports_new_style = 1), so in this history the requester's contact attempt is new-style whatever came before. -/
import Ipv8.C13.Script
namespace Ipv8.C13
theorem tableD : allCfgs.all (fun c =>
    introductionOkW c (prehistoryResp c) && contactOkW c (prehistoryResp c) && mutualOk c (scriptResp c) &&
    (!sameBox c || lanOnlyW c (prehistoryResp c))) = true := by
  decide +kernel
end Ipv8.C13
