/- C13 — kernel-evaluated table, address changes / churn (parallel build unit) -/
import Ipv8.C13.Script
namespace Ipv8.C13
theorem tableJ : allCfgs.all (fun c => mutualDyn (scriptIntroducedRemapped c)) = true := by decide +kernel
end Ipv8.C13
