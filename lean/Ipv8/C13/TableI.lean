/- C13 — kernel-evaluated tables: blacklisted bootstrap introducer (old style); introducer behind a box with the
   introduced peer on its own machine (parallel build unit) -/
import Ipv8.C13.Script
namespace Ipv8.C13
theorem tableI1 : oldCfgs.all (fun c => allOkW c (prehistoryBootstrap c)) = true := by decide +kernel
theorem tableI2 : ownCfgs.all (fun c => mutualOwn c (scriptOwn c)) = true := by decide +kernel
end Ipv8.C13
