/- C13 — kernel-evaluated table, history "request, then response" (parallel build unit) -/
import Ipv8.C13.Script
namespace Ipv8.C13
theorem tableE2 : allCfgs.all (fun c => allOkW c (prehistoryReqResp c)) = true := by decide +kernel
end Ipv8.C13
