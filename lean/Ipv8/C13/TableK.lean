/- C13 — kernel-evaluated table, address changes / churn, rows in which the host concerned is behind a box
   (parallel build unit) -/
import Ipv8.C13.Script
namespace Ipv8.C13
theorem tableK : (allCfgs.filter boxedR).all (fun c => allOkDyn c (preRequesterRemapped c) && allOkDyn c (preRequesterRoams c)) = true := by decide +kernel
end Ipv8.C13
