/- C13 — kernel-evaluated tables: tracker introducer, peer limit at the introduced peer, RandomWalk strategy
   (parallel build unit) -/
import Ipv8.C13.Script
namespace Ipv8.C13
theorem tableO : allCfgs.all strategyOk = true := by decide +kernel
end Ipv8.C13
