/- C13 — kernel-evaluated table, restart of the requester (parallel build unit) -/
import Ipv8.C13.Script
namespace Ipv8.C13
theorem tableM : allCfgs.all restartOk = true := by decide +kernel
end Ipv8.C13
