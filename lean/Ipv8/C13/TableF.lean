/- C13 — kernel-evaluated table, history "response, then request" (parallel build unit) -/
import Ipv8.C13.Script
namespace Ipv8.C13
theorem tableF : allCfgs.all (fun c => allOkW c (prehistoryRespReq c)) = true := by decide +kernel
end Ipv8.C13
