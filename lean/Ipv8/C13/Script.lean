/-
  C13 — the scripted introduction on the model: configurations (NAT types, placement, message style), concrete worlds
  and the two histories.  Core Lean only.

  Hosts: 0 = introducer I (public, unfiltered), 1 = requester R, 2 = introduced peer P, 3.. = further candidates.
-/
import Ipv8.C13.Model

namespace Ipv8.C13

inductive Placement where
  | pub      -- R and P directly on the internet (LAN address = WAN address), filtering only
  | diff     -- R and P behind two different translating boxes
  | same     -- R and P behind the same box
  | rPub     -- R public, P behind a box
  | pPub     -- P public, R behind a box
deriving DecidableEq, Repr

structure Cfg where
  tR : NatType
  tP : NatType
  pl : Placement
  newStyle : Bool
deriving DecidableEq, Repr

def allTypes : List NatType := [.none, .fullCone, .addrRestricted, .portRestricted]
def allPlacements : List Placement := [.pub, .diff, .same, .rPub, .pPub]

def allCfgs : List Cfg :=
  allTypes.flatMap fun tR => allTypes.flatMap fun tP => allPlacements.flatMap fun pl =>
    [⟨tR, tP, pl, false⟩, ⟨tR, tP, pl, true⟩]

/-- a.b.c.d -/
def ipv4 (a b c d : Nat) : Nat := ((a * 256 + b) * 256 + c) * 256 + d

def addrI : Addr := ⟨ipv4 1 1 1 1, 8090⟩

/-- (LAN, WAN, box) of requester and introduced peer.  Both LANs are numbered 192.168.1.x (colliding /24s in `diff`),
    every node listens on 8090 and the boxes remap ports. -/
def placeR : Placement → Addr × Addr × Nat
  | .pub => (⟨ipv4 2 2 2 2, 8090⟩, ⟨ipv4 2 2 2 2, 8090⟩, 0)
  | .rPub => (⟨ipv4 2 2 2 2, 8090⟩, ⟨ipv4 2 2 2 2, 8090⟩, 0)
  | _ => (⟨ipv4 192 168 1 2, 8090⟩, ⟨ipv4 2 2 2 2, 40001⟩, 1)

def placeP : Placement → Addr × Addr × Nat
  | .pub => (⟨ipv4 3 3 3 3, 8090⟩, ⟨ipv4 3 3 3 3, 8090⟩, 0)
  | .pPub => (⟨ipv4 3 3 3 3, 8090⟩, ⟨ipv4 3 3 3 3, 8090⟩, 0)
  | .same => (⟨ipv4 192 168 1 3, 8090⟩, ⟨ipv4 2 2 2 2, 40002⟩, 1)
  | _ => (⟨ipv4 192 168 1 3, 8090⟩, ⟨ipv4 3 3 3 3, 40002⟩, 2)

def hostR (c : Cfg) : Host := let (l, w, b) := placeR c.pl; { lan := l, wan := w, box := b, typ := c.tR }
def hostP (c : Cfg) : Host := let (l, w, b) := placeP c.pl; { lan := l, wan := w, box := b, typ := c.tP }
def hostI : Host := { lan := addrI, wan := addrI, box := 0, typ := .none }

/-- Node ages (Lamport clocks): the introducer has sent more than 2^32 messages, the requester more than 2^16, the
    introduced peer's first request claims global time 65535 and its second 65536 — identifiers wrap around. -/
def clockI : Nat := 4294967303
def clockR : Nat := 70000
def clockP : Nat := 65534

def world0 (c : Cfg) : World :=
  ((({} : World).addHost hostI clockI).addHost (hostR c) clockR).addHost (hostP c) clockP

def setPref (w : World) (i : Nat) (pref : List Nat) : World :=
  match w.nodes[i]? with
  | some n => { w with nodes := w.nodes.set i { n with pref := pref } }
  | none => w

/-- history up to (not including) the scripted introduction.
    old style: P walked to I.   new style: R walked to I first (nothing to introduce yet), P walked to I and asked again
    (second contact is new-style), so that every later message of the script is new-style. -/
def prehistoryOn (c : Cfg) (s : Nat) (w : World) : World :=
  if c.newStyle then (((w.walk 1 addrI s).walk 2 addrI s).ask 2 0 s) else w.walk 2 addrI s

def prehistory (c : Cfg) : World := prehistoryOn c 0 (setPref (world0 c) 0 [2])

/-- R's request to I in overlay s: response + puncture request + puncture, run to quiescence -/
def introduceIn (c : Cfg) (s : Nat) (w : World) : World :=
  if c.newStyle then w.ask 1 0 s else w.walk 1 addrI s

def introduce (c : Cfg) (w : World) : World := introduceIn c 0 w

/-- the whole script: prehistory, introduction, R's next contact attempt -/
def script (c : Cfg) : World := (introduce c (prehistory c)).walkAll 1

def sameBox (c : Cfg) : Bool := (hostR c).box != 0 && (hostR c).box == (hostP c).box

/-- the address under which the two should know each other: LAN when behind the same box, else WAN -/
def expectAddrOf (c : Cfg) (h : Host) : Addr := if sameBox c then h.lan else h.wan

/-- both ended up as verified peers of each other, under the address that works -/
def mutualOk (c : Cfg) (w : World) : Bool :=
  (match w.verifiedAt 1 2 with | some p => p.v4 == expectAddrOf c (hostP c) | none => false) &&
  (match w.verifiedAt 2 1 with | some p => p.v4 == expectAddrOf c (hostR c) | none => false)

def Ev.isReq (e : Ev) : Bool := match e.msg with | .introReq .. => true | _ => false
def Ev.isResp (e : Ev) : Bool := match e.msg with | .introResp .. => true | _ => false
def Ev.isPunctReq (e : Ev) : Bool := match e.msg with | .punctReq .. => true | _ => false
def Ev.isPuncture (e : Ev) : Bool := match e.msg with | .puncture .. => true | _ => false
def Ev.delivered (e : Ev) (to : Nat) : Bool := e.out == .lan to || e.out == .wan to
def Ev.overWan (e : Ev) : Bool := match e.out with | .wan _ => true | _ => false
def Ev.newStyle (e : Ev) : Bool :=
  match e.msg with
  | .introReq ns .. => ns | .introResp ns .. => ns | .punctReq ns .. => ns | .puncture ns .. => ns

/-- events added by running `f` -/
def newEvents (w : World) (f : World → World) : List Ev := (f w).trace.drop w.trace.length

/-- during the introduction (started in state `w0`): I sent a puncture request naming R's real WAN address that reached
    P, P sent a puncture (towards R's WAN address unless they share a box), and I's response — handing out P's real LAN
    and WAN address — reached R -/
def introductionOkW (c : Cfg) (w0 : World) : Bool :=
  let evs := newEvents w0 (introduce c)
  evs.any (fun e => e.src == 0 && e.delivered 2 &&
    (match e.msg with | .punctReq _ _ p => p.wan_walker_address == (hostR c).wan | _ => false)) &&
  evs.any (fun e => e.src == 2 && e.isPuncture && (sameBox c || e.dst == (hostR c).wan)) &&
  evs.any (fun e => e.src == 0 && e.delivered 1 &&
    (match e.msg with
     | .introResp _ _ _ p _ => p.wan_introduction_address == (hostP c).wan && p.lan_introduction_address == (hostP c).lan
     | _ => false))

/-- during R's next contact attempt: a request of R reached P and P's answer reached R -/
def contactOkW (c : Cfg) (w0 : World) : Bool :=
  let evs := newEvents (introduce c w0) (fun w => w.walkAll 1)
  evs.any (fun e => e.src == 1 && e.isReq && e.delivered 2) &&
  evs.any (fun e => e.src == 2 && e.isResp && e.delivered 1)

/-- no packet between R and P was delivered over the WAN side during the contact attempt -/
def lanOnlyW (c : Cfg) (w0 : World) : Bool :=
  let evs := newEvents (introduce c w0) (fun w => w.walkAll 1)
  evs.all (fun e => !((e.src == 1 && e.out == .wan 2) || (e.src == 2 && e.out == .wan 1)))

/-- every message of the introduction and of the contact attempt has the configured style -/
def styleOkW (c : Cfg) (w0 : World) : Bool :=
  (newEvents w0 (fun w => (introduce c w).walkAll 1)).all (fun e => e.newStyle == c.newStyle)

def introductionOk (c : Cfg) : Bool := introductionOkW c (prehistory c)
def contactOk (c : Cfg) : Bool := contactOkW c (prehistory c)
def lanOnly (c : Cfg) : Bool := lanOnlyW c (prehistory c)
def styleOk (c : Cfg) : Bool := styleOkW c (prehistory c)

/-! ## the other history: the introducer learned P from P's RESPONSE -/

def addrX : Addr := ⟨ipv4 5 5 5 5, 8090⟩
def hostX : Host := { lan := addrX, wan := addrX, box := 0, typ := .none }

/-- A second public node X (host 3) knows P (P walked to X).  I walks to X, is introduced to P (X's puncture request
    makes P open its NAT towards I), walks to the addresses it was handed and gets P's response.  P never sent I a
    request, so whatever I knows about P it knows from that response. -/
def prehistoryResp (c : Cfg) : World :=
  let w := setPref (setPref ((world0 c).addHost hostX) 0 [2]) 3 [2]
  let w := if c.newStyle then w.walk 1 addrI else w
  let w := if c.newStyle then (w.walk 2 addrX).ask 2 3 else w.walk 2 addrX
  (w.walk 0 addrX).walkAll 0

def scriptResp (c : Cfg) : World := (introduce c (prehistoryResp c)).walkAll 1

/-! ## further histories of how the introducer learned P -/

/-- P contacted the introducer once more AFTER it learned its own WAN address from the first response (its later request
    carries source_wan_address ≠ source_lan_address) -/
def prehistoryRepeat (c : Cfg) : World :=
  let w := prehistory c
  if c.newStyle then w.ask 2 0 else w.walk 2 addrI

/-- P walked to the introducer, then the introducer itself asked P (so it also holds what P's response says) -/
def prehistoryReqResp (c : Cfg) : World := (prehistory c).ask 0 2

/-- the introducer learned P from its response (via X), then P — knowing its WAN address from X — walked to the introducer -/
def prehistoryRespReq (c : Cfg) : World :=
  let w := prehistoryResp c
  if c.newStyle then (w.walk 2 addrI).ask 2 0 else w.walk 2 addrI

def scriptFrom (c : Cfg) (w0 : World) : World := (introduce c w0).walkAll 1

/-- the conclusion of the script started from `w0` -/
def allOkW (c : Cfg) (w0 : World) : Bool :=
  introductionOkW c w0 && contactOkW c w0 && mutualOk c (scriptFrom c w0) && (!sameBox c || lanOnlyW c w0)

/-! ## two overlays on one Network -/

/-- R and P first become peers of each other in overlay 1 (the whole script there); this is the state in which the
    script then starts in overlay 0: P is already a verified peer of R network-wide and its addresses are already in
    R's address table (discovered through overlay 1), but it is not a peer of overlay 0 yet. -/
def prehistoryTwo (c : Cfg) : World :=
  let w1 := (introduceIn c 1 (prehistoryOn c 1 (setPref (world0 c) 0 [2]))).walkAll 1 1
  prehistoryOn c 0 w1

/-- …and the state after the overlay-1 phase alone (for the claim that it connected them there) -/
def afterOverlayOne (c : Cfg) : World :=
  (introduceIn c 1 (prehistoryOn c 1 (setPref (world0 c) 0 [2]))).walkAll 1 1

def mutualIn (c : Cfg) (w : World) (s : Nat) : Bool :=
  (match w.verifiedAt 1 2 s with | some p => p.v4 == expectAddrOf c (hostP c) | none => false) &&
  (match w.verifiedAt 2 1 s with | some p => p.v4 == expectAddrOf c (hostR c) | none => false)

/-! ## requester states outside the tables: the two known findings (known_findings.d/C13.json) -/

def cfgSamePR : Cfg := ⟨.portRestricted, .portRestricted, .same, false⟩

/-- host 3 = Q: on ANOTHER LAN, unfiltered, with the same full LAN address as P (192.168.1.3:8090) -/
def hostQ : Host := { lan := ⟨ipv4 192 168 1 3, 8090⟩, wan := ⟨ipv4 7 7 7 7, 40003⟩, box := 7, typ := .none }

/-- R first gets to know Q (Q's response tells its LAN address), then the normal script for a same-NAT pair -/
def lanCollisionWorld : World :=
  let w := setPref ((world0 cfgSamePR).addHost hostQ) 0 [2]
  (((w.walk 1 hostQ.wan).walk 2 addrI).walk 1 addrI).walkAll 1

def cfgDiffPR : Cfg := ⟨.portRestricted, .portRestricted, .diff, false⟩

/-- host 3 = X, known to R only as a peer of overlay 1: it introduces P's addresses to R there (R does not walk yet);
    then the normal script in overlay 0 -/
def foreignEntryWorld : World :=
  let w := setPref (setPref ((world0 cfgDiffPR).addHost hostX) 0 [2]) 3 [2]
  let w := (w.walk 2 addrX 1).walk 1 addrX 1
  ((w.walk 2 addrI).walk 1 addrI).walkAll 1

/-! ## the introducer is a blacklisted bootstrap server (old style: it is never a peer one could `ask`) -/

def blacklistAt (w : World) (i : Nat) (a : Addr) : World :=
  match w.nodes[i]? with
  | some n => { w with nodes := w.nodes.set i { n with blacklist := n.blacklist ++ [a] } }
  | none => w

def prehistoryBootstrap (c : Cfg) : World :=
  prehistoryOn c 0 (blacklistAt (blacklistAt (setPref (world0 c) 0 [2]) 1 addrI) 2 addrI)

/-! ## the introducer behind an unfiltered port-preserving box, the introduced peer on the introducer's own machine -/

def ownI : Host := { lan := ⟨ipv4 10 0 0 5, 8090⟩, wan := ⟨ipv4 9 9 9 9, 8090⟩, box := 9, typ := .none }
def ownP (c : Cfg) : Host := { lan := ⟨ipv4 10 0 0 5, 8091⟩, wan := ⟨ipv4 9 9 9 9, 8091⟩, box := 9, typ := c.tP }

/-- hosts: 0 = I, 1 = R (public for `pub`, else behind its own box), 2 = P, 3 = X.  I learns its WAN address from X;
    P reaches I over the LAN segment. -/
def prehistoryOwn (c : Cfg) : World :=
  let w := ((((({} : World).addHost ownI clockI).addHost (hostR c) clockR).addHost (ownP c) clockP).addHost hostX)
  let w := (setPref w 0 [2]).walk 0 addrX
  if c.newStyle then (((w.walk 1 ownI.wan).walk 2 ownI.lan).ask 2 0) else w.walk 2 ownI.lan

def scriptOwn (c : Cfg) : World :=
  (if c.newStyle then (prehistoryOwn c).ask 1 0 else (prehistoryOwn c).walk 1 ownI.wan).walkAll 1

def mutualOwn (c : Cfg) (w : World) : Bool :=
  (match w.verifiedAt 1 2 with | some p => p.v4 == (ownP c).wan | none => false) &&
  (match w.verifiedAt 2 1 with | some p => p.v4 == (hostR c).wan | none => false)

def ownCfgs : List Cfg := allCfgs.filter (fun c => c.pl == .pub || c.pl == .diff)
def oldCfgs : List Cfg := allCfgs.filter (fun c => !c.newStyle)

/-! ## address changes and churn -/

/-- expected outcome read from the CURRENT hosts of the world (addresses may have changed during the history): each of
    R (1) and P (2) is in the other's get_peers() of overlay s under the LAN address when they share a box now, else under
    the WAN address -/
def mutualDyn (w : World) (s : Nat := 0) : Bool :=
  match w.hosts[1]?, w.hosts[2]? with
  | some hR, some hP =>
    let same := hR.box != 0 && hR.box == hP.box
    (match w.verifiedAt 1 2 s with | some p => p.v4 == (if same then hP.lan else hP.wan) | none => false) &&
    (match w.verifiedAt 2 1 s with | some p => p.v4 == (if same then hR.lan else hR.wan) | none => false)
  | _, _ => false

/-- a boxed host's mapping is renewed (box reboot / mapping timeout): same box and ip, another port, empty filter -/
def reboot (w : World) (i : Nat) (newPort : Nat) : World :=
  match w.hosts[i]? with
  | some h => if h.box != 0 then w.remap i h.box ⟨h.wan.ip, newPort⟩ else w
  | none => w

/-- like `introductionOkW`, with the addresses read from the hosts of `w0` as they are NOW: during the introduction I's
    puncture request, naming R's current WAN address, reaches P; P punctures (towards R's current WAN address unless
    they share a box now); I's response, handing out P's current WAN address, reaches R -/
def introductionOkDyn (c : Cfg) (w0 : World) : Bool :=
  match w0.hosts[1]?, w0.hosts[2]? with
  | some hR, some hP =>
    let same := hR.box != 0 && hR.box == hP.box
    let evs := newEvents w0 (introduce c)
    evs.any (fun e => e.src == 0 && e.delivered 2 &&
      (match e.msg with | .punctReq _ _ p => p.wan_walker_address == hR.wan | _ => false)) &&
    evs.any (fun e => e.src == 2 && e.isPuncture && (same || e.dst == hR.wan)) &&
    evs.any (fun e => e.src == 0 && e.delivered 1 &&
      (match e.msg with | .introResp _ _ _ p _ => p.wan_introduction_address == hP.wan | _ => false))
  | _, _ => false

/-- introduction (addresses as of now), contact attempt and final peer tables of the script started in `w0` -/
def allOkDyn (c : Cfg) (w0 : World) : Bool :=
  introductionOkDyn c w0 && contactOkW c w0 && mutualDyn (scriptFrom c w0)

def boxedP (c : Cfg) : Bool := (hostP c).box != 0
def boxedR (c : Cfg) : Bool := (hostR c).box != 0

/-- P's mapping is renewed after the introducer learned P; P contacts the introducer again from the new mapping -/
def preIntroducedRemapped (c : Cfg) : World :=
  let w := reboot (prehistory c) 2 41002
  if c.newStyle then w.ask 2 0 else w.walk 2 addrI

/-- R is known to the introducer (and was already handed P's addresses once, without walking); then R's mapping is renewed -/
def preRequesterRemapped (c : Cfg) : World := reboot (introduce c (prehistory c)) 1 41001

/-- R is known to the introducer and has a WAN estimate; then R ROAMS to another box with another public ip (LAN address
    kept).  For placement `same` R leaves the box it shared with P: P's handed-out WAN ip equals R's OLD estimate, so R
    must adopt the new estimate before classifying the introduction. -/
def preRequesterRoams (c : Cfg) : World := (introduce c (prehistory c)).remap 1 5 ⟨ipv4 8 8 8 8, 45001⟩

/-- churn at an introducer without peer limit (max_peers = -1): P's mapping is renewed, the introducer drops P
    (Network.remove_peer), P walks to it again from the new mapping -/
def preChurn (c : Cfg) : World :=
  let base := setPref (world0 c) 0 [2]
  let w0 := match base.nodes[0]? with
    | some n => { base with nodes := base.nodes.set 0 { n with maxPeers := -1 } }
    | none => base
  let w := (reboot (prehistoryOn c 0 w0) 2 41002).removePeerAt 0 2
  if c.newStyle then (w.walk 2 addrI).ask 2 0 else w.walk 2 addrI

/-! ## two more reachable states in which the unchanged code fails (known findings 3 and 4) -/

/-- P shares R's box, is a peer of I in overlays 0 and 1, then roams to another public ip and is refreshed at I through
    overlay 1 ONLY: I's record of P (per Network) is current, P's overlay-0 WAN estimate (per Community) still has the old
    ip = R's ip.  Then the script in overlay 0. -/
def staleEstimateWorld : World :=
  let w := ((prehistory cfgSamePR).walk 2 addrI 1).remap 2 5 ⟨ipv4 8 8 8 8, 45002⟩
  ((w.walk 2 addrI 1).walk 1 addrI).walkAll 1

/-- P (other box) moves INTO R's box and gets another LAN address there; it refreshes at I, still advertising the cached
    old `my_estimated_lan`.  Then the script. -/
def staleLanWorld : World :=
  let w := (prehistory cfgDiffPR).relan 2 1 ⟨ipv4 192 168 1 77, 8090⟩ ⟨ipv4 2 2 2 2, 40077⟩
  ((w.walk 2 addrI).walk 1 addrI).walkAll 1

/-! ## restart of the requester: addresses known without an introducer -/

/-- after the whole script R restarts (fresh Network from its snapshot: P's and I's addresses are known, without
    introducer; nobody is verified) -/
def preRestart (c : Cfg) : World := (script c).restart 1

/-- R's first steps after the restart: an (old-style, it has no peers to ask) walk to the introducer, then a walk to what
    its overlay reports as walkable -/
def scriptRestart (c : Cfg) : World := ((preRestart c).walk 1 addrI).walkAll 1

/-- after the restart nobody is verified at R and P's address is known but not walkable; the introduction re-parents it,
    R's walk reaches P, the answer returns, both are verified at each other again -/
def restartOk (c : Cfg) : Bool :=
  let w0 := preRestart c
  let w1 := w0.walk 1 addrI
  let evs := newEvents w1 (fun w => w.walkAll 1)
  (w0.verifiedAt 1 2).isNone && (w0.nodes[1]?.map (fun n => (n.walkable 0).isEmpty && !n.all.isEmpty)) == some true &&
  evs.any (fun e => e.src == 1 && e.isReq && e.delivered 2) &&
  evs.any (fun e => e.src == 2 && e.isResp && e.delivered 1) &&
  mutualDyn (scriptRestart c)

/-! ## the introducer is the tracker service; a peer limit at the introduced peer; the stock RandomWalk strategy -/

def setNode (w : World) (i : Nat) (f : Node → Node) : World :=
  match w.nodes[i]? with
  | some n => { w with nodes := w.nodes.set i (f n) }
  | none => w

/-- host 0 runs scripts/tracker_service.py's EndpointServer (old-style requests of any prefix) -/
def prehistoryTracker (c : Cfg) : World :=
  prehistoryOn c 0 (setNode (setPref (world0 c) 0 [2]) 0 (fun n => { n with isTracker := true }))

/-- P also runs overlay 1 and has a peer there (X); its max_peers equals the number of its overlay-0 peers (one: the
    introducer): overlay 0 is AT its limit, the Network as a whole holds more -/
def prePeerLimit (c : Cfg) : World :=
  let w := prehistoryOn c 0 (setPref ((world0 c).addHost hostX) 0 [2])
  setNode (w.walk 2 addrX 1) 2 (fun n => { n with maxPeers := 1 })

/-- one RandomWalk step of node i with `choice` = the first available address -/
def rwAuto (w : World) (i s now : Nat) : World :=
  match w.rwStep i s now none with
  | some w' => w'
  | none =>
    match w.nodes[i]? with
    | none => w
    | some n => ((n.walkable s).findSome? (fun a => w.rwStep i s now (some a))).getD w

/-- the contact attempt made by the stock strategy: two steps one second apart (both handed-out addresses are probed
    before any answer is evaluated by the strategy), then steps after the 3 s node timeout has passed -/
def scriptStrategy (c : Cfg) : World :=
  let w := introduce c (prehistory c)
  rwAuto (rwAuto (rwAuto (rwAuto w 1 0 100) 1 0 101) 1 0 105) 1 0 106

def strategyOk (c : Cfg) : Bool :=
  let w := introduce c (prehistory c)
  let w2 := rwAuto (rwAuto w 1 0 100) 1 0 101
  (w2.nodes[1]?.map (fun n => !n.timeouts.isEmpty)) == some true &&
  ((scriptStrategy c).nodes[1]?.map (fun n => n.timeouts.all (fun t => 104 < t.2.2))) == some true &&
  mutualDyn (scriptStrategy c)

/-! ## LANs numbered outside RFC 1918 (carrier-grade NAT 100.64/10, other address space behind a NAT) -/

/-- R at 100.64.1.2 behind box 1; P at 100.64.1.3 behind the same box (`same`) or behind box 2 (otherwise) -/
def cgnR (c : Cfg) : Host := { lan := ⟨ipv4 100 64 1 2, 8090⟩, wan := ⟨ipv4 2 2 2 2, 40001⟩, box := 1, typ := c.tR }
def cgnP (c : Cfg) : Host :=
  if c.pl == .same then { lan := ⟨ipv4 100 64 1 3, 8090⟩, wan := ⟨ipv4 2 2 2 2, 40002⟩, box := 1, typ := c.tP }
  else { lan := ⟨ipv4 100 64 1 3, 8090⟩, wan := ⟨ipv4 3 3 3 3, 40002⟩, box := 2, typ := c.tP }

def prehistoryCgn (c : Cfg) : World :=
  prehistoryOn c 0 (setPref (((({} : World).addHost hostI clockI).addHost (cgnR c) clockR).addHost (cgnP c) clockP) 0 [2])

def cgnCfgs : List Cfg := allCfgs.filter (fun c => c.pl == .same || c.pl == .diff)

/-- script on the CGN-numbered world: introduction + contact + final tables (addresses read from the world), the handed-out
    LAN address is P's, and behind one box the path is LAN only -/
def cgnOk (c : Cfg) : Bool :=
  let w0 := prehistoryCgn c
  allOkDyn c w0 &&
  (newEvents w0 (introduce c)).any (fun e => e.src == 0 && e.delivered 1 &&
    (match e.msg with | .introResp _ _ _ p _ => p.lan_introduction_address == (cgnP c).lan | _ => false)) &&
  (c.pl != .same || lanOnlyW c w0)

/-! ## more candidates at the introducer -/

/-- further candidates (hosts 3..6): public full-cone, port-restricted behind box 1 (R's box whenever R is boxed),
    address-restricted behind box 2 (P's box in `diff`/`rPub`), unfiltered behind its own box -/
def extraHosts : List Host :=
  [ { lan := ⟨ipv4 4 4 4 4, 8090⟩, wan := ⟨ipv4 4 4 4 4, 8090⟩, box := 0, typ := .fullCone },
    { lan := ⟨ipv4 192 168 1 4, 8090⟩, wan := ⟨ipv4 2 2 2 2, 40004⟩, box := 1, typ := .portRestricted },
    { lan := ⟨ipv4 192 168 1 5, 8090⟩, wan := ⟨ipv4 3 3 3 3, 40005⟩, box := 2, typ := .addrRestricted },
    { lan := ⟨ipv4 10 0 0 6, 8090⟩, wan := ⟨ipv4 6 6 6 6, 8090⟩, box := 3, typ := .none } ]

def worldK (c : Cfg) (k : Nat) : World := (extraHosts.take k).foldl (fun w h => w.addHost h) (world0 c)

def candWalks (c : Cfg) (k : Nat) (w : World) : World :=
  ((List.range k).map (· + 3)).foldl (fun w i => if c.newStyle then (w.walk i addrI).ask i 0 else w.walk i addrI) w

/-- like `prehistory`, with k further candidates that walked to the introducer before (`before`) or after P did.
    The introducer's choice (preference list [2]) falls on P. -/
def prehistoryK (c : Cfg) (k : Nat) (before : Bool) : World :=
  let w := setPref (worldK c k) 0 [2]
  let w := if c.newStyle then w.walk 1 addrI else w
  let pw (w : World) : World := if c.newStyle then (w.walk 2 addrI).ask 2 0 else w.walk 2 addrI
  if before then pw (candWalks c k w) else candWalks c k (pw w)

def scriptK (c : Cfg) (k : Nat) (before : Bool) : World := (introduce c (prehistoryK c k before)).walkAll 1

end Ipv8.C13
