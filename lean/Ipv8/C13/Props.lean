/-
  C13 — property theorems.  Every `theorem` in this file is an obligation of the check; helpers are in Lemmas.lean,
  the kernel-evaluated tables in TableA/B/C.lean.

  The address decisions (`Gen.introAddrs`, `Gen.introductionsOf`, `Gen.punctureSends`, `Gen.updatesWan`, `Gen.respFields`,
  `Gen.punctReqSends`, `Gen.learnsLan`, `Gen.respArgs`), the LAN subnet table and the message dispatch are GENERATED from
  ipv8/community.py, endpoint.py and payload.py on every run, so every theorem below is re-proved against the current code.

  Statement of the property (properties.jsonl, C13):  for every assignment of the four NAT types to requester and
  introduced peer, every placement and both message styles, the script
      R's request -> I's response + puncture request -> P's puncture -> R's next request(s) -> P's response
  ends with both peers verified at each other; same-NAT peers connect over their LAN addresses.
  `Cfg` = 4 x 4 NAT types x 5 placements (the property's three — public / different NATs / same NAT — plus the two mixed
  ones) x 2 styles = 160 configurations on concrete addresses (both LANs numbered 192.168.1.x, all nodes on port 8090,
  boxes remapping ports).  What is proved for ALL addresses / states / table sizes is said at each theorem; the complete
  script over arbitrary addresses is NOT proved symbolically (design.d/C13.md, "partial").
-/
import Ipv8.C13.Lemmas

namespace Ipv8.C13

/-! ## the table -/

/-- the central statement, for every configuration: during the introduction the introducer's puncture request (naming the
    requester's real WAN address) reaches the introduced peer, that peer punctures, the response hands out the
    introduced peer's real LAN and WAN address; the requester's next contact attempt reaches the introduced peer and the
    answer comes back; both end up as verified peers of each other under the address that works. -/
theorem intro_reaches (c : Cfg) :
    introductionOk c = true ∧ contactOk c = true ∧ mutualOk c (script c) = true := by
  have h := of_all tableA c
  simp only [Bool.and_eq_true] at h
  exact ⟨h.1.1.1.1, h.1.1.1.2, h.1.1.2⟩

/-- two peers behind the same box: no packet between them crosses the WAN side of the box during the contact attempt,
    and each holds the other's LAN address -/
theorem same_nat_uses_lan (c : Cfg) (h : sameBox c = true) :
    lanOnly c = true ∧
    ((script c).verifiedAt 1 2).map (·.v4) = some (hostP c).lan ∧
    ((script c).verifiedAt 2 1).map (·.v4) = some (hostR c).lan := by
  have ht := of_all tableA c
  simp only [Bool.and_eq_true, Bool.or_eq_true, Bool.not_eq_true'] at ht
  have hl : lanOnly c = true := by
    rcases ht.2 with h' | h'
    · rw [h] at h'; cases h'
    · exact h'
  have hm := ht.1.1.2
  simp only [mutualOk, expectAddrOf, h, if_true, Bool.and_eq_true] at hm
  refine ⟨hl, ?_, ?_⟩
  · cases hv : (script c).verifiedAt 1 2 with
    | none => rw [hv] at hm; simp at hm
    | some p => rw [hv] at hm; simpa using hm.1
  · cases hv : (script c).verifiedAt 2 1 with
    | none => rw [hv] at hm; simp at hm
    | some p => rw [hv] at hm; simpa using hm.2
example : sameBox ⟨.portRestricted, .addrRestricted, .same, false⟩ = true := by decide

/-- the style dimension is real: every message of the introduction and of the contact attempt travels in the configured
    style (old-style payloads 246/245/250/249, new-style 234/233/232/231) -/
theorem style_respected (c : Cfg) : styleOk c = true := by
  have h := of_all tableA c
  simp only [Bool.and_eq_true] at h
  exact h.1.2

/-- 1..5 candidates: with four further live candidates that walked to the introducer before the introduced peer did, and
    with two that did so afterwards, the script still ends in mutual verification (the introducer's choice falls on P).
    For ANY number of further records at the introducer see `introducer_packets_any_table`. -/
theorem intro_reaches_more_candidates (c : Cfg) :
    mutualOk c (scriptK c 4 true) = true ∧ mutualOk c (scriptK c 2 false) = true :=
  ⟨of_all tableB c, of_all tableC c⟩
example : (prehistoryK ⟨.none, .none, .diff, false⟩ 4 true).nodes[0]?.map (·.peers.length) = some 5 := by decide +kernel

/-- the other history — the introducer never received a request from the introduced peer and knows it only from its
    RESPONSE (it was introduced to it by a fourth node): same conclusion, including LAN-only contact behind one box.
    (Before the fix of on_introduction_response recorded in known_findings.d/C13.json the same-box rows of this table
    were false: no LAN address was handed out.) -/
theorem intro_reaches_response_history (c : Cfg) :
    introductionOkW c (prehistoryResp c) = true ∧ contactOkW c (prehistoryResp c) = true ∧
    mutualOk c (scriptResp c) = true ∧ (sameBox c = true → lanOnlyW c (prehistoryResp c) = true) := by
  have h := of_all tableD c
  simp only [Bool.and_eq_true, Bool.or_eq_true, Bool.not_eq_true'] at h
  refine ⟨h.1.1.1, h.1.1.2, h.1.2, fun hs => ?_⟩
  rcases h.2 with h' | h'
  · rw [hs] at h'; cases h'
  · exact h'
example : ((prehistoryResp ⟨.portRestricted, .portRestricted, .same, false⟩).verifiedAt 0 2).map (·.lan) =
    some (some ⟨ipv4 192 168 1 3, 8090⟩) := by decide +kernel

/-- the remaining ways the introducer can have learned the introduced peer — repeated requests (the later ones sent after
    the peer knew its WAN address, so source_wan_address ≠ source_lan_address), request then response, response then
    request: in each the introduction reaches P, hands out P's real addresses, R's contact attempt succeeds, both are
    verified at each other, and same-box pairs stay on the LAN -/
theorem intro_reaches_other_histories (c : Cfg) :
    allOkW c (prehistoryRepeat c) = true ∧ allOkW c (prehistoryReqResp c) = true ∧ allOkW c (prehistoryRespReq c) = true :=
  ⟨of_all tableE1 c, of_all tableE2 c, of_all tableF c⟩
example : ((prehistoryRepeat ⟨.portRestricted, .portRestricted, .diff, false⟩).trace.getLast?.isSome) = true := by decide +kernel

/-- on_introduction_response records the responder's LAN address as well -/
theorem response_teaches_lan (p : IntroRespView) :
    Gen.respLearnsLan p = true ∧ Gen.respLearnedLan p = p.source_lan_address := by
  simp [Gen.respLearnsLan, Gen.respLearnedLan]

/-- two overlays on one Network (the normal IPv8 deployment): R and P are first connected in overlay 1 (so P is already
    a verified peer of R network-wide and its addresses are already in R's address table), are not yet peers of each
    other in overlay 0, and the script in overlay 0 still succeeds: the introduced addresses are reported as walkable
    for overlay 0, R's contact attempt reaches P there and both list each other in overlay 0's get_peers() -/
theorem intro_reaches_second_overlay (c : Cfg) :
    mutualIn c (afterOverlayOne c) 1 = true ∧ mutualIn c (prehistoryTwo c) 0 = false ∧
    allOkW c (prehistoryTwo c) = true := by
  have h := of_all tableH c
  simp only [Bool.and_eq_true, Bool.not_eq_true'] at h
  exact ⟨h.1.1, h.1.2, h.2⟩

/-- Network.get_walkable_addresses, for every node state: an address that was just discovered through overlay s, or
    whose introducer runs overlay s, is reported as walkable for s unless it belongs to a peer already known FOR s —
    peers known only through other overlays do not hide it -/
theorem walkable_iff (n : Node) (s : Nat) (a : Addr) :
    a ∈ n.walkable s ↔ ∃ w ∈ n.all, w.addr = a ∧
      (∀ p ∈ n.getPeers s, a ∉ p.addrs) ∧
      ((∃ k, w.by_ = some k ∧ n.hasSvc k s = true) ∨ w.service = some s) := by
  simp only [Node.walkable, List.mem_map, List.mem_filter]
  constructor
  · rintro ⟨w, ⟨⟨hw, h1⟩, h2⟩, rfl⟩
    refine ⟨w, hw, rfl, ?_, ?_⟩
    · intro p hp hc
      simp only [Bool.not_eq_true', List.any_eq_false] at h1
      exact h1 p hp (by simpa using hc)
    · simp only [Bool.or_eq_true, beq_iff_eq] at h2
      rcases h2 with h2 | h2
      · left
        cases hb : w.by_ with
        | none => rw [hb] at h2; cases h2
        | some k => rw [hb] at h2; exact ⟨k, rfl, h2⟩
      · right; exact h2
  · rintro ⟨w, hw, rfl, h1, h2⟩
    refine ⟨w, ⟨⟨hw, ?_⟩, ?_⟩, rfl⟩
    · simp only [Bool.not_eq_true', List.any_eq_false]
      intro p hp
      simpa using h1 p hp
    · simp only [Bool.or_eq_true, beq_iff_eq]
      rcases h2 with ⟨k, hk, hs⟩ | h2
      · left; rw [hk]; exact hs
      · right; exact h2

/-- create_introduction_request: whatever the node's age (Lamport clock), the identifier fits the 16 bit field, so the
    request is always sent — in both styles, in every overlay -/
theorem request_always_sent (n : Node) (dst : Addr) (ns : Bool) (s : Nat) :
    Gen.requestIdentifier (n.clock + 1) < 65536 ∧ ((n.introRequest dst ns s).2).isSome = true := by
  have h : Gen.requestIdentifier (n.clock + 1) < 65536 := by
    simp only [Gen.requestIdentifier]; exact Nat.mod_lt _ (by decide)
  refine ⟨h, ?_⟩
  simp only [Node.introRequest, Node.tick, Option.isSome_map]
  cases ns <;> simp [packIdent, Gen.identTruncated, h]
example : ((({ key := 1, myLan := ⟨1, 1⟩, machineIp := 1, clock := 4294967303 } : Node).introRequest ⟨9, 9⟩ true).2).isSome = true := by
  decide

/-! ## any number of candidates: what the introducer sends depends on the chosen record only -/

/-- `random.choice` returns an element of the candidate list, and returns one whenever the list is non-empty -/
theorem choice_is_a_candidate (pref : List Nat) (avail : List PeerRec) :
    (∀ q, pick pref avail = some q → q ∈ avail) ∧ (avail ≠ [] → (pick pref avail).isSome = true) :=
  ⟨fun q h => pick_mem pref avail q h, pick_isSome pref avail⟩

/-- For an introducer whose list of peers in the overlay (get_peers()) is `pre ++ q :: post` — ANY number of other verified peers before and after `q`, with
    arbitrary addresses — whose choice falls on `q` (a key none of the records in `pre` carries), where the requester is
    identified as a record with another key, and `q` does not live on the introducer's own machine: the packets caused by
    the request are exactly  (1) a puncture request to q's address naming the requester's socket address as WAN walker,
    (2) the response handing out q's recorded LAN address (0.0.0.0:0 when none is recorded) and q's address. -/
theorem introducer_packets_any_table (n : Node) (s : Nat) (pre post : List PeerRec) (q o : PeerRec) (t : List Nat)
    (lanSock sock dst : Addr) (ns : Bool) (ident : Nat)
    (hpeers : n.getPeers s = pre ++ q :: post) (hpref : n.pref = q.key :: t)
    (hpre : ∀ p ∈ pre, p.key ≠ q.key)
    (hother : n.byAddress sock = some o) (hne : q.key ≠ o.key)
    (hmach : q.v4.ip ≠ n.machineIp) :
    (n.createResponse lanSock sock dst ns ident s).2 =
      [⟨q.v4, .punctReq ns ident ⟨lanSock, sock⟩⟩,
       ⟨dst, .introResp ns n.key ident ⟨sock, n.myLan, n.myWan s, q.lan.getD Addr.zero, q.v4⟩ q.ns⟩] := by
  have hgp : n.tick.getPeers s = n.getPeers s := rfl
  have hba : n.tick.byAddress sock = n.byAddress sock := rfl
  have hav : n.tick.available sock s = (pre ++ q :: post).filter (fun p => p.key != o.key) := by
    simp [Node.available, hba, hother, hgp, hpeers]
  have hq : (fun p : PeerRec => p.key != o.key) q = true := by simp [hne]
  have hfind : (n.tick.available sock s).find? (fun p => p.key == q.key) = some q := by
    rw [hav, filter_append_keep pre post q _ hq]
    apply find_append_skip
    · intro p hp
      have := hpre p (List.mem_filter.mp hp).1
      simp [this]
    · simp
  have hpick : pick n.tick.pref (n.tick.available sock s) = some q := by
    have : n.tick.pref = q.key :: t := hpref
    rw [this]; exact pick_pref _ _ _ _ hfind
  have hlan : ((n.tick.view s).address_is_lan q.view.address.ip) = false := by
    simp [Node.view, Node.tick, PeerRec.view, hmach]
  simp only [Node.createResponse, hpick]
  simp [Gen.introAddrs, Gen.punctReqSends, Gen.respFields, Id.run, pure, hlan]
  simp [PeerRec.view, Node.view, Node.tick, Node.myWan]
example : ∃ n : Node, ∃ o : PeerRec, (n.getPeers 4).length = 3 ∧ n.byAddress ⟨5, 5⟩ = some o ∧ o.key = 9 :=
  ⟨{ key := 0, myLan := ⟨1, 1⟩, machineIp := 1, svcs := [(7, 4), (8, 4), (9, 4), (9, 5)],
     peers := [⟨7, ⟨7, 7⟩, none, false⟩, ⟨8, ⟨8, 8⟩, some ⟨80, 8⟩, true⟩, ⟨9, ⟨5, 5⟩, none, false⟩], pref := [8] },
   ⟨9, ⟨5, 5⟩, none, false⟩, by decide, by decide, rfl⟩

/-! ## the address decisions, for all addresses (generated definitions) -/

/-- create_introduction_response hands out the introduced peer's recorded LAN address and its (WAN) address -/
theorem hands_out_known_addresses (s : SelfView) (q : PeerView) (l : Addr) (hl : q.lan_address = some l)
    (h : s.address_is_lan q.address.ip = false) : Gen.introAddrs s q = (l, q.address, true) := by
  simp [Gen.introAddrs, Id.run, pure, h, hl]

/-- on_introduction_request records the sender's LAN address — the only place where a LAN address is learned -/
theorem request_teaches_lan (p : IntroReqView) : Gen.learnsLan p = true ∧ Gen.learnedLan p = p.source_lan_address := by
  simp [Gen.learnsLan, Gen.learnedLan]

/-- on_introduction_request answers to the sender's preferred address and names it in the puncture request -/
theorem response_goes_to_sender (p : IntroReqView) (q : PeerView) :
    Gen.respArgs p q = (p.destination_address, q.address, q.address) := by
  simp [Gen.respArgs]

/-- the puncture request goes to the introduced peer and names the requester's socket address as WAN walker -/
theorem puncture_request_names_requester (lanSock sock : Addr) (q : PeerView) :
    (Gen.punctReqSends lanSock sock q).1 = q.address ∧ (Gen.punctReqSends lanSock sock q).2.wan_walker_address = sock := by
  simp [Gen.punctReqSends]

/-- on_puncture_request: the puncture is sent to the walker's WAN address unless that address has our own WAN ip
    (same NAT), in which case it goes to the LAN walker address -/
theorem puncture_goes_to_wan_walker (s : SelfView) (p : PunctReqView) :
    (Gen.punctureSends s p).1 =
      if p.wan_walker_address.ip = s.my_estimated_wan.ip then p.lan_walker_address else p.wan_walker_address := by
  by_cases h : p.wan_walker_address.ip = s.my_estimated_wan.ip <;> simp [Gen.punctureSends, Id.run, pure, h]

/-- on_introduction_response, different WAN ip: the handed-out WAN address is walked to (and the LAN address too) -/
theorem requester_walks_wan (s : SelfView) (p : IntroRespView) (h0 : p.wan_introduction_address ≠ Addr.zero)
    (h : p.wan_introduction_address.ip ≠ s.my_estimated_wan.ip) :
    p.wan_introduction_address ∈ Gen.introductionsOf s p := by
  simp [Gen.introductionsOf, Id.run, pure, h, h0]
  split <;> simp

/-- on_introduction_response, same WAN ip (same NAT) and a LAN address was handed out: only the LAN address is walked to -/
theorem requester_walks_lan_only (s : SelfView) (p : IntroRespView) (h0 : p.lan_introduction_address ≠ Addr.zero)
    (h : p.wan_introduction_address.ip = s.my_estimated_wan.ip) :
    Gen.introductionsOf s p = [p.lan_introduction_address] := by
  simp [Gen.introductionsOf, Id.run, pure, h, h0]

/-- on_introduction_response never records the null address or anything it was not handed, except the documented guess
    (own LAN ip, handed-out WAN port) when a same-ip introduction comes without LAN address -/
theorem requester_walks_only_handed (s : SelfView) (p : IntroRespView) (a : Addr) (h : a ∈ Gen.introductionsOf s p) :
    a = p.lan_introduction_address ∨ a = p.wan_introduction_address ∨
    (p.lan_introduction_address = Addr.zero ∧ a = ⟨s.my_estimated_lan.ip, p.wan_introduction_address.port⟩) := by
  by_cases hw : p.wan_introduction_address = Addr.zero <;>
  by_cases hl : p.lan_introduction_address = Addr.zero <;>
  by_cases hi : p.wan_introduction_address.ip = s.my_estimated_wan.ip <;>
  simp [Gen.introductionsOf, Id.run, pure, hw, hl, hi] at h <;>
  (try rcases h with h | h) <;> simp_all

/-- my_estimated_wan is overwritten by a response's destination address exactly when that address is not private -/
theorem response_updates_wan_iff_public (s : SelfView) (p : IntroRespView) :
    Gen.updatesWan s p = !s.address_in_lan_subnets p.destination_address.ip := by
  simp [Gen.updatesWan]

/-- the code's LAN subnet table is exactly RFC 1918, for every 32 bit address (and beyond) -/
theorem lan_subnets_rfc1918 (ip : Nat) : inLanSubnets ip = isPrivate ip := by
  simp only [inLanSubnets, isPrivate, Gen.lanSubnets, List.any_cons, List.any_nil, Bool.or_false]
  generalize ha : (ip / 16777216 == 10) = a
  generalize hb : (ip / 1048576 == 2753) = b
  generalize hc : (ip / 65536 == 49320) = c
  cases a <;> cases b <;> cases c <;> rfl
example : inLanSubnets (ipv4 172 31 255 254) = true ∧ inLanSubnets (ipv4 172 32 0 1) = false := by decide

/-- dispatch: each of the eight payload classes has its own msg_id, and the handler registered for it decodes exactly
    that payload class, signed except for the two puncture requests -/
theorem dispatch_table_ok :
    ∀ k : PayloadKind, ∃ h, lookupHandler (Gen.msgId k) Gen.dispatch = some h ∧ (Gen.handlerSpec h).2 = k ∧
      ((Gen.handlerSpec h).1 = false ↔ (k = .punctReqOld ∨ k = .punctReqNew)) := by
  intro k; cases k <;> exact ⟨_, rfl, by decide, by decide⟩

/-! ## NAT rules, for every filter state -/

/-- hole punching: once a host has sent to an address, packets from that address pass its filter — whatever the
    (cone) type and whatever else it sent before -/
theorem hole_punch_opens (g : Host) (a : Addr) : accepts { g with sent := g.sent ++ [a] } a = true := by
  cases h : g.typ <;> simp [accepts]

/-- filters only ever open: further sends never close an accepted source -/
theorem filter_monotone (g : Host) (more : List Addr) (src : Addr) (h : accepts g src = true) :
    accepts { g with sent := g.sent ++ more } src = true := by
  cases ht : g.typ <;> simp [accepts, ht] at h ⊢
  · cases hs : g.sent with
    | nil => simp [hs] at h
    | cons a t => simp
  · exact Or.inl h
  · exact Or.inl h

/-- the puncture is necessary: a restricted host that never sent to the source's ip drops its packets -/
theorem no_puncture_no_entry (g : Host) (src : Addr) (ht : g.typ = .addrRestricted ∨ g.typ = .portRestricted)
    (h : ∀ s ∈ g.sent, s.ip ≠ src.ip) : accepts g src = false := by
  rcases ht with ht | ht <;> simp [accepts, ht]
  · intro x hx; exact h x hx
  · intro x hx heq; exact h x hx (by rw [heq])
example : accepts { lan := ⟨1, 1⟩, wan := ⟨2, 2⟩, box := 1, typ := .portRestricted, sent := [⟨9, 9⟩] } ⟨9, 8⟩ = false := by decide

end Ipv8.C13
