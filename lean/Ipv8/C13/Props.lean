/-
  C13 — property theorems.  Every `theorem` in this file is an obligation of the check; helpers are in Lemmas.lean,
  the kernel-evaluated tables in TableA/B/C.lean.

  The address decisions (`Gen.introAddrs`, `Gen.introductionsOf`, `Gen.punctureSends`, `Gen.updatesWan`, `Gen.respFields`,
  `Gen.punctReqSends`, `Gen.learnsLan`, `Gen.respArgs`), the LAN subnet table and the message dispatch are GENERATED from
  ipv8/community.py, endpoint.py and payload.py on every run, so every theorem below is re-proved against the current code.

  Statement of the property (properties.jsonl, C13):  for every assignment of the four NAT types to requester and
  introduced peer, every placement and both message styles, the script
      R's request -> I's response + puncture request -> P's puncture -> R's next request(s) -> P's response
  ends with both peers verified at each other; same-NAT peers connect over their LAN addresses.
  `Cfg` = 4 x 4 NAT types x 5 placements (the property's three — public / different NATs / same NAT — plus the two mixed
  ones) x 2 styles = 160 configurations on concrete addresses (both LANs numbered 192.168.1.x, all nodes on port 8090,
  boxes remapping ports).  What is proved for ALL addresses / states / table sizes is said at each theorem; the complete
  script over arbitrary addresses is NOT proved symbolically (design.d/C13.md, "partial").
-/
import Ipv8.C13.Lemmas

namespace Ipv8.C13

/-! The theorems over the kernel tables B–G, I, J–L, O (more candidates, the other four histories of the introducer,
    bootstrap / own-machine introducer, address changes, churn, RandomWalk time-outs) are in `PropsThorough.lean`: they are
    built and re-proved in the THOROUGH tier only, so that a quick run whose `Gen.lean` changed re-proves five tables
    (A, H, M, N, P) instead of seventeen. -/

/-! ## the script tables — PARTIAL

  FULL STATEMENT (not proved, and false for the code as it is — see the two witnesses below):
      ∀ address assignments, ∀ NAT types of requester and introduced peer, ∀ placements, both styles, ∀ numbers of
      candidates, ∀ reachable prior states of requester, introducer and introduced peer (histories):
        after  R's request → I's response + puncture request → P's puncture → R's walks to what its overlay reports as
        walkable → P's response,   R and P are in each other's get_peers() of that overlay (over LAN when behind one box).
  PROVED (`…_partial`, each `decide +kernel` over the 160 `Cfg` values = 4×4 NAT types × 5 placements × 2 styles):
      the statement for ONE fixed address assignment (Script.lean: I 1.1.1.1, R 2.2.2.2 / 192.168.1.2, P 3.3.3.3 /
      192.168.1.3, all on port 8090, port-remapping boxes, fixed node ages) and for prior states in which the REQUESTER
      KNOWS NOBODY BUT THE INTRODUCER (plus the other parties of the named history); what varies is how the introducer
      learned P (five histories), the number of live candidates (1, 3, 5), a second overlay in which the same three nodes
      connected first, a blacklisted bootstrap introducer, an introducer behind a box with P on its own machine.
  The restrictions are load-bearing.  Four reachable states outside the tables in which the unchanged code does NOT connect
  the pair are proved below (known findings; the list is what has been found, not a characterisation):
  `lan_collision_blocks_same_nat`, `foreign_entry_blocks_overlay` (requester's address table),
  `stale_wan_estimate_blocks_puncture` (introduced peer's per-overlay WAN estimate), `stale_lan_estimate_blocks_same_nat`
  (cached `my_estimated_lan` after a LAN change).
-/


/-- the central statement, for every configuration: during the introduction the introducer's puncture request (naming the
    requester's real WAN address) reaches the introduced peer, that peer punctures, the response hands out the
    introduced peer's real LAN and WAN address; the requester's next contact attempt reaches the introduced peer and the
    answer comes back; both end up as verified peers of each other under the address that works. -/
theorem intro_reaches_partial (c : Cfg) :
    introductionOk c = true ∧ contactOk c = true ∧ mutualOk c (script c) = true := by
  have h := of_all tableA c
  simp only [Bool.and_eq_true] at h
  exact ⟨h.1.1.1.1, h.1.1.1.2, h.1.1.2⟩

/-- two peers behind the same box: no packet between them crosses the WAN side of the box during the contact attempt,
    and each holds the other's LAN address -/
theorem same_nat_uses_lan_partial (c : Cfg) (h : sameBox c = true) :
    lanOnly c = true ∧
    ((script c).verifiedAt 1 2).map (·.v4) = some (hostP c).lan ∧
    ((script c).verifiedAt 2 1).map (·.v4) = some (hostR c).lan := by
  have ht := of_all tableA c
  simp only [Bool.and_eq_true, Bool.or_eq_true, Bool.not_eq_true'] at ht
  have hl : lanOnly c = true := by
    rcases ht.2 with h' | h'
    · rw [h] at h'; cases h'
    · exact h'
  have hm := ht.1.1.2
  simp only [mutualOk, expectAddrOf, h, if_true, Bool.and_eq_true] at hm
  refine ⟨hl, ?_, ?_⟩
  · cases hv : (script c).verifiedAt 1 2 with
    | none => rw [hv] at hm; simp at hm
    | some p => rw [hv] at hm; simpa using hm.1
  · cases hv : (script c).verifiedAt 2 1 with
    | none => rw [hv] at hm; simp at hm
    | some p => rw [hv] at hm; simpa using hm.2
example : sameBox ⟨.portRestricted, .addrRestricted, .same, false⟩ = true := by decide

/-- the style dimension is real: every message of the introduction and of the contact attempt travels in the configured
    style (old-style payloads 246/245/250/249, new-style 234/233/232/231) -/
theorem style_respected_partial (c : Cfg) : styleOk c = true := by
  have h := of_all tableA c
  simp only [Bool.and_eq_true] at h
  exact h.1.2

/-- two overlays on one Network (the normal IPv8 deployment): R and P are first connected in overlay 1 (so P is already
    a verified peer of R network-wide and its addresses are already in R's address table), are not yet peers of each
    other in overlay 0, and the script in overlay 0 still succeeds: the introduced addresses are reported as walkable
    for overlay 0, R's contact attempt reaches P there and both list each other in overlay 0's get_peers() -/
theorem intro_reaches_second_overlay_partial (c : Cfg) :
    mutualIn c (afterOverlayOne c) 1 = true ∧ mutualIn c (prehistoryTwo c) 0 = false ∧
    allOkW c (prehistoryTwo c) = true := by
  have h := of_all tableH c
  simp only [Bool.and_eq_true, Bool.not_eq_true'] at h
  exact ⟨h.1.1, h.1.2, h.2⟩

/-- restart of the requester: after the whole script R shuts down and starts again with a Network filled from its snapshot
    — P's address is known but has NO introducer (and is therefore not walkable for the overlay), nobody is verified.
    R's next introduction by I re-parents that address (`discover_address` adopts an address whose recorded introducer is
    empty), R's walk reaches P, the answer returns, both are verified at each other again. -/
theorem intro_reaches_after_restart_partial (c : Cfg) : restartOk c = true := of_all tableM c

/-- the introducer is the tracker service (scripts/tracker_service.py: the production bootstrap server), which answers
    old-style requests of any prefix and hands the requester's prefix to create_introduction_response: response AND
    puncture request travel under the requester's prefix, the introduced peer's overlay receives the puncture request
    and punctures; same conclusion as `intro_reaches_partial` -/
theorem intro_reaches_via_tracker_partial (c : Cfg) (h : c.newStyle = false) : allOkW c (prehistoryTracker c) = true :=
  List.all_eq_true.mp tableN c (by simp [oldCfgs, mem_allCfgs, h])
example : ((prehistoryTracker ⟨.none, .none, .diff, false⟩).nodes[0]?.map (·.isTracker)) = some true := by decide +kernel

/-- the peer limit counts the peers of the OVERLAY: an introduced peer that runs a second overlay with further peers on
    the same Network, and whose overlay 0 holds exactly max_peers peers, still answers the requester's request -/
theorem intro_reaches_at_peer_limit_of_introduced_partial (c : Cfg) : allOkW c (prePeerLimit c) = true :=
  of_all tableN2 c
example : ((prePeerLimit ⟨.none, .none, .diff, false⟩).nodes[2]?.map (fun n => (n.peers.length, (n.getPeers 0).length, n.maxPeers))) =
    some (2, 1, 1) := by decide +kernel

/-- LANs numbered outside RFC 1918 (carrier-grade NAT 100.64/10 or other address space behind a NAT; same box or two
    boxes): the introducer hands out the introduced peer's LAN address as it learned it — whatever range it is in — and the
    script succeeds; behind one box the pair connects over that LAN address only -/
theorem intro_reaches_on_non_rfc1918_lan_partial (c : Cfg) (h : c.pl = .same ∨ c.pl = .diff) : cgnOk c = true :=
  List.all_eq_true.mp tableP c (by
    simp only [cgnCfgs, List.mem_filter, mem_allCfgs, true_and, Bool.or_eq_true, beq_iff_eq]; exact h)
example : inLanSubnets (cgnP ⟨.none, .none, .same, false⟩).lan.ip = false := by decide

/-! ## reachable states outside the tables in which the unchanged code FAILS (known findings, witnesses) — not exhaustive -/

/-- KNOWN FINDING (a), negation of the full statement: R and P behind one box (both port-restricted, old style, the
    table's addresses); R already holds a verified peer Q on another LAN whose recorded LAN address is P's LAN address
    192.168.1.3:8090.  The introduction hands out that LAN address, `get_walkable_addresses` subtracts it as Q's
    address: nothing is walkable, nobody is verified. -/
theorem lan_collision_blocks_same_nat :
    (lanCollisionWorld.nodes[1]?.map (·.walkable 0)) = some [] ∧ mutualOk cfgSamePR lanCollisionWorld = false ∧
    (lanCollisionWorld.verifiedAt 1 3).map (·.lan) = some (some (hostP cfgSamePR).lan) := by
  decide +kernel

/-- KNOWN FINDING (b), negation of the full statement: P's addresses were first introduced to R through overlay 1 by X,
    which R knows (and keeps) as a peer of overlay 1 only.  When I introduces P in overlay 0, `discover_address` keeps
    X's entry and `get_walkable_addresses(overlay 0)` rejects it: nothing is walkable in overlay 0, the pair is not
    connected there (nor anywhere). -/
theorem foreign_entry_blocks_overlay :
    (foreignEntryWorld.nodes[1]?.map (·.walkable 0)) = some [] ∧ mutualOk cfgDiffPR foreignEntryWorld = false ∧
    (foreignEntryWorld.verifiedAt 1 3 1).isSome = true ∧ (foreignEntryWorld.verifiedAt 1 3 0) = none := by
  decide +kernel

/-- KNOWN FINDING (c), on the INTRODUCED peer's side: `my_estimated_wan` is kept per overlay, the peer record at the
    introducer per Network.  P (same box as R, both port-restricted) is a peer of I in overlays 0 and 1, roams to another
    public ip and is refreshed at I through overlay 1 only.  Introduced in overlay 0, P's `on_puncture_request` still
    believes it shares R's public ip, takes the same-NAT branch and punctures to the LAN walker field — the introducer's
    own address; R's request is filtered; nobody is verified. -/
theorem stale_wan_estimate_blocks_puncture :
    staleEstimateWorld.trace.any (fun e => e.src == 2 && e.isPuncture && e.dst == addrI) = true ∧
    staleEstimateWorld.trace.any (fun e => e.src == 1 && e.isReq && e.out == .drop .filtered) = true ∧
    mutualDyn staleEstimateWorld = false := by
  decide +kernel

/-- KNOWN FINDING (d): `my_estimated_lan` is computed once and cached.  P moves into R's box and gets another LAN address
    there, refreshes at I still advertising the old one; I hands out that stale LAN address, the same-NAT requester walks
    only to it (no host there) and the pair never connects. -/
theorem stale_lan_estimate_blocks_same_nat :
    (staleLanWorld.hosts[2]?.map (·.lan)) = some ⟨ipv4 192 168 1 77, 8090⟩ ∧
    (staleLanWorld.nodes[2]?.map (·.myLan)) = some ⟨ipv4 192 168 1 3, 8090⟩ ∧
    mutualDyn staleLanWorld = false := by
  decide +kernel

/-! ## facts for all inputs -/

/-- create_introduction_request: whatever the node's age (Lamport clock), the identifier fits the 16 bit field, so the
    request is always sent — in both styles, in every overlay -/
theorem request_always_sent (n : Node) (dst : Addr) (ns : Bool) (s : Nat) :
    Gen.requestIdentifier (n.clock + 1) < 65536 ∧ ((n.introRequest dst ns s).2).isSome = true := by
  have h : Gen.requestIdentifier (n.clock + 1) < 65536 := by
    simp only [Gen.requestIdentifier]; exact Nat.mod_lt _ (by decide)
  refine ⟨h, ?_⟩
  simp only [Node.introRequest, Node.tick, Option.isSome_map]
  cases ns <;> simp [packIdent, Gen.identTruncated, h]
example : ((({ key := 1, myLan := ⟨1, 1⟩, machineIp := 1, clock := 4294967303 } : Node).introRequest ⟨9, 9⟩ true).2).isSome = true := by
  decide

/-! ## one step of the introducer, any table size (CONDITIONAL on the requester being found by its address and on the
     choice — it does not lift the tables to arbitrary candidate sets) -/

/-- For an introducer whose list of peers in the overlay (get_peers()) is `pre ++ q :: post` — ANY number of other verified peers before and after `q`, with
    arbitrary addresses — whose choice falls on `q` (a key none of the records in `pre` carries), where the requester is
    identified as a record with another key, and `q` does not live on the introducer's own machine: the packets caused by
    the request are exactly  (1) a puncture request to q's address naming the requester's socket address as WAN walker,
    (2) the response handing out q's recorded LAN address (0.0.0.0:0 when none is recorded) and q's address. -/
theorem introducer_packets_any_table (n : Node) (s : Nat) (pre post : List PeerRec) (q o : PeerRec) (t : List Nat)
    (lanSock sock dst : Addr) (ns : Bool) (ident : Nat)
    (hpeers : n.getPeers s = pre ++ q :: post) (hpref : n.pref = q.key :: t)
    (hpre : ∀ p ∈ pre, p.key ≠ q.key)
    (hother : n.byAddress sock = some o) (hne : q.key ≠ o.key)
    (hmach : q.v4.ip ≠ n.machineIp) :
    (n.createResponse lanSock sock dst ns ident s).2 =
      [⟨q.v4, .punctReq ns ident ⟨lanSock, sock⟩⟩,
       ⟨dst, .introResp ns n.key ident ⟨sock, n.myLan, n.myWan s, q.lan.getD Addr.zero, q.v4⟩ q.ns⟩] := by
  have hgp : n.tick.getPeers s = n.getPeers s := rfl
  have hba : n.tick.byAddress sock = n.byAddress sock := rfl
  have hav : n.tick.available sock s = (pre ++ q :: post).filter (fun p => p.key != o.key) := by
    simp [Node.available, hba, hother, hgp, hpeers]
  have hq : (fun p : PeerRec => p.key != o.key) q = true := by simp [hne]
  have hfind : (n.tick.available sock s).find? (fun p => p.key == q.key) = some q := by
    rw [hav, filter_append_keep pre post q _ hq]
    apply find_append_skip
    · intro p hp
      have := hpre p (List.mem_filter.mp hp).1
      simp [this]
    · simp
  have hpick : pick n.tick.pref (n.tick.available sock s) = some q := by
    have : n.tick.pref = q.key :: t := hpref
    rw [this]; exact pick_pref _ _ _ _ hfind
  have hlan : ((n.tick.view s).address_is_lan q.view.address.ip) = false := by
    simp [Node.view, Node.tick, PeerRec.view, hmach]
  simp only [Node.createResponse, hpick]
  simp [Gen.introAddrs, Gen.introAddrsGen, Gen.punctReqSends, Gen.respFields, Id.run, pure, hlan]
  simp [PeerRec.view, Node.view, Node.tick, Node.myWan]
example :
    let n : Node := { key := 0, myLan := ⟨1, 1⟩, machineIp := 1, svcs := [(7, 4), (8, 4), (9, 4), (9, 5)],
                      peers := [⟨7, ⟨7, 7⟩, none, false⟩, ⟨8, ⟨8, 8⟩, some ⟨80, 8⟩, true⟩, ⟨9, ⟨5, 5⟩, none, false⟩], pref := [8] }
    (n.createResponse ⟨1, 1⟩ ⟨5, 5⟩ ⟨5, 5⟩ false 77 4).2 =
      [⟨⟨8, 8⟩, .punctReq false 77 ⟨⟨1, 1⟩, ⟨5, 5⟩⟩⟩,
       ⟨⟨5, 5⟩, .introResp false 0 77 ⟨⟨5, 5⟩, ⟨1, 1⟩, ⟨1, 1⟩, ⟨80, 8⟩, ⟨8, 8⟩⟩ true⟩] := by
  intro n
  exact introducer_packets_any_table n 4 [⟨7, ⟨7, 7⟩, none, false⟩] [⟨9, ⟨5, 5⟩, none, false⟩] ⟨8, ⟨8, 8⟩, some ⟨80, 8⟩, true⟩
    ⟨9, ⟨5, 5⟩, none, false⟩ [] ⟨1, 1⟩ ⟨5, 5⟩ ⟨5, 5⟩ false 77 (by decide) rfl (by decide) (by decide) (by decide) (by decide)

/-! ## the address decisions, for all addresses (generated definitions) -/

/-- create_introduction_response hands out the introduced peer's recorded LAN address and its (WAN) address -/
theorem hands_out_known_addresses (s : SelfView) (q : PeerView) (l : Addr) (hl : q.lan_address = some l)
    (h : s.address_is_lan q.address.ip = false) : Gen.introAddrs s q = (l, q.address, true) := by
  simp [Gen.introAddrs, Gen.introAddrsGen, Id.run, pure, h, hl]

/-- on_puncture_request: the puncture is sent to the walker's WAN address unless that address has our own WAN ip
    (same NAT), in which case it goes to the LAN walker address -/
theorem puncture_goes_to_wan_walker (s : SelfView) (p : PunctReqView) :
    (Gen.punctureSends s p).1 =
      if p.wan_walker_address.ip = s.my_estimated_wan.ip then p.lan_walker_address else p.wan_walker_address := by
  by_cases h : p.wan_walker_address.ip = s.my_estimated_wan.ip <;> simp [Gen.punctureSends, Id.run, pure, h]

/-- on_introduction_response, different WAN ip: the handed-out WAN address is walked to (and the LAN address too) -/
theorem requester_walks_wan (s : SelfView) (p : IntroRespView) (h0 : p.wan_introduction_address ≠ Addr.zero)
    (h : p.wan_introduction_address.ip ≠ s.my_estimated_wan.ip) :
    p.wan_introduction_address ∈ Gen.introductionsOf s p := by
  by_cases hl : p.lan_introduction_address = Addr.zero <;> simp [Gen.introductionsOf, Id.run, pure, h, h0, hl]

/-- on_introduction_response, same WAN ip (same NAT) and a LAN address was handed out: only the LAN address is walked to -/
theorem requester_walks_lan_only (s : SelfView) (p : IntroRespView) (h0 : p.lan_introduction_address ≠ Addr.zero)
    (h : p.wan_introduction_address.ip = s.my_estimated_wan.ip) :
    Gen.introductionsOf s p = [p.lan_introduction_address] := by
  by_cases hw : p.wan_introduction_address = Addr.zero
  · have h' : Addr.zero.ip = s.my_estimated_wan.ip := hw ▸ h
    simp [Gen.introductionsOf, Id.run, pure, h0, hw, h']
  · simp [Gen.introductionsOf, Id.run, pure, h, h0]

/-- on_introduction_response never records the null address or anything it was not handed, except the documented guess
    (own LAN ip, handed-out WAN port) when a same-ip introduction comes without LAN address -/
theorem requester_walks_only_handed (s : SelfView) (p : IntroRespView) (a : Addr) (h : a ∈ Gen.introductionsOf s p) :
    a = p.lan_introduction_address ∨ a = p.wan_introduction_address ∨
    (p.lan_introduction_address = Addr.zero ∧ a = ⟨s.my_estimated_lan.ip, p.wan_introduction_address.port⟩) := by
  by_cases hw : p.wan_introduction_address = Addr.zero <;>
  by_cases hl : p.lan_introduction_address = Addr.zero <;>
  by_cases hi : p.wan_introduction_address.ip = s.my_estimated_wan.ip <;>
  simp [Gen.introductionsOf, Id.run, pure, hw, hl, hi] at h <;>
  (try rcases h with h | h) <;> simp_all

/-- COMPOSITION introducer → requester, all addresses: what the introducer's decision hands out for a peer it knows
    under (address w, LAN l) is what the requester's decision walks to when w is on another WAN ip … -/
theorem handed_out_wan_address_is_walked (sI sR : SelfView) (q : PeerView) (l sock : Addr)
    (hl : q.lan_address = some l) (hm : sI.address_is_lan q.address.ip = false)
    (h0 : q.address ≠ Addr.zero) (hw : q.address.ip ≠ sR.my_estimated_wan.ip) :
    q.address ∈ Gen.introductionsOf sR
      (Gen.respFields sI sock (Gen.introAddrs sI q).1 (Gen.introAddrs sI q).2.1) := by
  rw [hands_out_known_addresses sI q l hl hm]
  exact requester_walks_wan sR _ (by simpa [Gen.respFields] using h0) (by simpa [Gen.respFields] using hw)

/-- … and, when w has the requester's own WAN ip (same NAT) and a LAN address is known, exactly the LAN address -/
theorem handed_out_lan_address_is_walked_same_nat (sI sR : SelfView) (q : PeerView) (l sock : Addr)
    (hl : q.lan_address = some l) (hm : sI.address_is_lan q.address.ip = false)
    (h0 : l ≠ Addr.zero) (hw : q.address.ip = sR.my_estimated_wan.ip) :
    Gen.introductionsOf sR (Gen.respFields sI sock (Gen.introAddrs sI q).1 (Gen.introAddrs sI q).2.1) = [l] := by
  rw [hands_out_known_addresses sI q l hl hm]
  have := requester_walks_lan_only sR (Gen.respFields sI sock l q.address)
    (by simpa [Gen.respFields] using h0) (by simpa [Gen.respFields] using hw)
  simpa [Gen.respFields] using this

/-- COMPOSITION introducer → introduced peer, all addresses: the puncture the introduced peer sends on the introducer's
    puncture request goes to the requester's socket address as the introducer saw it, unless that is on the introduced
    peer's own WAN ip (same NAT) -/
theorem puncture_reaches_requester_address (sP : SelfView) (lanSock sock : Addr) (q : PeerView)
    (h : sock.ip ≠ sP.my_estimated_wan.ip) :
    (Gen.punctureSends sP (Gen.punctReqSends lanSock sock q).2).1 = sock := by
  rw [puncture_goes_to_wan_walker]
  simp [Gen.punctReqSends, h]

/-- when there is nobody to introduce the response carries 0.0.0.0:0 twice and no puncture request is sent -/
theorem nobody_to_introduce_hands_out_nothing (s : SelfView) : Gen.introNobody s = (Addr.zero, Addr.zero, false) := by
  simp [Gen.introNobody, Gen.introAddrsGen, Id.run, pure]

/-- first branch of create_introduction_response: a peer on the introducer's own machine is handed out with its address
    as LAN address and (the introducer's WAN ip, the peer's port) as WAN address -/
theorem own_machine_handed_out_with_wan_ip (s : SelfView) (q : PeerView) (h : s.address_is_lan q.address.ip = true) :
    Gen.introAddrs s q = (q.address, ⟨s.my_estimated_wan.ip, q.address.port⟩, true) := by
  simp [Gen.introAddrs, Gen.introAddrsGen, Id.run, pure, h]

/-- Network.discover_address (translated condition): an address that is new, or whose recorded introducer is not a
    verified peer — in particular the empty introducer of an address loaded from a snapshot or left by a contact — is
    adopted by the peer that introduces it; an address whose introducer is still verified keeps its record -/
theorem orphan_address_is_adopted (b : Bool) :
    Gen.reparents false b = true ∧ Gen.reparents true false = true ∧ Gen.reparents true true = false := by
  cases b <;> decide

/-- lazy_wrapper (translated condition): every signed packet of a known peer refreshes that peer's stored address, so
    the introducer answers to, names in the puncture request, and hands out the address the peer has NOW -/
theorem known_sender_address_is_refreshed (n : Node) (p : PeerRec) (key : Nat) (src : Addr)
    (h : n.findPeer key = some p) : (n.senderRec key src).1.v4 = src := by
  simp [Node.senderRec, h, Gen.refreshesAddress]

/-- on_introduction_request answers as long as the node does not hold MORE than max_peers peers (negative = unlimited) -/
theorem capacity_guard (m n : Int) : Gen.atCapacity m n = true ↔ 0 ≤ m ∧ m < n := by
  simp [Gen.atCapacity]

/-- the code's LAN subnet table is exactly RFC 1918, for every 32 bit address (and beyond) -/
theorem lan_subnets_rfc1918 (ip : Nat) : inLanSubnets ip = isPrivate ip := by
  simp only [inLanSubnets, isPrivate, Gen.lanSubnets, List.any_cons, List.any_nil, Bool.or_false]
  generalize ha : (ip / 16777216 == 10) = a
  generalize hb : (ip / 1048576 == 2753) = b
  generalize hc : (ip / 65536 == 49320) = c
  cases a <;> cases b <;> cases c <;> rfl
example : inLanSubnets (ipv4 172 31 255 254) = true ∧ inLanSubnets (ipv4 172 32 0 1) = false := by decide

/-- dispatch: each of the eight payload classes has its own msg_id, and the handler registered for it decodes exactly
    that payload class, signed except for the two puncture requests -/
theorem dispatch_table_ok :
    ∀ k : PayloadKind, ∃ h, lookupHandler (Gen.msgId k) Gen.dispatch = some h ∧ (Gen.handlerSpec h).2 = k ∧
      ((Gen.handlerSpec h).1 = false ↔ (k = .punctReqOld ∨ k = .punctReqNew)) := by
  intro k; cases k <;> exact ⟨_, rfl, by decide, by decide⟩


end Ipv8.C13
