/-
  C14 — helper lemmas (not obligations): tries, the well-formedness invariant, bucket operations.
-/
import Ipv8.C14.Model

namespace Ipv8.C14
open List

theorem natToBits_length (len n : Nat) : (natToBits len n).length = len := by
  induction len with
  | zero => rfl
  | succ k ih => simp [natToBits, ih]

/-! ## tries -/
namespace Trie
variable {α : Type}

@[simp] theorem child_nil (c : Bool) : (nil : Trie α).child c = nil := by cases c <;> rfl
@[simp] theorem child_leaf (v : Option α) (c : Bool) : (node v nil nil : Trie α).child c = nil := by cases c <;> rfl
@[simp] theorem find_nil (s : Bits) : (nil : Trie α).find s = nil := by
  induction s with
  | nil => rfl
  | cons c s ih => simp [find, ih]
@[simp] theorem find_nil' (t : Trie α) : t.find [] = t := by cases t <;> rfl
@[simp] theorem find_cons (t : Trie α) (c : Bool) (s : Bits) : t.find (c :: s) = (t.child c).find s := by
  cases t <;> rfl

theorem find_append (t : Trie α) (p s : Bits) : t.find (p ++ s) = (t.find p).find s := by
  induction p generalizing t with
  | nil => simp
  | cons c p ih => simp [ih]

theorem get_append (t : Trie α) (p s : Bits) : t.get (p ++ s) = (t.find p).get s := by
  simp [get, find_append]

/-- the keys of a subtree read back its values -/
theorem keys_filterMap_get (t : Trie α) : t.keys.filterMap (fun s => t.get s) = t.values := by
  induction t with
  | nil => rfl
  | node v c0 c1 ih0 ih1 =>
    simp only [keys, values, filterMap_append, filterMap_map]
    have h0 : (fun s => (node v c0 c1).get s) ∘ (fun s => false :: s) = fun s => c0.get s := by
      funext s; simp [get, child]
    have h1 : (fun s => (node v c0 c1).get s) ∘ (fun s => true :: s) = fun s => c1.get s := by
      funext s; simp [get, child]
    rw [h0, h1, ih0, ih1]
    cases v <;> simp [get, value]

theorem values_mapVals (f : α → α) (t : Trie α) : (t.mapVals f).values = t.values.map f := by
  induction t with
  | nil => rfl
  | node v c0 c1 ih0 ih1 => cases v <;> simp [mapVals, values, ih0, ih1]

theorem mem_values_child {t : Trie α} {c : Bool} {x : α} (h : x ∈ (t.child c).values) : x ∈ t.values := by
  cases t with
  | nil => simp [values] at h
  | node v c0 c1 => cases c <;> simp_all [child, values]

theorem mem_values_find {t : Trie α} {s : Bits} {x : α} (h : x ∈ (t.find s).values) : x ∈ t.values := by
  induction s generalizing t with
  | nil => simpa using h
  | cons c s ih => exact mem_values_child (ih (by simpa using h))

end Trie

/-- `bucketsUnder` is the list of values of the subtree -/
theorem bucketsUnder_eq (t : Trie Bucket) (q : Bits) : RT.bucketsUnder t q = (t.find q).values := by
  unfold RT.bucketsUnder Trie.suffixes
  have : (fun s => t.get (q ++ s)) = fun s => (t.find q).get s := by
    funext s; exact Trie.get_append t q s
  rw [this, Trie.keys_filterMap_get]

/-! ## the invariant -/

/-- what a bucket stored at key `q` satisfies -/
structure BucketOK (m w : Nat) (q : Bits) (b : Bucket) : Prop where
  pfx : b.pfx = q
  cap : b.nodes.length ≤ m
  own : ∀ n ∈ b.nodes, n.id.length = w ∧ q <+: n.id
  nodup : (b.nodes.map (·.id)).Nodup
  depth : q.length ≤ w
  capEq : b.cap = m

/-- the trie below key `q` is a full binary tree whose leaves are buckets and whose inner nodes (the buckets that were
    split) all lie on the path of the own identifier `me` -/
inductive WF (m w : Nat) (me : Bits) : Bits → Trie Bucket → Prop
  | leaf {q : Bits} {b : Bucket} : BucketOK m w q b → WF m w me q (.node (some b) .nil .nil)
  | inner {q : Bits} {l r : Trie Bucket} : q <+: me → WF m w me (q ++ [false]) l → WF m w me (q ++ [true]) r →
      WF m w me q (.node none l r)

abbrev leafT (b : Bucket) : Trie Bucket := .node (some b) .nil .nil

variable {m w : Nat} {me : Bits}

theorem WF.ne_nil {q : Bits} {t : Trie Bucket} (h : WF m w me q t) : t ≠ .nil := by
  cases h <;> simp

theorem WF.not_empty {q : Bits} {t : Trie Bucket} (h : WF m w me q t) : t.isEmptyNode = false := by
  cases h with
  | leaf _ => rfl
  | inner _ hl hr =>
    cases hl <;> rfl

theorem WF.prune {q : Bits} {t : Trie Bucket} (h : WF m w me q t) : t.prune = t := by
  simp [Trie.prune, h.not_empty]

theorem WF.depth {q : Bits} {t : Trie Bucket} (h : WF m w me q t) : q.length ≤ w := by
  induction h with
  | leaf hb => exact hb.depth
  | inner _ _ _ ih _ => simp at ih; omega

theorem WF.child {q : Bits} {l r : Trie Bucket} (h : WF m w me q (.node none l r)) (c : Bool) :
    WF m w me (q ++ [c]) ((Trie.node none l r).child c) := by
  cases h with
  | inner _ hl hr => cases c <;> simpa [Trie.child]

/-- a leaf reached by `find` carries a good bucket -/
theorem WF.find_leaf {q p : Bits} {t : Trie Bucket} {b : Bucket} (h : WF m w me q t) (hf : t.find p = leafT b) :
    BucketOK m w (q ++ p) b := by
  induction p generalizing q t with
  | nil =>
    simp at hf; subst hf
    cases h with
    | leaf hb => simpa using hb
  | cons c p ih =>
    cases h with
    | leaf hb => simp [leafT] at hf
    | inner hme hl hr =>
      have := ih ((WF.inner hme hl hr).child c) (by simpa using hf)
      simpa using this

/-- every subtree on the way to a leaf is well-formed -/
theorem WF.find_wf {q p : Bits} {t : Trie Bucket} {b : Bucket} (h : WF m w me q t) (hf : t.find p = leafT b) (i : Nat) :
    WF m w me (q ++ p.take i) (t.find (p.take i)) := by
  induction p generalizing q t i with
  | nil => simpa using h
  | cons c p ih =>
    cases i with
    | zero => simpa using h
    | succ i =>
      cases h with
      | leaf hb => simp [leafT] at hf
      | inner hme hl hr =>
        have := ih ((WF.inner hme hl hr).child c) (by simpa using hf) i
        simpa using this

/-- a node with a value is a leaf -/
theorem WF.get_leaf {q p : Bits} {t : Trie Bucket} {b : Bucket} (h : WF m w me q t) (hg : t.get p = some b) :
    t.find p = leafT b := by
  induction p generalizing q t with
  | nil =>
    cases h with
    | leaf hb => simp [Trie.get, Trie.value] at hg; simp [hg, leafT]
    | inner _ _ _ => simp [Trie.get, Trie.value] at hg
  | cons c p ih =>
    cases h with
    | leaf hb => simp [Trie.get, Trie.value] at hg
    | inner hme hl hr =>
      have := ih ((WF.inner hme hl hr).child c) (by simpa [Trie.get] using hg)
      simpa using this

/-- two leaves on the path of one identifier coincide (prefix-freeness) -/
theorem WF.leaf_unique {q p p' s : Bits} {t : Trie Bucket} {b b' : Bucket} (h : WF m w me q t)
    (hf : t.find p = leafT b) (hf' : t.find p' = leafT b') (hp : p <+: s) (hp' : p' <+: s) : p = p' := by
  induction p generalizing q t p' s with
  | nil =>
    simp at hf; subst hf
    cases p' with
    | nil => rfl
    | cons c p' => simp [leafT] at hf'
  | cons c p ih =>
    cases p' with
    | nil =>
      simp at hf'; subst hf'
      simp [leafT] at hf
    | cons c' p' =>
      cases s with
      | nil => simp at hp
      | cons d s =>
        have h1 := (List.cons_prefix_cons.mp hp)
        have h2 := (List.cons_prefix_cons.mp hp')
        have hc : c = c' := h1.1.trans h2.1.symm
        subst hc
        cases h with
        | leaf hb => simp [leafT] at hf
        | inner hme hl hr =>
          have := ih ((WF.inner hme hl hr).child c) (by simpa using hf) (by simpa using hf') h1.2 h2.2
          rw [this]

/-- `get_bucket` on a well-formed trie: the leaf on the identifier's path -/
def getBucketT (t : Trie Bucket) (s : Bits) : Option (Bits × Bucket) :=
  match t.lpi (fun _ => true) s with
  | some pb => some pb
  | none => (t.get []).map (fun b => ([], b))

theorem RT.getBucket_eq (rt : RT) (s : Bits) : rt.getBucket s = getBucketT rt.trie s := rfl

theorem lpi_true (t : Trie Bucket) (s : Bits) : t.lpi (fun _ => true) s = t.lpiRel s := by
  unfold Trie.lpi
  cases t.lpiRel s with
  | none => rfl
  | some pb => cases pb; simp

theorem WF.getBucket {q s : Bits} {t : Trie Bucket} (h : WF m w me q t) (hs : q.length + s.length = w) :
    ∃ p b, getBucketT t s = some (p, b) ∧ p <+: s ∧ t.find p = leafT b := by
  induction h generalizing s with
  | leaf hb =>
    rename_i q b
    refine ⟨[], b, ?_, by simp, by simp [leafT]⟩
    unfold getBucketT
    rw [lpi_true]
    cases s <;> simp [Trie.lpiRel, Trie.get, Trie.value]
  | inner hme hl hr ihl ihr =>
    rename_i q l r
    have hd := hl.depth
    cases s with
    | nil => simp at hd hs; omega
    | cons c s =>
      have hch : WF m w me (q ++ [c]) ((Trie.node none l r).child c) := (WF.inner hme hl hr).child c
      have ih : ∃ p b, getBucketT ((Trie.node none l r).child c) s = some (p, b) ∧ p <+: s ∧
          ((Trie.node none l r).child c).find p = leafT b := by
        cases c
        · exact ihl (by simp at hs ⊢; omega)
        · exact ihr (by simp at hs ⊢; omega)
      obtain ⟨p, b, hg, hp, hf⟩ := ih
      generalize hce : (Trie.node none l r).child c = ch at hch hg hf
      cases ch with
      | nil => exact absurd rfl hch.ne_nil
      | node v c0 c1 =>
        unfold getBucketT at hg ⊢
        rw [lpi_true] at hg ⊢
        simp only [Trie.lpiRel, hce]
        cases hrel : (Trie.node v c0 c1).lpiRel s with
        | some pb =>
          obtain ⟨p', b'⟩ := pb
          simp [hrel] at hg
          obtain ⟨rfl, rfl⟩ := hg
          exact ⟨c :: p', b', by simp, by simpa using hp, by simpa [hce] using hf⟩
        | none =>
          simp [hrel, Trie.get, Trie.value] at hg
          obtain ⟨rfl, rfl⟩ := hg
          refine ⟨[c], b, by simp, by simp, ?_⟩
          simpa [hce] using hf

/-! ## writing a bucket back, replacing a leaf by its two children -/

theorem WF.set_leaf {q p : Bits} {t : Trie Bucket} {b b' : Bucket} (h : WF m w me q t) (hf : t.find p = leafT b)
    (hb' : BucketOK m w (q ++ p) b') : WF m w me q (t.set p b') ∧ (t.set p b').find p = leafT b' := by
  induction p generalizing q t with
  | nil =>
    simp at hf; subst hf
    exact ⟨by simpa [Trie.set] using WF.leaf (me := me) (by simpa using hb'), by simp [Trie.set, leafT]⟩
  | cons c p ih =>
    cases h with
    | leaf hb => simp [leafT] at hf
    | inner hme hl hr =>
      cases c with
      | false =>
        have := ih hl (by simpa [Trie.child] using hf) (by simpa using hb')
        exact ⟨by simpa [Trie.set] using WF.inner hme this.1 hr, by simpa [Trie.set, Trie.child] using this.2⟩
      | true =>
        have := ih hr (by simpa [Trie.child] using hf) (by simpa using hb')
        exact ⟨by simpa [Trie.set] using WF.inner hme hl this.1, by simpa [Trie.set, Trie.child] using this.2⟩

theorem WF.split_leaf {q p : Bits} {t : Trie Bucket} {b b0 b1 : Bucket} (h : WF m w me q t) (hf : t.find p = leafT b)
    (h0 : BucketOK m w (q ++ p ++ [false]) b0) (h1 : BucketOK m w (q ++ p ++ [true]) b1) (hme : q ++ p <+: me) :
    ∃ t', Trie.delAux ((t.set (p ++ [false]) b0).set (p ++ [true]) b1) p = some t' ∧ WF m w me q t' ∧
      t'.find (p ++ [false]) = leafT b0 ∧ t'.find (p ++ [true]) = leafT b1 := by
  induction p generalizing q t with
  | nil =>
    simp at hf; subst hf
    refine ⟨.node none (leafT b0) (leafT b1), by simp [Trie.set, Trie.delAux, leafT], ?_, by simp [Trie.child, leafT],
      by simp [Trie.child, leafT]⟩
    exact WF.inner (by simpa using hme) (WF.leaf (by simpa using h0)) (WF.leaf (by simpa using h1))
  | cons c p ih =>
    cases h with
    | leaf hb => simp [leafT] at hf
    | inner hq hl hr =>
      cases c with
      | false =>
        obtain ⟨t', hd, hwf, hf0, hf1⟩ := ih hl (by simpa [Trie.child] using hf) (by simpa using h0) (by simpa using h1)
          (by simpa using hme)
        refine ⟨.node none t' _, by simp [Trie.set, Trie.delAux, hd, hwf.prune], WF.inner hq hwf hr, ?_, ?_⟩
        · simpa [Trie.child] using hf0
        · simpa [Trie.child] using hf1
      | true =>
        obtain ⟨t', hd, hwf, hf0, hf1⟩ := ih hr (by simpa [Trie.child] using hf) (by simpa using h0) (by simpa using h1)
          (by simpa using hme)
        refine ⟨.node none _ t', by simp [Trie.set, Trie.delAux, hd, hwf.prune], WF.inner hq hl hwf, ?_, ?_⟩
        · simpa [Trie.child] using hf0
        · simpa [Trie.child] using hf1

/-! ## buckets -/

theorem BucketOK.of_sublist {q : Bits} {b : Bucket} {ns : List Node} (h : BucketOK m w q b) (hs : ns <+ b.nodes) :
    BucketOK m w q { b with nodes := ns } where
  pfx := h.pfx
  cap := Nat.le_trans hs.length_le h.cap
  own := fun n hn => h.own n (hs.subset hn)
  nodup := (h.nodup).sublist (hs.map _)
  depth := h.depth
  capEq := h.capEq

theorem BucketOK.append {q : Bits} {b : Bucket} {n : Node} (h : BucketOK m w q b) (hl : b.nodes.length < m)
    (hw : n.id.length = w) (hq : q <+: n.id) (hn : ∀ x ∈ b.nodes, x.id ≠ n.id) :
    BucketOK m w q { b with nodes := b.nodes ++ [n] } where
  pfx := h.pfx
  cap := by simp; omega
  own := by
    intro x hx
    simp at hx
    rcases hx with hx | rfl
    · exact h.own x hx
    · exact ⟨hw, hq⟩
  nodup := by
    simp only [map_append, map_cons, map_nil]
    refine List.nodup_append.mpr ⟨h.nodup, by simp, ?_⟩
    intro a ha c hc
    simp at ha hc
    obtain ⟨x, hx, rfl⟩ := ha
    subst hc
    exact hn x hx
  depth := h.depth
  capEq := h.capEq

theorem owns_iff (b : Bucket) (id : Bits) : b.owns id = true ↔ b.pfx <+: id := by
  simp [Bucket.owns, List.isPrefixOf_iff_prefix]

theorem map_addr_ids (ns : List Node) (id : Bits) (a : Nat) :
    (ns.map (fun x => if x.id == id then { x with addr := a } else x)).map (·.id) = ns.map (·.id) := by
  induction ns with
  | nil => rfl
  | cons x xs ih =>
    simp only [map_cons, ih]
    by_cases hx : (x.id == id) = true <;> simp [hx]

theorem evicted_sublist (m : Nat) (b : Bucket) (n : Node) : Bucket.evicted m b n <+ b.nodes := by
  unfold Bucket.evicted
  split
  · exact (List.eraseP_sublist).trans (List.eraseP_sublist)
  · exact List.Sublist.refl _

theorem fresh_of_any {b : Bucket} {n : Node} (hany : ¬ (b.nodes.any (fun x => x.id == n.id)) = true) :
    ∀ x ∈ b.nodes, x.id ≠ n.id := by
  intro x hx he
  apply hany
  simp only [List.any_eq_true]
  exact ⟨x, hx, by simp [he]⟩

/-- `Bucket.add` keeps a bucket good -/
theorem BucketOK.add {q : Bits} {b : Bucket} (h : BucketOK m w q b) (n : Node) (hw : n.id.length = w) :
    BucketOK m w q (b.addM m n).1 := by
  by_cases hown : b.owns n.id = true
  · have hq : q <+: n.id := by
      have := (owns_iff b n.id).mp hown
      rwa [h.pfx] at this
    by_cases hany : (b.nodes.any (fun x => x.id == n.id)) = true
    · simp only [Bucket.addM, hown, hany, Bool.not_true, Bool.false_eq_true, if_false, if_true]
      refine ⟨h.pfx, by simpa using h.cap, ?_, ?_, h.depth, h.capEq⟩
      · intro x hx
        simp at hx
        obtain ⟨y, hy, rfl⟩ := hx
        by_cases hyid : y.id = n.id
        · simp [hyid]; exact hyid ▸ h.own y hy
        · simp [hyid]; exact h.own y hy
      · show ((b.nodes.map _).map _).Nodup
        rw [map_addr_ids]; exact h.nodup
    · have hok2 := h.of_sublist (evicted_sublist m b n)
      by_cases hlt : (Bucket.evicted m b n).length < m
      · simp only [Bucket.addM, hown, hany, hlt, Bool.not_true, Bool.false_eq_true, if_false, if_true]
        exact BucketOK.append (b := { b with nodes := Bucket.evicted m b n }) hok2 hlt hw hq
          (fun x hx => fresh_of_any hany x ((evicted_sublist m b n).subset hx))
      · simp only [Bucket.addM, hown, hany, hlt, Bool.not_true, Bool.false_eq_true, if_false]
        exact hok2
  · simp only [Bucket.addM, hown, Bool.not_false, if_true]
    simpa using h

/-- a refused `add` changed nothing, and the bucket is full of other identifiers -/
theorem add_refused {q : Bits} {b : Bucket} (h : BucketOK m w q b) (n : Node) (hf : (b.addM m n).2 = false) :
    (b.addM m n).1 = b ∧ (b.owns n.id = true → m ≤ b.nodes.length ∧ ∀ x ∈ b.nodes, x.id ≠ n.id) := by
  by_cases hown : b.owns n.id = true
  · by_cases hany : (b.nodes.any (fun x => x.id == n.id)) = true
    · simp [Bucket.addM, hown, hany] at hf
    · by_cases hlt : (Bucket.evicted m b n).length < m
      · simp [Bucket.addM, hown, hany, hlt] at hf
      · have hsub := evicted_sublist m b n
        have hlen : (Bucket.evicted m b n).length = b.nodes.length := by
          have := hsub.length_le; have := h.cap; omega
        have heq : Bucket.evicted m b n = b.nodes := hsub.eq_of_length hlen
        simp only [Bucket.addM, hown, hany, hlt, Bool.not_true, Bool.false_eq_true, if_false]
        refine ⟨by simp [heq], fun _ => ⟨by omega, fresh_of_any hany⟩⟩
  · simp only [Bucket.addM, hown, Bool.not_false, if_true]
    exact ⟨trivial, fun ho => absurd ho (by simp)⟩

theorem add_fresh {b : Bucket} {n : Node} (hown : b.owns n.id = true) (hfresh : ∀ x ∈ b.nodes, x.id ≠ n.id)
    (hlt : b.nodes.length < m) : b.addM m n = ({ b with nodes := b.nodes ++ [n] }, true) := by
  have hany : ¬ (b.nodes.any (fun x => x.id == n.id)) = true := by
    intro ha
    simp only [List.any_eq_true] at ha
    obtain ⟨x, hx, he⟩ := ha
    exact hfresh x hx (by simpa using he)
  have hev : Bucket.evicted m b n = b.nodes := by
    unfold Bucket.evicted
    rw [if_neg (by omega)]
  simp [Bucket.addM, hown, hany, hev, hlt]

/-- the children of a split, stated directly -/
def child0 (m : Nat) (q : Bits) (ns : List Node) : Bucket :=
  { pfx := q ++ [false], nodes := ns.filter (fun n => (q ++ [false]).isPrefixOf n.id), cap := m }
def child1 (m : Nat) (q : Bits) (ns : List Node) : Bucket :=
  { pfx := q ++ [true], nodes := ns.filter (fun n => !(q ++ [false]).isPrefixOf n.id && (q ++ [true]).isPrefixOf n.id),
    cap := m }

theorem split_fold (q : Bits) (l x y : List Node) (hx : x.length + l.length ≤ m) (hy : y.length + l.length ≤ m)
    (hl : (l.map (·.id)).Nodup) (hxl : ∀ a ∈ x, ∀ n ∈ l, a.id ≠ n.id) (hyl : ∀ a ∈ y, ∀ n ∈ l, a.id ≠ n.id) :
    l.foldl Bucket.splitStep ({ pfx := q ++ [false], nodes := x, cap := m }, { pfx := q ++ [true], nodes := y, cap := m })
      = ({ pfx := q ++ [false], nodes := x ++ (child0 m q l).nodes, cap := m }, { pfx := q ++ [true], nodes := y ++ (child1 m q l).nodes, cap := m }) := by
  induction l generalizing x y with
  | nil => simp [child0, child1]
  | cons n l ih =>
    simp only [map_cons, nodup_cons] at hl
    simp only [length_cons] at hx hy
    have hnl : ∀ n' ∈ l, n.id ≠ n'.id := by
      intro n' hn' he
      exact hl.1 (by simp only [mem_map]; exact ⟨n', hn', he.symm⟩)
    simp only [foldl_cons]
    by_cases h0 : (q ++ [false]).isPrefixOf n.id = true
    · have hstep : Bucket.splitStep ({ pfx := q ++ [false], nodes := x, cap := m }, { pfx := q ++ [true], nodes := y, cap := m }) n
          = ({ pfx := q ++ [false], nodes := x ++ [n], cap := m }, { pfx := q ++ [true], nodes := y, cap := m }) := by
        have := add_fresh (m := m) (b := { pfx := q ++ [false], nodes := x, cap := m }) (n := n) (by simpa [Bucket.owns] using h0)
          (fun a ha => hxl a ha n (by simp)) (by simp; omega)
        simp only [Bucket.splitStep, Bucket.owns, Bucket.add, h0, if_true, this]
      rw [hstep, ih (x ++ [n]) y (by simp; omega) (by omega) hl.2]
      · simp [child0, child1, h0]
      · intro a ha n' hn'
        simp at ha
        rcases ha with ha | rfl
        · exact hxl a ha n' (by simp [hn'])
        · exact hnl n' hn'
      · intro a ha n' hn'; exact hyl a ha n' (by simp [hn'])
    · by_cases h1 : (q ++ [true]).isPrefixOf n.id = true
      · have hstep : Bucket.splitStep ({ pfx := q ++ [false], nodes := x, cap := m }, { pfx := q ++ [true], nodes := y, cap := m }) n
            = ({ pfx := q ++ [false], nodes := x, cap := m }, { pfx := q ++ [true], nodes := y ++ [n], cap := m }) := by
          have := add_fresh (m := m) (b := { pfx := q ++ [true], nodes := y, cap := m }) (n := n) (by simpa [Bucket.owns] using h1)
            (fun a ha => hyl a ha n (by simp)) (by simp; omega)
          simp only [Bucket.splitStep, Bucket.owns, Bucket.add, h0, h1, if_true, this]
          simp
        rw [hstep, ih x (y ++ [n]) (by omega) (by simp; omega) hl.2]
        · simp [child0, child1, h0, h1]
        · intro a ha n' hn'; exact hxl a ha n' (by simp [hn'])
        · intro a ha n' hn'
          simp at ha
          rcases ha with ha | rfl
          · exact hyl a ha n' (by simp [hn'])
          · exact hnl n' hn'
      · have hstep : Bucket.splitStep ({ pfx := q ++ [false], nodes := x, cap := m }, { pfx := q ++ [true], nodes := y, cap := m }) n
            = ({ pfx := q ++ [false], nodes := x, cap := m }, { pfx := q ++ [true], nodes := y, cap := m }) := by
          simp [Bucket.splitStep, Bucket.owns, h0, h1]
        rw [hstep, ih x y (by omega) (by omega) hl.2]
        · simp [child0, child1, h0, h1]
        · intro a ha n' hn'; exact hxl a ha n' (by simp [hn'])
        · intro a ha n' hn'; exact hyl a ha n' (by simp [hn'])

/-- `Bucket.split` of a full good bucket: the two halves by the next identifier bit -/
theorem split_spec {q : Bits} {b : Bucket} (h : BucketOK m w q b) (hfull : m ≤ b.nodes.length) :
    b.split = some (child0 m q b.nodes, child1 m q b.nodes) := by
  have hcc : Bucket.childCap b = m := by simp [Bucket.childCap, Gen.splitChildrenInheritCap, h.capEq]
  unfold Bucket.split
  rw [hcc, h.capEq, if_neg (by omega), h.pfx]
  have := split_fold (m := m) q b.nodes [] [] (by simpa using h.cap) (by simpa using h.cap) h.nodup (by simp) (by simp)
  simp only [this, nil_append]
  rfl

theorem child0_ok {q : Bits} {b : Bucket} (h : BucketOK m w q b) (hd : q.length < w) :
    BucketOK m w (q ++ [false]) (child0 m q b.nodes) where
  pfx := rfl
  cap := Nat.le_trans (List.length_filter_le _ _) h.cap
  own := by
    intro n hn
    simp only [child0, mem_filter] at hn
    exact ⟨(h.own n hn.1).1, List.isPrefixOf_iff_prefix.mp hn.2⟩
  nodup := h.nodup.sublist ((List.filter_sublist).map _)
  depth := by simp; omega
  capEq := rfl

theorem child1_ok {q : Bits} {b : Bucket} (h : BucketOK m w q b) (hd : q.length < w) :
    BucketOK m w (q ++ [true]) (child1 m q b.nodes) where
  pfx := rfl
  cap := Nat.le_trans (List.length_filter_le _ _) h.cap
  own := by
    intro n hn
    simp only [child1, mem_filter, Bool.and_eq_true] at hn
    exact ⟨(h.own n hn.1).1, List.isPrefixOf_iff_prefix.mp hn.2.2⟩
  nodup := h.nodup.sublist ((List.filter_sublist).map _)
  depth := by simp; omega
  capEq := rfl

/-- a full bucket that refuses a newcomer it owns is not at the maximal depth -/
theorem depth_lt_of_refused {q : Bits} {b : Bucket} {n : Node} (h : BucketOK m w q b) (hm : 1 ≤ m) (hw : n.id.length = w)
    (hq : q <+: n.id) (hfull : m ≤ b.nodes.length) (hfresh : ∀ x ∈ b.nodes, x.id ≠ n.id) : q.length < w := by
  cases hns : b.nodes with
  | nil => simp [hns] at hfull; omega
  | cons x xs =>
    have hx : x ∈ b.nodes := by simp [hns]
    have hox := h.own x hx
    have hne := hfresh x hx
    have hd := h.depth
    by_cases he : q.length = w
    · exfalso
      apply hne
      have e1 : q = x.id := hox.2.eq_of_length (by omega)
      have e2 : q = n.id := hq.eq_of_length (by omega)
      rw [← e1, ← e2]
    · omega

/-! ## RoutingTable.add -/

theorem leaf_get' {t : Trie Bucket} {k : Bits} {b : Bucket} (h : t.find k = leafT b) : t.get k = some b := by
  simp [Trie.get, h, leafT, Trie.value]

theorem prefix_snoc_of_lt {p s : Bits} (hp : p <+: s) (hl : p.length < s.length) : ∃ c, p ++ [c] <+: s := by
  obtain ⟨r, rfl⟩ := hp
  cases r with
  | nil => simp at hl
  | cons c r => exact ⟨c, ⟨r, by simp⟩⟩

/-- the good outcomes of `add` -/
def AddRes.fine : AddRes → Prop
  | .stored _ => True
  | .none => True
  | .keyError => False
  | .outOfFuel => False

theorem addFuel_inv (hm : 1 ≤ m) (n : Node) (hw : n.id.length = w) :
    ∀ (fuel : Nat) (rt : RT), WF m w rt.me [] rt.trie →
      (∀ p b, getBucketT rt.trie n.id = some (p, b) → w - p.length < fuel) →
      WF m w rt.me [] (rt.addFuel fuel n).1.trie ∧ (rt.addFuel fuel n).1.me = rt.me ∧
        (rt.addFuel fuel n).2.fine ∧
        (∀ x, (rt.addFuel fuel n).2 = .stored x → x.id = n.id ∧
          ∃ k b, (rt.addFuel fuel n).1.trie.get k = some b ∧ x ∈ b.nodes) := by
  intro fuel
  induction fuel with
  | zero =>
    intro rt hwf hfuel
    obtain ⟨p, b, hg, _, _⟩ := hwf.getBucket (s := n.id) (by simpa using hw)
    have := hfuel p b hg
    omega
  | succ fuel ih =>
    intro rt hwf hfuel
    obtain ⟨p, b, hg, hpn, hfind⟩ := hwf.getBucket (s := n.id) (by simpa using hw)
    have hlt := hfuel p b hg
    have hb : BucketOK m w p b := by simpa using hwf.find_leaf hfind
    have hb' : BucketOK m w p (b.addM m n).1 := hb.add n hw
    obtain ⟨hwf', hfind'⟩ := hwf.set_leaf hfind (b' := (b.addM m n).1) (by simpa using hb')
    have hgb : rt.getBucket n.id = some (p, b) := hg
    have hadd : b.add n = b.addM m n := by simp [Bucket.add, hb.capEq]
    simp only [RT.addFuel, hgb, hadd]
    by_cases hok : (b.addM m n).2 = true
    · simp only [hok, if_true]
      refine ⟨hwf', by trivial, ?_, ?_⟩
      · cases (b.addM m n).1.get n.id <;> trivial
      · intro x hx
        cases hget : (b.addM m n).1.get n.id with
        | none => simp [hget] at hx
        | some y =>
          simp [hget] at hx
          subst hx
          have hy := List.find?_some hget
          have hmem := List.mem_of_find?_eq_some hget
          exact ⟨by simpa using hy, p, (b.addM m n).1, leaf_get' hfind', hmem⟩
    · have hok' : (b.addM m n).2 = false := by simpa using hok
      obtain ⟨heq, hfull⟩ := add_refused hb n hok'
      simp only [hok', Bool.false_eq_true, if_false]
      rw [heq] at hwf' hfind' ⊢
      by_cases hme : b.owns rt.me = true
      · simp only [hme, if_true]
        have hown : b.owns n.id = true := (owns_iff b n.id).mpr (by rw [hb.pfx]; exact hpn)
        obtain ⟨hful, hfresh⟩ := hfull hown
        have hdepth : p.length < w := depth_lt_of_refused hb hm hw hpn hful hfresh
        rw [split_spec hb hful]
        simp only [hb.pfx]
        have hpme : [] ++ p <+: rt.me := by
          have := (owns_iff b rt.me).mp hme
          rw [hb.pfx] at this; simpa using this
        obtain ⟨t', hdel, hwft, hf0, hf1⟩ := hwf'.split_leaf hfind' (b0 := child0 m p b.nodes) (b1 := child1 m p b.nodes)
          (by simpa using child0_ok hb hdepth) (by simpa using child1_ok hb hdepth) hpme
        have hdel' : (((rt.trie.set p b).set (p ++ [false]) (child0 m p b.nodes)).set (p ++ [true]) (child1 m p b.nodes)).del p
            = (t', false) := by
          simp only [Trie.del, hdel, hwft.not_empty]
        simp only [hdel', Bool.false_eq_true, if_false]
        have := ih { rt with trie := t' } hwft (by
          intro p2 b2 hg2
          obtain ⟨p3, b3, hg3, hp3, hf3⟩ := hwft.getBucket (s := n.id) (by simpa using hw)
          simp only [] at hg2
          rw [hg2] at hg3
          obtain ⟨rfl, rfl⟩ := Prod.mk.inj (Option.some.inj hg3)
          obtain ⟨c, hc⟩ := prefix_snoc_of_lt hpn (by omega)
          have hfc : ∃ bc, t'.find (p ++ [c]) = leafT bc := by
            cases c
            · exact ⟨_, hf0⟩
            · exact ⟨_, hf1⟩
          obtain ⟨bc, hfc⟩ := hfc
          have := hwft.leaf_unique hf3 hfc hp3 hc
          subst this
          simp; omega)
        exact this
      · simp only [hme, Bool.false_eq_true, if_false]
        exact ⟨hwf', by trivial, trivial, by intro x hx; cases hx⟩

/-! ## the other operations, and histories -/

theorem WF.mapVals {q : Bits} {t : Trie Bucket} (f : Bucket → Bucket)
    (hf : ∀ q b, BucketOK m w q b → BucketOK m w q (f b)) (h : WF m w me q t) : WF m w me q (t.mapVals f) := by
  induction h with
  | leaf hb => exact WF.leaf (hf _ _ hb)
  | inner hme _ _ ihl ihr => exact WF.inner hme ihl ihr

theorem map_set_ids (ns : List Node) (id : Bits) (failed : Nat) (recent : Bool) (rtt : Nat) :
    (ns.map (fun x => if x.id == id then { x with failed := failed, recent := recent, rtt := rtt } else x)).map (·.id) = ns.map (·.id) := by
  induction ns with
  | nil => rfl
  | cons x xs ih =>
    simp only [map_cons, ih]
    by_cases hx : (x.id == id) = true <;> simp [hx]

theorem removeBad_inv (rt : RT) (h : WF m w rt.me [] rt.trie) : WF m w rt.me [] rt.removeBad.1.trie := by
  apply WF.mapVals _ _ h
  intro q b hb
  exact hb.of_sublist List.filter_sublist

theorem setNode_inv (rt : RT) (id : Bits) (failed : Nat) (recent : Bool) (rtt : Nat) (h : WF m w rt.me [] rt.trie) :
    WF m w rt.me [] (rt.setNode id failed recent rtt).trie := by
  apply WF.mapVals _ _ h
  intro q b hb
  refine ⟨hb.pfx, by simpa using hb.cap, ?_, ?_, hb.depth, hb.capEq⟩
  · intro x hx
    simp at hx
    obtain ⟨y, hy, rfl⟩ := hx
    by_cases hyid : y.id = id
    · simp [hyid]; exact hyid ▸ hb.own y hy
    · simp [hyid]; exact hb.own y hy
  · show ((b.nodes.map _).map _).Nodup
    rw [map_set_ids]; exact hb.nodup

theorem init_inv (me : Bits) : WF m w me [] (RT.init me m).trie := by
  refine WF.leaf ⟨rfl, by simp, by simp, by simp, by simp, rfl⟩

def Op.valid (w : Nat) : Op → Prop
  | .add n => n.id.length = w
  | _ => True

theorem add_inv (hm : 1 ≤ m) (rt : RT) (n : Node) (hw : n.id.length = w) (h : WF m w rt.me [] rt.trie) :
    WF m w rt.me [] (rt.add n).1.trie ∧ (rt.add n).1.me = rt.me ∧ (rt.add n).2.fine ∧
      (∀ x, (rt.add n).2 = .stored x → x.id = n.id ∧ ∃ k b, (rt.add n).1.trie.get k = some b ∧ x ∈ b.nodes) := by
  apply addFuel_inv hm n hw _ rt h
  intro p b _
  omega

theorem step_inv (hm : 1 ≤ m) (rt : RT) (op : Op) (hv : op.valid w) (h : WF m w rt.me [] rt.trie) :
    WF m w (step rt op).me [] (step rt op).trie ∧ (step rt op).me = rt.me := by
  cases op with
  | add n =>
    have := add_inv hm rt n hv h
    exact ⟨by simpa [step, this.2.1] using this.1, this.2.1⟩
  | removeBad => exact ⟨removeBad_inv rt h, rfl⟩
  | setNode id failed recent rtt => exact ⟨setNode_inv rt id failed recent rtt h, rfl⟩

theorem run_inv' (hm : 1 ≤ m) (ops : List Op) (rt : RT) (hv : ∀ op ∈ ops, op.valid w) (h : WF m w rt.me [] rt.trie) :
    WF m w rt.me [] (run rt ops).trie ∧ (run rt ops).me = rt.me := by
  induction ops generalizing rt with
  | nil => exact ⟨h, rfl⟩
  | cons op ops ih =>
    have hs := step_inv hm rt op (hv op (by simp)) h
    have := ih (step rt op) (fun o ho => hv o (by simp [ho])) hs.1
    simp only [run, foldl_cons] at this ⊢
    rw [hs.2] at this
    exact this

/-- the invariant holds after every history -/
theorem run_inv (hm : 1 ≤ m) (me : Bits) (ops : List Op) (hv : ∀ op ∈ ops, op.valid w) :
    WF m w me [] (run (RT.init me m) ops).trie ∧ (run (RT.init me m) ops).me = me :=
  run_inv' hm ops (RT.init me m) hv (init_inv me)

/-! ## reading the property off the invariant -/

theorem Trie.mem_keys_iff {α : Type} (t : Trie α) (k : Bits) : k ∈ t.keys ↔ ∃ v, t.get k = some v := by
  induction t generalizing k with
  | nil => simp [Trie.keys, Trie.get, Trie.value]
  | node v c0 c1 ih0 ih1 =>
    cases k with
    | nil => cases v <;> simp [Trie.keys, Trie.get, Trie.value]
    | cons c k =>
      cases c
      · have := ih0 k
        cases v <;> simp [Trie.keys, Trie.get, Trie.child, this] <;> simp [Trie.get]
      · have := ih1 k
        cases v <;> simp [Trie.keys, Trie.get, Trie.child, this] <;> simp [Trie.get]

theorem WF.keys_leaf {q k : Bits} {t : Trie Bucket} (h : WF m w me q t) (hk : k ∈ t.keys) : ∃ b, t.find k = leafT b := by
  obtain ⟨b, hb⟩ := (Trie.mem_keys_iff t k).mp hk
  exact ⟨b, h.get_leaf hb⟩

theorem leaf_get {t : Trie Bucket} {k : Bits} {b : Bucket} (h : t.find k = leafT b) : t.get k = some b := by
  simp [Trie.get, h, leafT, Trie.value]

/-- proper prefixes of a bucket key are prefixes of the own identifier -/
theorem WF.split_on_path {q k p : Bits} {t : Trie Bucket} {b : Bucket} (h : WF m w me q t) (hf : t.find k = leafT b)
    (hp : p <+: k) (hne : p ≠ k) : q ++ p <+: me := by
  induction k generalizing q t p with
  | nil => simp at hp; exact absurd hp hne
  | cons c k ih =>
    cases h with
    | leaf hb => simp [leafT] at hf
    | inner hme hl hr =>
      cases p with
      | nil => simpa using hme
      | cons c' p =>
        have hcp := List.cons_prefix_cons.mp hp
        obtain ⟨rfl, hp'⟩ := hcp
        have := ih ((WF.inner hme hl hr).child c') (by simpa using hf) hp' (by intro he; apply hne; rw [he])
        simpa using this

end Ipv8.C14
