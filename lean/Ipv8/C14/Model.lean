/-
  C14 — executable model of ipv8/dht/trie.py (Trie) and ipv8/dht/routing.py (Bucket, RoutingTable)
  for an arbitrary identifier width (identifiers are bit lists, most significant bit first; the code uses 160 bits)
  and an arbitrary bucket capacity `m` (MAX_BUCKET_SIZE = 8 in the code, regenerated into GenConst.lean).
  Core Lean only (no Mathlib) so that the driver links.

  What mirrors what (quirks kept):
    Trie.set / delAux+del / get / lpiRel+lpi / keys,suffixes / values   <->  trie.py  __setitem__ / __delitem__ /
        __getitem__ / longest_prefix_item / suffixes / values
        * longest_prefix_item never looks at the root's own value and tests the found value for *truthiness*;
        * __delitem__ prunes empty nodes upwards and, when the pruning reaches an empty root, ends in
          `root.children.pop("")`, i.e. a KeyError *after* the deletion was carried out (`del` returns that flag);
        * children dictionaries are kept in the fixed order '0','1' (python: insertion order); the harness compares
          `values()`/`suffixes()` as sorted collections.  The code's `suffixes` produces every direct child that has a
          value twice (once as `char`, once as `char + ""` from the nested call) and relies on its
          "if suffix not in suffixes" test to drop the second copy; the model lists each key once directly (same result
          as a set; the literal duplicate-then-drop is not modelled).
    Bucket.owns / add / split / generateId                              <->  routing.py Bucket.owns / add / split / generate_id
        * add: owner test, update-in-place of an existing id (address only), then — only when full — evict the first
          BAD node AND, independently, the first node whose rtt is at least twice the newcomer's (both can fire),
          then insert when there is room;
        * split: refuses when not full; children are filled through `add` in dictionary order.
    RT.refresh                                                            <->  DHTCommunity.node_maintenance (community.py): which bucket each
        refresh lookup is generated from, and which buckets are stamped
    RT.getBucket / addFuel,add / removeBad / setNode / closest           <->  RoutingTable.get_bucket / add / remove_bad_nodes /
        (external mutation of Node.failed, Node.rtt) / closest_nodes
        * python mutates bucket objects in place; the model writes the changed bucket back at the key it was found at;
        * add's split-and-retry recursion is fuel-indexed (fuel = width + 1, `add_never_out_of_fuel` in Props);
        * closest_nodes accumulates candidates keyed by node id (after the repair; before, a set keyed by public key)
          while walking from the longest matching prefix towards the root and stops as soon as it holds more than `k`
          nodes; then sorts by XOR distance and cuts to `k`.
  Node status: `Node.status` is modelled from the failure count and a boolean "recent contact" (the two time tests of the
  code, scripted by the harness); only BAD vs not-BAD is observable in the table operations (`status` is also the
  secondary sort key in closest_nodes, which never decides anything because distances of distinct ids are distinct).
  `Node.bucket` (a back pointer the code writes in Bucket.add but never reads) is not modelled; the harness checks it.
-/
import Ipv8.C14.GenConst

namespace Ipv8.C14

abbrev Bits := List Bool

/-! ## trie.py -/

inductive Trie (α : Type) where
  | nil : Trie α
  | node (v : Option α) (c0 c1 : Trie α) : Trie α
deriving Repr

namespace Trie
variable {α : Type}

/-- a fresh `Trie("01")`: root node without value and without children -/
def empty : Trie α := node none nil nil

def child : Trie α → Bool → Trie α
  | nil, _ => nil
  | node _ c0 _, false => c0
  | node _ _ c1, true => c1

def value : Trie α → Option α
  | nil => none
  | node v _ _ => v

/-- `_find` -/
def find : Trie α → Bits → Trie α
  | t, [] => t
  | t, b :: s => find (t.child b) s

/-- `__getitem__` (none = KeyError) -/
def get (t : Trie α) (k : Bits) : Option α := (t.find k).value

/-- `__setitem__` -/
def set : Trie α → Bits → α → Trie α
  | nil, [], x => node (some x) nil nil
  | node _ c0 c1, [], x => node (some x) c0 c1
  | nil, false :: s, x => node none (set nil s x) nil
  | nil, true :: s, x => node none nil (set nil s x)
  | node v c0 c1, false :: s, x => node v (set c0 s x) c1
  | node v c0 c1, true :: s, x => node v c0 (set c1 s x)

def isEmptyNode : Trie α → Bool
  | node none nil nil => true
  | _ => false

def prune (t : Trie α) : Trie α := if t.isEmptyNode then nil else t

/-- `__delitem__` below the root: none = KeyError before any change -/
def delAux : Trie α → Bits → Option (Trie α)
  | nil, _ => none
  | node none _ _, [] => none
  | node (some _) c0 c1, [] => some (node none c0 c1)
  | node v c0 c1, false :: s => (delAux c0 s).map (fun c => node v (prune c) c1)
  | node v c0 c1, true :: s => (delAux c1 s).map (fun c => node v c0 (prune c))

/-- `__delitem__`: new trie and whether a KeyError left the call (key absent, or pruning ran off the empty root) -/
def del (t : Trie α) (k : Bits) : Trie α × Bool :=
  match delAux t k with
  | none => (t, true)
  | some t' => (t', t'.isEmptyNode)

/-- deepest node with a value strictly below `t` on the path `k`: (relative path, value) -/
def lpiRel : Trie α → Bits → Option (Bits × α)
  | _, [] => none
  | t, b :: s =>
    match t.child b with
    | nil => none
    | c@(node v _ _) =>
      match lpiRel c s with
      | some (p, x) => some (b :: p, x)
      | none => v.map (fun x => ([b], x))

/-- `longest_prefix_item` (none = default / KeyError); `truthy` is python's `bool(value)` -/
def lpi (truthy : α → Bool) (t : Trie α) (k : Bits) : Option (Bits × α) :=
  match lpiRel t k with
  | some (p, x) => if truthy x then some (p, x) else none
  | none => none

/-- keys of all values in the subtree, relative to it -/
def keys : Trie α → List Bits
  | nil => []
  | node v c0 c1 =>
    (match v with | some _ => [[]] | none => []) ++ (keys c0).map (false :: ·) ++ (keys c1).map (true :: ·)

/-- `suffixes` -/
def suffixes (t : Trie α) (k : Bits) : List Bits := (t.find k).keys

/-- `values` -/
def values : Trie α → List α
  | nil => []
  | node v c0 c1 => v.toList ++ values c0 ++ values c1

def mapVals (f : α → α) : Trie α → Trie α
  | nil => nil
  | node v c0 c1 => node (v.map f) (mapVals f c0) (mapVals f c1)

end Trie

/-! ## routing.py -/

structure Node where
  id : Bits
  failed : Nat    -- Node.failed: timeouts in a row (reset by every response)
  recent : Bool   -- responded within 15 minutes, or responded once and queried us within 15 minutes
  rtt : Nat
  addr : Nat      -- stands for Node.address (only copied on update)
  tag : Nat       -- identity of the python object
deriving DecidableEq, Repr

/-- `Node.status` (codes and threshold regenerated from the source): enough failures in a row make a node BAD whatever
    its last contact was; otherwise recent contact makes it GOOD, else UNKNOWN -/
def Node.statusFrom (rules : List (Bool × Nat)) (dflt : Nat) (n : Node) : Nat :=
  match rules with
  | [] => dflt
  | (onFailed, code) :: rest =>
    if (if onFailed then decide (n.failed ≥ Gen.badFailedThreshold) else n.recent) then code
    else Node.statusFrom rest dflt n

/-- the decision list of `Node.status` is GENERATED from the source, in source order: each rule is (tests the failure
    count? else tests recent contact, returned code) -/
def Node.status (n : Node) : Nat := Node.statusFrom Gen.statusRules Gen.statusDefault n

/-- `node.status == NODE_STATUS_BAD` -/
def Node.bad (n : Node) : Bool := n.status == Gen.statusBad

structure Bucket where
  pfx : Bits
  nodes : List Node      -- dict in insertion order
  cap : Nat              -- max_size: a per-bucket field, handed from parent to children in `split`
deriving DecidableEq, Repr

namespace Bucket

/-- `owns`: `id_to_binary_string(node_id).startswith(prefix_id)` -/
def owns (b : Bucket) (id : Bits) : Bool := b.pfx.isPrefixOf id

def get (b : Bucket) (id : Bits) : Option Node := b.nodes.find? (fun x => x.id == id)

/-- the rtt eviction test `node.rtt and n.rtt / node.rtt >= 2.0`; rtts are naturals counting 1/1024 s (the harness uses
    exactly these dyadic floats, for which the float division compares exactly) -/
def slower (newcomer : Node) (x : Node) : Bool := newcomer.rtt != 0 && x.rtt ≥ Gen.rttRatio * newcomer.rtt

/-- the "make room if needed" part of `Bucket.add`: only when full, drop the first BAD node and then, independently,
    the first node at least `rttRatio` times slower than the newcomer -/
def evicted (m : Nat) (b : Bucket) (n : Node) : List Node :=
  if b.nodes.length ≥ m then (b.nodes.eraseP (fun x => x.bad)).eraseP (slower n) else b.nodes

/-- `Bucket.add` for a capacity `m`: new bucket and the returned boolean -/
def addM (m : Nat) (b : Bucket) (n : Node) : Bucket × Bool :=
  if !b.owns n.id then (b, false)
  else if b.nodes.any (fun x => x.id == n.id) then
    ({ b with nodes := b.nodes.map (fun x => if x.id == n.id then { x with addr := n.addr } else x) }, true)
  else if (evicted m b n).length < m then ({ b with nodes := evicted m b n ++ [n] }, true)
  else ({ b with nodes := evicted m b n }, false)

/-- `Bucket.add`: the capacity is the bucket's own `max_size` -/
def add (b : Bucket) (n : Node) : Bucket × Bool := addM b.cap b n

/-- one step of the loop in `split` (each child adds under its OWN capacity) -/
def splitStep (acc : Bucket × Bucket) (n : Node) : Bucket × Bucket :=
  if acc.1.owns n.id then ((acc.1.add n).1, acc.2)
  else if acc.2.owns n.id then (acc.1, (acc.2.add n).1)
  else acc

/-- capacity handed to the children: the parent's `max_size` when the source passes it on (generated flag), else the
    constructor default `MAX_BUCKET_SIZE` -/
def childCap (b : Bucket) : Nat := if Gen.splitChildrenInheritCap then b.cap else Gen.maxBucketSize

/-- `Bucket.split`: `Bucket(self.prefix_id + "0", self.max_size)`, `Bucket(self.prefix_id + "1", self.max_size)` -/
def split (b : Bucket) : Option (Bucket × Bucket) :=
  if b.nodes.length < b.cap then none
  else some (b.nodes.foldl splitStep
    ({ pfx := b.pfx ++ [false], nodes := [], cap := childCap b }, { pfx := b.pfx ++ [true], nodes := [], cap := childCap b }))

end Bucket

/-- big-endian value of a bit list -/
def bitsToNat : Bits → Nat
  | [] => 0
  | b :: l => (if b then 2 ^ l.length else 0) + bitsToNat l

/-- `n` as exactly `len` bits (most significant first), reduced mod 2^len -/
def natToBits : Nat → Nat → Bits
  | 0, _ => []
  | len + 1, n => (n / 2 ^ len % 2 == 1) :: natToBits len n

def xorBits : Bits → Bits → Bits
  | a :: as, b :: bs => (a != b) :: xorBits as bs
  | _, _ => []

/-- `distance(a, b)` for equally long identifiers -/
def dist (a b : Bits) : Nat := bitsToNat (xorBits a b)

/-- number of binary digits of `r` (0 for 0), with explicit fuel -/
def sizeAux : Nat → Nat → Nat
  | 0, _ => 0
  | f + 1, r => if r = 0 then 0 else 1 + sizeAux f (r / 2)
def bitSize (r : Nat) : Nat := sizeAux r r

/-- python `format(r, "0<n>b")`: at LEAST `n` binary digits — zero padded when shorter, never truncated -/
def formatBin (n r : Nat) : Bits := natToBits (max n (max 1 (bitSize r))) r

/-- python `binascii.unhexlify(format(v, "0<w/4>X"))` read back as bits: at least `w/4` hex digits, never truncated;
    an odd number of digits makes unhexlify raise (`none`) -/
def hexBytes (w v : Nat) : Option Bits :=
  let digits := max (w / 4) ((bitSize v + 3) / 4)
  if digits % 2 = 1 then none else some (natToBits (4 * digits) v)

/-- `Bucket.generate_id` (after the repair), step by step as in the code, `r` = the value the random source returned:
    `suffix = format(r, "0<n>b") if n else ""; unhexlify(format(int(prefix + suffix, 2), "040X"))` -/
def Bucket.generateId (width : Nat) (b : Bucket) (r : Nat) : Option Bits :=
  let n := width - b.pfx.length
  let suffix := if n = 0 then [] else formatBin n r
  hexBytes width (bitsToNat (b.pfx ++ suffix))

/-- `Bucket.generate_id` as it was before the repair (kept for the negative theorem):
    `format(randint(0, 2**(width-|prefix|)), "0<width>b")`, the prefix is never used -/
def Bucket.generateIdOld (width : Nat) (_b : Bucket) (r : Nat) : Option Bits :=
  hexBytes width (bitsToNat (formatBin width r))

structure RT where
  me : Bits
  trie : Trie Bucket
deriving Repr

inductive AddRes where
  | stored (n : Node)   -- `bucket.get(node.id)`
  | none                -- `None`
  | keyError            -- a KeyError escaped (never happens on reachable tables: `add_no_key_error`)
  | outOfFuel           -- model artefact (never happens: `add_never_out_of_fuel`)
deriving DecidableEq, Repr

namespace RT

/-- `RoutingTable.__init__` -/
def init (me : Bits) (m : Nat) : RT := { me := me, trie := (Trie.empty).set [] { pfx := [], nodes := [], cap := m } }

/-- `get_bucket`: key and bucket (`longest_prefix_value(..., default=None) or self.trie[""]`) -/
def getBucket (rt : RT) (id : Bits) : Option (Bits × Bucket) :=
  match rt.trie.lpi (fun _ => true) id with
  | some pb => some pb
  | none => (rt.trie.get []).map (fun b => ([], b))

/-- `RoutingTable.add` with explicit fuel for the split-and-retry recursion -/
def addFuel : Nat → RT → Node → RT × AddRes
  | 0, rt, _ => (rt, .outOfFuel)
  | fuel + 1, rt, n =>
    match rt.getBucket n.id with
    | none => (rt, .keyError)
    | some (p, b) =>
      let r := b.add n
      let b' := r.1
      let rt' : RT := { rt with trie := rt.trie.set p b' }
      if r.2 then (rt', match b'.get n.id with | some x => .stored x | none => .none)
      else if (!Gen.splitGuardOwnId || b'.owns rt.me) then
        match b'.split with
        | none => (rt', .none)
        | some (b0, b1) =>
          let t1 := (rt'.trie.set (b'.pfx ++ [false]) b0).set (b'.pfx ++ [true]) b1
          let d := t1.del b'.pfx
          if d.2 then ({ rt with trie := d.1 }, .keyError)
          else addFuel fuel { rt with trie := d.1 } n
      else (rt', .none)

def add (rt : RT) (n : Node) : RT × AddRes := addFuel (n.id.length + 1) rt n

/-- `remove_bad_nodes`: new table and the removed nodes (bucket order of `values()`) -/
def removeBad (rt : RT) : RT × List Node :=
  ({ rt with trie := rt.trie.mapVals (fun b => { b with nodes := b.nodes.filter (fun x => !x.bad) }) },
   rt.trie.values.flatMap (fun b => b.nodes.filter (fun x => x.bad)))

/-- the environment changes the failure count / rtt of a stored node object -/
def setNode (rt : RT) (id : Bits) (failed : Nat) (recent : Bool) (rtt : Nat) : RT :=
  { rt with trie := rt.trie.mapVals (fun b =>
      { b with nodes := b.nodes.map (fun x => if x.id == id then { x with failed := failed, recent := recent, rtt := rtt } else x) }) }

/-- `get` -/
def get (rt : RT) (id : Bits) : Option Node :=
  match rt.getBucket id with
  | some (_, b) => b.get id
  | none => none

/-- all buckets, `trie.values()` -/
def buckets (rt : RT) : List Bucket := rt.trie.values

/-- all stored nodes -/
def allNodes (rt : RT) : List Node := rt.buckets.flatMap (fun b => b.nodes)

/-- the filter inside closest_nodes: not BAD and not the excluded id -/
def live (excl : Option Bits) (x : Node) : Bool :=
  (!Gen.closestFiltersBad || !x.bad) && (!Gen.closestExcludesById || excl != some x.id)

/-- buckets in the subtree below key `q`: `[trie[q + s] for s in trie.suffixes(q)]` -/
def bucketsUnder (t : Trie Bucket) (q : Bits) : List Bucket :=
  (t.suffixes q).filterMap (fun s => t.get (q ++ s))

def level (t : Trie Bucket) (excl : Option Bits) (q : Bits) : List Node :=
  (bucketsUnder t q).flatMap (fun b => b.nodes.filter (live excl))

/-- `nodes.update({node.id: node ...})` on lists without repeated ids (stored ids are distinct: `WF.nodup_ids`) -/
def union (acc new : List Node) : List Node := acc ++ new.filter (fun x => !acc.contains x)

/-- the break test `len(nodes) > max_nodes` (`strict`; the translator also accepts `>=`) -/
def brk (strict : Bool) (len k : Nat) : Bool := if strict then len > k else len ≥ k

/-- the loop `for i in reversed(range(len(prefix) + 1))` with its break -/
def walk (strict : Bool) (t : Trie Bucket) (excl : Option Bits) (p : Bits) (k : Nat) : Nat → List Node → List Node
  | 0, acc => if Gen.closestWalkFromRoot then union acc (level t excl (p.take 0)) else acc
  | i + 1, acc =>
    let acc' := union acc (level t excl (p.take (i + 1)))
    if brk strict acc'.length k then acc' else walk strict t excl p k i acc'

/-- the sort key `(distance, status)`; when the source does not put the distance first (generated flag) the status leads -/
def closer (target : Bits) (a b : Node) : Bool :=
  if Gen.closestSortDistanceFirst then dist a.id target ≤ dist b.id target
  else a.status < b.status || (a.status == b.status && dist a.id target ≤ dist b.id target)

/-- `self.trie.longest_prefix(hash_binary, default="")` -/
def closestPrefix (rt : RT) (target : Bits) : Bits :=
  match rt.trie.lpi (fun _ => true) target with
  | some (p, _) => p
  | none => []

/-- `closest_nodes(target, k, exclude)` -/
def closest (rt : RT) (target : Bits) (k : Nat) (excl : Option Bits) : List Node :=
  ((walk Gen.closestBreakStrict rt.trie excl (rt.closestPrefix target) k (rt.closestPrefix target).length []).mergeSort
    (closer target)).take k

/-- one round of `DHTCommunity.node_maintenance` (ipv8/dht/community.py) on one routing table: every stale bucket (which
    keys are stale - `now - last_changed > 15 min` - is scripted by the harness) is looked up with an identifier generated
    from THAT bucket; `draw k` is the value the random source returned for the bucket at key `k`.  Result: (refreshed key,
    lookup target) in key order; the code then stamps exactly these buckets. -/
def refresh (width : Nat) (rt : RT) (stale : Bits → Bool) (draw : Bits → Nat) : List (Bits × Option Bits) :=
  (rt.trie.keys.filter stale).filterMap (fun k => (rt.trie.get k).map (fun b =>
    (k, (if Gen.refreshFromOwnGroup then b else (rt.trie.values.getLast?).getD b).generateId width (draw k))))

end RT

/-! ## histories -/

inductive Op where
  | add (n : Node)
  | removeBad
  | setNode (id : Bits) (failed : Nat) (recent : Bool) (rtt : Nat)
deriving Repr

def step (rt : RT) : Op → RT
  | .add n => (rt.add n).1
  | .removeBad => rt.removeBad.1
  | .setNode id failed recent rtt => rt.setNode id failed recent rtt

def run (rt : RT) (ops : List Op) : RT := ops.foldl step rt

end Ipv8.C14
