/-
  C14 — helper lemmas for the exactness of closest_nodes (not obligations).
-/
import Ipv8.C14.Lemmas

namespace Ipv8.C14
open List

/-! ## XOR distance on bit lists -/

theorem bitsToNat_lt (l : Bits) : bitsToNat l < 2 ^ l.length := by
  induction l with
  | nil => simp [bitsToNat]
  | cons b l ih =>
    simp only [bitsToNat, length_cons, Nat.pow_succ]
    split <;> omega

theorem xorBits_length (a b : Bits) (h : a.length = b.length) : (xorBits a b).length = b.length := by
  induction a generalizing b with
  | nil => cases b <;> simp_all [xorBits]
  | cons x a ih =>
    cases b with
    | nil => simp at h
    | cons y b => simp [xorBits, ih b (by simpa using h)]

theorem dist_lt (a t : Bits) (h : a.length = t.length) : dist a t < 2 ^ t.length := by
  have := bitsToNat_lt (xorBits a t)
  rwa [xorBits_length a t h] at this

theorem dist_cons (x y : Bool) (a t : Bits) (h : a.length = t.length) :
    dist (x :: a) (y :: t) = (if (x != y) = true then 2 ^ t.length else 0) + dist a t := by
  simp [dist, xorBits, bitsToNat, xorBits_length a t h]

/-- a node sharing a prefix with the target is strictly closer than one that does not -/
theorem dist_sep (pre a b t : Bits) (ha : a.length = t.length) (hb : b.length = t.length)
    (hpt : pre <+: t) (hpa : pre <+: a) (hpb : ¬ pre <+: b) : dist a t < dist b t := by
  induction pre generalizing a b t with
  | nil => exact absurd (List.nil_prefix) hpb
  | cons c pre ih =>
    cases t with
    | nil => simp at hpt
    | cons z t =>
      cases a with
      | nil => simp at hpa
      | cons x a =>
        cases b with
        | nil => simp at hb
        | cons y b =>
          have h1 := List.cons_prefix_cons.mp hpt
          have h2 := List.cons_prefix_cons.mp hpa
          have hxz : x = z := h2.1.symm.trans h1.1
          subst hxz
          have ha' : a.length = t.length := by simpa using ha
          have hb' : b.length = t.length := by simpa using hb
          rw [dist_cons _ _ _ _ ha', dist_cons _ _ _ _ hb']
          by_cases hyx : y = x
          · subst hyx
            have : ¬ pre <+: b := by
              intro hp
              apply hpb
              rw [← h1.1]
              exact List.cons_prefix_cons.mpr ⟨rfl, hp⟩
            have := ih a b t ha' hb' h1.2 h2.2 this
            simp; exact this
          · have hlt := dist_lt a t ha'
            have hne : (y != x) = true := by simp [hyx]
            simp [hne]
            omega

theorem dist_inj (a b t : Bits) (ha : a.length = t.length) (hb : b.length = t.length) (h : dist a t = dist b t) :
    a = b := by
  induction t generalizing a b with
  | nil =>
    have : a = [] := by simpa using ha
    have : b = [] := by simpa using hb
    simp_all
  | cons z t ih =>
    cases a with
    | nil => simp at ha
    | cons x a =>
      cases b with
      | nil => simp at hb
      | cons y b =>
        have ha' : a.length = t.length := by simpa using ha
        have hb' : b.length = t.length := by simpa using hb
        rw [dist_cons _ _ _ _ ha', dist_cons _ _ _ _ hb'] at h
        have hla := dist_lt a t ha'
        have hlb := dist_lt b t hb'
        have hxy : x = y := by
          cases x <;> cases y <;> cases z <;> simp at h ⊢ <;> omega
        subst hxy
        have : dist a t = dist b t := by omega
        rw [ih a b ha' hb' this]

/-! ## all nodes of a well-formed trie -/

def nodesOf (t : Trie Bucket) : List Node := t.values.flatMap (fun b => b.nodes)

theorem allNodes_eq (rt : RT) : rt.allNodes = nodesOf rt.trie := rfl

variable {m w : Nat} {me : Bits}

@[simp] theorem nodesOf_leaf (b : Bucket) : nodesOf (leafT b) = b.nodes := by
  simp [nodesOf, Trie.values]

@[simp] theorem nodesOf_inner (l r : Trie Bucket) : nodesOf (.node none l r) = nodesOf l ++ nodesOf r := by
  simp [nodesOf, Trie.values]

theorem WF.own_under {q : Bits} {t : Trie Bucket} (h : WF m w me q t) {n : Node} (hn : n ∈ nodesOf t) :
    q <+: n.id ∧ n.id.length = w := by
  induction h with
  | leaf hb =>
    have := hb.own n (by simpa [leafT] using hn)
    exact ⟨this.2, this.1⟩
  | inner _ _ _ ihl ihr =>
    simp at hn
    rcases hn with hn | hn
    · have := ihl hn
      exact ⟨(List.prefix_append _ _).trans this.1, this.2⟩
    · have := ihr hn
      exact ⟨(List.prefix_append _ _).trans this.1, this.2⟩

theorem snoc_prefix_ne {q s : Bits} (h0 : q ++ [false] <+: s) (h1 : q ++ [true] <+: s) : False := by
  obtain ⟨r0, rfl⟩ := h0
  obtain ⟨r1, h⟩ := h1
  simp at h

theorem WF.nodup_ids {q : Bits} {t : Trie Bucket} (h : WF m w me q t) : ((nodesOf t).map (·.id)).Nodup := by
  induction h with
  | leaf hb => simpa [leafT] using hb.nodup
  | inner hme hl hr ihl ihr =>
    simp only [nodesOf_inner, map_append]
    refine List.nodup_append.mpr ⟨ihl, ihr, ?_⟩
    intro a ha b hb hab
    simp at ha hb
    obtain ⟨x, hx, rfl⟩ := ha
    obtain ⟨y, hy, rfl⟩ := hb
    have h0 := (hl.own_under hx).1
    have h1 := (hr.own_under hy).1
    rw [← hab] at h1
    exact snoc_prefix_ne h0 h1

/-- a stored node whose identifier extends `q ++ s` lives in the subtree at `s` -/
theorem WF.under {q s : Bits} {t : Trie Bucket} (h : WF m w me q t) (hs : WF m w me (q ++ s) (t.find s))
    {x : Node} (hx : x ∈ nodesOf t) (hp : q ++ s <+: x.id) : x ∈ nodesOf (t.find s) := by
  induction s generalizing q t with
  | nil => simpa using hx
  | cons c s ih =>
    cases h with
    | leaf hb => simp at hs; exact absurd rfl hs.ne_nil
    | inner hme hl hr =>
      rename_i l r
      have hqc : (q ++ [c]) <+: x.id := by
        refine List.IsPrefix.trans ?_ hp
        exact ⟨s, by simp⟩
      simp at hx
      have hch : x ∈ nodesOf ((Trie.node none l r).child c) := by
        rcases hx with hx | hx
        · cases c
          · simpa [Trie.child] using hx
          · exact absurd (snoc_prefix_ne (hl.own_under hx).1 hqc) id
        · cases c
          · exact absurd (snoc_prefix_ne hqc (hr.own_under hx).1) id
          · simpa [Trie.child] using hx
      have := ih ((WF.inner hme hl hr).child c) (by simpa using hs) hch (by simpa using hp)
      simpa using this

theorem mem_nodesOf_find {t : Trie Bucket} {s : Bits} {x : Node} (h : x ∈ nodesOf (t.find s)) : x ∈ nodesOf t := by
  simp only [nodesOf, mem_flatMap] at h ⊢
  obtain ⟨b, hb, hx⟩ := h
  exact ⟨b, Trie.mem_values_find hb, hx⟩

/-! ## the candidate walk -/

theorem level_eq (t : Trie Bucket) (excl : Option Bits) (q : Bits) :
    RT.level t excl q = (nodesOf (t.find q)).filter (RT.live excl) := by
  simp [RT.level, bucketsUnder_eq, nodesOf, List.filter_flatMap]

theorem union_nodup {acc new : List Node} (ha : acc.Nodup) (hn : new.Nodup) : (RT.union acc new).Nodup := by
  unfold RT.union
  refine List.nodup_append.mpr ⟨ha, hn.sublist List.filter_sublist, ?_⟩
  intro a haa b hb hab
  simp at hb
  subst hab
  exact hb.2 haa

theorem mem_union {acc new : List Node} {x : Node} : x ∈ RT.union acc new ↔ x ∈ acc ∨ x ∈ new := by
  unfold RT.union
  simp only [mem_append, mem_filter]
  constructor
  · rintro (h | h)
    · exact Or.inl h
    · exact Or.inr h.1
  · rintro (h | h)
    · exact Or.inl h
    · by_cases hx : x ∈ acc
      · exact Or.inl hx
      · exact Or.inr ⟨h, by simpa using hx⟩

theorem brk_le {strict : Bool} {len k : Nat} (h : RT.brk strict len k = true) : k ≤ len := by
  unfold RT.brk at h
  cases strict <;> simp at h <;> omega

/-- the walk ends with exactly the members of one level `j`, which is level 0 or holds at least `k` nodes -/
theorem walk_spec (strict : Bool) (t : Trie Bucket) (excl : Option Bits) (p : Bits) (k : Nat)
    (hnd : ∀ j, (RT.level t excl (p.take j)).Nodup)
    (hsub : ∀ j, ∀ x ∈ RT.level t excl (p.take (j + 1)), x ∈ RT.level t excl (p.take j)) :
    ∀ (i : Nat) (acc : List Node), acc.Nodup → (∀ x ∈ acc, x ∈ RT.level t excl (p.take i)) →
      ∃ j, (RT.walk strict t excl p k i acc).Nodup ∧
        (∀ x, x ∈ RT.walk strict t excl p k i acc ↔ x ∈ RT.level t excl (p.take j)) ∧
        (j = 0 ∨ k ≤ (RT.walk strict t excl p k i acc).length) := by
  intro i
  induction i with
  | zero =>
    intro acc ha hacc
    have hw0 : RT.walk strict t excl p k 0 acc = RT.union acc (RT.level t excl (p.take 0)) := by
      simp [RT.walk, Gen.closestWalkFromRoot]
    rw [hw0]
    refine ⟨0, union_nodup ha (hnd 0), ?_, Or.inl rfl⟩
    intro x
    simp only [mem_union]
    constructor
    · rintro (h | h)
      · exact hacc x h
      · exact h
    · exact Or.inr
  | succ i ih =>
    intro acc ha hacc
    simp only [RT.walk]
    have hmem : ∀ x, x ∈ RT.union acc (RT.level t excl (p.take (i + 1))) ↔ x ∈ RT.level t excl (p.take (i + 1)) := by
      intro x
      rw [mem_union]
      constructor
      · rintro (h | h)
        · exact hacc x h
        · exact h
      · exact Or.inr
    have hnd' := union_nodup ha (hnd (i + 1))
    split
    · rename_i hb
      exact ⟨i + 1, hnd', hmem, Or.inr (brk_le hb)⟩
    · exact ih _ hnd' (fun x hx => hsub i x ((hmem x).mp hx))

/-! ## sorting by distance -/

/-- strictly sorted lists with the same elements are equal -/
theorem eq_of_perm_of_strict {α : Type} (key : α → Nat) : ∀ {l₁ l₂ : List α}, l₁ ~ l₂ →
    l₁.Pairwise (fun a b => key a < key b) → l₂.Pairwise (fun a b => key a < key b) → l₁ = l₂
  | [], l₂, hp, _, _ => by simpa using hp.symm.eq_nil
  | a :: l₁, [], hp, _, _ => by simpa using hp.eq_nil
  | a :: l₁, b :: l₂, hp, h1, h2 => by
    have h1' := List.pairwise_cons.mp h1
    have h2' := List.pairwise_cons.mp h2
    have hab : a = b := by
      have ha : a ∈ b :: l₂ := hp.mem_iff.mp (by simp)
      have hb : b ∈ a :: l₁ := hp.mem_iff.mpr (by simp)
      simp at ha hb
      rcases ha with ha | ha
      · exact ha
      · rcases hb with hb | hb
        · exact hb.symm
        · have := h1'.1 b hb
          have := h2'.1 a ha
          omega
    subst hab
    rw [eq_of_perm_of_strict key hp.cons_inv h1'.2 h2'.2]

theorem closer_trans (t : Bits) : ∀ (a b c : Node), RT.closer t a b = true → RT.closer t b c = true → RT.closer t a c = true := by
  intro a b c h1 h2
  simp [RT.closer, Gen.closestSortDistanceFirst] at *
  omega

theorem closer_total (t : Bits) : ∀ (a b : Node), (RT.closer t a b || RT.closer t b a) = true := by
  intro a b
  simp [RT.closer, Gen.closestSortDistanceFirst]
  omega

/-- sorting a duplicate-free list with injective keys gives a strictly increasing list -/
theorem sort_strict (t : Bits) (l : List Node) (hnd : l.Nodup)
    (hinj : ∀ a ∈ l, ∀ b ∈ l, dist a.id t = dist b.id t → a = b) :
    (l.mergeSort (RT.closer t)).Pairwise (fun a b => dist a.id t < dist b.id t) := by
  have hs := List.pairwise_mergeSort (closer_trans t) (closer_total t) l
  have hn : (l.mergeSort (RT.closer t)).Nodup := (List.mergeSort_perm l _).nodup_iff.mpr hnd
  have := hs.and (List.nodup_iff_pairwise_ne.mp hn)
  refine this.imp_of_mem ?_
  intro a b ha hb hab
  have ha' : a ∈ l := List.mem_mergeSort.mp ha
  have hb' : b ∈ l := List.mem_mergeSort.mp hb
  have hle : dist a.id t ≤ dist b.id t := by simpa [RT.closer, Gen.closestSortDistanceFirst] using hab.1
  have hne : dist a.id t ≠ dist b.id t := fun he => hab.2 (hinj a ha' b hb' he)
  omega

/-- the `k` nearest of `A` are the `k` nearest of any subset `S` that is closed under "nearer" and is either
    everything or has at least `k` elements -/
theorem take_sort_subset (t : Bits) (k : Nat) (A S : List Node) (hA : A.Nodup) (hS : S.Nodup)
    (hinj : ∀ a ∈ A, ∀ b ∈ A, dist a.id t = dist b.id t → a = b)
    (hSA : ∀ x ∈ S, x ∈ A)
    (hsep : ∀ a ∈ S, ∀ b ∈ A, b ∉ S → dist a.id t < dist b.id t)
    (hbig : (∀ x ∈ A, x ∈ S) ∨ k ≤ S.length) :
    (A.mergeSort (RT.closer t)).take k = (S.mergeSort (RT.closer t)).take k := by
  let inS : Node → Bool := fun x => decide (x ∈ S)
  have hperm : A.filter inS ~ S := by
    refine (List.perm_ext_iff_of_nodup (hA.sublist List.filter_sublist) hS).mpr ?_
    intro x
    simp only [mem_filter, inS, decide_eq_true_eq]
    exact ⟨fun h => h.2, fun h => ⟨hSA x h, h⟩⟩
  have hinjS : ∀ a ∈ S, ∀ b ∈ S, dist a.id t = dist b.id t → a = b :=
    fun a ha b hb => hinj a (hSA a ha) b (hSA b hb)
  have hsortS := sort_strict t S hS hinjS
  -- sort (A.filter inS) = sort S
  have h1 : (A.filter inS).mergeSort (RT.closer t) = S.mergeSort (RT.closer t) := by
    apply eq_of_perm_of_strict (fun n => dist n.id t)
    · exact ((List.mergeSort_perm _ _).trans hperm).trans (List.mergeSort_perm _ _).symm
    · exact sort_strict t _ (hA.sublist List.filter_sublist)
        (fun a ha b hb => hinj a (List.mem_filter.mp ha).1 b (List.mem_filter.mp hb).1)
    · exact hsortS
  -- sort A = sort (A.filter inS) ++ sort (A.filter ¬inS)
  have hrest := sort_strict t (A.filter (fun x => !inS x)) (hA.sublist List.filter_sublist)
    (fun a ha b hb => hinj a (List.mem_filter.mp ha).1 b (List.mem_filter.mp hb).1)
  have h2 : A.mergeSort (RT.closer t)
      = (A.filter inS).mergeSort (RT.closer t) ++ (A.filter (fun x => !inS x)).mergeSort (RT.closer t) := by
    apply eq_of_perm_of_strict (fun n => dist n.id t)
    · refine (List.mergeSort_perm _ _).trans ?_
      refine (List.filter_append_perm inS A).symm.trans ?_
      exact List.Perm.append (List.mergeSort_perm _ _).symm (List.mergeSort_perm _ _).symm
    · exact sort_strict t A hA hinj
    · rw [h1]
      refine List.pairwise_append.mpr ⟨hsortS, hrest, ?_⟩
      intro a ha b hb
      have ha' : a ∈ S := List.mem_mergeSort.mp ha
      have hb' := List.mem_filter.mp (List.mem_mergeSort.mp hb)
      exact hsep a ha' b hb'.1 (by simpa [inS] using hb'.2)
  rw [h2, h1]
  rcases hbig with hall | hk
  · have : A.filter (fun x => !inS x) = [] := by
      apply List.filter_eq_nil_iff.mpr
      intro x hx
      simp [inS, hall x hx]
    rw [this]; simp
  · exact List.take_append_of_le_length (by simpa using hk)

/-! ## assembling: closest_nodes on a well-formed table -/

theorem inj_of_nodup_map {α β : Type} (f : α → β) : ∀ {l : List α}, (l.map f).Nodup →
    ∀ a ∈ l, ∀ b ∈ l, f a = f b → a = b
  | [], _, a, ha, _, _, _ => by simp at ha
  | x :: l, h, a, ha, b, hb, hab => by
    simp only [map_cons, nodup_cons, mem_map, not_exists, not_and] at h
    simp only [mem_cons] at ha hb
    rcases ha with rfl | ha <;> rcases hb with rfl | hb
    · rfl
    · exact absurd hab.symm (h.1 b hb)
    · exact absurd hab (h.1 a ha)
    · exact inj_of_nodup_map f h.2 a ha b hb hab

theorem nodup_of_nodup_map {α β : Type} (f : α → β) {l : List α} (h : (l.map f).Nodup) : l.Nodup := by
  induction l with
  | nil => simp
  | cons x l ih =>
    simp only [map_cons, nodup_cons, mem_map, not_exists, not_and] at h ⊢
    exact ⟨fun hx => h.1 x hx rfl, ih h.2⟩

/-- the live nodes of the whole table -/
def liveAll (rt : RT) (excl : Option Bits) : List Node := rt.allNodes.filter (RT.live excl)

theorem closest_wf (rt : RT) (hwf : WF m w rt.me [] rt.trie) (target : Bits) (ht : target.length = w) (k : Nat)
    (excl : Option Bits) :
    rt.closest target k excl = ((liveAll rt excl).mergeSort (RT.closer target)).take k := by
  obtain ⟨p, b, hg, hpt, hfind⟩ := hwf.getBucket (s := target) (by simpa using ht)
  -- the prefix used by closest_nodes is the key of the target's bucket
  have hp : rt.closestPrefix target = p := by
    unfold getBucketT at hg
    unfold RT.closestPrefix
    cases hl : rt.trie.lpi (fun _ => true) target with
    | some pb =>
      obtain ⟨p', b'⟩ := pb
      simp [hl] at hg
      simp [hg.1]
    | none =>
      simp [hl] at hg
      simp [hg.2]
  unfold RT.closest
  rw [hp]
  generalize hW : RT.walk Gen.closestBreakStrict rt.trie excl p k p.length [] = W
  have hwfj : ∀ j, WF m w rt.me (p.take j) (rt.trie.find (p.take j)) := by
    intro j; simpa using hwf.find_wf hfind j
  have hndj : ∀ j, (RT.level rt.trie excl (p.take j)).Nodup := by
    intro j
    rw [level_eq]
    exact (nodup_of_nodup_map _ (hwfj j).nodup_ids).sublist List.filter_sublist
  have hsubj : ∀ j, ∀ x ∈ RT.level rt.trie excl (p.take (j + 1)), x ∈ RT.level rt.trie excl (p.take j) := by
    intro j x hx
    rw [level_eq] at hx ⊢
    rw [List.take_add_one, Trie.find_append] at hx
    have hx' := List.mem_filter.mp hx
    exact List.mem_filter.mpr ⟨mem_nodesOf_find hx'.1, hx'.2⟩
  obtain ⟨j, hWnd, hWmem, hWbig⟩ := walk_spec Gen.closestBreakStrict rt.trie excl p k hndj hsubj p.length []
    (by simp) (by simp)
  rw [hW] at hWnd hWmem hWbig
  have hAnd : (liveAll rt excl).Nodup :=
    (nodup_of_nodup_map _ hwf.nodup_ids).sublist List.filter_sublist
  have hlen : ∀ a ∈ liveAll rt excl, a.id.length = target.length := by
    intro a ha
    have := (hwf.own_under (List.mem_filter.mp ha).1).2
    omega
  have hinj : ∀ a ∈ liveAll rt excl, ∀ b ∈ liveAll rt excl, dist a.id target = dist b.id target → a = b := by
    intro a ha c hc hd
    have hid := dist_inj a.id c.id target (hlen a ha) (hlen c hc) hd
    exact inj_of_nodup_map (·.id) hwf.nodup_ids a (List.mem_filter.mp ha).1 c (List.mem_filter.mp hc).1 hid
  have hSA : ∀ x ∈ W, x ∈ liveAll rt excl := by
    intro x hx
    have := (hWmem x).mp hx
    rw [level_eq] at this
    have h' := List.mem_filter.mp this
    exact List.mem_filter.mpr ⟨mem_nodesOf_find h'.1, h'.2⟩
  have hsep : ∀ a ∈ W, ∀ c ∈ liveAll rt excl, c ∉ W → dist a.id target < dist c.id target := by
    intro a ha c hc hcW
    have ha' := (hWmem a).mp ha
    rw [level_eq] at ha'
    have hapre := ((hwfj j).own_under (List.mem_filter.mp ha').1).1
    have hc' := List.mem_filter.mp hc
    have hcpre : ¬ p.take j <+: c.id := by
      intro hpre
      apply hcW
      apply (hWmem c).mpr
      rw [level_eq]
      refine List.mem_filter.mpr ⟨?_, hc'.2⟩
      exact hwf.under (s := p.take j) (by simpa using hwfj j) hc'.1 (by simpa using hpre)
    exact dist_sep (p.take j) a.id c.id target (hlen a (hSA a ha)) (hlen c hc)
      ((List.take_prefix j p).trans hpt) hapre hcpre
  have hbig : (∀ x ∈ liveAll rt excl, x ∈ W) ∨ k ≤ W.length := by
    rcases hWbig with rfl | hk
    · left
      intro x hx
      apply (hWmem x).mpr
      rw [level_eq]
      simpa [liveAll, allNodes_eq] using hx
    · exact Or.inr hk
  exact (take_sort_subset target k (liveAll rt excl) W hAnd hWnd hinj hSA hsep hbig).symm

theorem find_of_nodup_ids : ∀ {l : List Node} {n : Node}, (l.map (·.id)).Nodup → n ∈ l →
    l.find? (fun x => x.id == n.id) = some n
  | [], _, _, h => by simp at h
  | x :: l, n, hnd, h => by
    simp only [map_cons, nodup_cons, mem_map, not_exists, not_and] at hnd
    simp only [mem_cons] at h
    rcases h with rfl | h
    · simp
    · have hne : ¬ x.id = n.id := fun he => hnd.1 n h he.symm
      have hb : (x.id == n.id) = false := by simpa using hne
      rw [List.find?_cons, hb]
      exact find_of_nodup_ids hnd.2 h

/-! ## generate_id: the formatting pipeline -/

theorem natToBits_add_mul (len c x : Nat) : natToBits len (2 ^ len * c + x) = natToBits len x := by
  induction len generalizing c with
  | zero => rfl
  | succ k ih =>
    simp only [natToBits]
    have h1 : 2 ^ (k + 1) * c + x = 2 ^ k * (2 * c) + x := by rw [Nat.pow_succ, Nat.mul_assoc]
    rw [h1, ih (2 * c)]
    have hpos : 0 < 2 ^ k := Nat.pow_pos (by decide)
    rw [Nat.mul_add_div hpos]
    have : (2 * c + x / 2 ^ k) % 2 = (x / 2 ^ k) % 2 := by omega
    rw [this]

theorem natToBits_bitsToNat (l : Bits) : natToBits l.length (bitsToNat l) = l := by
  induction l with
  | nil => rfl
  | cons b l ih =>
    have hlt := bitsToNat_lt l
    have hpos : 0 < 2 ^ l.length := Nat.pow_pos (by decide)
    simp only [List.length_cons, natToBits, bitsToNat]
    cases b
    · simp only [Bool.false_eq_true, if_false, Nat.zero_add]
      rw [Nat.div_eq_of_lt hlt, ih]; simp
    · simp only [if_true]
      have h1 : 2 ^ l.length + bitsToNat l = 2 ^ l.length * 1 + bitsToNat l := by omega
      rw [h1, natToBits_add_mul, ih, Nat.mul_add_div hpos, Nat.div_eq_of_lt hlt]
      simp

theorem sizeAux_le (f : Nat) : ∀ (r n : Nat), r < 2 ^ n → sizeAux f r ≤ n := by
  induction f with
  | zero => intro r n _; simp [sizeAux]
  | succ f ih =>
    intro r n h
    simp only [sizeAux]
    split
    · omega
    · rename_i hr
      cases n with
      | zero => simp at h; omega
      | succ n =>
        have : r / 2 < 2 ^ n := by
          rw [Nat.pow_succ] at h
          omega
        have := ih (r / 2) n this
        omega

theorem bitSize_le {r n : Nat} (h : r < 2 ^ n) : bitSize r ≤ n := sizeAux_le r r n h

theorem formatBin_eq {n r : Nat} (hn : 1 ≤ n) (h : r < 2 ^ n) : formatBin n r = natToBits n r := by
  unfold formatBin
  have := bitSize_le h
  have : max n (max 1 (bitSize r)) = n := by omega
  rw [this]

theorem hexBytes_eq {w v : Nat} (hw : w % 8 = 0) (h : v < 2 ^ w) : hexBytes w v = some (natToBits w v) := by
  unfold hexBytes
  have := bitSize_le h
  have hd : max (w / 4) ((bitSize v + 3) / 4) = w / 4 := by omega
  simp only [hd]
  have he : ¬ (w / 4 % 2 = 1) := by omega
  have h4 : 4 * (w / 4) = w := by omega
  rw [if_neg he, h4]

/-- what the code computes when the random source keeps its promise `r < 2^n` -/
theorem generateId_eq {w : Nat} (b : Bucket) (r : Nat) (hw : w % 8 = 0) (hp : b.pfx.length ≤ w)
    (hr : r < 2 ^ (w - b.pfx.length)) :
    b.generateId w r = some (b.pfx ++ natToBits (w - b.pfx.length) r) := by
  unfold Bucket.generateId
  have hsuf : (if w - b.pfx.length = 0 then [] else formatBin (w - b.pfx.length) r) = natToBits (w - b.pfx.length) r := by
    by_cases h0 : w - b.pfx.length = 0
    · simp [h0, natToBits]
    · rw [if_neg h0, formatBin_eq (by omega) hr]
  simp only [hsuf]
  have hlen : (b.pfx ++ natToBits (w - b.pfx.length) r).length = w := by
    simp [natToBits_length]; omega
  have hv := bitsToNat_lt (b.pfx ++ natToBits (w - b.pfx.length) r)
  rw [hlen] at hv
  rw [hexBytes_eq hw hv]
  have := natToBits_bitsToNat (b.pfx ++ natToBits (w - b.pfx.length) r)
  rw [hlen] at this
  rw [this]

end Ipv8.C14
