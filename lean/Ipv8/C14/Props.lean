/-
  C14 — property theorems: the DHT routing table stays a valid Kademlia tree.
  Every `theorem` in this file is an obligation of the check; helper lemmas live in Lemmas.lean.

  Setting.  `m` = bucket capacity (any `m ≥ 1`; the code's MAX_BUCKET_SIZE is the generated `Gen.maxBucketSize`),
  `w` = identifier width (any; the code's is the generated `Gen.idWidth`), `me` = the own identifier (any bit list),
  `ops` = ANY finite history of `Op.add n` (insertion or update, with arbitrary identifier of width `w`, status, rtt,
  address), `Op.removeBad`, `Op.setNode id failed recent rtt` (the environment changing the failure count / rtt of a stored
  node).  `run (RT.init me m) ops` is the table after the history.  No bound on the number of nodes or steps.
-/
import Ipv8.C14.Closest

namespace Ipv8.C14
open List

variable {m w : Nat}

/-- the histories the theorems quantify over: every added identifier has the table's width -/
def ValidHistory (w : Nat) (ops : List Op) : Prop := ∀ op ∈ ops, op.valid w

/-- Buckets partition the identifier space, part 1 (prefix-free): no bucket key is a proper prefix of another. -/
theorem partition_prefix_free (hm : 1 ≤ m) (me : Bits) (ops : List Op) (hv : ValidHistory w ops)
    (k k' : Bits) (hk : k ∈ (run (RT.init me m) ops).trie.keys) (hk' : k' ∈ (run (RT.init me m) ops).trie.keys)
    (hp : k <+: k') : k = k' := by
  have hwf := (run_inv hm me ops hv).1
  obtain ⟨b, hb⟩ := hwf.keys_leaf hk
  obtain ⟨b', hb'⟩ := hwf.keys_leaf hk'
  exact hwf.leaf_unique hb hb' hp (List.prefix_refl k')

/-- Buckets partition the identifier space, part 2 (complete): every identifier of width `w` is owned by a bucket key,
    and that is the bucket `get_bucket` returns. -/
theorem partition_complete (hm : 1 ≤ m) (me : Bits) (ops : List Op) (hv : ValidHistory w ops)
    (id : Bits) (hid : id.length = w) :
    ∃ k b, (run (RT.init me m) ops).getBucket id = some (k, b) ∧ k ∈ (run (RT.init me m) ops).trie.keys ∧ k <+: id ∧
      (run (RT.init me m) ops).trie.get k = some b ∧ b.pfx = k := by
  have hwf := (run_inv hm me ops hv).1
  obtain ⟨p, b, hg, hp, hf⟩ := hwf.getBucket (s := id) (by simpa using hid)
  have hb : BucketOK m w p b := by simpa using hwf.find_leaf hf
  exact ⟨p, b, hg, (Trie.mem_keys_iff _ _).mpr ⟨b, leaf_get hf⟩, hp, leaf_get hf, hb.pfx⟩

/-- Every node sits in the bucket that owns its identifier: a node stored under key `k` has `k` as a prefix of its
    identifier, has width `w`, and `get_bucket(node.id)` returns exactly that bucket. -/
theorem node_in_owner (hm : 1 ≤ m) (me : Bits) (ops : List Op) (hv : ValidHistory w ops)
    (k : Bits) (b : Bucket) (hb : (run (RT.init me m) ops).trie.get k = some b) (n : Node) (hn : n ∈ b.nodes) :
    k <+: n.id ∧ n.id.length = w ∧ b.owns n.id = true ∧ (run (RT.init me m) ops).getBucket n.id = some (k, b) := by
  have hwf := (run_inv hm me ops hv).1
  have hf := hwf.get_leaf hb
  have hok : BucketOK m w k b := by simpa using hwf.find_leaf hf
  obtain ⟨hlen, hpre⟩ := hok.own n hn
  obtain ⟨p, b', hg, hp, hf'⟩ := hwf.getBucket (s := n.id) (by simpa using hlen)
  have hpk : p = k := hwf.leaf_unique hf' hf hp hpre
  subst hpk
  have hbb : b' = b := by
    have := hf'.symm.trans hf
    simpa [leafT] using this
  subst hbb
  exact ⟨hpre, hlen, (owns_iff b' n.id).mpr (by rw [hok.pfx]; exact hpre), hg⟩

/-- No bucket exceeds its capacity: every bucket of every reachable table still carries the capacity `m` the table was
    created with (children inherit it in `split`), holds at most that many nodes, and no identifier twice. -/
theorem capacity (hm : 1 ≤ m) (me : Bits) (ops : List Op) (hv : ValidHistory w ops)
    (k : Bits) (b : Bucket) (hb : (run (RT.init me m) ops).trie.get k = some b) :
    b.cap = m ∧ b.nodes.length ≤ b.cap ∧ (b.nodes.map (·.id)).Nodup := by
  have hwf := (run_inv hm me ops hv).1
  have hok : BucketOK m w k b := by simpa using hwf.find_leaf (hwf.get_leaf hb)
  exact ⟨hok.capEq, by rw [hok.capEq]; exact hok.cap, hok.nodup⟩

/-- Only buckets on the path of the own identifier are ever split: every proper prefix of a bucket key (= every bucket
    that was split) is a prefix of the own identifier. -/
theorem split_only_on_own_path (hm : 1 ≤ m) (me : Bits) (ops : List Op) (hv : ValidHistory w ops)
    (k p : Bits) (hk : k ∈ (run (RT.init me m) ops).trie.keys) (hp : p <+: k) (hne : p ≠ k) : p <+: me := by
  have hwf := (run_inv hm me ops hv).1
  obtain ⟨b, hb⟩ := hwf.keys_leaf hk
  simpa using hwf.split_on_path hb hp hne

/-- Lookups agree with membership, direction 1: `RoutingTable.get(id)` of a stored node's id returns that very node
    (the converse is `get_sound`). -/
theorem get_finds_stored (hm : 1 ≤ m) (me : Bits) (ops : List Op) (hv : ValidHistory w ops)
    (k : Bits) (b : Bucket) (hb : (run (RT.init me m) ops).trie.get k = some b) (n : Node) (hn : n ∈ b.nodes) :
    (run (RT.init me m) ops).get n.id = some n := by
  have ho := node_in_owner hm me ops hv k b hb n hn
  have hc := capacity hm me ops hv k b hb
  simp only [RT.get, ho.2.2.2, Bucket.get]
  exact find_of_nodup_ids hc.2.2 hn

/-- `RoutingTable.add` terminates and never lets a KeyError escape: on every reachable table the split-and-retry
    recursion needs at most `w + 1` rounds (the model's fuel is never exhausted). -/
theorem add_terminates (hm : 1 ≤ m) (me : Bits) (ops : List Op) (hv : ValidHistory w ops) (n : Node)
    (hn : n.id.length = w) :
    ((run (RT.init me m) ops).add n).2 ≠ .outOfFuel ∧ ((run (RT.init me m) ops).add n).2 ≠ .keyError := by
  have hinv := run_inv hm me ops hv
  have hwf : WF m w (run (RT.init me m) ops).me [] (run (RT.init me m) ops).trie := by rw [hinv.2]; exact hinv.1
  have := (add_inv hm _ n hn hwf).2.2.1
  constructor <;> intro h <;> rw [h] at this <;> exact this

/-- Identifiers generated to refresh a bucket lie inside that bucket.  `generateId` follows the code step by step
    (`format(r, "0<n>b")` with MINIMUM width, `int(prefix + suffix, 2)`, `format(.., "0<w/4>X")`, `unhexlify`, which fails
    on an odd number of digits); `r` is the value the random source returned.  Hypothesis on the random source, explicit:
    `r < 2^n` for `n = w - |prefix|` (what `random.getrandbits(n)` promises).  Then no exception, width `w`, inside. -/
theorem generated_id_in_bucket (b : Bucket) (r : Nat) (hw : w % 8 = 0) (h : b.pfx.length ≤ w)
    (hr : r < 2 ^ (w - b.pfx.length)) :
    ∃ id, b.generateId w r = some id ∧ b.owns id = true ∧ id.length = w := by
  refine ⟨_, generateId_eq b r hw h hr, ?_, ?_⟩
  · simp [Bucket.owns]
  · simp [natToBits_length]; omega

/-- The hypothesis on the random source, discharged for the code: the translator reads WHICH draw `generate_id` makes and
    with what bounds (`getrandbits(n)`, `randrange(2**n)`, `randint(0, 2**n - 1)`, `randint(0, 2**n)`, one `choice("01")` per
    bit) and generates its exclusive upper bound `Gen.genIdDrawBound n`; this theorem is false for the inclusive
    `randint(0, 2**n)` (seeded change m3).  What remains assumed: python's `random` functions respect their documented ranges. -/
theorem generated_id_draw_in_range (n : Nat) : Gen.genIdDrawBound n ≤ 2 ^ n := by
  simp [Gen.genIdDrawBound]

/-- ... and for every bucket of every reachable table, for every value the code's draw can return. -/
theorem generated_id_in_reachable_bucket (hm : 1 ≤ m) (me : Bits) (ops : List Op) (hv : ValidHistory w ops) (hw : w % 8 = 0)
    (k : Bits) (b : Bucket) (hb : (run (RT.init me m) ops).trie.get k = some b) (r : Nat)
    (hdraw : r < Gen.genIdDrawBound (w - k.length)) :
    ∃ id, b.generateId w r = some id ∧ k <+: id ∧ id.length = w := by
  have hr : r < 2 ^ (w - k.length) := Nat.lt_of_lt_of_le hdraw (generated_id_draw_in_range _)
  have hwf := (run_inv hm me ops hv).1
  have hok : BucketOK m w k b := by simpa using hwf.find_leaf (hwf.get_leaf hb)
  have hlen : b.pfx.length ≤ w := by rw [hok.pfx]; exact hok.depth
  obtain ⟨id, h1, h2, h3⟩ := generated_id_in_bucket (w := w) b r hw hlen (by rw [hok.pfx]; exact hr)
  exact ⟨id, h1, by rw [← hok.pfx]; exact (owns_iff b _).mp h2, h3⟩

/-- The hypothesis on the random source is needed: with the inclusive draw `r = 2^n` (what `randint(0, 2**n)` can return)
    the same pipeline leaves the bucket, or makes `unhexlify` raise (width 8, witnesses). -/
theorem generated_id_overflow_fails :
    (∃ (b : Bucket), b.pfx.length ≤ 8 ∧ ∃ id, b.generateId 8 (2 ^ (8 - b.pfx.length)) = some id ∧ b.owns id = false) ∧
    (∃ (b : Bucket), b.pfx.length ≤ 8 ∧ b.generateId 8 (2 ^ (8 - b.pfx.length)) = none) :=
  ⟨⟨{ pfx := [false, true, true], nodes := [], cap := 8 }, by decide,
      [true, true, true, false, false, false, false, false], by decide, by decide⟩,
   ⟨{ pfx := [true, false, true], nodes := [], cap := 8 }, by decide, by decide⟩⟩

/-- The defect that was repaired (DESIGN.md section 6 item 9), as a theorem about the old definition: the identifier
    the old `generate_id` produced for bucket "1" and draw 0 is outside that bucket. -/
theorem generated_id_old_outside :
    ∃ (b : Bucket) (r : Nat) (id : Bits), b.pfx.length ≤ 8 ∧ b.generateIdOld 8 r = some id ∧ b.owns id = false :=
  ⟨{ pfx := [true], nodes := [], cap := 8 }, 0, [false, false, false, false, false, false, false, false],
    by decide, by decide, by decide⟩

/-- The state the table depends on is not mutated by any operation of a history: the table's own identifier stays the one
    it was created with (the split permission is always evaluated against the same id) ... -/
theorem own_id_fixed (hm : 1 ≤ m) (me : Bits) (ops : List Op) (hv : ValidHistory w ops) :
    (run (RT.init me m) ops).me = me := (run_inv hm me ops hv).2

/-- ... and the only thing the environment can do to a stored node (`setNode`: failure count, contact times, rtt) leaves
    every stored identifier where it is; identifiers enter and leave the table through `add` and the evictions/removals
    only.  (In the code this is an isolation requirement on the callers: the community hands the Network a copy
    `Peer(node.key, node.address)`, never the stored Node object, and fixes `my_node_id` when the table is created; the
    harness checks it on histories of a real DHTCommunity with address changes of peers and of ourselves.) -/
theorem setNode_keeps_ids (rt : RT) (id : Bits) (failed : Nat) (recent : Bool) (rtt : Nat) :
    (rt.setNode id failed recent rtt).allNodes.map (·.id) = rt.allNodes.map (·.id) ∧ (rt.setNode id failed recent rtt).me = rt.me := by
  refine ⟨?_, rfl⟩
  simp only [RT.setNode, RT.allNodes, RT.buckets, Trie.values_mapVals, List.flatMap_map, List.map_flatMap]
  congr 1
  funext b
  exact map_set_ids b.nodes id failed recent rtt

/-- The clause-deciding guards that the translator reads from the source and the model consumes (each theorem named here
    stops building when its guard is false - checked by flipping every flag): the split in `RoutingTable.add` is dominated
    by `owns(self.my_node_id)` (`split_only_on_own_path`, and with it the whole invariant); `Bucket.split` hands its capacity
    to both children (`capacity`); `closest_nodes` filters BAD nodes and the excluded id (`closest_count`), walks down to
    level 0 (`closest_exact`), sorts by distance first (`closest_exact`, `closest_nearest_first`); `node_maintenance`
    generates the refresh id from the group it refreshes (`refresh_targets_inside`); `generate_id`'s draw stays below 2^n
    (`generated_id_draw_in_range`). -/
theorem source_guards_hold :
    Gen.splitGuardOwnId = true ∧ Gen.splitChildrenInheritCap = true ∧ Gen.closestFiltersBad = true ∧
    Gen.closestExcludesById = true ∧ Gen.closestWalkFromRoot = true ∧ Gen.closestSortDistanceFirst = true ∧
    Gen.refreshFromOwnGroup = true := by decide

/-- The theorems above at the constants of the current source (regenerated on every run): capacity ≥ 1, whole bytes;
    and the pinned meaning of "failed multiple queries in a row" that the harness oracle uses too: two. -/
theorem code_constants_admissible :
    1 ≤ Gen.maxBucketSize ∧ Gen.idWidth % 8 = 0 ∧ 0 < Gen.idWidth ∧ Gen.badFailedThreshold = 2 := by decide

/-! Non-vacuity: a concrete history over width 4 and capacity 2 with our own id 1010 that splits twice, evicts a BAD
    node, updates an address and removes bad nodes; the hypotheses of the theorems hold for it and the resulting table
    is what the statements talk about. -/
def exOps : List Op :=
  [.add ⟨[true, false, false, false], 0, true, 1, 1, 0⟩, .add ⟨[true, true, false, false], 1, false, 1, 2, 1⟩,
   .add ⟨[false, true, false, false], 2, true, 1, 3, 2⟩, .add ⟨[true, false, true, true], 0, false, 1, 4, 3⟩,
   .add ⟨[false, false, false, true], 0, true, 1, 5, 4⟩, .add ⟨[false, false, true, true], 1, true, 1, 6, 5⟩,
   .setNode [true, true, false, false] 3 true 7, .add ⟨[true, false, false, false], 0, true, 9, 99, 6⟩, .removeBad]

/-- (non-vacuity) the example history is a valid history of width 4 -/
theorem example_history_valid : ValidHistory 4 exOps := by
  intro op hop
  simp [exOps] at hop
  rcases hop with h | h | h | h | h | h | h | h | h <;> subst h <;> simp [Op.valid]

example : (run (RT.init [true, false, true, false] 2) exOps).trie.keys
    = [[false], [true, false], [true, true]] := by decide

example : ((run (RT.init [true, false, true, false] 2) exOps).allNodes.map (·.tag)) = [4, 5, 0, 3] := by decide

/-- A closest-nodes query returns exactly the `k` live nodes with the smallest XOR distance to the target, nearest
    first: for every reachable table, every target of width `w`, every `k` and every excluded identifier, the result
    equals the first `k` elements of the list of ALL live (not BAD, not excluded) nodes of the table sorted by XOR
    distance.  (Distances of distinct stored identifiers are distinct — `closest_nearest_first` — so this list is
    unique and the secondary sort key `status` of the code never decides anything.) -/
theorem closest_exact (hm : 1 ≤ m) (me : Bits) (ops : List Op) (hv : ValidHistory w ops)
    (target : Bits) (ht : target.length = w) (k : Nat) (excl : Option Bits) :
    (run (RT.init me m) ops).closest target k excl
      = ((liveAll (run (RT.init me m) ops) excl).mergeSort (RT.closer target)).take k := by
  have hinv := run_inv hm me ops hv
  have hwf : WF m w (run (RT.init me m) ops).me [] (run (RT.init me m) ops).trie := by rw [hinv.2]; exact hinv.1
  exact closest_wf _ hwf target ht k excl

/-- ... nearest first, strictly: the result is strictly increasing in XOR distance (hence duplicate-free). -/
theorem closest_nearest_first (hm : 1 ≤ m) (me : Bits) (ops : List Op) (hv : ValidHistory w ops)
    (target : Bits) (ht : target.length = w) (k : Nat) (excl : Option Bits) :
    ((run (RT.init me m) ops).closest target k excl).Pairwise (fun a b => dist a.id target < dist b.id target) := by
  rw [closest_exact hm me ops hv target ht k excl]
  have hinv := run_inv hm me ops hv
  have hwf : WF m w (run (RT.init me m) ops).me [] (run (RT.init me m) ops).trie := by rw [hinv.2]; exact hinv.1
  refine List.Pairwise.sublist (List.take_sublist _ _) ?_
  apply sort_strict
  · exact (nodup_of_nodup_map _ hwf.nodup_ids).sublist List.filter_sublist
  · intro a ha c hc hd
    have hla := (hwf.own_under (List.mem_filter.mp ha).1).2
    have hlc := (hwf.own_under (List.mem_filter.mp hc).1).2
    have hid := dist_inj a.id c.id target (by omega) (by omega) hd
    exact inj_of_nodup_map (·.id) hwf.nodup_ids a (List.mem_filter.mp ha).1 c (List.mem_filter.mp hc).1 hid

/-- ... exactly `k` of them (or all live nodes when there are fewer), all of them live nodes of the table. -/
theorem closest_count (hm : 1 ≤ m) (me : Bits) (ops : List Op) (hv : ValidHistory w ops)
    (target : Bits) (ht : target.length = w) (k : Nat) (excl : Option Bits) :
    ((run (RT.init me m) ops).closest target k excl).length = min k (liveAll (run (RT.init me m) ops) excl).length ∧
    ∀ x ∈ (run (RT.init me m) ops).closest target k excl,
      x ∈ (run (RT.init me m) ops).allNodes ∧ x.bad = false ∧ excl ≠ some x.id := by
  rw [closest_exact hm me ops hv target ht k excl]
  refine ⟨by simp, ?_⟩
  intro x hx
  have := List.mem_mergeSort.mp (List.mem_of_mem_take hx)
  have h' := List.mem_filter.mp this
  refine ⟨h'.1, ?_⟩
  simpa [RT.live, Gen.closestFiltersBad, Gen.closestExcludesById] using h'.2

/-- ... and nothing nearer was left out: every live node that is not returned is farther from the target than every
    returned node. -/
theorem closest_minimal (hm : 1 ≤ m) (me : Bits) (ops : List Op) (hv : ValidHistory w ops)
    (target : Bits) (ht : target.length = w) (k : Nat) (excl : Option Bits)
    (x : Node) (hx : x ∈ liveAll (run (RT.init me m) ops) excl)
    (hnot : x ∉ (run (RT.init me m) ops).closest target k excl)
    (y : Node) (hy : y ∈ (run (RT.init me m) ops).closest target k excl) :
    dist y.id target < dist x.id target := by
  rw [closest_exact hm me ops hv target ht k excl] at hnot hy
  have hinv := run_inv hm me ops hv
  have hwf : WF m w (run (RT.init me m) ops).me [] (run (RT.init me m) ops).trie := by rw [hinv.2]; exact hinv.1
  have hs : ((liveAll (run (RT.init me m) ops) excl).mergeSort (RT.closer target)).Pairwise
      (fun a b => dist a.id target < dist b.id target) := by
    apply sort_strict
    · exact (nodup_of_nodup_map _ hwf.nodup_ids).sublist List.filter_sublist
    · intro a ha c hc hd
      have hla := (hwf.own_under (List.mem_filter.mp ha).1).2
      have hlc := (hwf.own_under (List.mem_filter.mp hc).1).2
      have hid := dist_inj a.id c.id target (by omega) (by omega) hd
      exact inj_of_nodup_map (·.id) hwf.nodup_ids a (List.mem_filter.mp ha).1 c (List.mem_filter.mp hc).1 hid
  rw [← List.take_append_drop k ((liveAll (run (RT.init me m) ops) excl).mergeSort (RT.closer target))] at hs
  have hxs : x ∈ (liveAll (run (RT.init me m) ops) excl).mergeSort (RT.closer target) := List.mem_mergeSort.mpr hx
  rw [← List.take_append_drop k ((liveAll (run (RT.init me m) ops) excl).mergeSort (RT.closer target))] at hxs
  rcases List.mem_append.mp hxs with h | h
  · exact absurd h hnot
  · exact (List.pairwise_append.mp hs).2.2 y hy x h

/-- non-vacuity of the closest theorems: on the example table (4 live nodes) a query with k = 3 returns 3 nodes -/
example : (liveAll (run (RT.init [true, false, true, false] 2) exOps) none).map (·.tag) = [4, 5, 0, 3] := by decide
example : ((run (RT.init [true, false, true, false] 2) exOps).closest [true, false, false, true] 3 none).length = 3 := by
  rw [(closest_count (m := 2) (w := 4) (by decide) _ exOps example_history_valid [true, false, false, true] rfl 3 none).1]
  decide

/-- What "live" means: a node is BAD exactly when it failed `badFailedThreshold` (2 in the code) or more queries in a
    row — whatever its last contact was (`recent`).  `Node.status` evaluates the decision list `Gen.statusRules` that the
    translator reads from the source IN SOURCE ORDER, so this is re-proved against the order of the tests, the status
    codes and the threshold of the current code (a version that lets recent contact outrank the failure count makes
    this theorem false). -/
theorem bad_iff_failed (n : Node) : n.bad = true ↔ Gen.badFailedThreshold ≤ n.failed := by
  unfold Node.bad Node.status
  by_cases h : n.failed ≥ Gen.badFailedThreshold
  · simp [h, Node.statusFrom, Gen.statusRules, Gen.statusDefault, Gen.statusBad]
  · cases hr : n.recent <;>
      simp [h, hr, Node.statusFrom, Gen.statusRules, Gen.statusDefault, Gen.statusBad]

/-- ... hence every node a closest-nodes query returns is below the failure threshold — even one that answered a moment
    ago before failing.  (One direction only; which unfailed nodes are returned is `closest_exact`.) -/
theorem closest_only_unfailed (hm : 1 ≤ m) (me : Bits) (ops : List Op) (hv : ValidHistory w ops)
    (target : Bits) (ht : target.length = w) (k : Nat) (excl : Option Bits) :
    ∀ x ∈ (run (RT.init me m) ops).closest target k excl, x.failed < Gen.badFailedThreshold := by
  intro x hx
  have hb := ((closest_count hm me ops hv target ht k excl).2 x hx).2.1
  have : ¬ Gen.badFailedThreshold ≤ x.failed := fun h => by simp [(bad_iff_failed x).mpr h] at hb
  omega

/-- Lookups agree with membership, direction 2: whatever `RoutingTable.get(id)` returns is a stored node with that id. -/
theorem get_sound (hm : 1 ≤ m) (me : Bits) (ops : List Op) (hv : ValidHistory w ops) (id : Bits) (hid : id.length = w)
    (n : Node) (hg : (run (RT.init me m) ops).get id = some n) :
    n.id = id ∧ ∃ k b, (run (RT.init me m) ops).trie.get k = some b ∧ n ∈ b.nodes := by
  have hwf := (run_inv hm me ops hv).1
  obtain ⟨p, b, hgb, _, hf⟩ := hwf.getBucket (s := id) (by simpa using hid)
  have hgb' : (run (RT.init me m) ops).getBucket id = some (p, b) := hgb
  simp only [RT.get, hgb', Bucket.get] at hg
  exact ⟨by simpa using List.find?_some hg, p, b, leaf_get hf, List.mem_of_find?_eq_some hg⟩

/-- What `add` returns: a returned node carries the added identifier and is stored in the table afterwards. -/
theorem add_stored_is_member (hm : 1 ≤ m) (me : Bits) (ops : List Op) (hv : ValidHistory w ops) (n : Node)
    (hn : n.id.length = w) (x : Node) (hx : ((run (RT.init me m) ops).add n).2 = .stored x) :
    x.id = n.id ∧ ∃ k b, ((run (RT.init me m) ops).add n).1.trie.get k = some b ∧ x ∈ b.nodes := by
  have hinv := run_inv hm me ops hv
  have hwf : WF m w (run (RT.init me m) ops).me [] (run (RT.init me m) ops).trie := by rw [hinv.2]; exact hinv.1
  exact (add_inv hm _ n hn hwf).2.2.2 x hx

/-- `add` is not vacuous: a new identifier whose owning bucket has room IS stored, and `add` returns that very node. -/
theorem add_stores_if_room (hm : 1 ≤ m) (me : Bits) (ops : List Op) (hv : ValidHistory w ops) (n : Node)
    (hn : n.id.length = w) (p : Bits) (b : Bucket) (hg : (run (RT.init me m) ops).getBucket n.id = some (p, b))
    (hroom : b.nodes.length < m) (hfresh : ∀ x ∈ b.nodes, x.id ≠ n.id) :
    ((run (RT.init me m) ops).add n).2 = .stored n := by
  have hwf := (run_inv hm me ops hv).1
  obtain ⟨p', b', hgb, hp, hf⟩ := hwf.getBucket (s := n.id) (by simpa using hn)
  have hgb' : (run (RT.init me m) ops).getBucket n.id = some (p', b') := hgb
  rw [hg] at hgb'
  obtain ⟨rfl, rfl⟩ := Prod.mk.inj (Option.some.inj hgb')
  have hb : BucketOK m w p b := by simpa using hwf.find_leaf hf
  have hown : b.owns n.id = true := (owns_iff b n.id).mpr (by rw [hb.pfx]; exact hp)
  have hadd : b.add n = ({ b with nodes := b.nodes ++ [n] }, true) := by
    have := add_fresh (m := m) hown hfresh hroom
    exact (congrArg (fun c => b.addM c n) hb.capEq).trans this
  have hnd : (((b.nodes ++ [n]).map (·.id))).Nodup := by
    have := (hb.add n hn).nodup
    rw [show b.addM m n = b.add n by simp [Bucket.add, hb.capEq], hadd] at this
    exact this
  have hfind : (b.nodes ++ [n]).find? (fun x => x.id == n.id) = some n := find_of_nodup_ids hnd (by simp)
  simp only [RT.add, RT.addFuel, hg, hadd, if_true, Bucket.get, hfind]

/-- `remove_bad_nodes` removes EXACTLY the BAD nodes and keeps every other node (order preserved), on any table. -/
theorem remove_bad_exact (rt : RT) :
    rt.removeBad.1.allNodes = rt.allNodes.filter (fun x => !x.bad) ∧ rt.removeBad.2 = rt.allNodes.filter (fun x => x.bad) := by
  constructor
  · simp only [RT.removeBad, RT.allNodes, RT.buckets, Trie.values_mapVals, List.flatMap_map, List.filter_flatMap]
  · simp only [RT.removeBad, RT.allNodes, RT.buckets, List.filter_flatMap]

/-- `remove_bad_nodes` leaves no node at or above the failure threshold in the table and returns only such nodes. -/
theorem remove_bad_removes_failed (rt : RT) :
    (∀ x ∈ rt.removeBad.1.allNodes, x.failed < Gen.badFailedThreshold) ∧
    (∀ x ∈ rt.removeBad.2, Gen.badFailedThreshold ≤ x.failed) := by
  constructor
  · intro x hx
    simp only [RT.removeBad, RT.allNodes, RT.buckets, Trie.values_mapVals, List.mem_flatMap, List.mem_map] at hx
    obtain ⟨b, ⟨b0, _, rfl⟩, hx⟩ := hx
    have hb : x.bad = false := by simpa using (List.mem_filter.mp hx).2
    have : ¬ Gen.badFailedThreshold ≤ x.failed := fun h => by simp [(bad_iff_failed x).mpr h] at hb
    omega
  · intro x hx
    simp only [RT.removeBad, List.mem_flatMap] at hx
    obtain ⟨b, _, hx⟩ := hx
    exact (bad_iff_failed x).mp (List.mem_filter.mp hx).2

/-- The periodic refresh (`DHTCommunity.node_maintenance`): on every reachable table, for every choice of stale buckets and
    every value the draws can return, each lookup target of the round lies inside the bucket it refreshes (and has width
    `w`), and the refreshed buckets are exactly the stale ones, each once. -/
theorem refresh_targets_inside (hm : 1 ≤ m) (me : Bits) (ops : List Op) (hv : ValidHistory w ops) (hw : w % 8 = 0)
    (stale : Bits → Bool) (draw : Bits → Nat) (hdraw : ∀ k, draw k < Gen.genIdDrawBound (w - k.length)) :
    (∀ kt ∈ (run (RT.init me m) ops).refresh w stale draw, ∃ id, kt.2 = some id ∧ kt.1 <+: id ∧ id.length = w) ∧
    ((run (RT.init me m) ops).refresh w stale draw).map (·.1) = (run (RT.init me m) ops).trie.keys.filter stale := by
  constructor
  · intro kt hkt
    simp only [RT.refresh, List.mem_filterMap, Option.map_eq_some_iff] at hkt
    obtain ⟨k, _, b, hb, rfl⟩ := hkt
    exact generated_id_in_reachable_bucket hm me ops hv hw k b hb (draw k) (hdraw k)
  · have hall : ∀ k ∈ (run (RT.init me m) ops).trie.keys.filter stale, ∃ b, (run (RT.init me m) ops).trie.get k = some b :=
      fun k hk => (Trie.mem_keys_iff _ k).mp (List.mem_filter.mp hk).1
    unfold RT.refresh
    generalize (run (RT.init me m) ops).trie.keys.filter stale = l at hall
    induction l with
    | nil => rfl
    | cons k l ih =>
      obtain ⟨b, hb⟩ := hall k (by simp)
      simp only [List.filterMap_cons, hb, Option.map_some, List.map_cons]
      rw [ih (fun k' hk' => hall k' (by simp [hk']))]

example : ((run (RT.init [true, false, true, false, true, false, true, false] 2)
      [.add ⟨[true, true, false, false, false, false, false, false], 0, true, 1, 1, 0⟩,
       .add ⟨[false, true, false, false, false, false, false, false], 0, true, 1, 2, 1⟩,
       .add ⟨[true, false, false, false, false, false, false, true], 0, true, 1, 3, 2⟩]).refresh 8
      (fun k => k == [false]) (fun _ => 5)) = [([false], some [false, false, false, false, false, true, false, true])] := by decide

/-! ## theorems instantiated on the example history / concrete values: the history-level hypotheses (`1 ≤ m`, `ValidHistory`,
    widths) are discharged; hypotheses that name a particular bucket / node / key stay universally quantified in these terms.
    Fully closed instances: the `decide` examples. -/
section Examples
abbrev exMe : Bits := [true, false, true, false]
example := partition_prefix_free (m := 2) (w := 4) (by decide) exMe exOps example_history_valid
example := partition_complete (m := 2) (w := 4) (by decide) exMe exOps example_history_valid [false, true, true, true] rfl
example := node_in_owner (m := 2) (w := 4) (by decide) exMe exOps example_history_valid
example := get_finds_stored (m := 2) (w := 4) (by decide) exMe exOps example_history_valid
example := get_sound (m := 2) (w := 4) (by decide) exMe exOps example_history_valid [true, false, false, false] rfl
example := capacity (m := 2) (w := 4) (by decide) exMe exOps example_history_valid
example := split_only_on_own_path (m := 2) (w := 4) (by decide) exMe exOps example_history_valid
example := add_terminates (m := 2) (w := 4) (by decide) exMe exOps example_history_valid ⟨[true, true, true, true], 0, true, 1, 1, 9⟩ rfl
example := add_stored_is_member (m := 2) (w := 4) (by decide) exMe exOps example_history_valid ⟨[true, true, true, true], 0, true, 1, 1, 9⟩ rfl
example : ((run (RT.init exMe 2) exOps).add ⟨[true, true, true, true], 0, true, 1, 1, 9⟩).2
    = .stored ⟨[true, true, true, true], 0, true, 1, 1, 9⟩ := by decide
example := closest_exact (m := 2) (w := 4) (by decide) exMe exOps example_history_valid [true, false, false, true] rfl 3 none
example := closest_nearest_first (m := 2) (w := 4) (by decide) exMe exOps example_history_valid [true, false, false, true] rfl 3 none
example := closest_minimal (m := 2) (w := 4) (by decide) exMe exOps example_history_valid [true, false, false, true] rfl 3 none
example := closest_only_unfailed (m := 2) (w := 4) (by decide) exMe exOps example_history_valid [true, false, false, true] rfl 3 none
example := generated_id_in_bucket (w := 8) { pfx := [true, false, true], nodes := [], cap := 8 } 21 (by decide) (by decide) (by decide)
example : Bucket.generateId 8 { pfx := [true, false, true], nodes := [], cap := 8 } 21
    = some [true, false, true, true, false, true, false, true] := by decide
example : (⟨[], 2, true, 0, 0, 0⟩ : Node).bad = true ∧ (⟨[], 1, false, 0, 0, 0⟩ : Node).bad = false := by decide
example := generated_id_in_reachable_bucket (m := 2) (w := 8) (by decide) [true, false, true, false, true, false, true, false] [] (by intro op h; cases h) (by decide)
  [] { pfx := [], nodes := [], cap := 2 } (by decide) 200 (by decide)
example := add_stores_if_room (m := 2) (w := 4) (by decide) exMe exOps example_history_valid ⟨[true, true, true, true], 0, true, 1, 1, 9⟩ rfl
  [true, true] { pfx := [true, true], nodes := [], cap := 2 } (by decide) (by decide) (by simp)
example := remove_bad_removes_failed (run (RT.init exMe 2) (exOps.take 7))
example := remove_bad_exact (run (RT.init exMe 2) (exOps.take 7))
example : ((run (RT.init exMe 2) (exOps.take 7)).removeBad.2.map (·.tag)) = [1] := by decide
end Examples

end Ipv8.C14
