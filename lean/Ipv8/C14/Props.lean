/-
  C14 — property theorems: the DHT routing table stays a valid Kademlia tree.
  Every `theorem` in this file is an obligation of the check; helper lemmas live in Lemmas.lean.

  Setting.  `m` = bucket capacity (any `m ≥ 1`; the code's MAX_BUCKET_SIZE is the generated `Gen.maxBucketSize`),
  `w` = identifier width (any; the code's is the generated `Gen.idWidth`), `me` = the own identifier (any bit list),
  `ops` = ANY finite history of `Op.add n` (insertion or update, with arbitrary identifier of width `w`, status, rtt,
  address), `Op.removeBad`, `Op.setNode id failed recent rtt` (the environment changing the failure count / rtt of a stored
  node).  `run m (RT.init me) ops` is the table after the history.  No bound on the number of nodes or steps.
-/
import Ipv8.C14.Closest

namespace Ipv8.C14
open List

variable {m w : Nat}

/-- the histories the theorems quantify over: every added identifier has the table's width -/
def ValidHistory (w : Nat) (ops : List Op) : Prop := ∀ op ∈ ops, op.valid w

/-- Buckets partition the identifier space, part 1 (prefix-free): no bucket key is a proper prefix of another. -/
theorem partition_prefix_free (hm : 1 ≤ m) (me : Bits) (ops : List Op) (hv : ValidHistory w ops)
    (k k' : Bits) (hk : k ∈ (run m (RT.init me) ops).trie.keys) (hk' : k' ∈ (run m (RT.init me) ops).trie.keys)
    (hp : k <+: k') : k = k' := by
  have hwf := (run_inv hm me ops hv).1
  obtain ⟨b, hb⟩ := hwf.keys_leaf hk
  obtain ⟨b', hb'⟩ := hwf.keys_leaf hk'
  exact hwf.leaf_unique hb hb' hp (List.prefix_refl k')

/-- Buckets partition the identifier space, part 2 (complete): every identifier of width `w` is owned by a bucket key,
    and that is the bucket `get_bucket` returns. -/
theorem partition_complete (hm : 1 ≤ m) (me : Bits) (ops : List Op) (hv : ValidHistory w ops)
    (id : Bits) (hid : id.length = w) :
    ∃ k b, (run m (RT.init me) ops).getBucket id = some (k, b) ∧ k ∈ (run m (RT.init me) ops).trie.keys ∧ k <+: id ∧
      (run m (RT.init me) ops).trie.get k = some b ∧ b.pfx = k := by
  have hwf := (run_inv hm me ops hv).1
  obtain ⟨p, b, hg, hp, hf⟩ := hwf.getBucket (s := id) (by simpa using hid)
  have hb : BucketOK m w p b := by simpa using hwf.find_leaf hf
  exact ⟨p, b, hg, (Trie.mem_keys_iff _ _).mpr ⟨b, leaf_get hf⟩, hp, leaf_get hf, hb.pfx⟩

/-- Every node sits in the bucket that owns its identifier: a node stored under key `k` has `k` as a prefix of its
    identifier, has width `w`, and `get_bucket(node.id)` returns exactly that bucket. -/
theorem node_in_owner (hm : 1 ≤ m) (me : Bits) (ops : List Op) (hv : ValidHistory w ops)
    (k : Bits) (b : Bucket) (hb : (run m (RT.init me) ops).trie.get k = some b) (n : Node) (hn : n ∈ b.nodes) :
    k <+: n.id ∧ n.id.length = w ∧ b.owns n.id = true ∧ (run m (RT.init me) ops).getBucket n.id = some (k, b) := by
  have hwf := (run_inv hm me ops hv).1
  have hf := hwf.get_leaf hb
  have hok : BucketOK m w k b := by simpa using hwf.find_leaf hf
  obtain ⟨hlen, hpre⟩ := hok.own n hn
  obtain ⟨p, b', hg, hp, hf'⟩ := hwf.getBucket (s := n.id) (by simpa using hlen)
  have hpk : p = k := hwf.leaf_unique hf' hf hp hpre
  subst hpk
  have hbb : b' = b := by
    have := hf'.symm.trans hf
    simpa [leafT] using this
  subst hbb
  exact ⟨hpre, hlen, (owns_iff b' n.id).mpr (by rw [hok.pfx]; exact hpre), hg⟩

/-- No bucket exceeds its capacity, and no identifier is stored twice in a bucket. -/
theorem capacity (hm : 1 ≤ m) (me : Bits) (ops : List Op) (hv : ValidHistory w ops)
    (k : Bits) (b : Bucket) (hb : (run m (RT.init me) ops).trie.get k = some b) :
    b.nodes.length ≤ m ∧ (b.nodes.map (·.id)).Nodup := by
  have hwf := (run_inv hm me ops hv).1
  have hok : BucketOK m w k b := by simpa using hwf.find_leaf (hwf.get_leaf hb)
  exact ⟨hok.cap, hok.nodup⟩

/-- Only buckets on the path of the own identifier are ever split: every proper prefix of a bucket key (= every bucket
    that was split) is a prefix of the own identifier. -/
theorem split_only_on_own_path (hm : 1 ≤ m) (me : Bits) (ops : List Op) (hv : ValidHistory w ops)
    (k p : Bits) (hk : k ∈ (run m (RT.init me) ops).trie.keys) (hp : p <+: k) (hne : p ≠ k) : p <+: me := by
  have hwf := (run_inv hm me ops hv).1
  obtain ⟨b, hb⟩ := hwf.keys_leaf hk
  simpa using hwf.split_on_path hb hp hne

/-- Lookups agree with membership: `RoutingTable.get(id)` of a stored node's id returns that very node, and an id for
    which `get` answers is stored in the bucket `get_bucket` names. -/
theorem get_finds_stored (hm : 1 ≤ m) (me : Bits) (ops : List Op) (hv : ValidHistory w ops)
    (k : Bits) (b : Bucket) (hb : (run m (RT.init me) ops).trie.get k = some b) (n : Node) (hn : n ∈ b.nodes) :
    (run m (RT.init me) ops).get n.id = some n := by
  have ho := node_in_owner hm me ops hv k b hb n hn
  have hc := capacity hm me ops hv k b hb
  simp only [RT.get, ho.2.2.2, Bucket.get]
  exact find_of_nodup_ids hc.2 hn

/-- `RoutingTable.add` terminates and never lets a KeyError escape: on every reachable table the split-and-retry
    recursion needs at most `w + 1` rounds (the model's fuel is never exhausted). -/
theorem add_terminates (hm : 1 ≤ m) (me : Bits) (ops : List Op) (hv : ValidHistory w ops) (n : Node)
    (hn : n.id.length = w) :
    ((run m (RT.init me) ops).add m n).2 ≠ .outOfFuel ∧ ((run m (RT.init me) ops).add m n).2 ≠ .keyError := by
  have hinv := run_inv hm me ops hv
  have hwf : WF m w (run m (RT.init me) ops).me [] (run m (RT.init me) ops).trie := by rw [hinv.2]; exact hinv.1
  have := (add_inv hm _ n hn hwf).2.2
  constructor <;> intro h <;> rw [h] at this <;> exact this

/-- Identifiers generated to refresh a bucket lie inside that bucket, for every outcome `r` of the random draw
    (the code after the repair of `Bucket.generate_id`). -/
theorem generated_id_in_bucket (b : Bucket) (r : Nat) (h : b.pfx.length ≤ w) :
    b.owns (b.generateId w r) = true ∧ (b.generateId w r).length = w := by
  constructor
  · simp [Bucket.owns, Bucket.generateId]
  · simp [Bucket.generateId, natToBits_length]; omega

/-- ... and for every bucket of every reachable table. -/
theorem generated_id_in_reachable_bucket (hm : 1 ≤ m) (me : Bits) (ops : List Op) (hv : ValidHistory w ops)
    (k : Bits) (b : Bucket) (hb : (run m (RT.init me) ops).trie.get k = some b) (r : Nat) :
    k <+: b.generateId w r ∧ (b.generateId w r).length = w := by
  have hwf := (run_inv hm me ops hv).1
  have hok : BucketOK m w k b := by simpa using hwf.find_leaf (hwf.get_leaf hb)
  have hlen : b.pfx.length ≤ w := by rw [hok.pfx]; exact hok.depth
  have := generated_id_in_bucket (w := w) b r hlen
  exact ⟨by rw [← hok.pfx]; exact (owns_iff b _).mp this.1, this.2⟩

/-- The defect that was repaired (DESIGN.md section 6 item 9), as a theorem about the old definition: the identifier
    the old `generate_id` produced for bucket "1" and draw 0 is outside that bucket. -/
theorem generated_id_old_outside :
    ∃ (b : Bucket) (r : Nat), b.pfx.length ≤ 4 ∧ b.owns (b.generateIdOld 4 r) = false :=
  ⟨{ pfx := [true], nodes := [] }, 0, by decide, by decide⟩

/-- The theorems above at the constants of the current source (regenerated on every run): capacity ≥ 1. -/
theorem code_constants_admissible : 1 ≤ Gen.maxBucketSize ∧ Gen.idWidth % 8 = 0 ∧ 0 < Gen.idWidth := by decide

/-! Non-vacuity: a concrete history over width 4 and capacity 2 with our own id 1010 that splits twice, evicts a BAD
    node, updates an address and removes bad nodes; the hypotheses of the theorems hold for it and the resulting table
    is what the statements talk about. -/
def exOps : List Op :=
  [.add ⟨[true, false, false, false], 0, true, 1, 1, 0⟩, .add ⟨[true, true, false, false], 1, false, 1, 2, 1⟩,
   .add ⟨[false, true, false, false], 2, true, 1, 3, 2⟩, .add ⟨[true, false, true, true], 0, false, 1, 4, 3⟩,
   .add ⟨[false, false, false, true], 0, true, 1, 5, 4⟩, .add ⟨[false, false, true, true], 1, true, 1, 6, 5⟩,
   .setNode [true, true, false, false] 3 true 7, .add ⟨[true, false, false, false], 0, true, 9, 99, 6⟩, .removeBad]

/-- (non-vacuity) the example history is a valid history of width 4 -/
theorem example_history_valid : ValidHistory 4 exOps := by
  intro op hop
  simp [exOps] at hop
  rcases hop with h | h | h | h | h | h | h | h | h <;> subst h <;> simp [Op.valid]

example : (run 2 (RT.init [true, false, true, false]) exOps).trie.keys
    = [[false], [true, false], [true, true]] := by decide

example : ((run 2 (RT.init [true, false, true, false]) exOps).allNodes.map (·.tag)) = [4, 5, 0, 3] := by decide

/-- A closest-nodes query returns exactly the `k` live nodes with the smallest XOR distance to the target, nearest
    first: for every reachable table, every target of width `w`, every `k` and every excluded identifier, the result
    equals the first `k` elements of the list of ALL live (not BAD, not excluded) nodes of the table sorted by XOR
    distance.  (Distances of distinct stored identifiers are distinct — `closest_nearest_first` — so this list is
    unique and the secondary sort key `status` of the code never decides anything.) -/
theorem closest_exact (hm : 1 ≤ m) (me : Bits) (ops : List Op) (hv : ValidHistory w ops)
    (target : Bits) (ht : target.length = w) (k : Nat) (excl : Option Bits) :
    (run m (RT.init me) ops).closest target k excl
      = ((liveAll (run m (RT.init me) ops) excl).mergeSort (RT.closer target)).take k := by
  have hinv := run_inv hm me ops hv
  have hwf : WF m w (run m (RT.init me) ops).me [] (run m (RT.init me) ops).trie := by rw [hinv.2]; exact hinv.1
  exact closest_wf _ hwf target ht k excl

/-- ... nearest first, strictly: the result is strictly increasing in XOR distance (hence duplicate-free). -/
theorem closest_nearest_first (hm : 1 ≤ m) (me : Bits) (ops : List Op) (hv : ValidHistory w ops)
    (target : Bits) (ht : target.length = w) (k : Nat) (excl : Option Bits) :
    ((run m (RT.init me) ops).closest target k excl).Pairwise (fun a b => dist a.id target < dist b.id target) := by
  rw [closest_exact hm me ops hv target ht k excl]
  have hinv := run_inv hm me ops hv
  have hwf : WF m w (run m (RT.init me) ops).me [] (run m (RT.init me) ops).trie := by rw [hinv.2]; exact hinv.1
  refine List.Pairwise.sublist (List.take_sublist _ _) ?_
  apply sort_strict
  · exact (nodup_of_nodup_map _ hwf.nodup_ids).sublist List.filter_sublist
  · intro a ha c hc hd
    have hla := (hwf.own_under (List.mem_filter.mp ha).1).2
    have hlc := (hwf.own_under (List.mem_filter.mp hc).1).2
    have hid := dist_inj a.id c.id target (by omega) (by omega) hd
    exact inj_of_nodup_map (·.id) hwf.nodup_ids a (List.mem_filter.mp ha).1 c (List.mem_filter.mp hc).1 hid

/-- ... exactly `k` of them (or all live nodes when there are fewer), all of them live nodes of the table. -/
theorem closest_count (hm : 1 ≤ m) (me : Bits) (ops : List Op) (hv : ValidHistory w ops)
    (target : Bits) (ht : target.length = w) (k : Nat) (excl : Option Bits) :
    ((run m (RT.init me) ops).closest target k excl).length = min k (liveAll (run m (RT.init me) ops) excl).length ∧
    ∀ x ∈ (run m (RT.init me) ops).closest target k excl,
      x ∈ (run m (RT.init me) ops).allNodes ∧ x.bad = false ∧ excl ≠ some x.id := by
  rw [closest_exact hm me ops hv target ht k excl]
  refine ⟨by simp, ?_⟩
  intro x hx
  have := List.mem_mergeSort.mp (List.mem_of_mem_take hx)
  have h' := List.mem_filter.mp this
  refine ⟨h'.1, ?_⟩
  simpa [RT.live] using h'.2

/-- ... and nothing nearer was left out: every live node that is not returned is farther from the target than every
    returned node. -/
theorem closest_minimal (hm : 1 ≤ m) (me : Bits) (ops : List Op) (hv : ValidHistory w ops)
    (target : Bits) (ht : target.length = w) (k : Nat) (excl : Option Bits)
    (x : Node) (hx : x ∈ liveAll (run m (RT.init me) ops) excl)
    (hnot : x ∉ (run m (RT.init me) ops).closest target k excl)
    (y : Node) (hy : y ∈ (run m (RT.init me) ops).closest target k excl) :
    dist y.id target < dist x.id target := by
  rw [closest_exact hm me ops hv target ht k excl] at hnot hy
  have hinv := run_inv hm me ops hv
  have hwf : WF m w (run m (RT.init me) ops).me [] (run m (RT.init me) ops).trie := by rw [hinv.2]; exact hinv.1
  have hs : ((liveAll (run m (RT.init me) ops) excl).mergeSort (RT.closer target)).Pairwise
      (fun a b => dist a.id target < dist b.id target) := by
    apply sort_strict
    · exact (nodup_of_nodup_map _ hwf.nodup_ids).sublist List.filter_sublist
    · intro a ha c hc hd
      have hla := (hwf.own_under (List.mem_filter.mp ha).1).2
      have hlc := (hwf.own_under (List.mem_filter.mp hc).1).2
      have hid := dist_inj a.id c.id target (by omega) (by omega) hd
      exact inj_of_nodup_map (·.id) hwf.nodup_ids a (List.mem_filter.mp ha).1 c (List.mem_filter.mp hc).1 hid
  rw [← List.take_append_drop k ((liveAll (run m (RT.init me) ops) excl).mergeSort (RT.closer target))] at hs
  have hxs : x ∈ (liveAll (run m (RT.init me) ops) excl).mergeSort (RT.closer target) := List.mem_mergeSort.mpr hx
  rw [← List.take_append_drop k ((liveAll (run m (RT.init me) ops) excl).mergeSort (RT.closer target))] at hxs
  rcases List.mem_append.mp hxs with h | h
  · exact absurd h hnot
  · exact (List.pairwise_append.mp hs).2.2 y hy x h

/-- non-vacuity of the closest theorems: on the example table (4 live nodes) a query with k = 3 returns 3 nodes -/
example : (liveAll (run 2 (RT.init [true, false, true, false]) exOps) none).map (·.tag) = [4, 5, 0, 3] := by decide
example : ((run 2 (RT.init [true, false, true, false]) exOps).closest [true, false, false, true] 3 none).length = 3 := by
  rw [(closest_count (m := 2) (w := 4) (by decide) _ exOps example_history_valid [true, false, false, true] rfl 3 none).1]
  decide

/-- What "live" means: a node is BAD exactly when it failed `badFailedThreshold` (2 in the code) or more queries in a
    row — whatever its last contact was (`recent`).  Re-proved against the regenerated status codes and threshold. -/
theorem bad_iff_failed (n : Node) : n.bad = true ↔ Gen.badFailedThreshold ≤ n.failed := by
  unfold Node.bad Node.status
  by_cases h : n.failed ≥ Gen.badFailedThreshold
  · simp [h]
  · have h' : ¬ Gen.badFailedThreshold ≤ n.failed := h
    cases hr : n.recent <;> simp [h, Gen.statusGood, Gen.statusBad, Gen.statusUnknown]

/-- ... hence the nodes a closest-nodes query may return are exactly those below the failure threshold (and not
    excluded), and every returned node is below it — even one that answered a moment ago before failing. -/
theorem closest_only_unfailed (hm : 1 ≤ m) (me : Bits) (ops : List Op) (hv : ValidHistory w ops)
    (target : Bits) (ht : target.length = w) (k : Nat) (excl : Option Bits) :
    ∀ x ∈ (run m (RT.init me) ops).closest target k excl, x.failed < Gen.badFailedThreshold := by
  intro x hx
  have hb := ((closest_count hm me ops hv target ht k excl).2 x hx).2.1
  have : ¬ Gen.badFailedThreshold ≤ x.failed := fun h => by simp [(bad_iff_failed x).mpr h] at hb
  omega

/-- `remove_bad_nodes` leaves no node at or above the failure threshold in the table and returns only such nodes. -/
theorem remove_bad_removes_failed (rt : RT) :
    (∀ x ∈ rt.removeBad.1.allNodes, x.failed < Gen.badFailedThreshold) ∧
    (∀ x ∈ rt.removeBad.2, Gen.badFailedThreshold ≤ x.failed) := by
  constructor
  · intro x hx
    simp only [RT.removeBad, RT.allNodes, RT.buckets, Trie.values_mapVals, List.mem_flatMap, List.mem_map] at hx
    obtain ⟨b, ⟨b0, _, rfl⟩, hx⟩ := hx
    have hb : x.bad = false := by simpa using (List.mem_filter.mp hx).2
    have : ¬ Gen.badFailedThreshold ≤ x.failed := fun h => by simp [(bad_iff_failed x).mpr h] at hb
    omega
  · intro x hx
    simp only [RT.removeBad, List.mem_flatMap] at hx
    obtain ⟨b, _, hx⟩ := hx
    exact (bad_iff_failed x).mp (List.mem_filter.mp hx).2

end Ipv8.C14
