/-
  C05 — helper definitions and lemmas for Props.lean (core Lean only).
-/
import Ipv8.C05.Model

namespace Ipv8.C05

/-- the laws of the AEAD that theorems may assume (always as an explicit argument, never as an axiom) -/
structure AeadLaws {B : Type} (A : Aead B) : Prop where
  dec_enc : ∀ k d b, A.dec k d (A.enc k d b) = some b
  dec_some : ∀ k d c b, A.dec k d c = some b → c = A.enc k d b
  enc_inj : ∀ k d b k' d' b', A.enc k d b = A.enc k' d' b' → k = k' ∧ d = d' ∧ b = b'
  parse_plain : ∀ m, A.parse (A.plain m) = some m

/-- the symbolic instance satisfies the laws: the hypothesis bundle is satisfiable -/
theorem sym_laws : AeadLaws sym where
  dec_enc := by intro k d b; simp [sym]
  dec_some := by
    intro k d c b h
    cases c with
    | mk layers msg =>
      cases layers with
      | nil => simp [sym] at h
      | cons hd tl =>
        obtain ⟨k', d'⟩ := hd
        simp only [sym] at h
        split at h
        · rename_i hk
          obtain ⟨rfl, rfl⟩ := hk
          cases h
          rfl
        · cases h
  parse_plain := by intro m; simp [sym]
  enc_inj := by
    intro k d b k' d' b' h
    cases b; cases b'
    simp [sym] at h
    obtain ⟨⟨⟨h1, h2⟩, h3⟩, h4⟩ := h
    subst h1; subst h2; subst h3; subst h4
    exact ⟨rfl, rfl, rfl⟩

/-! ### what the GENERATED guards (GenGuards.lean, regenerated from community.py / crypto.py on every run) say, in the
    form the proofs use.  Every lemma here is re-proved against the current code: if a guard loses a conjunct, gains a
    disjunct or compares something else, its lemma (and every theorem resting on it) stops compiling. -/

theorem gen_createRefused (a c r e : Bool) :
    (Gen.createRefused true a c r e = true) ↔ (a = true ∨ c = true ∨ r = true ∨ e = true) := by
  cases a <;> cases c <;> cases r <;> cases e <;> simp [Gen.createRefused]

theorem gen_createRecheckRefused (a c r e : Bool) :
    (Gen.createRecheckRefused a c r e = true) ↔ (a = true ∨ c = true ∨ r = true ∨ e = true) := by
  cases a <;> cases c <;> cases r <;> cases e <;> simp [Gen.createRecheckRefused]

theorem gen_joinRefused (a b : Nat) : (Gen.joinRefused a b = true) ↔ maxJoined ≤ a + b := by
  simp [Gen.joinRefused, maxJoined]

theorem gen_relayRefused (p re b : Bool) :
    (Gen.relayRefused p re b = true) ↔ (p = true ∨ (re = true ∧ b = true)) := by
  cases p <;> cases re <;> cases b <;> simp [Gen.relayRefused]

theorem gen_cellRefused (re ext p nc : Bool) :
    (Gen.cellRefused re ext false p nc true = true) ↔ ((re = false ∧ ext = true) ∨ (p = true ∧ nc = false)) := by
  cases re <;> cases ext <;> cases p <;> cases nc <;> simp [Gen.cellRefused]

theorem gen_destroyViaRelay (p : Prop) [Decidable p] : (Gen.destroyViaRelay true (decide p) = true) ↔ p := by
  simp [Gen.destroyViaRelay]

theorem gen_destroyExit (p : Prop) [Decidable p] : (Gen.destroyExit true (decide p) = true) ↔ p := by
  simp [Gen.destroyExit]

theorem gen_destroyCircuit (p : Prop) [Decidable p] : (Gen.destroyCircuit true (decide p) = true) ↔ p := by
  simp [Gen.destroyCircuit]

theorem gen_dataOurs (a b : Bool) : Gen.dataOurs a true b = (a && b) := by
  cases a <;> cases b <;> rfl

theorem gen_exitDataRefuses (en ip : Bool) : (Gen.exitDataRefuses true en ip = true) ↔ (en = false ∧ ip = false) := by
  cases en <;> cases ip <;> simp [Gen.exitDataRefuses]

theorem gen_createdMatches (p q : Prop) [Decidable p] [Decidable q] :
    (Gen.createdMatches (decide p) (decide q) = true) ↔ (p ∧ q) := by
  simp [Gen.createdMatches]

theorem gen_createdRefused (ep sh c r e : Bool) :
    (Gen.createdRefused ep sh c r e = true) ↔ (ep = false ∨ sh = false ∨ c = true ∨ r = true ∨ e = true) := by
  cases ep <;> cases sh <;> cases c <;> cases r <;> cases e <;> simp [Gen.createdRefused]

/-- join_circuit constructs the CreatedRequestCache (which refuses a second one for the id) before it writes the table -/
theorem gen_joinCacheFirst : Gen.joinCacheFirst = true := rfl

/-- the conversion of an exit socket into a relay pair removes the socket with remove_now=True -/
theorem gen_convertRemovesNow : Gen.convertRemovesNow = true := rfl

/-- NO_CRYPTO_PACKETS is exactly {create, created}, and EXTEND is the message the relay_early rule names -/
theorem gen_noCrypto : Gen.noCryptoIds = [Gen.msgIdCreate, Gen.msgIdCreated] ∧ Gen.msgIdExtend = 4 := by decide

/-! ### dict lemmas -/
theorem get_set_self {α : Type} (l : List (Nat × α)) (k : Nat) (v : α) : get (set l k v) k = some v := by
  induction l with
  | nil => simp [set, get]
  | cons p t ih =>
    obtain ⟨k', v'⟩ := p
    by_cases h : k' = k
    · simp [set, get, h]
    · simp [set, get, h, ih]

theorem get_set_other {α : Type} (l : List (Nat × α)) (k j : Nat) (v : α) (h : j ≠ k) :
    get (set l k v) j = get l j := by
  induction l with
  | nil => simp [set, get]; intro h'; exact absurd h'.symm h
  | cons p t ih =>
    obtain ⟨k', v'⟩ := p
    by_cases hk : k' = k
    · subst hk
      have : ¬ k' = j := fun e => h e.symm
      simp [set, get, this]
    · by_cases hj : k' = j
      · subst hj
        simp [set, get, h]
      · simp [set, get, hk, hj, ih]

theorem get_del_self {α : Type} (l : List (Nat × α)) (k : Nat) : get (del l k) k = none := by
  induction l with
  | nil => simp [del, get]
  | cons p t ih =>
    obtain ⟨k', v'⟩ := p
    by_cases h : k' = k
    · simp [del, h, ih]
    · simp [del, get, h, ih]

theorem get_del_other {α : Type} (l : List (Nat × α)) (k j : Nat) (h : j ≠ k) : get (del l k) j = get l j := by
  induction l with
  | nil => simp [del, get]
  | cons p t ih =>
    obtain ⟨k', v'⟩ := p
    by_cases hk : k' = k
    · subst hk
      have hj : ¬ k' = j := fun e => h e.symm
      simp [del, get, hj, ih]
    · by_cases hj : k' = j
      · subst hj
        simp [del, get, hk]
      · simp [del, get, hk, hj, ih]

/-! ### what "a cell without the circuit's keys" means, per table the id is found in -/

/-- the cell names an unknown id, or a known id whose entry's keys do not open it (it is not flagged plaintext) -/
def ForeignCell {B : Type} (A : Aead B) (n : Node) (c : Cell B) : Prop :=
  c.plaintext = false ∧
  match get n.relays c.cid with
  | some nx => nx.dir = .fwd ∧ A.dec nx.hop.key .fwd c.body = none
  | none =>
    match get n.exits c.cid, get n.circuits c.cid with
    | none, none => True
    | some e, _ => A.dec e.hop.key .fwd c.body = none
    | none, some circ => circ.hops = [] ∨ decryptAll A .bwd (circ.hops.map Hop.key) c.body = none

/-- who may destroy the entry named `cid` at node `n` -/
def Adjacent (n : Node) (signer cid : Nat) : Prop :=
  (∃ nx pv, get n.relays cid = some nx ∧ get n.relays nx.next = some pv ∧ pv.hop.peer = signer) ∨
  (∃ e, get n.exits cid = some e ∧ e.hop.peer = signer) ∨
  (∃ c, get n.circuits cid = some c ∧ c.firstHop.map Hop.peer = some signer)

/-- events that a third party can cause without any circuit's keys or a neighbour's signature -/
inductive ForeignEv {B : Type} (A : Aead B) (n : Node) : Ev B → Prop where
  | cell (src : Nat) (c : Cell B) (ch : Choice) : ForeignCell A n c → ForeignEv A n (.cell src c ch)
  | plain (src : Nat) (c : Cell B) (ch : Choice) : c.plaintext = true →
      (∀ m, A.parse c.body = some m → m.noCrypto = false) → ForeignEv A n (.cell src c ch)
  | createInUse (src : Nat) (c : Cell B) (ch : Choice) (ident pk dh : Nat) : c.plaintext = true →
      A.parse c.body = some (.create ident pk dh) → (n.inUse c.cid = true ∨ n.created.contains c.cid = true) →
      ForeignEv A n (.cell src c ch)
  | createdStale (src : Nat) (c : Cell B) (ch : Choice) (ident key authPk dhRef : Nat) : c.plaintext = true →
      A.parse c.body = some (.created ident key authPk dhRef) → popCreate n.creates ident c.cid = none →
      (∀ circ, get n.circuits c.cid = some circ → ¬ (circ.retry ≠ 0 ∧ circ.retry = ident)) →
      ForeignEv A n (.cell src c ch)
  | destroy (signer cid : Nat) (ok : Bool) (reason : Nat) : ¬ (ok = true ∧ Adjacent n signer cid) →
      ForeignEv A n (.destroy signer cid ok reason)

end Ipv8.C05

namespace Ipv8.C05

/-- outputs that are deliveries (to the outside world at an exit, or to the application at an originator) -/
def Out.isLog {B : Type} : Out B → Bool
  | .exitOut .. => true
  | .rawIn .. => true
  | _ => false

section
variable {B : Type} (A : Aead B)

theorem sendCell_noLog (n : Node) (dst : Nat) (c : Cell B) (x : Bool) :
    ∀ o ∈ (sendCell A n dst c x).2, o.isLog = false := by
  intro o ho
  unfold sendCell at ho
  cases hg : get n.circuits c.cid with
  | none =>
    simp only [hg] at ho
    split at ho
    · simp at ho; subst ho; rfl
    · simp at ho
  | some circ =>
    simp only [hg] at ho
    split at ho
    · simp at ho; subst ho; rfl
    · simp at ho

theorem sendMsg_noLog (n : Node) (dst cid : Nat) (m : Msg) : ∀ o ∈ (sendMsg A n dst cid m).2, o.isLog = false :=
  sendCell_noLog A n dst _ _

theorem oursCreated_noLog (n : Node) (cid : Nat) (circ : Circ) (key authPk dhRef : Nat) (ch : Choice) :
    ∀ o ∈ (oursCreated A n cid circ key authPk dhRef ch).2, o.isLog = false := by
  intro o ho
  unfold oursCreated at ho
  repeat' (first
    | exact sendMsg_noLog A _ _ _ _ o ho
    | (simp at ho; done)
    | split at ho
    | dsimp only at ho)

theorem onCreated_noLog (n : Node) (cid ident key authPk dhRef : Nat) (ch : Choice) :
    ∀ o ∈ (onCreated A n cid ident key authPk dhRef ch).2, o.isLog = false := by
  intro o ho
  unfold onCreated at ho
  repeat' (first
    | exact sendMsg_noLog A _ _ _ _ o ho
    | exact oursCreated_noLog A _ _ _ _ _ _ _ o ho
    | (simp at ho; done)
    | split at ho
    | dsimp only at ho)

theorem joinNow_noLog (n : Node) (src cid ident pk dh : Nat) :
    ∀ o ∈ (joinNow A n src cid ident pk dh).2, o.isLog = false := by
  intro o ho
  unfold joinNow joinCircuit at ho
  repeat' (first
    | exact sendMsg_noLog A _ _ _ _ o ho
    | (simp at ho; done)
    | split at ho
    | dsimp only at ho)

theorem onCreate_noLog (n : Node) (src cid ident pk dh : Nat) :
    ∀ o ∈ (onCreate A n src cid ident pk dh).2, o.isLog = false := by
  intro o ho
  unfold onCreate at ho
  repeat' (first
    | exact sendMsg_noLog A _ _ _ _ o ho
    | (simp at ho; done)
    | exact joinNow_noLog A _ _ _ _ _ _ o ho
    | split at ho
    | dsimp only at ho)

theorem onExtend_noLog (n : Node) (cid ident dh : Nat) (ch : Choice) :
    ∀ o ∈ (onExtend A n cid ident dh ch).2, o.isLog = false := by
  intro o ho
  unfold onExtend at ho
  repeat' (first
    | exact sendMsg_noLog A _ _ _ _ o ho
    | (simp at ho; done)
    | split at ho
    | dsimp only at ho)

theorem onExtended_noLog (n : Node) (cid ident key authPk dhRef : Nat) (ch : Choice) :
    ∀ o ∈ (onExtended A n cid ident key authPk dhRef ch).2, o.isLog = false := by
  intro o ho
  unfold onExtended at ho
  repeat' (first
    | exact oursCreated_noLog A _ _ _ _ _ _ _ o ho
    | (simp at ho; done)
    | split at ho
    | dsimp only at ho)

theorem onPing_noLog (n : Node) (src cid ident : Nat) : ∀ o ∈ (onPing A n src cid ident).2, o.isLog = false := by
  intro o ho
  unfold onPing at ho
  repeat' (first
    | exact sendMsg_noLog A _ _ _ _ o ho
    | (simp at ho; done)
    | split at ho)

end
end Ipv8.C05

namespace Ipv8.C05

/-- hand a cell to the first node; every node on the list must emit exactly one cell, which the next one receives;
    the outputs of the final node `last` are returned -/
def through {B : Type} (A : Aead B) : List Node → Node → Nat → Cell B → Option (List (Out B))
  | [], last, src, c => some (processCell A last src c {}).2
  | n :: t, last, src, c =>
    match (processCell A n src c {}).2 with
    | [Out.cell _ c'] => through A t last n.self c'
    | _ => none

/-- the forward relay entries of ONE circuit along a list of nodes: node i holds, under the id the cell arrives
    with, a forward entry whose next id is the id node i+1 knows; nothing is said about any other entry.  `re` is the
    cell's relay_early flag: a flagged cell additionally needs relay_early budget at every relay, an unflagged one
    (all steady-state traffic) needs nothing -/
def FwdChain (re : Bool) : List (Node × Relay) → Nat → Nat → Prop
  | [], cid, last => cid = last
  | (n, nx) :: t, cid, last =>
    get n.relays cid = some nx ∧ nx.dir = .fwd ∧ (re = false ∨ nx.reCount < maxRE) ∧ FwdChain re t nx.next last

/-- the same for the way back -/
def BwdChain (re : Bool) : List (Node × Relay) → Nat → Nat → Prop
  | [], cid, last => cid = last
  | (n, nx) :: t, cid, last =>
    get n.relays cid = some nx ∧ nx.dir = .bwd ∧ (re = false ∨ nx.reCount < maxRE) ∧ BwdChain re t nx.next last

end Ipv8.C05

namespace Ipv8.C05

/-! ### the exit sockets' queues: every parked packet sits in the queue of the socket whose id its cell carried -/

/-- ghost invariant: an item parked in the queue of exit socket `cid` arrived in a cell labelled `cid` -/
def QueueOwn (n : Node) : Prop := ∀ p ∈ n.exits, ∀ q ∈ p.2.queue, q.1 = p.1

theorem mem_set {α : Type} (l : List (Nat × α)) (k : Nat) (v : α) (p : Nat × α) :
    p ∈ set l k v → p = (k, v) ∨ p ∈ l := by
  induction l with
  | nil => intro h; simp [set] at h; exact Or.inl h
  | cons hd t ih =>
    obtain ⟨k', v'⟩ := hd
    intro h
    by_cases hk : k' = k
    · simp [set, hk] at h
      cases h with
      | inl h => exact Or.inl h
      | inr h => exact Or.inr (List.mem_cons_of_mem _ h)
    · simp [set, hk] at h
      cases h with
      | inl h => exact Or.inr (by rw [h]; exact List.mem_cons_self)
      | inr h =>
        cases ih h with
        | inl h' => exact Or.inl h'
        | inr h' => exact Or.inr (List.mem_cons_of_mem _ h')

theorem mem_del {α : Type} (l : List (Nat × α)) (k : Nat) (p : Nat × α) : p ∈ del l k → p ∈ l := by
  induction l with
  | nil => intro h; simp [del] at h
  | cons hd t ih =>
    obtain ⟨k', v'⟩ := hd
    intro h
    by_cases hk : k' = k
    · simp [del, hk] at h
      exact List.mem_cons_of_mem _ (ih h)
    · simp [del, hk] at h
      cases h with
      | inl h => rw [h]; exact List.mem_cons_self
      | inr h => exact List.mem_cons_of_mem _ (ih h)

theorem mem_of_get {α : Type} (l : List (Nat × α)) (k : Nat) (v : α) : get l k = some v → (k, v) ∈ l := by
  induction l with
  | nil => intro h; simp [get] at h
  | cons hd t ih =>
    obtain ⟨k', v'⟩ := hd
    intro h
    by_cases hk : k' = k
    · simp [get, hk] at h
      subst hk; subst h
      exact List.mem_cons_self
    · simp [get, hk] at h
      exact List.mem_cons_of_mem _ (ih h)

theorem mem_pushQ (q : List (Nat × Nat × Nat)) (x y : Nat × Nat × Nat) : y ∈ pushQ q x → y = x ∨ y ∈ q := by
  unfold pushQ
  split
  · intro h
    simp at h
    cases h with
    | inl h => exact Or.inr (List.mem_of_mem_tail h)
    | inr h => exact Or.inl h
  · intro h
    simp at h
    cases h with
    | inl h => exact Or.inr h
    | inr h => exact Or.inl h

theorem qo_same {n n' : Node} (h : n'.exits = n.exits) (hq : QueueOwn n) : QueueOwn n' := by
  unfold QueueOwn; rw [h]; exact hq

theorem qo_del {n n' : Node} (k : Nat) (h : n'.exits = del n.exits k) (hq : QueueOwn n) : QueueOwn n' := by
  unfold QueueOwn; rw [h]
  intro p hp
  exact hq p (mem_del _ _ _ hp)

theorem qo_set {n n' : Node} (k : Nat) (e : ExitE) (h : n'.exits = set n.exits k e)
    (he : ∀ q ∈ e.queue, q.1 = k) (hq : QueueOwn n) : QueueOwn n' := by
  unfold QueueOwn; rw [h]
  intro p hp
  cases mem_set _ _ _ _ hp with
  | inl h1 => subst h1; exact he
  | inr h1 => exact hq p h1

section
variable {B : Type} (A : Aead B)

theorem rmCircuit_exits (n : Node) (cid : Nat) : (rmCircuit n cid).exits = n.exits := by
  unfold rmCircuit
  repeat' (first | rfl | split)

theorem rmRelays_exits (n : Node) (a b : Nat) : (rmRelays n a b).exits = n.exits := by
  unfold rmRelays
  split <;> rfl

theorem rmCircuit_other (n : Node) (cid : Nat) :
    (rmCircuit n cid).relays = n.relays ∧ (rmCircuit n cid).exits = n.exits := by
  unfold rmCircuit
  repeat' (first | exact ⟨rfl, rfl⟩ | split)

theorem rmExit_other (n : Node) (cid : Nat) :
    (rmExit n cid).relays = n.relays ∧ (rmExit n cid).circuits = n.circuits := by
  unfold rmExit
  split <;> exact ⟨rfl, rfl⟩

theorem rmRelays_other (n : Node) (a b : Nat) :
    (rmRelays n a b).exits = n.exits ∧ (rmRelays n a b).circuits = n.circuits := by
  unfold rmRelays
  split <;> exact ⟨rfl, rfl⟩

theorem rmExit_qo (n : Node) (cid : Nat) (hq : QueueOwn n) : QueueOwn (rmExit n cid) := by
  unfold rmExit
  split
  · exact hq
  · exact qo_del _ rfl hq

theorem sendCell_exits (n : Node) (dst : Nat) (c : Cell B) (x : Bool) : (sendCell A n dst c x).1.exits = n.exits := by
  unfold sendCell
  cases get n.circuits c.cid <;> (dsimp only; split <;> rfl)

theorem sendMsg_exits (n : Node) (dst cid : Nat) (m : Msg) : (sendMsg A n dst cid m).1.exits = n.exits :=
  sendCell_exits A n dst _ _

theorem exitData_qo (n : Node) (src cid dest tag : Nat) (hq : QueueOwn n) :
    QueueOwn (exitData (B := B) n src cid dest tag).1 := by
  unfold exitData
  cases he : get n.exits cid with
  | none => exact hq
  | some e =>
    have hown : ∀ q ∈ pushQ e.queue (cid, dest, tag), q.1 = cid := by
      intro q hqm
      cases mem_pushQ _ _ _ hqm with
      | inl h => rw [h]
      | inr h => exact hq (cid, e) (mem_of_get _ _ _ he) q h
    dsimp only
    split
    · exact hq
    · split
      · exact qo_set cid _ rfl hown hq
      · split
        · exact qo_set cid _ rfl hown hq
        · exact hq

theorem openStep_qo (n : Node) (cid : Nat) (hq : QueueOwn n) : QueueOwn (openStep (B := B) n cid).1 := by
  unfold openStep
  cases he : get n.exits cid with
  | none => exact hq
  | some e =>
    dsimp only
    split
    · exact qo_set cid _ rfl (fun q hqm => hq (cid, e) (mem_of_get _ _ _ he) q hqm) hq
    · split
      · exact qo_set cid _ rfl (by intro q hqm; simp at hqm) hq
      · exact hq

theorem onData_qo (n : Node) (src cid dest org tag : Nat) (hq : QueueOwn n) :
    QueueOwn (onData (B := B) n src cid dest org tag).1 := by
  have key : ∀ b : Bool, QueueOwn ((if b = true then (n, [Out.rawIn cid org tag])
      else if dest = 0 then (n, []) else exitData n src cid dest tag : Node × List (Out B))).1 := by
    intro b
    cases b
    · by_cases hd : dest = 0
      · simp only [Bool.false_eq_true, if_false, hd, if_true]; exact hq
      · simp only [Bool.false_eq_true, if_false, hd]; exact exitData_qo n src cid dest tag hq
    · simp only [if_true]; exact hq
  unfold onData
  exact key _

theorem joinNow_qo (n : Node) (src cid ident pk dh : Nat) (hq : QueueOwn n) :
    QueueOwn (joinNow A n src cid ident pk dh).1 := by
  unfold joinNow joinCircuit
  split
  · exact hq
  · split
    · exact hq
    · dsimp only
      split
      · split
        · exact hq
        · exact qo_set cid ⟨⟨pk, src, n.freshKey⟩, 0, []⟩ rfl (by intro q hqm; simp at hqm) hq
      · refine qo_set cid ⟨⟨pk, src, n.freshKey⟩, 0, []⟩ ?_ (by intro q hqm; simp at hqm) hq
        rw [sendMsg_exits]

theorem onCreate_qo (n : Node) (src cid ident pk dh : Nat) (hq : QueueOwn n) :
    QueueOwn (onCreate A n src cid ident pk dh).1 := by
  unfold onCreate
  split
  · exact hq
  · split
    · exact qo_same rfl hq
    · exact joinNow_qo A n src cid ident pk dh hq

theorem oursCreated_exits (n : Node) (cid : Nat) (circ : Circ) (key authPk dhRef : Nat) (ch : Choice) :
    (oursCreated A n cid circ key authPk dhRef ch).1.exits = n.exits := by
  unfold oursCreated
  repeat' (first
    | rfl
    | exact rmCircuit_exits _ _
    | (rw [sendMsg_exits])
    | split
    | dsimp only)

theorem onCreated_qo (n : Node) (cid ident key authPk dhRef : Nat) (ch : Choice) (hq : QueueOwn n) :
    QueueOwn (onCreated A n cid ident key authPk dhRef ch).1 := by
  unfold onCreated
  split
  · dsimp only
    split
    · exact qo_same rfl hq
    · split
      · exact qo_same rfl hq
      · dsimp only
        split
        · exact qo_del _ (by dsimp only; rw [sendMsg_exits]) hq
        · exact rmExit_qo _ _ (qo_same (sendMsg_exits A _ _ _ _) hq)
  · split
    · exact hq
    · split
      · exact qo_same (oursCreated_exits A _ _ _ _ _ _ _) hq
      · exact hq

theorem onExtend_exits (n : Node) (cid ident dh : Nat) (ch : Choice) :
    (onExtend A n cid ident dh ch).1.exits = n.exits := by
  unfold onExtend
  repeat' (first
    | rfl
    | (rw [sendMsg_exits])
    | split
    | dsimp only)

theorem onExtended_exits (n : Node) (cid ident key authPk dhRef : Nat) (ch : Choice) :
    (onExtended A n cid ident key authPk dhRef ch).1.exits = n.exits := by
  unfold onExtended
  repeat' (first
    | rfl
    | exact oursCreated_exits A _ _ _ _ _ _ _
    | split)

theorem onPing_exits (n : Node) (src cid ident : Nat) : (onPing A n src cid ident).1.exits = n.exits := by
  unfold onPing
  split
  · exact sendMsg_exits A _ _ _ _
  · rfl

theorem relayCell_exits (n : Node) (c : Cell B) (nx : Relay) : (relayCell A n c nx).1.exits = n.exits := by
  unfold relayCell
  repeat' (first | rfl | split | dsimp only)

theorem processCell_qo (n : Node) (src : Nat) (c : Cell B) (ch : Choice) (hq : QueueOwn n) :
    QueueOwn (processCell A n src c ch).1 := by
  unfold processCell
  cases hr : get n.relays c.cid with
  | some nx => exact qo_same (relayCell_exits A _ _ _) hq
  | none =>
    dsimp only
    cases hin : inCrypto A n c with
    | none => exact hq
    | some b =>
      dsimp only
      cases hp : A.parse b with
      | none => exact hq
      | some m =>
        dsimp only
        split
        · exact hq
        · cases m with
            | data dest org tag => exact onData_qo n src c.cid dest org tag hq
            | create ident pk dh => exact onCreate_qo A n src c.cid ident pk dh hq
            | created ident key authPk dhRef => exact onCreated_qo A n c.cid ident key authPk dhRef ch hq
            | extend ident pk dh => exact qo_same (onExtend_exits A _ _ _ _ _) hq
            | extended ident key authPk dhRef => exact qo_same (onExtended_exits A _ _ _ _ _ _ _) hq
            | ping ident => exact qo_same (onPing_exits A _ _ _ _) hq
            | pong ident => exact hq
            | other mid => exact hq

theorem onDestroy_qo (n : Node) (signer cid : Nat) (ok : Bool) (reason : Nat) (hq : QueueOwn n) :
    QueueOwn (onDestroy (B := B) n signer cid ok reason).1 := by
  unfold onDestroy
  split
  · exact hq
  · split
    · exact qo_same (rmRelays_exits _ _ _) hq
    · unfold destroyLocal
      split
      · split
        · exact rmExit_qo _ _ hq
        · unfold destroyCircuit
          repeat' (first | exact hq | exact qo_same (rmCircuit_exits _ _) hq | split)
      · unfold destroyCircuit
        repeat' (first | exact hq | exact qo_same (rmCircuit_exits _ _) hq | split)

theorem pingAll_exits (n : Node) (l : List (Nat × Circ)) : (pingAll A n l).1.exits = n.exits := by
  induction l generalizing n with
  | nil => rfl
  | cons p t ih =>
    obtain ⟨cid, c⟩ := p
    unfold pingAll
    split
    · dsimp only
      rw [ih, sendMsg_exits]
    · exact ih n

end
/-- an exit node with two sockets that are both still opening (IPv4 transport done, IPv6 pending), each holding
    parked packets of its own circuit -/
def exQ : Node := { Node.init 3 with exits := [(700, ⟨⟨2, 2, 73⟩, 2, [(700, 55, 1), (700, 56, 2)]⟩),
                                                (701, ⟨⟨1, 1, 74⟩, 2, [(701, 57, 3)]⟩)] }

instance (n : Node) : Decidable (QueueOwn n) := by unfold QueueOwn; exact inferInstance

/-- (NOT an invariant of the code: the 60 s created-cache and the 10 s create-cache run on independent timers) every
    pending CreateRequestCache refers to an id that is still in the created-cache -/
def PendingCovered (n : Node) : Prop := ∀ rq ∈ n.creates, n.created.contains rq.fromId = true

theorem dec_other_key_none {B : Type} {A : Aead B} (L : AeadLaws A) (k k' : Nat) (d d' : Dir) (x : B)
    (h : ¬ (k' = k ∧ d' = d)) : A.dec k d (A.enc k' d' x) = none := by
  cases hd : A.dec k d (A.enc k' d' x) with
  | none => rfl
  | some b =>
    have h1 := L.dec_some _ _ _ _ hd
    have h2 := L.enc_inj _ _ _ _ _ _ h1
    exact absurd ⟨h2.1, h2.2.1⟩ h

theorem sendCell_created {B : Type} (A : Aead B) (n : Node) (dst : Nat) (c : Cell B) (x : Bool) :
    (sendCell A n dst c x).1.created = n.created := by
  unfold sendCell
  cases get n.circuits c.cid <;> (dsimp only; split <;> rfl)

theorem sendCell_relays {B : Type} (A : Aead B) (n : Node) (dst : Nat) (c : Cell B) (x : Bool) :
    (sendCell A n dst c x).1.relays = n.relays ∧ (sendCell A n dst c x).1.exits = n.exits := by
  unfold sendCell
  cases get n.circuits c.cid <;> (dsimp only; split <;> exact ⟨rfl, rfl⟩)

/-- a node whose exit entry 700 was removed while its extension (to id 900 at peer 4) is still pending -/
def exP : Node := { Node.init 3 with created := [700], creates := [⟨5, 9, 900, 700, ⟨2, 2, 0⟩, ⟨4, 4, 0⟩⟩] }

/-! concrete nodes for the non-vacuity examples in Props.lean: two relays that carry circuit (500→600→700) and,
    sharing relay 1 and node 2, a second circuit (501→601); node 3 is the exit of the first -/
def exR1 : Node := { Node.init 1 with relays := [(500, ⟨600, ⟨2, 2, 71⟩, .fwd, 1⟩), (600, ⟨500, ⟨9, 9, 71⟩, .bwd, 1⟩),
                                                 (501, ⟨601, ⟨2, 2, 81⟩, .fwd, 1⟩), (601, ⟨501, ⟨8, 8, 81⟩, .bwd, 1⟩)] }
def exR2 : Node := { Node.init 2 with relays := [(600, ⟨700, ⟨3, 3, 72⟩, .fwd, 1⟩), (700, ⟨600, ⟨1, 1, 72⟩, .bwd, 1⟩)],
                                      exits := [(601, ⟨⟨1, 1, 82⟩, 3, []⟩)], created := [600, 601] }
def exX : Node := { Node.init 3 with exits := [(700, ⟨⟨2, 2, 73⟩, 3, []⟩)], created := [700] }
/-- relay 1 after a long life: both entries of circuit 500/600 have relayed far more than 8 cells -/
def exR1old : Node := { Node.init 1 with relays := [(500, ⟨600, ⟨2, 2, 71⟩, .fwd, 4000⟩), (600, ⟨500, ⟨9, 9, 71⟩, .bwd, 3000⟩)] }
def exO : Node := { Node.init 9 with circuits := [(500, ⟨3, [⟨1, 1, 71⟩, ⟨2, 0, 72⟩, ⟨3, 0, 73⟩], none, 0, 3, false⟩)] }
/-- an originator (node 9) whose circuit 500 has ONE verified hop (key 71) and is being extended to a second -/
def exO1 : Node := { Node.init 9 with circuits := [(500, ⟨3, [⟨1, 1, 71⟩], some ⟨2, 0, 99⟩, 5, 2, false⟩)] }

end Ipv8.C05
