/-
  C05 — executable model of the routing tables of a tunnel node (core Lean only, no Mathlib).

  Mirrors, for one node, ipv8/messaging/anonymization
    crypto.py     PythonCryptoEndpoint.process_cell / relay_cell / send_cell / incoming_crypto / outgoing_crypto /
                  encrypt_cell / decrypt_cell
    community.py  create_circuit+send_initial_create (as one API step whose random picks are inputs), send_cell,
                  send_data, on_cell, on_create+should_join_circuit+join_circuit, on_created,
                  _ours_on_created_extended+send_extend (random picks are inputs), on_extend, on_extended, on_data,
                  exit_data, on_ping, on_pong, do_ping, on_destroy, remove_circuit / remove_relay / remove_exit_socket
                  (with remove_tunnel_delay = 0: the entry is gone when the step ends), destroy_*
    exit_socket.py TunnelExitSocket.tunnel_data (return path bound to the socket's circuit id and hop)
    payload.py    CellPayload: circuit id / plaintext / relay_early header; the handlers receive the header's id
  and, on top, a network = nodes + datagrams in flight (used by the driver and by the path theorems).

  Quirks kept: tables are looked up in the order the code uses (relays first on receipt; circuit, exit, relay on
  sending); a cell for an id with no entry, or for an own circuit without verified hops, is not sent at all unless it is flagged plaintext (bea4e39); a circuit without verified hops accepts only
  plaintext-flagged cells;
  on_created does not check the sender of a CREATED (identifier and circuit id must match the pending request); every relayed cell bumps
  relay_early_count; a relay re-encrypts backward cells blindly; on_data's "origin" test is always true;
  exit_data checks the source only while the socket is not yet enabled; packets wait in the exit socket's own
  queue while its transports are being opened (explicit phases); on_ping answers to the datagram's source.

  Cryptography is an abstract interface `Aead` (enc/dec by key id and direction, serialisation `plain`/`parse`);
  nothing here assumes any law.  The laws used by theorems are the structure `AeadLaws` (Lemmas.lean), with the
  symbolic instance `sym` below (a body is a stack of (key, direction) layers around a message) as witness; the
  driver runs `sym`.
  Not modelled: rendezvous relays and hs_session_keys, test-request and test-response, hidden-service messages,
  inactivity sweeps (do_remove).  remove_tunnel_delay: `Node.defer` = false is delay 0 (entry popped in the step that
  removes it), true is delay > 0 (remove_* closes / sends the destroy at once and pops by id later: `popCircuit`, `popRelay`,
  `popExit`); on_created's remove_exit_socket(remove_now=True) is immediate in both modes.
-/
import Ipv8.C05.GenGuards

namespace Ipv8.C05

inductive Dir where
  | fwd | bwd
  deriving DecidableEq, Repr

inductive Msg where
  | data (dest org tag : Nat)
  | create (ident pk dh : Nat)
  | created (ident key authPk dhRef : Nat)     -- key = 0: a malformed DH half (wrong length)
  | extend (ident pk dh : Nat)
  | extended (ident key authPk dhRef : Nat)
  | ping (ident : Nat)
  | pong (ident : Nat)
  | other (mid : Nat)
  deriving DecidableEq, Repr

def Msg.isExtend : Msg → Bool
  | .extend .. => true
  | _ => false

/-- msg_id of the payload class (generated from payload.py); `other` carries its own -/
def Msg.id : Msg → Nat
  | .data .. => Gen.msgIdData
  | .create .. => Gen.msgIdCreate
  | .created .. => Gen.msgIdCreated
  | .extend .. => Gen.msgIdExtend
  | .extended .. => Gen.msgIdExtended
  | .ping .. => Gen.msgIdPing
  | .pong .. => Gen.msgIdPong
  | .other mid => mid

/-- NO_CRYPTO_PACKETS = [create, created] -/
def Msg.noCrypto : Msg → Bool
  | .create .. => true
  | .created .. => true
  | _ => false

/-- abstract AEAD + serialisation; `B` is the type of cell bodies -/
structure Aead (B : Type) where
  enc : Nat → Dir → B → B
  dec : Nat → Dir → B → Option B
  plain : Msg → B
  parse : B → Option Msg

structure Cell (B : Type) where
  cid : Nat
  plaintext : Bool
  relayEarly : Bool
  body : B
  deriving DecidableEq

structure Hop where
  peer : Nat
  addr : Nat
  key : Nat        -- session key id; for an unverified hop: the id of our DH half
  deriving DecidableEq, Repr

structure Circ where
  goal : Nat
  hops : List Hop
  unv : Option Hop
  retry : Nat      -- RetryRequestCache.packet_identifier + 1, 0 = no cache
  reCount : Nat    -- relay_early_count
  closing : Bool := false     -- Circuit.close(): removal has been requested, the entry waits for remove_tunnel_delay
  deriving DecidableEq, Repr

structure Relay where
  next : Nat       -- RelayRoute.circuit_id : the id to relabel with
  hop : Hop
  dir : Dir
  reCount : Nat
  deriving DecidableEq, Repr

/-- TunnelExitSocket.  `phase`: 0 = not enabled; 1 = `enable()` called, `create_transports` is opening the IPv4
    transport; 2 = IPv4 transport open, IPv6 being opened; 3 = both open and the queue flushed.
    `queue` = the socket's own `deque(maxlen=10)` of packets parked while no transport exists, oldest first; each
    item is (id of the cell it arrived on — ghost, destination, tag).  Destinations are IPv4 (what the harness sends),
    so a packet is parked exactly in phase 1. -/
structure ExitE where
  hop : Hop
  phase : Nat
  queue : List (Nat × Nat × Nat)
  deriving DecidableEq, Repr

def ExitE.enabled (e : ExitE) : Bool := e.phase != 0

/-- `deque(maxlen=10).append`: the oldest item falls out -/
def pushQ (q : List (Nat × Nat × Nat)) (x : Nat × Nat × Nat) : List (Nat × Nat × Nat) :=
  if 10 ≤ q.length then q.drop 1 ++ [x] else q ++ [x]

/-- CreateRequestCache -/
structure CreateReq where
  number : Nat     -- +1
  extIdent : Nat
  toId : Nat
  fromId : Nat
  peer : Hop
  toPeer : Hop
  deriving DecidableEq, Repr

structure Node where
  self : Nat
  circuits : List (Nat × Circ)
  relays : List (Nat × Relay)
  exits : List (Nat × ExitE)
  created : List Nat            -- CreatedRequestCache keys
  creates : List CreateReq
  nextKey : Nat
  defer : Bool := false         -- remove_tunnel_delay > 0: remove_* only pops the entry when its sleep is over
  doomed : List (Nat × Nat) := []   -- sleeping remove_* tasks: (0 circuit | 1 relay | 2 exit socket, id)
  gated : Bool := false             -- should_join_circuit is overridden by a hook that really suspends
  pending : List (Nat × Nat × Nat × Nat × Nat) := []   -- CREATEs waiting in that hook: (src, cid, ident, pk, dh)
  deriving DecidableEq, Repr

def Node.init (i : Nat) : Node := ⟨i, [], [], [], [], [], 0, false, [], false, []⟩

inductive Out (B : Type) where
  | cell (dst : Nat) (c : Cell B)
  | destroy (dst signer cid reason : Nat)
  | exitOut (cid dest tag : Nat)      -- a datagram left through exit socket `cid`
  | rawIn (cid org tag : Nat)         -- on_raw_data(circuit `cid`, origin, data) at the originator
  deriving DecidableEq

/-- values the code draws at random (or from its peer list) in a step; read back by the harness -/
structure Choice where
  new : Option (Nat × Nat × Nat × Nat) := none   -- on_extend: to_circuit_id, cache number+1, target address, target peer
  ext : Option (Nat × Nat) := none               -- send_extend: chosen peer, packet_identifier+1

def maxRE : Nat := Gen.maxRelayEarly     -- TunnelSettings._max_relay_early (generated)
def maxJoined : Nat := Gen.maxJoined     -- TunnelSettings.max_joined_circuits (generated)

/-! ### dict semantics (insertion ordered) -/
def get {α : Type} : List (Nat × α) → Nat → Option α
  | [], _ => none
  | (k', v) :: t, k => if k' = k then some v else get t k

def set {α : Type} : List (Nat × α) → Nat → α → List (Nat × α)
  | [], k, v => [(k, v)]
  | (k', v') :: t, k, v => if k' = k then (k, v) :: t else (k', v') :: set t k v

def del {α : Type} : List (Nat × α) → Nat → List (Nat × α)
  | [], _ => []
  | (k', v) :: t, k => if k' = k then del t k else (k', v) :: del t k

def has {α : Type} (l : List (Nat × α)) (k : Nat) : Bool := (get l k).isSome

def Node.inUse (n : Node) (cid : Nat) : Bool :=
  has n.circuits cid || has n.relays cid || has n.exits cid

/-- remove_circuit up to its `await sleep(remove_tunnel_delay)`: the retry cache is popped and the circuit closed at
    once; with delay 0 the entry is popped in the same step, otherwise later (`popCircuit`) -/
def rmCircuit (n : Node) (cid : Nat) : Node :=
  if n.defer then
    match get n.circuits cid with
    | some c => { n with circuits := set n.circuits cid { c with closing := true, retry := 0 },
                         doomed := n.doomed ++ [(0, cid)] }
    | none => n
  else { n with circuits := del n.circuits cid }

/-- remove_exit_socket / remove_relay (both directions) up to their sleep -/
def rmExit (n : Node) (cid : Nat) : Node :=
  if n.defer then { n with doomed := n.doomed ++ [(2, cid)] } else { n with exits := del n.exits cid }
def rmRelays (n : Node) (a b : Nat) : Node :=
  if n.defer then { n with doomed := n.doomed ++ [(1, a), (1, b)] } else { n with relays := del (del n.relays a) b }

/-- the delayed `circuits.pop(id)` / `relay_from_to.pop(id)` / `exit_sockets.pop(id)`: they happen only when a sleeping
    remove_* task for that id exists, and act by id on whatever is there when the sleep is over -/
def popCircuit (n : Node) (cid : Nat) : Node :=
  if n.doomed.contains (0, cid) then { n with circuits := del n.circuits cid, doomed := n.doomed.erase (0, cid) } else n
def popRelay (n : Node) (cid : Nat) : Node :=
  if n.doomed.contains (1, cid) then { n with relays := del n.relays cid, doomed := n.doomed.erase (1, cid) } else n
def popExit (n : Node) (cid : Nat) : Node :=
  if n.doomed.contains (2, cid) then { n with exits := del n.exits cid, doomed := n.doomed.erase (2, cid) } else n

/-- `Circuit.hop`: first verified hop, else the unverified one -/
def Circ.firstHop (c : Circ) : Option Hop :=
  match c.hops with
  | h :: _ => some h
  | [] => c.unv

def Node.freshKey (n : Node) : Nat := (n.nextKey + 1) * 64 + n.self

section
variable {B : Type} (A : Aead B)

/-- decrypt_cell over several hops: first hop first -/
def decryptAll (d : Dir) : List Nat → B → Option B
  | [], b => some b
  | k :: ks, b => (A.dec k d b).bind (decryptAll d ks)

/-- encrypt_cell over several hops: `for hop in reversed(hops)`, so the first hop's layer ends up outermost -/
def encryptAll (d : Dir) : List Nat → B → B
  | [], b => b
  | k :: ks, b => A.enc k d (encryptAll d ks b)

/-- outgoing_crypto; `none` = nothing is sent: a cell that is not flagged plaintext and for which no keys exist (own
    circuit without verified hops; id with no entry at all) raises CryptoException, as does the KeyError-free lookup of a
    half-removed relay pair -/
def outCrypto (n : Node) (c : Cell B) : Option (Cell B) :=
  if c.plaintext then some c else
  match get n.circuits c.cid with
  | some circ =>
    if circ.hops.isEmpty then none
    else some { c with body := encryptAll A .fwd (circ.hops.map Hop.key) c.body }
  | none =>
    match get n.exits c.cid with
    | some e => some { c with body := A.enc e.hop.key .bwd c.body }
    | none =>
      match get n.relays c.cid with
      | some r =>
        match get n.relays r.next with
        | some o => some { c with body := A.enc o.hop.key o.dir c.body }
        | none => none
      | none => none

/-- PythonCryptoEndpoint.send_cell (with TunnelCommunity.send_cell's plaintext flag already set by the caller) -/
def sendCell (n : Node) (dst : Nat) (c : Cell B) (isExtend : Bool) : Node × List (Out B) :=
  let (n1, c1) : Node × Cell B :=
    match get n.circuits c.cid with
    | some circ =>
      let re := isExtend || decide (circ.reCount < maxRE)
      ({ n with circuits := set n.circuits c.cid { circ with reCount := if re then circ.reCount + 1 else circ.reCount } },
       { c with relayEarly := re })
    | none => (n, c)
  match outCrypto A n1 c1 with
  | some c2 => (n1, [Out.cell dst c2])
  | none => (n1, [])

def mkCell (cid : Nat) (m : Msg) : Cell B :=
  { cid := cid, plaintext := m.noCrypto, relayEarly := false, body := A.plain m }

/-- TunnelCommunity.send_cell -/
def sendMsg (n : Node) (dst cid : Nat) (m : Msg) : Node × List (Out B) :=
  sendCell A n dst (mkCell A cid m) m.isExtend

/-- relay_cell for the entry `nx = relays[c.cid]` -/
def relayCell (n : Node) (c : Cell B) (nx : Relay) : Node × List (Out B) :=
  if Gen.relayRefused c.plaintext c.relayEarly (decide (maxRE ≤ nx.reCount)) then (n, [])
  else
    let body? : Option B :=
      match nx.dir with
      | .fwd => A.dec nx.hop.key .fwd c.body
      | .bwd => some (A.enc nx.hop.key .bwd c.body)
    match body? with
    | none => (n, [])
    | some b =>
      ({ n with relays := set n.relays c.cid { nx with reCount := nx.reCount + 1 } },
       [Out.cell nx.hop.addr { c with cid := nx.next, body := b }])

/-- on_create + should_join_circuit + join_circuit -/
def joinCircuit (n : Node) (src cid ident pk dh : Nat) : Node × List (Out B) :=
  let k := n.freshKey
  if n.created.contains cid then
    -- a CreatedRequestCache for this id exists: its constructor raises.  Generated: the cache comes before the table write
    ((if Gen.joinCacheFirst then n
      else { n with exits := set n.exits cid ⟨⟨pk, src, k⟩, 0, []⟩, nextKey := n.nextKey + 1 }), [])
  else
    let n1 : Node := { n with created := n.created ++ [cid],
                              exits := set n.exits cid ⟨⟨pk, src, k⟩, 0, []⟩,
                              nextKey := n.nextKey + 1 }
    sendMsg A n1 src cid (.created ident k n.self dh)

/-- what on_create does once should_join_circuit has returned: re-check of the id, the hook's verdict, join_circuit -/
def joinNow (n : Node) (src cid ident pk dh : Nat) : Node × List (Out B) :=
  -- generated: after the await the id is checked again (created-cache and the three tables)
  if Gen.createRecheckRefused (n.created.contains cid) (has n.circuits cid) (has n.relays cid) (has n.exits cid) then (n, [])
  else if Gen.joinRefused n.relays.length n.exits.length then (n, []) else joinCircuit A n src cid ident pk dh

def onCreate (n : Node) (src cid ident pk dh : Nat) : Node × List (Out B) :=
  if Gen.createRefused true (n.created.contains cid) (has n.circuits cid) (has n.relays cid) (has n.exits cid) then (n, [])
  else if n.gated then ({ n with pending := n.pending ++ [(src, cid, ident, pk, dh)] }, [])   -- suspended in the hook
  else joinNow A n src cid ident pk dh

/-- the hook of the k-th waiting CREATE returns: should_join_circuit is evaluated and join_circuit runs — the guards of
    on_create are NOT evaluated again -/
def joinRelease (n : Node) (k : Nat) : Node × List (Out B) :=
  match n.pending[k]? with
  | none => (n, [])
  | some (src, cid, ident, pk, dh) =>
    joinNow A { n with pending := n.pending.eraseIdx k } src cid ident pk dh

def popCreate : List CreateReq → Nat → Nat → Option (CreateReq × List CreateReq)
  | [], _, _ => none
  | r :: t, num, cid =>
    -- the pending request with this identifier, provided the CREATED names the circuit id we created
    if Gen.createdMatches (decide (r.number = num)) (decide (r.toId = cid)) then some (r, t)
    else match popCreate t num cid with
      | some (x, t') => some (x, r :: t')
      | none => none

/-- _ours_on_created_extended (+ send_extend when the circuit is still extending) -/
def oursCreated (n : Node) (cid : Nat) (circ : Circ) (key authPk dhRef : Nat) (ch : Choice) : Node × List (Out B) :=
  match circ.unv with
  | none => (n, [])
  | some h =>
    if key = 0 then
      -- a DH half that is not a valid key: ValueError -> remove_circuit("error while verifying shared secret")
      (rmCircuit n cid, [])
    else if authPk = h.peer ∧ dhRef = h.key then
      let circ1 : Circ := { circ with hops := circ.hops ++ [⟨h.peer, h.addr, key⟩], unv := none }
      if circ1.hops.length < circ1.goal then
        match ch.ext with
        | some (pk, ident) =>
          let dh := n.freshKey
          let circ2 : Circ := { circ1 with unv := some ⟨pk, 0, dh⟩, retry := ident }
          let n1 : Node := { n with circuits := set n.circuits cid circ2, nextKey := n.nextKey + 1 }
          match circ2.firstHop with
          | some fh => sendMsg A n1 fh.addr cid (.extend ident pk dh)
          | none => (n1, [])
        | none => (rmCircuit n cid, [])     -- "no candidates to extend"
      else
        ({ n with circuits := set n.circuits cid { circ1 with retry := 0 } }, [])
    else (n, [])

/-- on_created -/
def onCreated (n : Node) (cid ident key authPk dhRef : Nat) (ch : Choice) : Node × List (Out B) :=
  match popCreate n.creates ident cid with
  | some (rq, rest) =>
    let n1 : Node := { n with creates := rest }
    let e? := get n1.exits rq.fromId
    -- generated guard: exit socket gone / not the hop object the extension was requested on (`is not`: peer, address and
    -- session key identify the object) / the id reserved for the next hop was taken meanwhile
    if Gen.createdRefused e?.isSome (decide (e?.map ExitE.hop = some rq.peer))
        (has n1.circuits rq.toId) (has n1.relays rq.toId) (has n1.exits rq.toId) then (n1, [])
    else
    match e? with
    | none => (n1, [])
    | some e =>
      let k := e.hop.key
      let bw : Relay := ⟨rq.fromId, ⟨rq.peer.peer, rq.peer.addr, k⟩, .bwd, Gen.relayEarlyInit⟩
      let fw : Relay := ⟨rq.toId, ⟨rq.toPeer.peer, rq.toPeer.addr, k⟩, .fwd, Gen.relayEarlyInit⟩
      let n2 : Node := { n1 with relays := set (set n1.relays rq.toId bw) rq.fromId fw }
      let (n3, outs) := sendMsg A n2 bw.hop.addr rq.fromId (.extended rq.extIdent key authPk dhRef)
      -- remove_exit_socket(from, remove_now=<generated>): at once, or like every other removal
      ((if Gen.convertRemovesNow then { n3 with exits := del n3.exits rq.fromId } else rmExit n3 rq.fromId), outs)
  | none =>
    match get n.circuits cid with
    | none => (n, [])
    | some circ =>
      if circ.retry ≠ 0 ∧ circ.retry = ident then oursCreated A n cid circ key authPk dhRef ch else (n, [])

/-- on_extend -/
def onExtend (n : Node) (cid ident dh : Nat) (ch : Choice) : Node × List (Out B) :=
  if !n.created.contains cid then (n, [])
  else
    match ch.new with
    | none => (n, [])
    | some (newId, number, dstAddr, dstPeer) =>
      let cand : Option Hop :=
        match get n.circuits cid with
        | some c => c.firstHop
        | none =>
          match get n.exits cid with
          | some e => some e.hop
          | none => (get n.relays cid).map Relay.hop
      match cand with
      | none => (n, [])
      | some cd =>
        let rq : CreateReq := ⟨number, ident, newId, cid, cd, ⟨dstPeer, dstAddr, 0⟩⟩     -- `cd` is the hop object itself
        sendMsg A { n with creates := n.creates ++ [rq] } dstAddr newId (.create number n.self dh)

/-- on_extended -/
def onExtended (n : Node) (cid ident key authPk dhRef : Nat) (ch : Choice) : Node × List (Out B) :=
  match get n.circuits cid with
  | none => (n, [])
  | some circ =>
    if circ.retry ≠ 0 ∧ circ.retry = ident then oursCreated A n cid circ key authPk dhRef ch else (n, [])

/-- exit_data + TunnelExitSocket.enable / sendto: while the socket is not enabled the cell must come from the hop's
    address (then `enable()` starts `create_transports`); without an IPv4 transport the packet is parked in THIS
    socket's queue, otherwise it leaves through THIS socket -/
def exitData (n : Node) (src cid dest tag : Nat) : Node × List (Out B) :=
  match get n.exits cid with
  | none => (n, [])
  | some e =>
    -- generated guard (unknown id is the `none` arm above): not enabled and the cell is not from the hop's address
    if Gen.exitDataRefuses true (e.phase != 0) (decide (src = e.hop.addr)) then (n, [])
    else if e.phase = 0 then
      ({ n with exits := set n.exits cid { e with phase := 1, queue := pushQ e.queue (cid, dest, tag) } }, [])
    else if e.phase = 1 then
      ({ n with exits := set n.exits cid { e with queue := pushQ e.queue (cid, dest, tag) } }, [])
    else (n, [Out.exitOut cid dest tag])

/-- one `await` of `create_transports` of exit socket `cid` completes: IPv4 transport open (1 → 2), then IPv6 transport
    open and `while self.queue: self.sendto(*self.queue.popleft())` (2 → 3): the parked packets leave through this socket -/
def openStep (n : Node) (cid : Nat) : Node × List (Out B) :=
  match get n.exits cid with
  | none => (n, [])
  | some e =>
    if e.phase = 1 then ({ n with exits := set n.exits cid { e with phase := 2 } }, [])
    else if e.phase = 2 then
      ({ n with exits := set n.exits cid { e with phase := 3, queue := [] } },
       e.queue.map (fun q => Out.exitOut cid q.2.1 q.2.2))
    else (n, [])

/-- on_data -/
def onData (n : Node) (src cid dest org tag : Nat) : Node × List (Out B) :=
  let srcIsHop : Bool :=
    match get n.circuits cid with
    | some circ =>
      match circ.firstHop with
      | some fh => decide (src = fh.addr)
      | none => false
    | none => false
  -- generated guard; `origin` (a non-empty address tuple) is always truthy
  let ours : Bool := Gen.dataOurs (has n.circuits cid) true srcIsHop
  if ours then (n, [Out.rawIn cid org tag])
  else if dest = 0 then (n, [])
  else exitData n src cid dest tag

/-- on_ping -/
def onPing (n : Node) (src cid ident : Nat) : Node × List (Out B) :=
  if n.inUse cid then sendMsg A n src cid (.pong ident) else (n, [])

def handle (n : Node) (src cid : Nat) (m : Msg) (ch : Choice) : Node × List (Out B) :=
  match m with
  | .data dest org tag => onData n src cid dest org tag
  | .create ident pk dh => onCreate A n src cid ident pk dh
  | .created ident key authPk dhRef => onCreated A n cid ident key authPk dhRef ch
  | .extend ident _ dh => onExtend A n cid ident dh ch
  | .extended ident key authPk dhRef => onExtended A n cid ident key authPk dhRef ch
  | .ping ident => onPing A n src cid ident
  | .pong _ => (n, [])
  | .other _ => (n, [])

/-- incoming_crypto: `none` = dropped -/
def inCrypto (n : Node) (c : Cell B) : Option B :=
  match get n.exits c.cid, get n.circuits c.cid with
  | none, none => if c.plaintext then some c.body else none
  | some e, _ => if c.plaintext then some c.body else A.dec e.hop.key .fwd c.body
  | none, some circ =>
    if c.plaintext then some c.body
    else if circ.hops.isEmpty then none        -- no hop verified yet: there are no keys, nothing is accepted
    else decryptAll A .bwd (circ.hops.map Hop.key) c.body

/-- process_cell (+ on_cell / on_packet_from_circuit dispatch) -/
def processCell (n : Node) (src : Nat) (c : Cell B) (ch : Choice) : Node × List (Out B) :=
  match get n.relays c.cid with
  | some nx => relayCell A n c nx
  | none =>
    match inCrypto A n c with
    | none => (n, [])
    | some b =>
      match A.parse b with
      | none => (n, [])
      | some m =>
        if Gen.cellRefused c.relayEarly m.isExtend false c.plaintext m.noCrypto true then (n, [])
        else handle A n src c.cid m ch

/-- on_destroy, third branch: an own circuit, destroyed by its first hop -/
def destroyCircuit (n : Node) (signer cid : Nat) : Node × List (Out B) :=
  match get n.circuits cid with
  | some c => if Gen.destroyCircuit true (decide ((c.firstHop.map Hop.peer) = some signer)) then (rmCircuit n cid, []) else (n, [])
  | none => (n, [])

/-- on_destroy, second branch: an exit socket, destroyed by the peer it was created for -/
def destroyLocal (n : Node) (signer cid : Nat) : Node × List (Out B) :=
  match get n.exits cid with
  | some e => if Gen.destroyExit true (decide (signer = e.hop.peer)) then (rmExit n cid, []) else destroyCircuit n signer cid
  | none => destroyCircuit n signer cid

/-- on_destroy, first branch: `relays[cid]` exists, its pair exists and the pair's hop (the side `cid` belongs to) signed -/
def viaRelay (n : Node) (signer cid : Nat) : Option Relay :=
  match get n.relays cid with
  | some nx =>
    match get n.relays nx.next with
    | some pv => if Gen.destroyViaRelay true (decide (signer = pv.hop.peer)) then some nx else none
    | none => none
  | none => none

/-- on_destroy (after lazy_wrapper's signature check: `sigok`) and the removals it starts -/
def onDestroy (n : Node) (signer cid : Nat) (sigok : Bool) (reason : Nat) : Node × List (Out B) :=
  if !sigok then (n, [])
  else
    match viaRelay n signer cid with
    | some nx =>
      -- remove_relay(cid, destroy=payload.reason): reason 0 is falsy, nothing is forwarded then
      (rmRelays n cid nx.next,
       if reason = 0 then [] else [Out.destroy nx.hop.addr n.self nx.next reason])
    | none => destroyLocal n signer cid

/-! ### API steps -/

/-- create_circuit + send_initial_create; the drawn id, first hop and identifier are inputs -/
def apiCreate (n : Node) (cid goal hopPeer hopAddr ident : Nat) : Node × List (Out B) :=
  let dh := n.freshKey
  let circ : Circ := ⟨goal, [], some ⟨hopPeer, hopAddr, dh⟩, ident, 0, false⟩
  let n1 : Node := { n with circuits := set n.circuits cid circ, nextKey := n.nextKey + 1 }
  sendMsg A n1 hopAddr cid (.create ident n.self dh)

/-- send_data over an own circuit -/
def apiSendData (n : Node) (cid dest tag : Nat) : Node × List (Out B) :=
  match get n.circuits cid with
  | some circ =>
    match circ.firstHop with
    | some fh => sendMsg A n fh.addr cid (.data dest 0 tag)
    | none => (n, [])
  | none => (n, [])

/-- an originator that does not follow send_extend: it sends an EXTEND of its own making over its circuit (any public
    key, any address - the address is not part of the model's message: where the CREATE goes is read back).  Nothing
    changes at the originator (no retry cache is created). -/
def apiSendExtend (n : Node) (cid ident pk : Nat) : Node × List (Out B) :=
  match get n.circuits cid with
  | some circ =>
    match circ.firstHop with
    | some fh => sendMsg A n fh.addr cid (.extend ident pk 0)
    | none => (n, [])
  | none => (n, [])

/-- TunnelExitSocket.tunnel_data: a datagram from outside arrives at exit socket `cid` -/
def apiTunnelData (n : Node) (cid org tag : Nat) : Node × List (Out B) :=
  match get n.exits cid with
  | some e => sendMsg A n e.hop.addr cid (.data 0 org tag)
  | none => (n, [])

/-- tunnel_data of an exit socket OBJECT that is no longer in the table (`hopAddr` is the object's own hop): send_cell
    looks the id up again and uses whatever entry it names now — or sends nothing -/
def apiStaleTunnelData (n : Node) (cid hopAddr org tag : Nat) : Node × List (Out B) :=
  sendMsg A n hopAddr cid (.data 0 org tag)

/-- a datagram from outside that looks like a message of the tunnel community itself (prefix + message id `mid`) arrives
    at exit socket `cid`: it travels back as DATA; at the originator on_data dispatches only registered ids, so it is
    modelled as a message no handler takes (`other`) -/
def apiTunnelNested (n : Node) (cid mid : Nat) : Node × List (Out B) :=
  match get n.exits cid with
  | some e => sendMsg A n e.hop.addr cid (.other (200 + mid))
  | none => (n, [])

def pingAll (n : Node) : List (Nat × Circ) → Node × List (Out B)
  | [] => (n, [])
  | (cid, c) :: t =>
    match (if c.closing then [] else c.hops) with
    | h :: _ =>
      let (n1, o1) := sendMsg A n h.addr cid (.ping 0)
      let (n2, o2) := pingAll n1 t
      (n2, o1 ++ o2)
    | [] => pingAll n t

/-- do_ping -/
def apiPing (n : Node) : Node × List (Out B) := pingAll A n n.circuits

/-- remove_circuit(cid, destroy=1) -/
def apiRemoveCircuit (n : Node) (cid : Nat) : Node × List (Out B) :=
  match get n.circuits cid with
  | some c =>
    (rmCircuit n cid,
     match c.firstHop with
     | some fh => [Out.destroy fh.addr n.self cid 1]
     | none => [])
  | none => (n, [])

/-- remove_exit_socket(cid, destroy=1) -/
def apiRemoveExit (n : Node) (cid : Nat) : Node × List (Out B) :=
  match get n.exits cid with
  | some e => (rmExit n cid, [Out.destroy e.hop.addr n.self cid 1])
  | none => (n, [])

/-- remove_relay(cid, destroy=1) followed by remove_relay(other, destroy=1) -/
def apiRemoveRelay (n : Node) (cid : Nat) : Node × List (Out B) :=
  match get n.relays cid with
  | some r =>
    match (if r.next = cid then none else get n.relays r.next) with
    | some r2 =>
      (rmRelays n cid r.next,
       [Out.destroy r.hop.addr n.self r.next 1, Out.destroy r2.hop.addr n.self r2.next 1])
    | none => (rmRelays n cid cid, [Out.destroy r.hop.addr n.self r.next 1])
  | none => (n, [])

/-- `do_remove`'s sweep removes the two directions of a relay route independently (`remove_relay(id, "no activity")`,
    or `destroy=True` over the traffic limit): one direction goes, the other stays behind as a *half-closed* route -/
def apiRemoveRelayHalf (n : Node) (cid : Nat) (destroy : Bool) : Node × List (Out B) :=
  match get n.relays cid with
  | some r =>
    (if n.defer then { n with doomed := n.doomed ++ [(1, cid)] } else { n with relays := del n.relays cid },
     if destroy then [Out.destroy r.hop.addr n.self r.next 1] else [])
  | none => (n, [])

/-- `Circuit.state == CIRCUIT_STATE_READY`: not closing and all `goal_hops` hops verified -/
def Circ.ready (c : Circ) : Bool := !c.closing && decide (c.goal ≤ c.hops.length)

/-- `TunnelEndpoint.send`'s choice among `find_circuits(hops=h, state=None)` (dict order): the first READY one -/
def pickReady (cs : List (Nat × Circ)) (h : Nat) : Option Nat :=
  (cs.find? (fun p => p.2.goal == h && p.2.ready)).map (·.1)

/-- `TunnelEndpoint.send` for an anonymized overlay: over the chosen READY circuit, else nothing leaves (the packet is
    queued; a new circuit is only started when no circuit of that length exists at all - not generated) -/
def apiEndpointSend (n : Node) (h dest tag : Nat) : Node × List (Out B) :=
  match pickReady n.circuits h with
  | some cid => apiSendData A n cid dest tag
  | none => (n, [])

/-! ### request-cache time-outs.  Every cache entry has its own timer in the code (CreatedRequestCache 60 s from
    join_circuit, CreateRequestCache 10 s from on_extend, RetryRequestCache 10 s from the CREATE/EXTEND); the model
    makes no assumption about their relative order: each expiry is an event of its own. -/
def expireCreated (n : Node) (cid : Nat) : Node := { n with created := n.created.filter (fun c => c != cid) }

def expireCreate (n : Node) (num : Nat) : Node := { n with creates := n.creates.filter (fun r => r.number != num) }

end

section
variable {B : Type} (A : Aead B)

/-- RetryRequestCache.on_timeout (+ retry_later): without alternatives (or tries) the circuit is removed, otherwise
    send_initial_create / send_extend is repeated with the next candidate (the pick is an input) -/
def expireRetry (n : Node) (cid : Nat) (ch : Choice) : Node × List (Out B) :=
  match get n.circuits cid with
  | none => (n, [])
  | some circ =>
    if circ.retry = 0 then (n, [])
    else
      match ch.ext with
      | none => (rmCircuit n cid, [])
      | some (pk, ident) =>
        let dh := n.freshKey
        match circ.hops with
        | [] =>
          let circ1 : Circ := { circ with unv := some ⟨pk, pk, dh⟩, retry := ident }
          sendMsg A { n with circuits := set n.circuits cid circ1, nextKey := n.nextKey + 1 } pk cid (.create ident n.self dh)
        | fh :: _ =>
          let circ1 : Circ := { circ with unv := some ⟨pk, 0, dh⟩, retry := ident }
          sendMsg A { n with circuits := set n.circuits cid circ1, nextKey := n.nextKey + 1 } fh.addr cid (.extend ident pk dh)

end

/-! ### HiddenTunnelCommunity.on_establish_intro: `intro_point_for` is keyed by the seeder key alone; a registration
    belongs to the exit socket it arrived on.  Kept apart from `Node` (not part of the correspondence run): the
    registrations are a list of (seeder key, exit socket id, info hash). -/
def onEstablishIntro (n : Node) (intros : List (Nat × Nat × Nat)) (cid pk infoHash : Nat) : List (Nat × Nat × Nat) :=
  if intros.any (fun r => r.1 == pk) then intros          -- "Already have an introduction point"
  else
    match get n.exits cid with
    | some _ => intros ++ [(pk, cid, infoHash)]
    | none => intros                                       -- KeyError, caught by the dispatcher

/-- remove_exit_socket override: registrations of that socket go with it -/
def dropIntros (intros : List (Nat × Nat × Nat)) (cid : Nat) : List (Nat × Nat × Nat) :=
  intros.filter (fun r => r.2.1 != cid)

/-- remove_exit_socket override, rendezvous side: `rendezvous_point_for` (cookie, exit socket id) loses EVERY cookie of
    the removed socket (a circuit may have registered several) -/
def dropCookies (cookies : List (Nat × Nat)) (cid : Nat) : List (Nat × Nat) :=
  cookies.filter (fun r => r.2 != cid)

/-! ### events of one node, as a single step function (used by the invariant theorems) -/
inductive Ev (B : Type) where
  | cell (src : Nat) (c : Cell B) (ch : Choice)
  | destroy (signer cid : Nat) (sigok : Bool) (reason : Nat)
  | create (cid goal hopPeer hopAddr ident : Nat)
  | sendData (cid dest tag : Nat)
  | tunnelData (cid org tag : Nat)
  | ping
  | rmCircuit (cid : Nat)
  | rmExit (cid : Nat)
  | rmRelay (cid : Nat)
  | openStep (cid : Nat)
  | expireCreated (cid : Nat)
  | expireCreate (num : Nat)
  | expireRetry (cid : Nat) (ch : Choice)
  | popCircuit (cid : Nat)
  | popRelay (cid : Nat)
  | popExit (cid : Nat)
  | joinRelease (k : Nat)

def step {B : Type} (A : Aead B) (n : Node) : Ev B → Node × List (Out B)
  | .cell src c ch => processCell A n src c ch
  | .destroy signer cid ok reason => onDestroy n signer cid ok reason
  | .create cid goal hp ha ident => apiCreate A n cid goal hp ha ident
  | .sendData cid dest tag => apiSendData A n cid dest tag
  | .tunnelData cid org tag => apiTunnelData A n cid org tag
  | .ping => apiPing A n
  | .rmCircuit cid => apiRemoveCircuit n cid
  | .rmExit cid => apiRemoveExit n cid
  | .rmRelay cid => apiRemoveRelay n cid
  | .openStep cid => openStep n cid
  | .expireCreated cid => (expireCreated n cid, [])
  | .expireCreate num => (expireCreate n num, [])
  | .expireRetry cid ch => expireRetry A n cid ch
  | .popCircuit cid => (popCircuit n cid, [])
  | .popRelay cid => (popRelay n cid, [])
  | .popExit cid => (popExit n cid, [])
  | .joinRelease k => joinRelease A n k

def run {B : Type} (A : Aead B) (n : Node) : List (Ev B) → Node
  | [] => n
  | e :: es => run A (step A n e).1 es

/-! ### the symbolic AEAD used by the driver (and as witness that the laws are satisfiable) -/
structure SymBody where
  layers : List (Nat × Dir)     -- outermost first
  msg : Option Msg              -- none = bytes that parse as nothing
  deriving DecidableEq, Repr

def sym : Aead SymBody where
  enc k d b := { b with layers := (k, d) :: b.layers }
  dec k d b :=
    match b.layers with
    | (k', d') :: rest => if k' = k ∧ d' = d then some { b with layers := rest } else none
    | [] => none
  plain m := ⟨[], some m⟩
  parse b := match b.layers with
    | [] => b.msg
    | _ => none

end Ipv8.C05
