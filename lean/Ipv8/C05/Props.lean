/-
  C05 — property theorems over the model of a tunnel node's routing tables (Model.lean).
  Every `theorem` in this file is an obligation of the check; helpers are in Lemmas.lean.

  All statements hold for EVERY node state `n` (not only reachable ones: any number of circuits, relay pairs and
  exit sockets, shared or not), every cell / sender / signer, every abstract AEAD `A`.  No AEAD law is needed for the
  single-step statements: "without the circuit's keys" is the hypothesis that decryption under the entry's keys
  fails (`ForeignCell`).  The path theorems use `AeadLaws` as an explicit hypothesis (instance: `sym_laws`).
-/
import Ipv8.C05.Lemmas

namespace Ipv8.C05

variable {B : Type} (A : Aead B)

/-! ## cells that name an unknown id, or a known id without that entry's keys, change nothing -/

/-- unknown id / exit id / own-circuit id / forward-relay id: the node state is literally unchanged and nothing is sent -/
theorem foreign_cell_noop (n : Node) (src : Nat) (c : Cell B) (ch : Choice) (h : ForeignCell A n c) :
    processCell A n src c ch = (n, []) := by
  obtain ⟨hp, h⟩ := h
  unfold processCell
  cases hr : get n.relays c.cid with
  | some nx =>
    simp only [hr] at h
    obtain ⟨hd, hdec⟩ := h
    simp [relayCell, Gen.relayRefused, hp, hd, hdec]
  | none =>
    simp only [hr] at h
    have : inCrypto A n c = none := by
      unfold inCrypto
      cases he : get n.exits c.cid with
      | some e => simp only [he] at h; simp [hp, h]
      | none =>
        cases hc : get n.circuits c.cid with
        | some circ =>
          simp only [he, hc] at h
          cases h with
          | inl h0 => simp [hp, h0]
          | inr h1 => simp [hp, h1]
        | none => simp [hp]
    simp [this]

/-- a backward relay re-encrypts blindly: whatever arrives under its id is sent on — but only to that entry's hop,
    relabelled with that entry's id; every other entry and every other table is untouched -/
theorem relay_routes_along_entry (n : Node) (src : Nat) (c : Cell B) (ch : Choice) (nx : Relay)
    (hr : get n.relays c.cid = some nx) :
    let r := processCell A n src c ch
    (r.2 = [] ∨ ∃ b, r.2 = [Out.cell nx.hop.addr { c with cid := nx.next, body := b }]) ∧
    r.1.circuits = n.circuits ∧ r.1.exits = n.exits ∧ r.1.created = n.created ∧ r.1.creates = n.creates ∧
    (∀ k, k ≠ c.cid → get r.1.relays k = get n.relays k) ∧
    (∃ cnt, get r.1.relays c.cid = some { nx with reCount := cnt }) := by
  simp only [processCell, hr, relayCell]
  split
  · exact ⟨Or.inl rfl, rfl, rfl, rfl, rfl, fun _ _ => rfl, nx.reCount, hr⟩
  · split
    · exact ⟨Or.inl rfl, rfl, rfl, rfl, rfl, fun _ _ => rfl, nx.reCount, hr⟩
    · rename_i b _
      refine ⟨Or.inr ⟨b, rfl⟩, rfl, rfl, rfl, rfl, ?_, nx.reCount + 1, ?_⟩
      · intro k hk; exact get_set_other _ _ _ _ hk
      · exact get_set_self _ _ _

/-- a cell flagged plaintext that is not a create/created is dropped, whatever id it names -/
theorem plaintext_noncreate_noop (n : Node) (src : Nat) (c : Cell B) (ch : Choice) (hp : c.plaintext = true)
    (hm : ∀ m, A.parse c.body = some m → m.noCrypto = false) :
    processCell A n src c ch = (n, []) := by
  unfold processCell
  cases hr : get n.relays c.cid with
  | some nx => simp [relayCell, Gen.relayRefused, hp]
  | none =>
    have hin : inCrypto A n c = some c.body := by
      unfold inCrypto
      cases get n.exits c.cid <;> cases get n.circuits c.cid <;> simp [hp]
    simp only [hin]
    cases hq : A.parse c.body with
    | none => rfl
    | some m =>
      have := hm m hq
      simp [Gen.cellRefused, hp, this]

/-- a CREATED whose identifier is not outstanding (neither a pending extension of this relay nor the pending hop of
    the named own circuit) changes nothing -/
theorem created_not_outstanding_noop (n : Node) (src : Nat) (c : Cell B) (ch : Choice)
    (ident key authPk dhRef : Nat) (hp : c.plaintext = true)
    (hm : A.parse c.body = some (.created ident key authPk dhRef))
    (h1 : popCreate n.creates ident c.cid = none)
    (h2 : ∀ circ, get n.circuits c.cid = some circ → ¬ (circ.retry ≠ 0 ∧ circ.retry = ident)) :
    processCell A n src c ch = (n, []) := by
  unfold processCell
  cases hr : get n.relays c.cid with
  | some nx => simp [relayCell, Gen.relayRefused, hp]
  | none =>
    have hin : inCrypto A n c = some c.body := by
      unfold inCrypto
      cases get n.exits c.cid <;> cases get n.circuits c.cid <;> simp [hp]
    simp only [hin, hm, Gen.cellRefused, Msg.isExtend, Msg.noCrypto, hp, handle, onCreated, h1, Bool.not_true, Bool.and_false,
      Bool.and_true, Bool.or_false, Bool.false_eq_true, Bool.not_false, if_false]
    cases hc : get n.circuits c.cid with
    | none => simp
    | some circ =>
      have := h2 circ hc
      simp [this]

/-- searching the 16-bit identifier space is futile: a CREATED that names a circuit id which is neither the id of a
    pending extension nor an own circuit is a no-op for EVERY identifier (the repaired on_created, cc86df2, requires the
    CREATED to name the circuit id this node created; before, any cell carrying the right 16 bits completed the
    extension) -/
theorem created_for_unknown_circuit_id_never_completes_an_extension (n : Node) (src : Nat) (c : Cell B) (ch : Choice)
    (ident key authPk dhRef : Nat) (hp : c.plaintext = true)
    (hm : A.parse c.body = some (.created ident key authPk dhRef))
    (hpend : ∀ rq ∈ n.creates, rq.toId ≠ c.cid) (hown : get n.circuits c.cid = none) :
    processCell A n src c ch = (n, []) := by
  have hnone : ∀ l : List CreateReq, (∀ rq ∈ l, rq.toId ≠ c.cid) → popCreate l ident c.cid = none := by
    intro l
    induction l with
    | nil => intro _; rfl
    | cons r t ih =>
      intro h
      have hr : ¬ (r.toId = c.cid) := fun hh => h r List.mem_cons_self hh
      simp [popCreate, Gen.createdMatches, hr, ih (fun rq hrq => h rq (List.mem_cons_of_mem _ hrq))]
  exact created_not_outstanding_noop A n src c ch ident key authPk dhRef hp hm (hnone _ hpend)
    (fun circ hc => by rw [hown] at hc; cases hc)

/-! ## a request to open a circuit under an id that is in use is refused -/

/-- on_create: an id present in circuits, relays or exit_sockets (or in the created-cache) is refused:
    no entry is replaced, no CREATED is sent -/
theorem create_in_use_refused (n : Node) (src cid ident pk dh : Nat)
    (h : n.inUse cid = true ∨ n.created.contains cid = true) :
    onCreate A n src cid ident pk dh = (n, []) := by
  unfold onCreate
  have hg : Gen.createRefused true (n.created.contains cid) (has n.circuits cid) (has n.relays cid) (has n.exits cid)
      = true := by
    rw [gen_createRefused]
    cases h with
    | inl h =>
      simp only [Node.inUse, Bool.or_eq_true] at h
      rcases h with (h | h) | h
      · exact Or.inr (Or.inl h)
      · exact Or.inr (Or.inr (Or.inl h))
      · exact Or.inr (Or.inr (Or.inr h))
    | inr h => exact Or.inl h
  rw [if_pos hg]

/-- the same at the datagram level: a plaintext CREATE cell for an id in use leaves the node unchanged -/
theorem create_cell_in_use_refused (n : Node) (src : Nat) (c : Cell B) (ch : Choice) (ident pk dh : Nat)
    (hp : c.plaintext = true) (hm : A.parse c.body = some (.create ident pk dh))
    (h : n.inUse c.cid = true ∨ n.created.contains c.cid = true) :
    processCell A n src c ch = (n, []) := by
  unfold processCell
  cases hr : get n.relays c.cid with
  | some nx => simp [relayCell, Gen.relayRefused, hp]
  | none =>
    have hin : inCrypto A n c = some c.body := by
      unfold inCrypto
      cases get n.exits c.cid <;> cases get n.circuits c.cid <;> simp [hp]
    simp only [hin, hm, Gen.cellRefused, Msg.isExtend, Msg.noCrypto, hp, handle, Bool.not_true, Bool.and_false, Bool.and_true,
      Bool.or_false, Bool.false_eq_true, Bool.not_false, if_false]
    simpa using create_in_use_refused A n src c.cid ident pk dh h

/-- join_circuit (whenever it runs: at once, or when an overridden should_join_circuit hook returns) only adds or
    re-writes the entry of the id it was asked for: every other exit entry, every relay and circuit stays -/
theorem join_touches_only_its_id (n : Node) (src cid ident pk dh : Nat) (k : Nat) (hk : k ≠ cid)
    (hc : get n.circuits cid = none) :
    let r := joinNow A n src cid ident pk dh
    get r.1.exits k = get n.exits k ∧ r.1.relays = n.relays ∧ r.1.circuits = n.circuits := by
  unfold joinNow joinCircuit
  split
  · exact ⟨rfl, rfl, rfl⟩
  · split
    · exact ⟨rfl, rfl, rfl⟩
    · dsimp only
      split
      · split
        · exact ⟨rfl, rfl, rfl⟩
        · exact ⟨get_set_other _ _ _ _ hk, rfl, rfl⟩
      · simp only [sendMsg, sendCell, mkCell, hc]
        split <;> exact ⟨get_set_other _ _ _ _ hk, rfl, rfl⟩

/-- and an accepted CREATE (fresh id) only adds: every existing entry is still there, unchanged -/
theorem create_fresh_only_adds (n : Node) (src cid ident pk dh : Nat) (k : Nat) (hk : k ≠ cid) :
    let r := onCreate A n src cid ident pk dh
    get r.1.exits k = get n.exits k ∧ r.1.relays = n.relays ∧ r.1.circuits = n.circuits := by
  unfold onCreate
  split
  · exact ⟨rfl, rfl, rfl⟩
  · rename_i hin
    have hc : get n.circuits cid = none := by
      rw [gen_createRefused] at hin
      cases hg : get n.circuits cid with
      | none => rfl
      | some x => exact absurd (Or.inr (Or.inl (by simp [has, hg]))) hin
    split
    · exact ⟨rfl, rfl, rfl⟩
    · exact join_touches_only_its_id A n src cid ident pk dh k hk hc

/-- an id that was taken while should_join_circuit was being awaited (by a second CREATE that passed the guards
    concurrently, by a relay pair completed meanwhile, by an own circuit) is refused when the hook returns: on_create
    checks the id AGAIN after the await (repaired code 82c67e3; generated guard `createRecheckRefused`) — nothing is
    replaced, no CREATED is sent -/
theorem join_after_id_taken_is_refused (n : Node) (src cid ident pk dh : Nat)
    (h : n.inUse cid = true ∨ n.created.contains cid = true) :
    joinNow A n src cid ident pk dh = (n, []) := by
  unfold joinNow
  have hg : Gen.createRecheckRefused (n.created.contains cid) (has n.circuits cid) (has n.relays cid) (has n.exits cid)
      = true := by
    rw [gen_createRecheckRefused]
    cases h with
    | inl h =>
      simp only [Node.inUse, Bool.or_eq_true] at h
      rcases h with (h | h) | h
      · exact Or.inr (Or.inl h)
      · exact Or.inr (Or.inr (Or.inl h))
      · exact Or.inr (Or.inr (Or.inr h))
    | inr h => exact Or.inl h
  rw [if_pos hg]

/-- independently of that re-check, join_circuit itself changes nothing for an id that already has a
    CreatedRequestCache: the cache is constructed (and refuses) BEFORE exit_sockets[id] is written — the GENERATED fact
    `gen_joinCacheFirst`; with the two statements swapped the first joiner's entry would be overwritten -/
theorem join_circuit_refuses_a_second_cache (n : Node) (src cid ident pk dh : Nat)
    (h : n.created.contains cid = true) :
    joinCircuit A n src cid ident pk dh = (n, []) := by
  unfold joinCircuit
  simp only [h, if_true, gen_joinCacheFirst]

/-- the join that runs first leaves exactly that mark: after a join that did anything, the id is in the created-cache,
    so both statements above apply to every later join of the same id -/
theorem join_marks_its_id (n : Node) (src cid ident pk dh : Nat)
    (hch : (joinNow A n src cid ident pk dh).1 ≠ n) :
    (joinNow A n src cid ident pk dh).1.created.contains cid = true := by
  unfold joinNow at hch ⊢
  split
  · rename_i hj; rw [if_pos hj] at hch; exact absurd rfl hch
  · rename_i hj
    rw [if_neg hj] at hch
    split
    · rename_i hj2; rw [if_pos hj2] at hch; exact absurd rfl hch
    · rename_i hj2
      rw [if_neg hj2] at hch
      unfold joinCircuit at hch ⊢
      by_cases hcr : n.created.contains cid = true
      · simp only [hcr, if_true, gen_joinCacheFirst] at hch
        exact absurd rfl hch
      · simp only [hcr, Bool.false_eq_true, if_false, sendMsg]
        rw [(sendCell_created A _ _ _ _)]
        simp

/-! ## a destroy removes an entry only if it is signed by the adjacent peer of that entry -/

/-- invalid signature, or a signer that is not the adjacent peer of an entry named `cid`: nothing happens -/
theorem destroy_unauthorised_noop (n : Node) (signer cid : Nat) (ok : Bool) (reason : Nat)
    (h : ¬ (ok = true ∧ Adjacent n signer cid)) :
    onDestroy (B := B) n signer cid ok reason = (n, []) := by
  unfold onDestroy
  cases ok with
  | false => rfl
  | true =>
    have h' : ¬ Adjacent n signer cid := fun a => h ⟨rfl, a⟩
    simp only [Adjacent, not_or, not_exists, not_and] at h'
    obtain ⟨hR, hE, hC⟩ := h'
    have hvia : viaRelay n signer cid = none := by
      unfold viaRelay
      try simp only [gen_destroyViaRelay, gen_destroyExit, gen_destroyCircuit]
      cases hr : get n.relays cid with
      | none => rfl
      | some nx =>
        cases hp : get n.relays nx.next with
        | none => simp [hp]
        | some pv =>
          have h0 : ¬ signer = pv.hop.peer := fun e => hR nx pv hr hp e.symm
          simp [hp, h0]
    have hcirc : destroyCircuit (B := B) n signer cid = (n, []) := by
      unfold destroyCircuit
      try simp only [gen_destroyViaRelay, gen_destroyExit, gen_destroyCircuit]
      cases hc : get n.circuits cid with
      | none => rfl
      | some c =>
        have h2 : ¬ (c.firstHop.map Hop.peer = some signer) := hC c hc
        simp only [h2, if_false]
    have hloc : destroyLocal (B := B) n signer cid = (n, []) := by
      unfold destroyLocal
      try simp only [gen_destroyViaRelay, gen_destroyExit, gen_destroyCircuit]
      cases he : get n.exits cid with
      | none => simpa using hcirc
      | some e =>
        have h1 : ¬ signer = e.hop.peer := fun e' => hE e he e'.symm
        simp only [h1, if_false]
        exact hcirc
    simp only [Bool.not_true, Bool.false_eq_true, if_false, hvia, hloc]

/-- a *half-closed* relay route (do_remove dropped the other direction) is removed by no destroy at all, whoever signs it:
    the only peer on record for the side the id belongs to went with the other half -/
theorem half_closed_relay_ignores_every_destroy (n : Node) (signer cid : Nat) (ok : Bool) (reason : Nat) (nx : Relay)
    (hr : get n.relays cid = some nx) (hp : get n.relays nx.next = none)
    (he : get n.exits cid = none) (hc : get n.circuits cid = none) :
    onDestroy (B := B) n signer cid ok reason = (n, []) := by
  apply destroy_unauthorised_noop
  rintro ⟨_, h⟩
  rcases h with ⟨nx', pv, h1, h2, _⟩ | ⟨e, h1, _⟩ | ⟨c, h1, _⟩
  · rw [hr] at h1
    cases h1
    rw [hp] at h2
    cases h2
  · rw [he] at h1
    cases h1
  · rw [hc] at h1
    cases h1

/-- removing one direction of a relay route touches only that id's relay entry (or only schedules it) -/
theorem half_removal_touches_only_its_id (n : Node) (cid : Nat) (d : Bool) :
    (apiRemoveRelayHalf (B := B) n cid d).1.exits = n.exits ∧ (apiRemoveRelayHalf (B := B) n cid d).1.circuits = n.circuits ∧
    ∀ k, k ≠ cid → get (apiRemoveRelayHalf (B := B) n cid d).1.relays k = get n.relays k := by
  unfold apiRemoveRelayHalf
  cases get n.relays cid with
  | none => exact ⟨rfl, rfl, fun _ _ => rfl⟩
  | some r =>
    dsimp only
    split
    · exact ⟨rfl, rfl, fun _ _ => rfl⟩
    · exact ⟨rfl, rfl, fun k hk => get_del_other _ _ _ hk⟩

/-- the circuit `TunnelEndpoint.send` picks for an anonymized overlay is one of the node's circuits of the wanted length
    that is READY: all its hops are verified and it is not closing.  A circuit that is still extending is never picked. -/
theorem endpoint_send_picks_only_a_ready_circuit (cs : List (Nat × Circ)) (h cid : Nat) (hp : pickReady cs h = some cid) :
    ∃ c, (cid, c) ∈ cs ∧ c.goal = h ∧ c.closing = false ∧ c.goal ≤ c.hops.length := by
  unfold pickReady at hp
  cases hf : cs.find? (fun p => p.2.goal == h && p.2.ready) with
  | none => rw [hf] at hp; cases hp
  | some p =>
    rw [hf] at hp
    simp only [Option.map_some, Option.some.injEq] at hp
    have hm := List.mem_of_find?_eq_some hf
    have hq := List.find?_some hf
    simp only [Circ.ready, Bool.and_eq_true, beq_iff_eq, Bool.not_eq_true', decide_eq_true_eq] at hq
    refine ⟨p.2, ?_, hq.1, hq.2.1, hq.2.2⟩
    rw [← hp]
    exact hm

/-- with no READY circuit of the wanted length nothing leaves the node and nothing changes -/
theorem endpoint_send_without_ready_circuit_sends_nothing (n : Node) (h dest tag : Nat) (hp : pickReady n.circuits h = none) :
    apiEndpointSend A n h dest tag = (n, []) := by
  unfold apiEndpointSend
  rw [hp]

example : pickReady [(5, ⟨2, [⟨1, 1, 1⟩], some ⟨2, 2, 2⟩, 0, 0, false⟩), (6, ⟨2, [⟨1, 1, 1⟩, ⟨2, 2, 2⟩], none, 0, 0, false⟩)] 2 = some 6 := by
  decide
example : pickReady [(5, ⟨2, [⟨1, 1, 1⟩], some ⟨2, 2, 2⟩, 0, 0, false⟩)] 2 = none := by decide

/-- whatever a destroy does, it only touches the entry it names (and, for a relay, its pair) and what it removes
    was authorised: each table is either unchanged or is the result of the removal (`rmRelays` / `rmExit` / `rmCircuit`:
    the entry is popped — or, with remove_tunnel_delay > 0, only scheduled: circuit closed, pop later) of exactly the
    entry whose adjacent peer signed -/
theorem destroy_only_by_neighbour (n : Node) (signer cid : Nat) (ok : Bool) (reason : Nat) :
    let r := onDestroy (B := B) n signer cid ok reason
    (r.1.relays = n.relays ∨
      (ok = true ∧ ∃ nx pv, get n.relays cid = some nx ∧ get n.relays nx.next = some pv ∧ pv.hop.peer = signer ∧
        r.1.relays = (rmRelays n cid nx.next).relays)) ∧
    (r.1.exits = n.exits ∨
      (ok = true ∧ ∃ e, get n.exits cid = some e ∧ e.hop.peer = signer ∧ r.1.exits = (rmExit n cid).exits)) ∧
    (r.1.circuits = n.circuits ∨
      (ok = true ∧ ∃ c, get n.circuits cid = some c ∧ c.firstHop.map Hop.peer = some signer ∧
        r.1.circuits = (rmCircuit n cid).circuits)) := by
  have hcirc : let r := destroyCircuit (B := B) n signer cid
      r.1.relays = n.relays ∧ r.1.exits = n.exits ∧
      (r.1.circuits = n.circuits ∨ ∃ c, get n.circuits cid = some c ∧ c.firstHop.map Hop.peer = some signer ∧
        r.1.circuits = (rmCircuit n cid).circuits) := by
    unfold destroyCircuit
    try simp only [gen_destroyViaRelay, gen_destroyExit, gen_destroyCircuit]
    cases hc : get n.circuits cid with
    | none => exact ⟨rfl, rfl, Or.inl rfl⟩
    | some c =>
      by_cases hsc : c.firstHop.map Hop.peer = some signer
      · dsimp only; rw [if_pos hsc]
        exact ⟨(rmCircuit_other n cid).1, (rmCircuit_other n cid).2, Or.inr ⟨c, rfl, hsc, rfl⟩⟩
      · dsimp only; rw [if_neg hsc]; exact ⟨rfl, rfl, Or.inl rfl⟩
  have hloc : let r := destroyLocal (B := B) n signer cid
      r.1.relays = n.relays ∧
      (r.1.exits = n.exits ∨ ∃ e, get n.exits cid = some e ∧ e.hop.peer = signer ∧ r.1.exits = (rmExit n cid).exits) ∧
      (r.1.circuits = n.circuits ∨ ∃ c, get n.circuits cid = some c ∧ c.firstHop.map Hop.peer = some signer ∧
        r.1.circuits = (rmCircuit n cid).circuits) := by
    unfold destroyLocal
    try simp only [gen_destroyViaRelay, gen_destroyExit, gen_destroyCircuit]
    cases he : get n.exits cid with
    | none => exact ⟨hcirc.1, Or.inl hcirc.2.1, hcirc.2.2⟩
    | some e =>
      by_cases hse : signer = e.hop.peer
      · dsimp only; rw [if_pos hse]
        exact ⟨(rmExit_other n cid).1, Or.inr ⟨e, rfl, hse.symm, rfl⟩, Or.inl (rmExit_other n cid).2⟩
      · dsimp only; rw [if_neg hse]; exact ⟨hcirc.1, Or.inl hcirc.2.1, hcirc.2.2⟩
  unfold onDestroy
  cases ok with
  | false => exact ⟨Or.inl rfl, Or.inl rfl, Or.inl rfl⟩
  | true =>
    simp only [Bool.not_true, Bool.false_eq_true, if_false]
    cases hv : viaRelay n signer cid with
    | none =>
      obtain ⟨h1, h2, h3⟩ := hloc
      refine ⟨Or.inl h1, ?_, ?_⟩
      · cases h2 with
        | inl h => exact Or.inl h
        | inr h => exact Or.inr ⟨trivial, h⟩
      · cases h3 with
        | inl h => exact Or.inl h
        | inr h => exact Or.inr ⟨trivial, h⟩
    | some nx =>
      refine ⟨Or.inr ⟨trivial, ?_⟩, Or.inl (rmRelays_other n cid nx.next).1, Or.inl (rmRelays_other n cid nx.next).2⟩
      unfold viaRelay at hv
      try simp only [gen_destroyViaRelay, gen_destroyExit, gen_destroyCircuit] at hv
      cases hr : get n.relays cid with
      | none => simp [hr] at hv
      | some nx' =>
        simp only [hr] at hv
        cases hp : get n.relays nx'.next with
        | none => simp [hp] at hv
        | some pv =>
          simp only [hp] at hv
          by_cases hs : signer = pv.hop.peer
          · simp only [hs, if_true, Option.some.injEq] at hv
            subst hv
            exact ⟨nx', pv, rfl, hp, hs.symm, rfl⟩
          · simp [hs] at hv

/-- remove_tunnel_delay > 0, part 1: a delayed pop removes a relay / exit entry only if a remove_* task for exactly that
    id is sleeping (`doomed`); without one the pop event changes nothing -/
theorem delayed_pop_needs_a_scheduled_removal (n : Node) (cid : Nat) :
    (n.doomed.contains (1, cid) = false → popRelay n cid = n) ∧
    (n.doomed.contains (2, cid) = false → popExit n cid = n) ∧
    (n.doomed.contains (0, cid) = false → popCircuit n cid = n) := by
  refine ⟨fun h => ?_, fun h => ?_, fun h => ?_⟩
  · unfold popRelay; rw [h]; rfl
  · unfold popExit; rw [h]; rfl
  · unfold popCircuit; rw [h]; rfl

/-- remove_tunnel_delay > 0, part 2: a destroy schedules removals only when it is authorised: with a bad signature or a
    signer that is not the adjacent peer of an entry named `cid`, no remove_* task is started (and by
    `destroy_unauthorised_noop` nothing else changes either); an accepted destroy schedules exactly the named relay pair,
    exit socket or circuit -/
theorem destroy_schedules_only_named_entries (n : Node) (signer cid : Nat) (ok : Bool) (reason : Nat) :
    let r := onDestroy (B := B) n signer cid ok reason
    r.1.doomed = n.doomed ∨
    (ok = true ∧ Adjacent n signer cid ∧
      ∃ extra, r.1.doomed = n.doomed ++ extra ∧ ∀ x ∈ extra, x.2 = cid ∨ ∃ nx, get n.relays cid = some nx ∧ x = (1, nx.next)) := by
  by_cases hauth : ok = true ∧ Adjacent n signer cid
  · right
    refine ⟨hauth.1, hauth.2, ?_⟩
    unfold onDestroy
    simp only [hauth.1, Bool.not_true, Bool.false_eq_true, if_false]
    cases hv : viaRelay n signer cid with
    | some nx =>
      have hnx : get n.relays cid = some nx := by
        unfold viaRelay at hv
        try simp only [gen_destroyViaRelay, gen_destroyExit, gen_destroyCircuit] at hv
        cases hr : get n.relays cid with
        | none => simp [hr] at hv
        | some nx' =>
          simp only [hr] at hv
          cases hp : get n.relays nx'.next with
          | none => simp [hp] at hv
          | some pv =>
            simp only [hp] at hv
            split at hv
            · cases hv; rfl
            · cases hv
      by_cases hd : n.defer = true
      · refine ⟨[(1, cid), (1, nx.next)], by simp [rmRelays, hd], ?_⟩
        intro x hx
        simp at hx
        cases hx with
        | inl h => exact Or.inl (by rw [h])
        | inr h => exact Or.inr ⟨nx, hnx, h⟩
      · exact ⟨[], by simp [rmRelays, hd], fun x hx => by cases hx⟩
    | none =>
      unfold destroyLocal destroyCircuit
      try simp only [gen_destroyViaRelay, gen_destroyExit, gen_destroyCircuit]
      by_cases hd : n.defer = true
      · cases he : get n.exits cid with
        | some e =>
          by_cases hs : signer = e.hop.peer
          · exact ⟨[(2, cid)], by simp [hs, rmExit, hd], fun x hx => by simp at hx; exact Or.inl (by rw [hx])⟩
          · simp only [hs, if_false]
            cases hc : get n.circuits cid with
            | none => exact ⟨[], by simp, fun x hx => by cases hx⟩
            | some c =>
              by_cases hp : c.firstHop.map Hop.peer = some signer
              · exact ⟨[(0, cid)], by simp [hp, rmCircuit, hd, hc], fun x hx => by simp at hx; exact Or.inl (by rw [hx])⟩
              · exact ⟨[], by simp [hp], fun x hx => by cases hx⟩
        | none =>
          cases hc : get n.circuits cid with
          | none => exact ⟨[], by simp, fun x hx => by cases hx⟩
          | some c =>
            by_cases hp : c.firstHop.map Hop.peer = some signer
            · exact ⟨[(0, cid)], by simp [hp, rmCircuit, hd, hc], fun x hx => by simp at hx; exact Or.inl (by rw [hx])⟩
            · exact ⟨[], by simp [hp], fun x hx => by cases hx⟩
      · refine ⟨[], ?_, fun x hx => by cases hx⟩
        simp only [List.append_nil]
        repeat' (first | rfl | split | simp only [rmExit, rmCircuit, hd])
  · left
    rw [destroy_unauthorised_noop n signer cid ok reason hauth]

/-! ## traffic leaves only through the exit entry it was keyed for; replies are bound to that entry -/

/-- FULL STATEMENT (fails for the code as it is, see `injected_cleartext_accepted_while_extending` below):
      "whatever is delivered on circuit X was wrapped by the holder of X's exit key (forward) resp. by X's exit
       (backward)".
    PROVED PART: a delivery (datagram leaving an exit socket, or data handed to the application at an originator) can only be
    caused by a non-plaintext cell that (1) names an id that is not a relay id of this node, (2) opens under the keys
    of the entry with THAT id (`inCrypto` uses the exit entry's key, else all hop keys of the own circuit) and
    (3) contains a DATA message; the delivery is the one `on_data` makes for that id -/
theorem delivery_authentic_partial (n : Node) (src : Nat) (c : Cell B) (ch : Choice) (o : Out B)
    (ho : o ∈ (processCell A n src c ch).2) (hl : o.isLog = true) :
    get n.relays c.cid = none ∧ c.plaintext = false ∧
    ∃ b dest org tag, inCrypto A n c = some b ∧ A.parse b = some (.data dest org tag) ∧
      o ∈ (onData (B := B) n src c.cid dest org tag).2 := by
  unfold processCell at ho
  cases hr : get n.relays c.cid with
  | some nx =>
    exfalso
    simp only [hr, relayCell] at ho
    repeat' (first | (simp at ho; done) | split at ho)
    all_goals (simp at ho; subst ho; simp [Out.isLog] at hl)
  | none =>
    simp only [hr] at ho
    cases hin : inCrypto A n c with
    | none => simp [hin] at ho
    | some b =>
      simp only [hin] at ho
      cases hq : A.parse b with
      | none => simp [hq] at ho
      | some m =>
        simp only [hq] at ho
        split at ho
        · simp at ho
        · rename_i h2
          rw [gen_cellRefused] at h2
          cases m with
            | data dest org tag =>
              have hp : c.plaintext = false := by
                cases hpt : c.plaintext with
                | false => rfl
                | true => exact absurd (Or.inr ⟨hpt, rfl⟩) h2
              exact ⟨rfl, hp, b, dest, org, tag, rfl, hq, ho⟩
            | create ident pk dh =>
              exact absurd hl (by simp [onCreate_noLog A _ _ _ _ _ _ o ho])
            | created ident key authPk dhRef =>
              exact absurd hl (by simp [onCreated_noLog A _ _ _ _ _ _ _ o ho])
            | extend ident pk dh =>
              exact absurd hl (by simp [onExtend_noLog A _ _ _ _ _ o ho])
            | extended ident key authPk dhRef =>
              exact absurd hl (by simp [onExtended_noLog A _ _ _ _ _ _ _ o ho])
            | ping ident =>
              exact absurd hl (by simp [onPing_noLog A _ _ _ _ o ho])
            | pong ident => simp [handle] at ho
            | other mid => simp [handle] at ho

/-- what `on_data` delivers for id `cid` is labelled `cid`: a datagram leaves through exit socket `cid` only if that
    socket exists and has its IPv4 transport open (otherwise the packet is parked, see the queue theorems below); data reaches the application
    labelled with circuit `cid` only if this node owns circuit `cid` and the cell came from its first hop -/
theorem on_data_labels (n : Node) (src cid dest org tag : Nat) (o : Out B)
    (ho : o ∈ (onData (B := B) n src cid dest org tag).2) :
    (o = Out.exitOut cid dest tag ∧ ∃ e, get n.exits cid = some e ∧ 2 ≤ e.phase) ∨
    (o = Out.rawIn cid org tag ∧ ∃ circ fh, get n.circuits cid = some circ ∧ circ.firstHop = some fh ∧ src = fh.addr) := by
  have hexit : o ∈ (if dest = 0 then (n, ([] : List (Out B))) else exitData n src cid dest tag).2 →
      (o = Out.exitOut cid dest tag ∧ ∃ e, get n.exits cid = some e ∧ 2 ≤ e.phase) := by
    intro h
    by_cases hd : dest = 0
    · simp [hd] at h
    · rw [if_neg hd] at h
      unfold exitData at h
      cases he : get n.exits cid with
      | none => simp [he] at h
      | some e =>
        simp only [he] at h
        split at h
        · simp at h
        · by_cases h0 : e.phase = 0
          · rw [if_pos h0] at h
            simp at h
          · rw [if_neg h0] at h
            by_cases h1 : e.phase = 1
            · rw [if_pos h1] at h
              simp at h
            · rw [if_neg h1] at h
              simp at h
              exact ⟨h, e, rfl, by omega⟩
  unfold onData at ho
  simp only [gen_dataOurs] at ho
  cases hc : get n.circuits cid with
  | none =>
    simp only [hc, has, get, Option.isSome, Bool.false_and] at ho
    exact Or.inl (hexit (by simpa using ho))
  | some circ =>
    cases hf : circ.firstHop with
    | none =>
      simp only [hc, hf, Bool.and_false] at ho
      exact Or.inl (hexit (by simpa using ho))
    | some fh =>
      by_cases hs : src = fh.addr
      · right
        simp [hc, hf, hs, has] at ho
        exact ⟨ho, circ, fh, rfl, hf, hs⟩
      · simp only [hc, hf, hs, decide_false, Bool.and_false] at ho
        exact Or.inl (hexit (by simpa using ho))

/-- return path (TunnelExitSocket.tunnel_data): what arrives from outside at exit socket `cid` is sent only to that
    socket's hop, labelled `cid`, under that socket's key in backward direction -/
theorem reply_bound_to_exit_entry (n : Node) (cid org tag : Nat) (e : ExitE)
    (he : get n.exits cid = some e) (hc : get n.circuits cid = none) :
    apiTunnelData A n cid org tag =
      (n, [Out.cell e.hop.addr ⟨cid, false, false, A.enc e.hop.key .bwd (A.plain (.data 0 org tag))⟩]) := by
  simp [apiTunnelData, he, sendMsg, sendCell, hc, mkCell, Msg.noCrypto, outCrypto]

/-! ## along a path (AEAD laws as hypothesis) -/

/-- one relay hop, forward: a cell that carries this entry's layer outermost is peeled once and sent to the entry's
    hop under the entry's next id — whatever else is in the tables (other circuits through the same relay) -/
theorem relay_forward_step (L : AeadLaws A) (n : Node) (src : Nat) (ch : Choice) (cid : Nat) (re : Bool) (inner : B)
    (nx : Relay) (hr : get n.relays cid = some nx) (hd : nx.dir = .fwd) (hre : re = false ∨ nx.reCount < maxRE) :
    (processCell A n src ⟨cid, false, re, A.enc nx.hop.key .fwd inner⟩ ch).2 =
      [Out.cell nx.hop.addr ⟨nx.next, false, re, inner⟩] := by
  have hcond : (re && decide (maxRE ≤ nx.reCount)) = false := by
    cases hre with
    | inl h => simp [h]
    | inr h => simp; intro _; omega
  have hg : Gen.relayRefused false re (decide (maxRE ≤ nx.reCount)) = false := by
    cases hb : Gen.relayRefused false re (decide (maxRE ≤ nx.reCount)) with
    | false => rfl
    | true => rw [gen_relayRefused] at hb; simp at hb; simp [hb.1, hb.2] at hcond
  simp [processCell, hr, relayCell, hd, L.dec_enc, hg]

/-- one relay hop, backward: one layer of this entry's key is added and the cell goes to the previous hop -/
theorem relay_backward_step (n : Node) (src : Nat) (ch : Choice) (cid : Nat) (re : Bool) (body : B)
    (nx : Relay) (hr : get n.relays cid = some nx) (hd : nx.dir = .bwd) (hre : re = false ∨ nx.reCount < maxRE) :
    (processCell A n src ⟨cid, false, re, body⟩ ch).2 =
      [Out.cell nx.hop.addr ⟨nx.next, false, re, A.enc nx.hop.key .bwd body⟩] := by
  have hcond : (re && decide (maxRE ≤ nx.reCount)) = false := by
    cases hre with
    | inl h => simp [h]
    | inr h => simp; intro _; omega
  have hg : Gen.relayRefused false re (decide (maxRE ≤ nx.reCount)) = false := by
    cases hb : Gen.relayRefused false re (decide (maxRE ≤ nx.reCount)) with
    | false => rfl
    | true => rw [gen_relayRefused] at hb; simp at hb; simp [hb.1, hb.2] at hcond
  simp [processCell, hr, relayCell, hd, hg]

/-- the exit: a DATA cell under the exit entry's key leaves through exactly that entry -/
theorem exit_step (L : AeadLaws A) (n : Node) (ch : Choice) (cid : Nat) (re : Bool) (e : ExitE) (dest org tag : Nat)
    (hr : get n.relays cid = none) (he : get n.exits cid = some e) (hc : get n.circuits cid = none)
    (hdest : dest ≠ 0) (hen : 2 ≤ e.phase) (src : Nat) :
    (processCell A n src ⟨cid, false, re, A.enc e.hop.key .fwd (A.plain (.data dest org tag))⟩ ch).2 =
      [Out.exitOut cid dest tag] := by
  have h0 : ¬ e.phase = 0 := by omega
  have h1 : ¬ e.phase = 1 := by omega
  have hp : (e.phase != 0) = true := by simp [h0]
  simp [processCell, hr, inCrypto, he, L.dec_enc, L.parse_plain, Msg.isExtend, Msg.noCrypto, handle, onData, hc,
    hdest, exitData, h0, h1, hp, Gen.cellRefused, Gen.dataOurs, Gen.exitDataRefuses, has]

/-- layers: what the originator puts on (first hop outermost) is exactly what the hops take off in order -/
theorem decryptAll_encryptAll (L : AeadLaws A) (d : Dir) (ks : List Nat) (b : B) :
    decryptAll A d ks (encryptAll A d ks b) = some b := by
  induction ks with
  | nil => rfl
  | cons k t ih => simp [decryptAll, encryptAll, L.dec_enc, ih]

/-- the originator: a reply that carries all its hops' backward layers, arriving from the first hop, is delivered
    labelled with this circuit's id -/
theorem originator_step (L : AeadLaws A) (n : Node) (ch : Choice) (cid : Nat) (re : Bool) (circ : Circ) (fh : Hop)
    (org tag : Nat) (hr : get n.relays cid = none) (he : get n.exits cid = none)
    (hc : get n.circuits cid = some circ) (hf : circ.firstHop = some fh) (hne : circ.hops ≠ []) :
    (processCell A n fh.addr
        ⟨cid, false, re, encryptAll A .bwd (circ.hops.map Hop.key) (A.plain (.data 0 org tag))⟩ ch).2 =
      [Out.rawIn cid org tag] := by
  simp [processCell, hr, inCrypto, he, hc, hne, decryptAll_encryptAll A L, L.parse_plain, Msg.isExtend, Msg.noCrypto,
    handle, onData, hf, Gen.cellRefused, Gen.dataOurs, has]


/-- FORWARD, any number of hops, any other circuits through the same relays: data onion-wrapped for the keys
    [k₁ … kₙ, k_exit] that enters at the first relay under the chain's first id is peeled once per relay, follows
    exactly the chain's ids, and leaves through the exit entry `last` of the final node — and through nothing else
    (the final node's outputs are exactly that one datagram).  The node states are arbitrary apart from the chain's
    own entries. -/
theorem forward_path (L : AeadLaws A) (rs : List (Node × Relay)) (ex : Node) (e : ExitE)
    (cid last : Nat) (re : Bool) (src dest org tag : Nat)
    (hchain : FwdChain re rs cid last)
    (hr : get ex.relays last = none) (he : get ex.exits last = some e) (hc : get ex.circuits last = none)
    (hdest : dest ≠ 0) (hen : 2 ≤ e.phase) :
    through A (rs.map Prod.fst) ex src
      ⟨cid, false, re, encryptAll A .fwd (rs.map (fun p => p.2.hop.key) ++ [e.hop.key]) (A.plain (.data dest org tag))⟩
      = some [Out.exitOut last dest tag] := by
  induction rs generalizing cid src with
  | nil =>
    simp only [FwdChain] at hchain
    subst hchain
    simp only [List.map_nil, List.nil_append, through, encryptAll]
    rw [exit_step A L ex {} cid re e dest org tag hr he hc hdest hen src]
  | cons p t ih =>
    obtain ⟨n, nx⟩ := p
    obtain ⟨h1, h2, h3, h4⟩ := hchain
    simp only [List.map_cons, List.cons_append, through, encryptAll]
    rw [relay_forward_step A L n src {} cid re _ nx h1 h2 h3]
    exact ih nx.next n.self h4

/-- BACKWARD: whatever body enters the chain (the exit's reply under k_exit) gains one backward layer per relay
    and arrives at the final node labelled with the chain's last id; with `originator_step` this is the delivery
    at the originator under its own circuit id -/
theorem backward_path (rs : List (Node × Relay)) (orig : Node) (cid last : Nat) (re : Bool) (src : Nat) (body : B)
    (hchain : BwdChain re rs cid last) :
    ∃ s, through A (rs.map Prod.fst) orig src ⟨cid, false, re, body⟩ =
      some (processCell A orig s
        ⟨last, false, re, (rs.map (fun p => p.2.hop.key)).foldl (fun b k => A.enc k .bwd b) body⟩ {}).2 := by
  induction rs generalizing cid src body with
  | nil =>
    simp only [BwdChain] at hchain
    subst hchain
    exact ⟨src, rfl⟩
  | cons p t ih =>
    obtain ⟨n, nx⟩ := p
    obtain ⟨h1, h2, h3, h4⟩ := hchain
    obtain ⟨s, hs⟩ := ih nx.next n.self (A.enc nx.hop.key .bwd body) h4
    refine ⟨s, ?_⟩
    simp only [List.map_cons, through, List.foldl_cons]
    rw [relay_backward_step A n src {} cid re body nx h1 h2 h3]
    exact hs

/-- the hypotheses of the path theorems are satisfiable (symbolic AEAD): a two-relay chain through nodes that also
    carry a second circuit; the data leaves through exit entry 700 of node 3 and nowhere else -/
example : through sym [exR1, exR2] exX 9 ⟨500, false, true, encryptAll sym .fwd [71, 72, 73] (sym.plain (.data 55 0 7))⟩
    = some [Out.exitOut 700 55 7] := by decide
example : FwdChain true [(exR1, ⟨600, ⟨2, 2, 71⟩, .fwd, 1⟩), (exR2, ⟨700, ⟨3, 3, 72⟩, .fwd, 1⟩)] 500 700 := by
  simp [FwdChain, exR1, exR2, Node.init, get, maxRE, Gen.maxRelayEarly]
/-- steady state: relays that have carried thousands of cells (relay_early budget long spent) still satisfy the
    chain hypothesis for unflagged cells, and the data still leaves through exit entry 700 only -/
example : FwdChain false [(exR1old, ⟨600, ⟨2, 2, 71⟩, .fwd, 4000⟩), (exR2, ⟨700, ⟨3, 3, 72⟩, .fwd, 1⟩)] 500 700 := by
  simp [FwdChain, exR1old, exR2, Node.init, get]
example : through sym [exR1old, exR2] exX 9 ⟨500, false, false, encryptAll sym .fwd [71, 72, 73] (sym.plain (.data 55 0 7))⟩
    = some [Out.exitOut 700 55 7] := by decide
/-- and the way back reaches the originator labelled with ITS id (500), not with any id of the other circuit -/
example : through sym [exR2, exR1] exO 3 ⟨700, false, false, sym.enc 73 .bwd (sym.plain (.data 0 44 8))⟩
    = some [Out.rawIn 500 44 8] := by decide
/-- a cell of the OTHER circuit (501, key 81) spliced under id 500 is a ForeignCell at relay 1 and changes nothing -/
example : ForeignCell sym exR1 ⟨500, false, false, encryptAll sym .fwd [81, 82] (sym.plain (.data 55 0 7))⟩ := by
  simp [ForeignCell, exR1, Node.init, get, sym, encryptAll]
example : processCell sym exR1 8 ⟨500, false, false, encryptAll sym .fwd [81, 82] (sym.plain (.data 55 0 7))⟩ {}
    = (exR1, []) := by decide
/-- a CREATE for id 700, in use at node 3, is refused; a destroy for 700 signed by peer 5 (not the hop, peer 2) too -/
example : exX.inUse 700 = true := by decide
example : onDestroy (B := SymBody) exX 5 700 true 1 = (exX, []) := by decide
example : (onDestroy (B := SymBody) exX 2 700 true 1).1.exits = [] := by decide


/-- NEGATION WITNESS for the full statement above (known finding `…third-party-data-delivered-while-extending`):
    the originator (node 9) has verified one hop of circuit 500 and that hop (node 1) already relays 600 ↔ 500.
    Anyone (source 7) sends an UNENCRYPTED data cell under id 600 to node 1; the relay adds its backward layer, the
    originator peels exactly that layer and hands the third party's data to the application as data of circuit 500.
    What is missing for the full statement: an end-to-end integrity field in the cell (nothing in the cell format
    tells the originator which hop produced the plaintext). -/
theorem injected_cleartext_accepted_while_extending :
    through sym [exR1] exO1 7 ⟨600, false, false, sym.plain (.data 0 44 8)⟩ = some [Out.rawIn 500 44 8] := by decide


/-! ## the exit sockets' queues (packets parked while a socket's transports are being opened) -/

/-- a DATA cell that has to wait is parked in the queue of the socket its id names, tagged with that id, and no
    other exit entry (queue, phase or hop) changes -/
theorem park_only_in_own_queue (n : Node) (src cid dest tag : Nat) :
    let r := exitData (B := B) n src cid dest tag
    (∀ k, k ≠ cid → get r.1.exits k = get n.exits k) ∧
    (∀ e e', get n.exits cid = some e → get r.1.exits cid = some e' →
        e'.hop = e.hop ∧ (e'.queue = e.queue ∨ e'.queue = pushQ e.queue (cid, dest, tag))) := by
  unfold exitData
  cases he : get n.exits cid with
  | none => exact ⟨fun _ _ => rfl, fun e _ h => by cases h⟩
  | some e =>
    have keep : (∀ k, k ≠ cid → get n.exits k = get n.exits k) ∧
        ∀ e0 e', some e = some e0 → get n.exits cid = some e' →
          e'.hop = e0.hop ∧ (e'.queue = e0.queue ∨ e'.queue = pushQ e0.queue (cid, dest, tag)) := by
      refine ⟨fun _ _ => rfl, ?_⟩
      intro e0 e' h0 h'
      rw [he] at h'
      cases h0; cases h'
      exact ⟨rfl, Or.inl rfl⟩
    dsimp only
    split
    · exact keep
    · split
      · refine ⟨fun k hk => get_set_other _ _ _ _ hk, ?_⟩
        intro e0 e' h0 h'
        cases h0
        rw [get_set_self] at h'
        cases h'
        exact ⟨rfl, Or.inr rfl⟩
      · split
        · refine ⟨fun k hk => get_set_other _ _ _ _ hk, ?_⟩
          intro e0 e' h0 h'
          cases h0
          rw [get_set_self] at h'
          cases h'
          exact ⟨rfl, Or.inr rfl⟩
        · exact keep

/-- the invariant "every parked packet sits in the queue of the socket whose id its cell carried" is preserved by
    EVERY step of a node: any cell from anybody, any destroy, every API call, every completion of a transport -/
theorem queue_own_step (n : Node) (e : Ev B) (hq : QueueOwn n) : QueueOwn (step A n e).1 := by
  cases e with
  | cell src c ch => exact processCell_qo A n src c ch hq
  | destroy signer cid ok reason => exact onDestroy_qo n signer cid ok reason hq
  | create cid goal hp ha ident =>
    exact qo_same (by simp only [step, apiCreate]; rw [sendMsg_exits]) hq
  | sendData cid dest tag =>
    refine qo_same ?_ hq
    simp only [step, apiSendData]
    repeat' (first | rfl | (rw [sendMsg_exits]) | split)
  | tunnelData cid org tag =>
    refine qo_same ?_ hq
    simp only [step, apiTunnelData]
    repeat' (first | rfl | (rw [sendMsg_exits]) | split)
  | ping => exact qo_same (pingAll_exits A n n.circuits) hq
  | rmCircuit cid =>
    refine qo_same ?_ hq
    simp only [step, apiRemoveCircuit]
    repeat' (first | rfl | exact rmCircuit_exits _ _ | split)
  | rmExit cid =>
    simp only [step, apiRemoveExit]
    split
    · exact rmExit_qo _ _ hq
    · exact hq
  | rmRelay cid =>
    refine qo_same ?_ hq
    simp only [step, apiRemoveRelay]
    repeat' (first | rfl | exact rmRelays_exits _ _ _ | split | dsimp only)
  | openStep cid => exact openStep_qo n cid hq
  | expireCreated cid => exact qo_same rfl hq
  | expireCreate num => exact qo_same rfl hq
  | expireRetry cid ch =>
    refine qo_same ?_ hq
    simp only [step, expireRetry]
    repeat' (first | rfl | exact rmCircuit_exits _ _ | (rw [sendMsg_exits]) | split | dsimp only)
  | popCircuit cid =>
    refine qo_same ?_ hq
    simp only [step, popCircuit]
    split <;> rfl
  | popRelay cid =>
    refine qo_same ?_ hq
    simp only [step, popRelay]
    split <;> rfl
  | popExit cid =>
    simp only [step, popExit]
    split
    · exact qo_del cid rfl hq
    · exact hq
  | joinRelease k =>
    simp only [step, joinRelease]
    split
    · exact hq
    · exact joinNow_qo A _ _ _ _ _ _ (qo_same rfl hq)

/-- … hence it holds after every history (unbounded, any interleaving of any number of circuits) from a node
    whose queues are empty, in particular from the initial node -/
theorem queue_own_history (n : Node) (es : List (Ev B)) (hq : QueueOwn n) : QueueOwn (run A n es) := by
  induction es generalizing n with
  | nil => exact hq
  | cons e t ih => exact ih _ (queue_own_step A n e hq)

/-- flushing socket X emits only what arrived on X: when `create_transports` of exit socket `cid` completes, every
    datagram that leaves does so through socket `cid` and was parked by a cell labelled `cid`; no other exit entry
    (in particular no other socket's queue) is touched -/
theorem flush_emits_only_own (n : Node) (cid : Nat) (hq : QueueOwn n) :
    let r := openStep (B := B) n cid
    (∀ o ∈ r.2, ∃ e dest tag, get n.exits cid = some e ∧ (cid, dest, tag) ∈ e.queue ∧ o = Out.exitOut cid dest tag) ∧
    (∀ k, k ≠ cid → get r.1.exits k = get n.exits k) ∧
    r.1.circuits = n.circuits ∧ r.1.relays = n.relays := by
  unfold openStep
  cases he : get n.exits cid with
  | none => exact ⟨(fun o ho => absurd ho List.not_mem_nil), fun _ _ => rfl, rfl, rfl⟩
  | some e =>
    dsimp only
    split
    · exact ⟨(fun o ho => absurd ho List.not_mem_nil), fun k hk => get_set_other _ _ _ _ hk, rfl, rfl⟩
    · split
      · refine ⟨?_, fun k hk => get_set_other _ _ _ _ hk, rfl, rfl⟩
        intro o ho
        simp only [List.mem_map] at ho
        obtain ⟨q, hqm, rfl⟩ := ho
        have h1 : q.1 = cid := hq (cid, e) (mem_of_get _ _ _ he) q hqm
        refine ⟨e, q.2.1, q.2.2, rfl, ?_, rfl⟩
        rw [← h1]
        exact hqm
      · exact ⟨(fun o ho => absurd ho List.not_mem_nil), fun _ _ => rfl, rfl, rfl⟩

/-- non-vacuity: two exit sockets of one node are opening at the same time, each with parked packets; completing
    socket 700 emits its own two packets and leaves socket 701's queue alone -/
example : QueueOwn exQ := by decide
example : (openStep (B := SymBody) exQ 700).2 = [Out.exitOut 700 55 1, Out.exitOut 700 56 2] := by decide
example : get (openStep (B := SymBody) exQ 700).1.exits 701 = get exQ.exits 701 := by decide
example : QueueOwn (Node.init 1) := by decide



/-! ## concurrent circuits: a cell keyed for another entry is a foreign cell (AEAD laws + distinct keys as hypotheses) -/

/-- at a relay shared by several circuits: a cell whose outermost layer was made for another key (or the other
    direction) — e.g. a cell of circuit Y presented under X's id — is a `ForeignCell` for X's forward entry, hence a
    complete no-op (`foreign_cell_noop`).  Key distinctness of different entries is the explicit hypothesis `hk`. -/
theorem cell_of_other_circuit_is_foreign_at_relay (L : AeadLaws A) (n : Node) (cid : Nat) (re : Bool) (nx : Relay)
    (k' : Nat) (d' : Dir) (inner : B) (hr : get n.relays cid = some nx) (hd : nx.dir = .fwd)
    (hk : ¬ (k' = nx.hop.key ∧ d' = .fwd)) :
    ForeignCell A n ⟨cid, false, re, A.enc k' d' inner⟩ := by
  refine ⟨rfl, ?_⟩
  simp only [hr]
  exact ⟨hd, dec_other_key_none L _ _ _ _ _ hk⟩

theorem cell_of_other_circuit_is_foreign_at_exit (L : AeadLaws A) (n : Node) (cid : Nat) (re : Bool) (e : ExitE)
    (k' : Nat) (d' : Dir) (inner : B) (hr : get n.relays cid = none) (he : get n.exits cid = some e)
    (hk : ¬ (k' = e.hop.key ∧ d' = .fwd)) :
    ForeignCell A n ⟨cid, false, re, A.enc k' d' inner⟩ := by
  refine ⟨rfl, ?_⟩
  simp only [hr, he]
  exact dec_other_key_none L _ _ _ _ _ hk

theorem cell_of_other_circuit_is_foreign_at_originator (L : AeadLaws A) (n : Node) (cid : Nat) (re : Bool) (circ : Circ)
    (h1 : Hop) (hs : List Hop) (k' : Nat) (d' : Dir) (inner : B) (hr : get n.relays cid = none)
    (he : get n.exits cid = none) (hc : get n.circuits cid = some circ) (hh : circ.hops = h1 :: hs)
    (hk : ¬ (k' = h1.key ∧ d' = .bwd)) :
    ForeignCell A n ⟨cid, false, re, A.enc k' d' inner⟩ := by
  refine ⟨rfl, ?_⟩
  simp only [hr, he, hc]
  right
  simp [hh, decryptAll, dec_other_key_none L _ _ _ _ _ hk]

/-- so, for any two entries with different keys, circuit Y's cell under X's id changes nothing and is not forwarded -/
theorem other_circuits_cell_noop_at_relay (L : AeadLaws A) (n : Node) (src cid : Nat) (re : Bool) (nx : Relay)
    (k' : Nat) (d' : Dir) (inner : B) (ch : Choice) (hr : get n.relays cid = some nx) (hd : nx.dir = .fwd)
    (hk : ¬ (k' = nx.hop.key ∧ d' = .fwd)) :
    processCell A n src ⟨cid, false, re, A.enc k' d' inner⟩ ch = (n, []) :=
  foreign_cell_noop A n src _ ch (cell_of_other_circuit_is_foreign_at_relay A L n cid re nx k' d' inner hr hd hk)

/-! ## id re-use over time: an extension completes only for the peer that asked for it -/

/-- `on_created` on a pending extension `rq`: if it changes the relay table or the exit table at all, the exit entry
    found under `rq.fromId` is the very entry the extension was requested on — same peer, same address, same
    session key (the code compares the hop's Peer object by identity; a session key is drawn per join_circuit, so
    equality of the recorded hop stands for object identity) — AND the id reserved for the next hop is not in use.
    Both facts come out of the GENERATED guard `Gen.createdRefused` (via `gen_createdRefused`). -/
theorem extension_completes_only_on_the_requesting_entry (n : Node) (cid ident key authPk dhRef : Nat) (ch : Choice)
    (rq : CreateReq) (rest : List CreateReq) (hpop : popCreate n.creates ident cid = some (rq, rest)) :
    let r := onCreated A n cid ident key authPk dhRef ch
    (r.1.relays = n.relays ∧ r.1.exits = n.exits ∧ r.2 = []) ∨
    (∃ e, get n.exits rq.fromId = some e ∧ e.hop = rq.peer ∧ n.inUse rq.toId = false) := by
  unfold onCreated
  simp only [hpop]
  split
  · exact Or.inl ⟨rfl, rfl, rfl⟩
  · rename_i hg
    rw [gen_createdRefused] at hg
    cases he : get n.exits rq.fromId with
    | none => exact Or.inl ⟨rfl, rfl, rfl⟩
    | some e =>
      right
      refine ⟨e, rfl, ?_, ?_⟩
      · by_cases hh : e.hop = rq.peer
        · exact hh
        · exact absurd (Or.inr (Or.inl (by simp [he, hh]))) hg
      · cases hu : n.inUse rq.toId with
        | false => rfl
        | true =>
          exfalso
          apply hg
          simp only [Node.inUse, Bool.or_eq_true] at hu
          rcases hu with (h | h) | h
          · exact Or.inr (Or.inr (Or.inl h))
          · exact Or.inr (Or.inr (Or.inr (Or.inl h)))
          · exact Or.inr (Or.inr (Or.inr (Or.inr h)))

/-- the route a relay has established cannot be replaced by a late answer to an earlier extend request of the same
    circuit: the conversion removes the exit socket under `rq.fromId` AT ONCE — with or without remove_tunnel_delay
    (`n.defer` is not consulted; this is the GENERATED constant `Gen.convertRemovesNow`, i.e. `remove_now=True` in the
    code) — so by the theorem above any later CREATED for a request with the same `fromId` finds no exit entry -/
theorem conversion_removes_the_exit_socket_at_once (n : Node) (cid ident key authPk dhRef : Nat) (ch : Choice)
    (rq : CreateReq) (rest : List CreateReq) (e : ExitE) (hpop : popCreate n.creates ident cid = some (rq, rest))
    (he : get n.exits rq.fromId = some e) (hsame : e.hop = rq.peer) (hfree : n.inUse rq.toId = false) :
    let r := onCreated A n cid ident key authPk dhRef ch
    get r.1.exits rq.fromId = none ∧ (get r.1.relays rq.fromId).isSome = true := by
  unfold onCreated
  simp only [Node.inUse, Bool.or_eq_false_iff] at hfree
  have hg : Gen.createdRefused (get n.exits rq.fromId).isSome
      (decide ((get n.exits rq.fromId).map ExitE.hop = some rq.peer))
      (has n.circuits rq.toId) (has n.relays rq.toId) (has n.exits rq.toId) = false := by
    cases hb : Gen.createdRefused (get n.exits rq.fromId).isSome
      (decide ((get n.exits rq.fromId).map ExitE.hop = some rq.peer))
      (has n.circuits rq.toId) (has n.relays rq.toId) (has n.exits rq.toId) with
    | false => rfl
    | true =>
      rw [gen_createdRefused] at hb
      simp [he, hsame, hfree.1.1, hfree.1.2, hfree.2] at hb
  simp only [hpop]
  rw [hg]
  simp only [Bool.false_eq_true, if_false, he, gen_convertRemovesNow, if_true]
  refine ⟨get_del_self _ _, ?_⟩
  unfold sendMsg
  rw [(sendCell_relays A _ _ _ _).1, get_set_self]
  rfl

/-- and whatever it does, it touches only the two ids of that extension: every other relay entry and every other exit
    entry is as before -/
theorem extension_touches_only_its_ids (n : Node) (cid ident key authPk dhRef : Nat) (ch : Choice)
    (rq : CreateReq) (rest : List CreateReq) (hpop : popCreate n.creates ident cid = some (rq, rest)) :
    let r := onCreated A n cid ident key authPk dhRef ch
    (∀ k, k ≠ rq.toId → k ≠ rq.fromId → get r.1.relays k = get n.relays k) ∧
    (∀ k, k ≠ rq.fromId → get r.1.exits k = get n.exits k) := by
  unfold onCreated
  simp only [hpop]
  split
  · exact ⟨fun _ _ _ => rfl, fun _ _ => rfl⟩
  · cases he : get n.exits rq.fromId with
    | none => exact ⟨fun _ _ _ => rfl, fun _ _ => rfl⟩
    | some e =>
      simp only [gen_convertRemovesNow, if_true]
      refine ⟨fun k h1 h2 => ?_, fun k h2 => ?_⟩
      · unfold sendMsg
        rw [(sendCell_relays A _ _ _ _).1]
        rw [get_set_other _ _ _ _ h2, get_set_other _ _ _ _ h1]
      · unfold sendMsg
        rw [get_del_other _ _ _ h2, (sendCell_relays A _ _ _ _).2]

/-- the extending side of "an id that is in use is never replaced": if the id reserved for the next hop has been
    taken meanwhile (by any of the three tables), the late CREATED installs nothing -/
theorem extension_never_overwrites_a_used_id (n : Node) (cid ident key authPk dhRef : Nat) (ch : Choice)
    (rq : CreateReq) (rest : List CreateReq) (hpop : popCreate n.creates ident cid = some (rq, rest))
    (huse : n.inUse rq.toId = true) :
    let r := onCreated A n cid ident key authPk dhRef ch
    r.1.relays = n.relays ∧ r.1.exits = n.exits ∧ r.1.circuits = n.circuits ∧ r.2 = [] := by
  have h := extension_completes_only_on_the_requesting_entry A n cid ident key authPk dhRef ch rq rest hpop
  unfold onCreated at h ⊢
  simp only [hpop] at h ⊢
  split
  · exact ⟨rfl, rfl, rfl, rfl⟩
  · rename_i hg
    rw [gen_createdRefused] at hg
    exfalso
    apply hg
    simp only [Node.inUse, Bool.or_eq_true] at huse
    rcases huse with (h1 | h1) | h1
    · exact Or.inr (Or.inr (Or.inl h1))
    · exact Or.inr (Or.inr (Or.inr (Or.inl h1)))
    · exact Or.inr (Or.inr (Or.inr (Or.inr h1)))

/-- the created-cache does NOT protect an id for as long as an extension of it is pending: the two caches expire
    independently (60 s from join_circuit vs 10 s from on_extend).  Witness: `exP` (exit 700 gone, extension pending,
    id still in the created-cache) loses the created-cache entry first; a third party's CREATE for 700 is then
    ACCEPTED … -/
theorem partial_expiry_reopens_id :
    PendingCovered exP ∧ ¬ PendingCovered (expireCreated exP 700) ∧
    (get (onCreate sym (expireCreated exP 700) 8 700 5 8 0).1.exits 700).isSome = true := by
  refine ⟨?_, ?_, by decide⟩
  · intro rq h
    simp [exP, Node.init] at h
    subst h
    decide
  · intro h
    have := h ⟨5, 9, 900, 700, ⟨2, 2, 0⟩, ⟨4, 4, 0⟩⟩ (by simp [exP, expireCreated, Node.init])
    revert this
    decide

/-- … but the late CREATED of the old extension (requested on the hop ⟨peer 2, address 2⟩) leaves the newcomer's exit
    entry (peer 8) alone: it stays an exit socket with its own key, no relay entry appears, nothing is sent … -/
theorem late_created_spares_the_new_owner :
    let n1 := (onCreate sym (expireCreated exP 700) 8 700 5 8 0).1
    let r := onCreated sym n1 900 5 4444 4 0 {}
    r.1.relays = [] ∧ get r.1.exits 700 = get n1.exits 700 ∧ r.2 = [] := by decide

/-- … and the same holds for an impostor: the CREATE comes from address 8 but claims peer 2's public key (the key in a
    CREATE is self-declared).  Comparing public keys would let it pass; the entry is a different one. -/
theorem late_created_spares_an_impostor_claiming_the_old_key :
    let n1 := (onCreate sym (expireCreated exP 700) 8 700 5 2 0).1
    let r := onCreated sym n1 900 5 4444 4 0 {}
    (get n1.exits 700).map (fun e => e.hop.peer) = some 2 ∧
    r.1.relays = [] ∧ get r.1.exits 700 = get n1.exits 700 ∧ r.2 = [] := by decide

/-! ## introduction points (hidden services): a registration is only ever made for a key nobody holds yet -/

/-- whatever circuit an establish-intro arrives on and whatever info hash it names, the registrations of every seeder
    key that is already registered stay exactly as they are (same exit socket, same info hash): a second circuit cannot
    take over, or re-label, the introduction point of another circuit -/
theorem intro_point_is_first_come (n : Node) (intros : List (Nat × Nat × Nat)) (cid pk infoHash : Nat) :
    (∀ r ∈ intros, r ∈ onEstablishIntro n intros cid pk infoHash) ∧
    (∀ r ∈ onEstablishIntro n intros cid pk infoHash, r ∈ intros ∨
        (r = (pk, cid, infoHash) ∧ (∀ q ∈ intros, q.1 ≠ pk) ∧ (get n.exits cid).isSome = true)) := by
  unfold onEstablishIntro
  by_cases h : intros.any (fun r => r.1 == pk) = true
  · simp only [h, if_true]
    exact ⟨fun r hr => hr, fun r hr => Or.inl hr⟩
  · simp only [h, if_false]
    have hno : ∀ q ∈ intros, q.1 ≠ pk := by
      intro q hq hqe
      apply h
      simp only [List.any_eq_true]
      exact ⟨q, hq, by simp [hqe]⟩
    cases he : get n.exits cid with
    | none => exact ⟨fun r hr => hr, fun r hr => Or.inl hr⟩
    | some e =>
      refine ⟨fun r hr => List.mem_append_left _ hr, fun r hr => ?_⟩
      rcases List.mem_append.mp hr with h1 | h1
      · exact Or.inl h1
      · exact Or.inr ⟨List.mem_singleton.mp h1, hno, rfl⟩

example : onEstablishIntro exX [(77, 700, 5)] 700 77 6 = [(77, 700, 5)] := by decide
example : onEstablishIntro exQ [(77, 700, 5)] 701 77 6 = [(77, 700, 5)] := by decide
example : onEstablishIntro exQ [(77, 700, 5)] 701 78 6 = [(77, 700, 5), (78, 701, 6)] := by decide

/-- removing an exit socket leaves no introduction point and no rendezvous cookie that still names its id (so the next
    circuit that gets the id inherits nothing), and the registrations of every other socket are kept -/
theorem removed_socket_leaves_no_registration (intros : List (Nat × Nat × Nat)) (cookies : List (Nat × Nat)) (cid : Nat) :
    (∀ r ∈ dropIntros intros cid, r.2.1 ≠ cid) ∧ (∀ r ∈ dropCookies cookies cid, r.2 ≠ cid) ∧
    (∀ r ∈ intros, r.2.1 ≠ cid → r ∈ dropIntros intros cid) ∧ (∀ r ∈ cookies, r.2 ≠ cid → r ∈ dropCookies cookies cid) := by
  refine ⟨?_, ?_, ?_, ?_⟩ <;> intro r hr
  · simp [dropIntros] at hr; exact hr.2
  · simp [dropCookies] at hr; exact hr.2
  · intro h; simp [dropIntros, hr, h]
  · intro h; simp [dropCookies, hr, h]

/-! ## the remaining generated guards, tied to the model's functions -/

/-- the model's `noCrypto` (may carry the plaintext flag) and `isExtend` (subject to the relay_early rule) are what
    payload.py's NO_CRYPTO_PACKETS and ExtendPayload.msg_id say today -/
theorem message_classes_match_generated (m : Msg) (h : ∀ mid, m = .other mid → mid ∉ [1, 2, 3, 4, 5, 6, 7]) :
    m.noCrypto = Gen.noCryptoIds.contains m.id ∧ m.isExtend = (m.id == 4) := by
  cases m with
  | other mid =>
    have := h mid rfl
    simp only [List.mem_cons, List.not_mem_nil, or_false, not_or] at this
    obtain ⟨h1, h2, h3, h4, h5, h6, h7⟩ := this
    simp [Msg.noCrypto, Msg.isExtend, Msg.id, Gen.noCryptoIds, h2, h3, h4]
  | _ => simp [Msg.noCrypto, Msg.isExtend, Msg.id, Gen.noCryptoIds, Gen.msgIdData, Gen.msgIdCreate, Gen.msgIdCreated,
      Gen.msgIdExtend, Gen.msgIdExtended, Gen.msgIdPing, Gen.msgIdPong]

/-- incoming_crypto: whenever the GENERATED refusal (unknown id, or own circuit without verified hops, not flagged
    plaintext) fires, the model's `inCrypto` hands nothing on -/
theorem incoming_crypto_refusal_matches_generated (n : Node) (c : Cell B)
    (h : Gen.inCryptoRefuses (has n.circuits c.cid) (has n.exits c.cid) c.plaintext
          (match get n.circuits c.cid with | some circ => !circ.hops.isEmpty | none => false) = true) :
    inCrypto A n c = none := by
  unfold inCrypto
  cases he : get n.exits c.cid with
  | some e => simp [Gen.inCryptoRefuses, has, he] at h
  | none =>
    cases hc : get n.circuits c.cid with
    | none =>
      simp [Gen.inCryptoRefuses, has, he, hc] at h
      simp [h]
    | some circ =>
      simp [Gen.inCryptoRefuses, has, he, hc] at h
      simp [h.1, h.2]

/-- outgoing_crypto: whenever the GENERATED refusal (not flagged plaintext and no keys: own circuit without hops, or an
    id with no entry at all) fires, the model sends nothing -/
theorem outgoing_crypto_refusal_matches_generated (n : Node) (c : Cell B)
    (h : Gen.outCryptoRefuses c.plaintext (has n.circuits c.cid)
          (match get n.circuits c.cid with | some circ => !circ.hops.isEmpty | none => false)
          (has n.exits c.cid) (has n.relays c.cid) = true) :
    outCrypto A n c = none := by
  unfold outCrypto
  cases hc : get n.circuits c.cid with
  | some circ =>
    simp [Gen.outCryptoRefuses, has, hc] at h
    simp [h.1, h.2]
  | none =>
    simp [Gen.outCryptoRefuses, has, hc] at h
    obtain ⟨hp, he, hr⟩ := h
    cases he' : get n.exits c.cid with
    | some e => simp [he'] at he
    | none =>
      cases hr' : get n.relays c.cid with
      | some r => simp [hr'] at hr
      | none => simp [hp]

/-! ## any number of third-party events, in any order -/

/-- every single foreign event is a no-op on the whole node state -/
theorem foreign_event_noop (n : Node) (e : Ev B) (h : ForeignEv A n e) : step A n e = (n, []) := by
  cases h with
  | cell src c ch hf => exact foreign_cell_noop A n src c ch hf
  | plain src c ch hp hm => exact plaintext_noncreate_noop A n src c ch hp hm
  | createInUse src c ch ident pk dh hp hm hu => exact create_cell_in_use_refused A n src c ch ident pk dh hp hm hu
  | createdStale src c ch ident key authPk dhRef hp hm h1 h2 =>
    exact created_not_outstanding_noop A n src c ch ident key authPk dhRef hp hm h1 h2
  | destroy signer cid ok reason hd => exact destroy_unauthorised_noop n signer cid ok reason hd

/-- unbounded: after ANY sequence of forged cells (unknown ids, known ids without keys, spliced cells, plaintext
    non-creates, CREATEs for ids in use, stale CREATEDs) and unauthorised destroys the node is exactly as before -/
theorem foreign_history_noop (n : Node) (es : List (Ev B)) (h : ∀ e ∈ es, ForeignEv A n e) : run A n es = n := by
  induction es with
  | nil => rfl
  | cons e t ih =>
    have he := foreign_event_noop A n e (h e (List.mem_cons_self))
    simp only [run, he]
    exact ih (fun e' he' => h e' (List.mem_cons_of_mem _ he'))

end Ipv8.C05
