/-
  C19 — helper lemmas (core Lean only).
-/
import Ipv8.C19.Model

namespace Ipv8.C19

/-- a workload made only of insert calls of the checked shape (no `with db:` blocks) -/
def TopLevel (W : List Call) : Prop := ∀ c ∈ W, wfInsertPath c.ops = true

/-- committed and connection image coincide, commits are not deferred -/
def Clean (db : Db) : Prop := db.work = db.durable ∧ db.defer = 0

theorem wf_shape {ops : List Prim} (h : wfInsertPath ops = true) :
    ∃ t pol, pol ≠ Policy.replace ∧ ops = [.exec t pol, .callCommit, .ret] := by
  unfold wfInsertPath at h
  split at h
  · rename_i t pol
    exact ⟨t, pol, by simpa using h, rfl⟩
  · cases h

theorem wfCommit_idle {C : CommitMethod} (h : wfCommit C = true) : C.idle = [.connCommit, .ret] := by
  simp [wfCommit] at h; exact h.1

theorem wfCommit_deferred {C : CommitMethod} (h : wfCommit C = true) : C.deferred = [.incPending, .ret] := by
  simp [wfCommit] at h; exact h.2

theorem visible_eq (db : Db) : visible db = db.durable := rfl

theorem specFrom_snoc (st : List Row × List Nat) (W : List Call) (c : Call) :
    specFrom st (W ++ [c]) = specStep (specFrom st W) c := by
  simp [specFrom, List.foldl_append]

theorem spec_snoc (W : List Call) (c : Call) : spec (W ++ [c]) = specStep (spec W) c :=
  specFrom_snoc _ W c

theorem specStep_shape (st : List Row × List Nat) (c : Call) (t : Nat) (pol : Policy) (rest : List Prim)
    (h : c.ops = .exec t pol :: rest) :
    specStep st c = match insertRow pol ⟨t, c.key, c.val⟩ st.1 with
      | some rows => (rows, st.2 ++ [c.id])
      | none => st := by
  simp only [specStep, callExec, h]
  cases insertRow pol ⟨t, c.key, c.val⟩ st.1 <;> rfl

/-- crash inside a well-formed insert issued on a clean store: the four possible positions -/
theorem runPrims_wf (C : CommitMethod) (hC : wfCommit C = true) (c : Call) (t : Nat) (pol : Policy)
    (db : Db) (hdb : Clean db) (j : Nat) :
    runPrims C c j [.exec t pol, .callCommit, .ret] db =
      match insertRow pol ⟨t, c.key, c.val⟩ db.durable with
      | none => db
      | some w =>
        match j with
        | 0 => db
        | 1 => { db with work := w }
        | 2 => { db with work := w, durable := w }
        | _ + 3 => { db with work := w, durable := w, acks := db.acks ++ [c.id] } := by
  obtain ⟨hw, hd⟩ := hdb
  have hi := wfCommit_idle hC
  cases hins : insertRow pol ⟨t, c.key, c.val⟩ db.durable with
  | none =>
    match j with
    | 0 => simp [runPrims]
    | j + 1 => simp [runPrims, stepPrim, hw, hins]
  | some w =>
    match j with
    | 0 => simp [runPrims]
    | 1 => simp [runPrims, stepPrim, hw, hins]
    | 2 => simp [runPrims, stepPrim, hw, hins, doCommit, hd, hi, commitBody]
    | j + 3 => simp [runPrims, stepPrim, hw, hins, doCommit, hd, hi, commitBody]

/-- a complete well-formed insert on a clean store is one step of the reference semantics -/
theorem runCall_wf (C : CommitMethod) (hC : wfCommit C = true) (c : Call) (hc : wfInsertPath c.ops = true)
    (db : Db) (hdb : Clean db) :
    runCall C db c =
      { durable := (specStep (db.durable, db.acks) c).1, work := (specStep (db.durable, db.acks) c).1,
        defer := 0, acks := (specStep (db.durable, db.acks) c).2 } := by
  obtain ⟨t, pol, _, hops⟩ := wf_shape hc
  have h := runPrims_wf C hC c t pol db hdb 3
  obtain ⟨hw, hd⟩ := hdb
  rw [runCall, hops]
  simp only [List.length_cons, List.length_nil] at *
  rw [h, specStep_shape _ c t pol _ hops]
  cases hins : insertRow pol ⟨t, c.key, c.val⟩ db.durable with
  | none => cases db; simp_all
  | some w => simp [hd]

theorem runCalls_wf (C : CommitMethod) (hC : wfCommit C = true) (W : List Call) (hW : TopLevel W) :
    ∀ (db : Db), Clean db →
      runCalls C W db =
        { durable := (W.foldl specStep (db.durable, db.acks)).1, work := (W.foldl specStep (db.durable, db.acks)).1,
          defer := 0, acks := (W.foldl specStep (db.durable, db.acks)).2 } := by
  induction W with
  | nil =>
    intro db hdb
    obtain ⟨hw, hd⟩ := hdb
    cases db; simp_all [runCalls]
  | cons c cs ih =>
    intro db hdb
    have hc : wfInsertPath c.ops = true := hW c (by simp)
    have hcs : TopLevel cs := fun x hx => hW x (by simp [hx])
    have h1 := runCall_wf C hC c hc db hdb
    simp only [runCalls, List.foldl_cons] at ih ⊢
    rw [h1, ih hcs _ ⟨rfl, rfl⟩]

theorem runCalls_init (C : CommitMethod) (hC : wfCommit C = true) (W : List Call) (hW : TopLevel W) :
    runCalls C W Db.init = { durable := (spec W).1, work := (spec W).1, defer := 0, acks := (spec W).2 } := by
  have := runCalls_wf C hC W hW Db.init ⟨rfl, rfl⟩
  simpa [spec, specFrom, Db.init] using this

theorem topLevel_take {W : List Call} (hW : TopLevel W) (k : Nat) : TopLevel (W.take k) :=
  fun c hc => hW c (List.mem_of_mem_take hc)

theorem take_succ_getElem {α : Type} (W : List α) (k : Nat) (c : α) (h : W[k]? = some c) :
    W.take (k + 1) = W.take k ++ [c] := by
  rw [List.take_add_one, h]; rfl

/-! ### facts about `insertRow` without OR REPLACE: rows are only ever appended -/

theorem insertRow_mono {pol : Policy} (hp : pol ≠ .replace) {r : Row} {rows rows' : List Row}
    (h : insertRow pol r rows = some rows') : rows' = rows ∨ (hasKey rows r.table r.key = false ∧ rows' = rows ++ [r]) := by
  unfold insertRow at h
  split at h
  · cases pol <;> simp_all
  · right; simp_all

theorem hasKey_append (a b : List Row) (t k : Nat) : hasKey (a ++ b) t k = (hasKey a t k || hasKey b t k) := by
  simp [hasKey]

theorem insertRow_hasKey {pol : Policy} (hp : pol ≠ .replace) {r : Row} {rows rows' : List Row}
    (h : insertRow pol r rows = some rows') : hasKey rows' r.table r.key = true := by
  unfold insertRow at h
  split at h
  · rename_i hk
    cases pol <;> simp_all
  · simp at h; subst h; simp [hasKey, sameKey]

/-- one reference step keeps every stored row and every key (needs: no OR REPLACE) -/
theorem specStep_mono (st : List Row × List Nat) (c : Call) (hc : wfInsertPath c.ops = true) :
    ∃ extra, (specStep st c).1 = st.1 ++ extra := by
  obtain ⟨t, pol, hp, hops⟩ := wf_shape hc
  rw [specStep_shape st c t pol _ hops]
  cases hins : insertRow pol ⟨t, c.key, c.val⟩ st.1 with
  | none => exact ⟨[], by simp⟩
  | some rows =>
    rcases insertRow_mono hp hins with h | ⟨_, h⟩
    · exact ⟨[], by simp [h]⟩
    · exact ⟨[⟨t, c.key, c.val⟩], by simp [h]⟩

theorem foldl_specStep_mono (W : List Call) (hW : TopLevel W) :
    ∀ st : List Row × List Nat, ∃ extra, (W.foldl specStep st).1 = st.1 ++ extra := by
  induction W with
  | nil => intro st; exact ⟨[], by simp⟩
  | cons c cs ih =>
    intro st
    obtain ⟨e1, h1⟩ := specStep_mono st c (hW c (by simp))
    obtain ⟨e2, h2⟩ := ih (fun x hx => hW x (by simp [hx])) (specStep st c)
    exact ⟨e1 ++ e2, by simp [List.foldl_cons, h2, h1]⟩

/-- the reference content of a prefix is a list-prefix of the reference content of the whole workload -/
theorem spec_prefix (A B : List Call) (hB : TopLevel B) : ∃ extra, (spec (A ++ B)).1 = (spec A).1 ++ extra := by
  simp only [spec, specFrom, List.foldl_append]
  exact foldl_specStep_mono B hB _

/-! ### where rows come from, and which rows must be there -/

theorem rowOf_shape {c : Call} {t : Nat} {pol : Policy} {rest : List Prim} (h : c.ops = .exec t pol :: rest) :
    rowOf c = some ⟨t, c.key, c.val⟩ := by
  simp [rowOf, callExec, h]

/-- one reference step either leaves the table alone or appends exactly the call's record under a fresh key -/
theorem specStep_rows (st : List Row × List Nat) (c : Call) (hc : wfInsertPath c.ops = true) :
    (specStep st c).1 = st.1 ∨
    ∃ row, rowOf c = some row ∧ hasKey st.1 row.table row.key = false ∧ (specStep st c).1 = st.1 ++ [row] := by
  obtain ⟨t, pol, hp, hops⟩ := wf_shape hc
  rw [specStep_shape st c t pol _ hops]
  cases hins : insertRow pol ⟨t, c.key, c.val⟩ st.1 with
  | none => left; rfl
  | some rows =>
    rcases insertRow_mono hp hins with h | ⟨hk, h⟩
    · left; simp [h]
    · right; exact ⟨⟨t, c.key, c.val⟩, rowOf_shape hops, hk, by simp [h]⟩

/-- a fresh key is always stored, whatever the conflict clause -/
theorem specStep_fresh (st : List Row × List Nat) (c : Call) (hc : wfInsertPath c.ops = true) (row : Row)
    (hr : rowOf c = some row) (hk : hasKey st.1 row.table row.key = false) :
    (specStep st c).1 = st.1 ++ [row] ∧ (specStep st c).2 = st.2 ++ [c.id] := by
  obtain ⟨t, pol, hp, hops⟩ := wf_shape hc
  rw [rowOf_shape hops] at hr
  cases hr
  rw [specStep_shape st c t pol _ hops]
  simp only [insertRow]
  simp only [] at hk
  simp [hk]

/-- after an OR IGNORE insert the key is present (its own record or the earlier one) -/
theorem specStep_key (st : List Row × List Nat) (c : Call) (t : Nat) (rest : List Prim)
    (hops : c.ops = .exec t .orIgnore :: rest) : hasKey (specStep st c).1 t c.key = true := by
  rw [specStep_shape st c t .orIgnore _ hops]
  cases hins : insertRow .orIgnore ⟨t, c.key, c.val⟩ st.1 with
  | none => simp [insertRow] at hins; split at hins <;> simp at hins
  | some rows => exact insertRow_hasKey (by decide) hins

theorem foldl_specStep_origin (W : List Call) (hW : TopLevel W) :
    ∀ (st : List Row × List Nat) (r : Row), r ∈ (W.foldl specStep st).1 →
      r ∈ st.1 ∨ ∃ c ∈ W, rowOf c = some r := by
  induction W with
  | nil => intro st r h; left; simpa using h
  | cons c cs ih =>
    intro st r h
    rcases ih (fun x hx => hW x (by simp [hx])) (specStep st c) r (by simpa using h) with h1 | ⟨c', hc', hr⟩
    · rcases specStep_rows st c (hW c (by simp)) with e | ⟨row, hrow, _, e⟩
      · left; rw [e] at h1; exact h1
      · rw [e] at h1
        rcases List.mem_append.mp h1 with h2 | h2
        · left; exact h2
        · right; exact ⟨c, by simp, by simp at h2; rw [h2]; exact hrow⟩
    · right; exact ⟨c', by simp [hc'], hr⟩

/-- every stored record is the record of some call of the workload, complete -/
theorem spec_origin (W : List Call) (hW : TopLevel W) (r : Row) (h : r ∈ (spec W).1) :
    ∃ c ∈ W, rowOf c = some r := by
  rcases foldl_specStep_origin W hW ([], []) r (by simpa [spec, specFrom] using h) with h1 | h1
  · simp at h1
  · exact h1

theorem hasKey_exists {rows : List Row} {t k : Nat} (h : hasKey rows t k = true) :
    ∃ r ∈ rows, r.table = t ∧ r.key = k := by
  simp only [hasKey, List.any_eq_true, sameKey, Bool.and_eq_true, beq_iff_eq] at h
  exact h

theorem hasKey_of_mem {rows : List Row} {r : Row} (h : r ∈ rows) : hasKey rows r.table r.key = true := by
  simp only [hasKey, List.any_eq_true, sameKey, Bool.and_eq_true, beq_iff_eq]
  exact ⟨r, h, rfl, rfl⟩

theorem take_split {α : Type} (W : List α) (i m : Nat) (c : α) (hi : W[i]? = some c) (him : i < m) :
    ∃ rest, W.take m = W.take i ++ [c] ++ rest := by
  refine ⟨(W.take m).drop (i + 1), ?_⟩
  have h1 : (W.take m).take (i + 1) = W.take (i + 1) := by
    rw [List.take_take]; congr 1; omega
  have h2 := List.take_append_drop (i + 1) (W.take m)
  rw [h1, take_succ_getElem W i c hi] at h2
  exact h2.symm

theorem topLevel_append_right {A B : List Call} (h : TopLevel (A ++ B)) : TopLevel B :=
  fun c hc => h c (List.mem_append.mpr (Or.inr hc))

/-! ### dependencies between records (token → previous token, metadata → token, attestation → metadata) -/

/-- every stored record's dependency is stored too -/
def Closed (dep : Nat → Nat → Option (Nat × Nat)) (rows : List Row) : Prop :=
  ∀ r ∈ rows, ∀ d, dep r.table r.key = some d → hasKey rows d.1 d.2 = true

/-- the workload writes a record only after the record it points to (as the crash-free store would show it) -/
def Causal (dep : Nat → Nat → Option (Nat × Nat)) (W : List Call) : Prop :=
  ∀ i c, W[i]? = some c → ∀ row, rowOf c = some row → ∀ d, dep row.table row.key = some d →
    hasKey (spec (W.take i)).1 d.1 d.2 = true

/-- a chain of dependencies inside `rows` ends at a record without dependency (genesis), as TokenTree.verify walks it -/
inductive Reaches (dep : Nat → Nat → Option (Nat × Nat)) (rows : List Row) : Nat → Nat → Prop
  | genesis {t k : Nat} : hasKey rows t k = true → dep t k = none → Reaches dep rows t k
  | step {t k : Nat} {d : Nat × Nat} : hasKey rows t k = true → dep t k = some d → Reaches dep rows d.1 d.2 →
      Reaches dep rows t k

theorem Reaches.mono {dep : Nat → Nat → Option (Nat × Nat)} {rows : List Row} (extra : List Row) {t k : Nat}
    (h : Reaches dep rows t k) : Reaches dep (rows ++ extra) t k := by
  induction h with
  | genesis hk hd => exact .genesis (by simp [hasKey_append, hk]) hd
  | step hk hd _ ih => exact .step (by simp [hasKey_append, hk]) hd ih

theorem spec_closed_reaches (dep : Nat → Nat → Option (Nat × Nat)) (W : List Call) (hW : TopLevel W)
    (hC : Causal dep W) (n : Nat) :
    Closed dep (spec (W.take n)).1 ∧ ∀ r ∈ (spec (W.take n)).1, Reaches dep (spec (W.take n)).1 r.table r.key := by
  induction n with
  | zero => simp [spec, specFrom, Closed]
  | succ n ih =>
    cases hn : W[n]? with
    | none =>
      have hlen : W.length ≤ n := by simpa using hn
      have e1 : W.take (n + 1) = W.take n := by
        rw [List.take_of_length_le hlen, List.take_of_length_le (by omega)]
      rw [e1]; exact ih
    | some c =>
      have hc : wfInsertPath c.ops = true := hW c (List.mem_of_getElem? hn)
      rw [take_succ_getElem W n c hn, spec_snoc]
      rcases specStep_rows (spec (W.take n)) c hc with e | ⟨row, hrow, _, e⟩
      · rw [e]; exact ih
      · rw [e]
        obtain ⟨ihc, ihr⟩ := ih
        have hdep := hC n c hn row hrow
        constructor
        · intro r hr d hd
          rcases List.mem_append.mp hr with h | h
          · simp [hasKey_append, ihc r h d hd]
          · simp at h; subst h
            simp [hasKey_append, hdep d hd]
        · intro r hr
          rcases List.mem_append.mp hr with h | h
          · exact (ihr r h).mono _
          · simp at h; subst h
            have hk : hasKey ((spec (W.take n)).1 ++ [r]) r.table r.key = true :=
              hasKey_of_mem (List.mem_append.mpr (Or.inr (by simp)))
            cases hd : dep r.table r.key with
            | none => exact .genesis hk hd
            | some d =>
              obtain ⟨r', hr', ht, hkk⟩ := hasKey_exists (hdep d hd)
              have := (ihr r' hr').mono [r]
              rw [ht, hkk] at this
              exact .step hk hd this

/-! ### `open()` -/

theorem flags_eq_iff (s s' : OpenSt) :
    s.flags = s'.flags ↔ (s.option = s'.option ∧ s.version = s'.version ∧ s.ver = s'.ver ∧ s.col = s'.col) := by
  obtain ⟨tb, o, v, n, c⟩ := s
  obtain ⟨tb', o', v', n', c'⟩ := s'
  simp [OpenSt.flags]

/-- a statement behaves the same on two files that differ only in their record tables -/
theorem schemaStep_congr (s s' : OpenSt) (h : s.flags = s'.flags) (st : SchemaStmt) :
    (schemaStep s st).map OpenSt.flags = (schemaStep s' st).map OpenSt.flags := by
  obtain ⟨ho, hv, hn, hc⟩ := (flags_eq_iff s s').mp h
  obtain ⟨tb, o, v, n, c⟩ := s
  obtain ⟨tb', o', v', n', c'⟩ := s'
  simp only at ho hv hn hc
  subst ho hv hn hc
  cases st with
  | createTable t =>
    simp only [schemaStep, Option.map_some, Option.some.injEq]
    split <;> split <;> simp [OpenSt.flags]
  | createOption => rfl
  | deleteVersion => cases o <;> rfl
  | insertVersion m => cases o <;> cases v <;> rfl
  | upsertVersion m => cases o <;> rfl
  | setVersion m => cases o <;> cases v <;> rfl
  | alterAddCol => cases c <;> rfl
  | fillCol => cases c <;> rfl
  | begin => rfl
  | commit => rfl
  | other => rfl

def RunSt.Sim (r r' : RunSt) : Prop :=
  r.committed.flags = r'.committed.flags ∧ r.working.flags = r'.working.flags ∧ r.inTx = r'.inTx

theorem runTx_sim (l : List SchemaStmt) :
    ∀ r r' : RunSt, r.Sim r' → (runTx l r).1.Sim (runTx l r').1 ∧ (runTx l r).2 = (runTx l r').2 := by
  induction l with
  | nil => intro r r' h; exact ⟨h, rfl⟩
  | cons st rest ih =>
    intro r r' h
    obtain ⟨hc, hw, ht⟩ := h
    have step : ∀ (hb : st ≠ .begin) (hm : st ≠ .commit),
        (runTx (st :: rest) r).1.Sim (runTx (st :: rest) r').1 ∧ (runTx (st :: rest) r).2 = (runTx (st :: rest) r').2 := by
      intro hb hm
      have e : ∀ q : RunSt, runTx (st :: rest) q =
          match schemaStep q.working st with
          | none => (q, true)
          | some w => if q.inTx then runTx rest { q with working := w }
                      else runTx rest { committed := w, working := w, inTx := false } := by
        intro q; cases st <;> first | rfl | exact absurd rfl hb | exact absurd rfl hm
      rw [e r, e r']
      have hs := schemaStep_congr r.working r'.working hw st
      cases h1 : schemaStep r.working st with
      | none =>
        rw [h1] at hs
        cases h2 : schemaStep r'.working st with
        | none => exact ⟨⟨hc, hw, ht⟩, rfl⟩
        | some w' => rw [h2] at hs; simp at hs
      | some w =>
        rw [h1] at hs
        cases h2 : schemaStep r'.working st with
        | none => rw [h2] at hs; simp at hs
        | some w' =>
          rw [h2] at hs
          have hww : w.flags = w'.flags := by simpa using hs
          rw [← ht]
          by_cases hin : r.inTx = true
          · simp only [hin, ↓reduceIte]
            exact ih _ _ ⟨hc, hww, by simp [hin, ← ht]⟩
          · have hin' : r.inTx = false := by simpa using hin
            simp only [hin']
            exact ih _ _ ⟨hww, hww, rfl⟩
    cases st with
    | begin => exact ih _ _ ⟨hc, hc, rfl⟩
    | commit => exact ih _ _ ⟨hw, hw, rfl⟩
    | createTable t => exact step (by simp) (by simp)
    | createOption => exact step (by simp) (by simp)
    | deleteVersion => exact step (by simp) (by simp)
    | insertVersion n => exact step (by simp) (by simp)
    | upsertVersion n => exact step (by simp) (by simp)
    | setVersion n => exact step (by simp) (by simp)
    | alterAddCol => exact step (by simp) (by simp)
    | fillCol => exact step (by simp) (by simp)
    | other => exact step (by simp) (by simp)

theorem flags_idem (s : OpenSt) : s.flags.flags = s.flags := rfl

theorem fresh_sim (s s' : OpenSt) (h : s.flags = s'.flags) : (fresh s).Sim (fresh s') := ⟨h, h, rfl⟩

theorem openStmts_congr (cfg : OpenCfg) (s s' : OpenSt) (h : s.flags = s'.flags) : openStmts cfg s = openStmts cfg s' := by
  obtain ⟨ho, hv, hn, hc⟩ := (flags_eq_iff s s').mp h
  simp [openStmts, ho, hv, hn, hc]

theorem versionReadOk_congr (hd : List ExcKind) (s s' : OpenSt) (h : s.flags = s'.flags) :
    versionReadOk hd s = versionReadOk hd s' := by
  obtain ⟨ho, hv, _, _⟩ := (flags_eq_iff s s').mp h
  simp [versionReadOk, ho, hv]

theorem openKilled_congr (cfg : OpenCfg) (n : Nat) (s s' : OpenSt) (h : s.flags = s'.flags) :
    (openKilled cfg n s).flags = (openKilled cfg n s').flags := by
  unfold openKilled
  rw [versionReadOk_congr _ s s' h, openStmts_congr cfg s s' h]
  split
  · exact (runTx_sim _ _ _ (fresh_sim s s' h)).1.1
  · exact h

theorem openOk_congr (cfg : OpenCfg) (s s' : OpenSt) (h : s.flags = s'.flags) : openOk cfg s = openOk cfg s' := by
  unfold openOk
  rw [versionReadOk_congr _ s s' h, openStmts_congr cfg s s' h, (runTx_sim _ _ _ (fresh_sim s s' h)).2]

theorem openEnd_congr (cfg : OpenCfg) (s s' : OpenSt) (h : s.flags = s'.flags) :
    (openEnd cfg s).flags = (openEnd cfg s').flags := by
  unfold openEnd
  rw [openStmts_congr cfg s s' h]
  exact (runTx_sim _ _ _ (fresh_sim s s' h)).1.1

theorem take_mem_prefixes {α : Type} (l : List α) : ∀ n : Nat, l.take n ∈ prefixes l := by
  induction l with
  | nil => intro n; simp [prefixes]
  | cons a l ih =>
    intro n
    cases n with
    | zero => simp [prefixes]
    | succ n => simp only [List.take_succ_cons, prefixes, List.mem_cons, List.mem_map]; right; exact ⟨_, ih n, rfl⟩

theorem flags_mem_flagStates (s : OpenSt) (m : Nat) (h : s.ver ≤ m) : s.flags ∈ flagStates m := by
  obtain ⟨tb, o, v, n, c⟩ := s
  simp only [flagStates, OpenSt.flags, List.mem_flatMap, List.mem_map, List.mem_range]
  exact ⟨o, by cases o <;> simp, v, by cases v <;> simp, c, by cases c <;> simp, n, by simpa using Nat.lt_succ_of_le h, rfl⟩

/-- a store written by this or an older release (`ver ≤ maxVer`) can be opened whatever a kill left behind, also when
    the kill (or a raise) hit an earlier `open()` behind any statement of the upgrade or schema script; a completed
    open leaves the option table, the version row of the latest version and the upgraded record table -/
def OpenSafe (cfg : OpenCfg) (maxVer : Nat) : Prop :=
  ∀ (s : OpenSt) (n : Nat), s.ver ≤ maxVer → consistent cfg s = true →
    let s1 := openKilled cfg n s
    openOk cfg s1 = true ∧ (openEnd cfg s1).option = true ∧ (openEnd cfg s1).version = true ∧
      (openEnd cfg s1).ver = cfg.latest ∧ (openEnd cfg s1).col = true

theorem openSafe_of (cfg : OpenCfg) (maxVer : Nat) (h1 : flagsSafe cfg maxVer = true) : OpenSafe cfg maxVer := by
  intro s n hv hcons
  simp only [flagsSafe, List.all_eq_true, Bool.or_eq_true, Bool.not_eq_true'] at h1
  have hcf : consistent cfg s.flags = true := hcons
  have hf := (h1 s.flags (flags_mem_flagStates s maxVer hv)).resolve_left (by simp [hcf])
    ((openStmts cfg s.flags).take n) (take_mem_prefixes _ n)
  have hk : (if versionReadOk cfg.handlers s.flags then
      (runTx ((openStmts cfg s.flags).take n) (fresh s.flags)).1.committed else s.flags)
      = openKilled cfg n s.flags := rfl
  try dsimp only at hf
  rw [hk] at hf
  have hsim : (openKilled cfg n s).flags = (openKilled cfg n s.flags).flags :=
    openKilled_congr cfg n s s.flags (flags_idem s).symm
  rw [← openOk_congr cfg _ _ hsim] at hf
  have hend := (flags_eq_iff _ _).mp (openEnd_congr cfg _ _ hsim)
  obtain ⟨e1, e2, e3, e4⟩ := hend
  simp only [Bool.and_eq_true, beq_iff_eq] at hf
  obtain ⟨hok, ⟨⟨ho, hv2⟩, hver⟩, hc⟩ := hf
  exact ⟨hok, by rw [e1]; exact ho, by rw [e2]; exact hv2, by rw [e3]; exact hver, by rw [e4]; exact hc⟩

/-- the tables a schema script names exist after a run that did not raise -/
theorem schemaStep_tables_mono (s s' : OpenSt) (st : SchemaStmt) (h : schemaStep s st = some s') (t : Nat)
    (ht : t ∈ s.tables) : t ∈ s'.tables := by
  cases st <;> simp [schemaStep] at h
  case createTable u => subst h; split <;> simp [ht]
  case createOption => subst h; exact ht
  case deleteVersion => obtain ⟨_, h⟩ := h; subst h; exact ht
  case insertVersion m => obtain ⟨_, h⟩ := h; subst h; exact ht
  case upsertVersion m => obtain ⟨_, h⟩ := h; subst h; exact ht
  case setVersion m => obtain ⟨_, h⟩ := h; subst h; split <;> exact ht
  case alterAddCol => obtain ⟨_, h⟩ := h; subst h; exact ht
  case fillCol => obtain ⟨_, h⟩ := h; subst h; exact ht
  case begin => subst h; exact ht
  case commit => subst h; exact ht
  case other => subst h; exact ht

/-! ### one row per primary key -/

def KeysUnique (rows : List Row) : Prop :=
  rows.Pairwise (fun a b => ¬ (a.table = b.table ∧ a.key = b.key))

theorem hasKey_false {rows : List Row} {t k : Nat} (h : hasKey rows t k = false) :
    ∀ a ∈ rows, ¬ (a.table = t ∧ a.key = k) := by
  intro a ha hh
  have := hasKey_of_mem ha
  rw [hh.1, hh.2, h] at this
  cases this

theorem foldl_specStep_unique (W : List Call) (hW : TopLevel W) :
    ∀ st : List Row × List Nat, KeysUnique st.1 → KeysUnique (W.foldl specStep st).1 := by
  induction W with
  | nil => intro st h; exact h
  | cons c cs ih =>
    intro st h
    apply ih (fun x hx => hW x (by simp [hx]))
    rcases specStep_rows st c (hW c (by simp)) with e | ⟨row, _, hk, e⟩
    · rw [e]; exact h
    · rw [e]
      unfold KeysUnique
      rw [List.pairwise_append]
      refine ⟨h, by simp, ?_⟩
      intro a ha b hb
      simp at hb; subst hb
      exact hasKey_false hk a ha

theorem spec_unique (W : List Call) (hW : TopLevel W) : KeysUnique (spec W).1 :=
  foldl_specStep_unique W hW ([], []) (by simp [KeysUnique])

/-- the table component of the reference run does not depend on the ack list it started with -/
theorem specFrom_fst_indep (W : List Call) :
    ∀ (rows : List Row) (a b : List Nat), (specFrom (rows, a) W).1 = (specFrom (rows, b) W).1 := by
  induction W with
  | nil => intro rows a b; rfl
  | cons c cs ih =>
    intro rows a b
    simp only [specFrom, List.foldl_cons]
    have h : ∀ x : List Nat, ∃ y, specStep (rows, x) c = ((specStep (rows, a) c).1, y) := by
      intro x
      simp only [specStep]
      cases callExec c with
      | none => exact ⟨x, rfl⟩
      | some tp =>
        obtain ⟨t, pol⟩ := tp
        simp only []
        cases insertRow pol ⟨t, c.key, c.val⟩ rows with
        | none => exact ⟨x, rfl⟩
        | some w => exact ⟨x ++ [c.id], rfl⟩
    obtain ⟨ya, hya⟩ := h a
    obtain ⟨yb, hyb⟩ := h b
    rw [hya, hyb]
    exact ih _ ya yb

theorem recover_clean (db : Db) : Clean (recover db) := ⟨rfl, rfl⟩

/-! ### inside a `with db:` block (`_pending_commits ≥ 1`): commits are only counted -/

theorem doCommit_deferred (C : CommitMethod) (hC : wfCommit C = true) (db : Db) (h : 1 ≤ db.defer) :
    doCommit C db = { db with defer := db.defer + 1 } := by
  have hne : db.defer ≠ 0 := by omega
  simp [doCommit, hne, wfCommit_deferred hC, commitBody]

theorem doCommit_idle (C : CommitMethod) (hC : wfCommit C = true) (db : Db) (h : db.defer = 0) :
    doCommit C db = { db with durable := db.work } := by
  simp [doCommit, h, wfCommit_idle hC, commitBody]

/-- crash inside an insert issued within a block: nothing becomes durable -/
theorem runPrims_deferred (C : CommitMethod) (hC : wfCommit C = true) (c : Call) (t : Nat) (pol : Policy)
    (db : Db) (h : 1 ≤ db.defer) (j : Nat) :
    (runPrims C c j [.exec t pol, .callCommit, .ret] db).durable = db.durable := by
  cases hins : insertRow pol ⟨t, c.key, c.val⟩ db.work with
  | none =>
    match j with
    | 0 => simp [runPrims]
    | j + 1 => simp [runPrims, stepPrim, hins]
  | some w =>
    have h' : 1 ≤ ({ db with work := w } : Db).defer := h
    match j with
    | 0 => simp [runPrims]
    | 1 => simp [runPrims, stepPrim, hins]
    | 2 => simp [runPrims, stepPrim, hins, doCommit_deferred C hC _ h']
    | j + 3 => simp [runPrims, stepPrim, hins, doCommit_deferred C hC _ h']

/-- a complete insert within a block: one reference step on the connection's image, one more pending commit -/
theorem runCall_deferred (C : CommitMethod) (hC : wfCommit C = true) (c : Call) (hc : wfInsertPath c.ops = true)
    (db : Db) (h : 1 ≤ db.defer) :
    (runCall C db c).durable = db.durable ∧
    (runCall C db c).work = (specStep (db.work, db.acks) c).1 ∧
    (runCall C db c).acks = (specStep (db.work, db.acks) c).2 ∧
    db.defer ≤ (runCall C db c).defer ∧
    ((runCall C db c).defer = db.defer → (runCall C db c).work = db.work) := by
  obtain ⟨t, pol, _, hops⟩ := wf_shape hc
  rw [runCall, hops, specStep_shape _ c t pol _ hops]
  cases hins : insertRow pol ⟨t, c.key, c.val⟩ db.work with
  | none => simp [runPrims, stepPrim, hins]
  | some w =>
    have h' : 1 ≤ ({ db with work := w } : Db).defer := h
    simp [runPrims, stepPrim, hins, doCommit_deferred C hC _ h']

theorem runCalls_deferred (C : CommitMethod) (hC : wfCommit C = true) (B : List Call) (hB : TopLevel B) :
    ∀ (db : Db), 1 ≤ db.defer →
      (runCalls C B db).durable = db.durable ∧
      (runCalls C B db).work = (B.foldl specStep (db.work, db.acks)).1 ∧
      (runCalls C B db).acks = (B.foldl specStep (db.work, db.acks)).2 ∧
      db.defer ≤ (runCalls C B db).defer ∧
      ((runCalls C B db).defer = db.defer → (runCalls C B db).work = db.work) := by
  induction B with
  | nil => intro db _; simp [runCalls]
  | cons c cs ih =>
    intro db h
    obtain ⟨h1, h2, h3, h4, h5⟩ := runCall_deferred C hC c (hB c (by simp)) db h
    obtain ⟨i1, i2, i3, i4, i5⟩ := ih (fun x hx => hB x (by simp [hx])) (runCall C db c) (by omega)
    simp only [runCalls, List.foldl_cons] at i1 i2 i3 i4 i5 ⊢
    refine ⟨by rw [i1, h1], by rw [i2, h2, h3], by rw [i3, h2, h3], by omega, ?_⟩
    intro he
    have e1 : (runCall C db c).defer = db.defer := by omega
    rw [i5 (by omega), h5 e1]

theorem runCalls_append (C : CommitMethod) (A B : List Call) (db : Db) :
    runCalls C (A ++ B) db = runCalls C B (runCalls C A db) := by
  simp [runCalls, List.foldl_append]

/-! ### the executable `Causal` check is sound -/

theorem specStep_fst_indep (rows : List Row) (a b : List Nat) (c : Call) :
    (specStep (rows, a) c).1 = (specStep (rows, b) c).1 := by
  have := specFrom_fst_indep [c] rows a b
  simpa [specFrom] using this

theorem causalCheckFrom_sound (dep : Nat → Nat → Option (Nat × Nat)) (rest : List Call) :
    ∀ pre : List Call, causalCheckFrom dep (spec pre).1 rest = true →
      ∀ i c, rest[i]? = some c → ∀ row, rowOf c = some row → ∀ d, dep row.table row.key = some d →
        hasKey (spec (pre ++ rest.take i)).1 d.1 d.2 = true := by
  induction rest with
  | nil => intro pre _ i c hi; simp at hi
  | cons c0 cs ih =>
    intro pre h i c hi row hrow d hd
    simp only [causalCheckFrom, Bool.and_eq_true] at h
    obtain ⟨h0, hrest⟩ := h
    cases i with
    | zero =>
      simp at hi; subst hi
      rw [hrow] at h0
      simp only [hd] at h0
      simpa using h0
    | succ i =>
      have e : (specStep ((spec pre).1, []) c0).1 = (spec (pre ++ [c0])).1 := by
        rw [spec_snoc]
        exact specStep_fst_indep _ _ _ _
      rw [e] at hrest
      have := ih (pre ++ [c0]) hrest i c (by simpa using hi) row hrow d hd
      simpa [List.append_assoc] using this

/-! ### from the visible token rows to the rebuilt tree -/

/-- the visible token rows of table `tt` as the reload loop sees them: id = primary-key id, predecessor from `dep` -/
def toksOf (dep : Nat → Nat → Option (Nat × Nat)) (tt : Nat) (rows : List Row) : List Tok :=
  (rows.filter (fun r => r.table == tt)).map (fun r => ⟨r.key, (dep tt r.key).map (·.2)⟩)

theorem mem_toksOf (dep : Nat → Nat → Option (Nat × Nat)) (tt : Nat) (rows : List Row) (r : Row) (hr : r ∈ rows)
    (ht : r.table = tt) : (⟨r.key, (dep tt r.key).map (·.2)⟩ : Tok) ∈ toksOf dep tt rows := by
  simp only [toksOf, List.mem_map, List.mem_filter, beq_iff_eq]
  exact ⟨r, ⟨hr, ht⟩, rfl⟩

/-- the pointer chain of token `key` stays inside the rebuilt tree `elems` and ends at a genesis token -/
inductive ChainIn (dep : Nat → Nat → Option (Nat × Nat)) (tt : Nat) (elems : List Nat) : Nat → Prop
  | genesis {key : Nat} : key ∈ elems → dep tt key = none → ChainIn dep tt elems key
  | step {key : Nat} {d : Nat × Nat} : key ∈ elems → dep tt key = some d → ChainIn dep tt elems d.2 →
      ChainIn dep tt elems key

theorem chainIn_of_reaches (dep : Nat → Nat → Option (Nat × Nat)) (tt : Nat) (rows : List Row) (elems : List Nat)
    (hin : ∀ key d, dep tt key = some d → d.1 = tt)
    (hall : ∀ r ∈ rows, r.table = tt → r.key ∈ elems) :
    ∀ t key, Reaches dep rows t key → t = tt → ChainIn dep tt elems key := by
  intro t key h
  induction h with
  | genesis hk hd =>
    intro ht
    subst ht
    obtain ⟨r, hr, hrt, hrk⟩ := hasKey_exists hk
    exact .genesis (hrk ▸ hall r hr hrt) hd
  | step hk hd _ ih =>
    intro ht
    subst ht
    obtain ⟨r, hr, hrt, hrk⟩ := hasKey_exists hk
    exact .step (hrk ▸ hall r hr hrt) hd (ih (hin _ _ hd))

/-! ### batches of any nesting -/

/-- a workload of inserts and (possibly nested) `with db:` blocks that are left normally -/
def Batched (W : List Call) : Prop :=
  ∀ c ∈ W, wfInsertPath c.ops = true ∨ c.ops = [.enter] ∨ c.ops = [.exit]

/-- with at most one level of deferral counted nothing is waiting for a commit -/
structure Flushed (db : Db) : Prop where
  h : db.defer ≤ 1 → db.durable = db.work

theorem specStep_noexec (st : List Row × List Nat) (c : Call) (h : callExec c = none) : specStep st c = st := by
  simp [specStep, h]

theorem runCall_batched (C : CommitMethod) (hC : wfCommit C = true) (hB : wfBatch C = true) (c : Call)
    (hc : wfInsertPath c.ops = true ∨ c.ops = [.enter] ∨ c.ops = [.exit]) (db : Db) (hf : Flushed db) :
    (runCall C db c).work = (specStep (db.work, db.acks) c).1 ∧
    (runCall C db c).acks = (specStep (db.work, db.acks) c).2 ∧
    Flushed (runCall C db c) := by
  have hK : C.enterKeeps = true := by simp [wfBatch] at hB; exact hB.1
  have hX : C.exitResetsFirst = true := by simp [wfBatch] at hB; exact hB.2
  rcases hc with hc | hc | hc
  · by_cases h0 : db.defer = 0
    · have hclean : Clean db := ⟨(hf.h (by omega)).symm, h0⟩
      have := runCall_wf C hC c hc db hclean
      rw [this, hclean.1]
      exact ⟨rfl, rfl, ⟨fun _ => rfl⟩⟩
    · obtain ⟨d1, d2, d3, d4, d5⟩ := runCall_deferred C hC c hc db (by omega)
      refine ⟨d2, d3, ⟨fun hle => ?_⟩⟩
      have he : (runCall C db c).defer = db.defer := by omega
      rw [d1, d5 he]
      exact hf.h (by omega)
  · have hn : callExec c = none := by simp [callExec, hc]
    rw [specStep_noexec _ c hn]
    simp only [runCall, hc, List.length_cons, List.length_nil, runPrims, stepPrim, hK, ↓reduceIte]
    refine ⟨trivial, trivial, ⟨fun hle => ?_⟩⟩
    apply hf.h
    simp only at hle
    omega
  · have hn : callExec c = none := by simp [callExec, hc]
    rw [specStep_noexec _ c hn]
    by_cases hgt : db.defer > 1
    · simp [runCall, hc, runPrims, stepPrim, hX, hgt, doCommit_idle C hC, Flushed_mk]
    · have hd := hf.h (by omega)
      simp only [runCall, hc, List.length_cons, List.length_nil, runPrims, stepPrim, hX, hgt, ↓reduceIte]
      exact ⟨trivial, trivial, ⟨fun _ => hd⟩⟩
where
  Flushed_mk : ∀ (db : Db), db.durable = db.work → Flushed db := fun _ h => ⟨fun _ => h⟩

theorem runCalls_batched (C : CommitMethod) (hC : wfCommit C = true) (hB : wfBatch C = true) (W : List Call)
    (hW : Batched W) :
    ∀ (db : Db), Flushed db →
      (runCalls C W db).work = (W.foldl specStep (db.work, db.acks)).1 ∧
      (runCalls C W db).acks = (W.foldl specStep (db.work, db.acks)).2 ∧
      Flushed (runCalls C W db) := by
  induction W with
  | nil => intro db hf; exact ⟨rfl, rfl, hf⟩
  | cons c cs ih =>
    intro db hf
    obtain ⟨h1, h2, h3⟩ := runCall_batched C hC hB c (hW c (by simp)) db hf
    obtain ⟨i1, i2, i3⟩ := ih (fun x hx => hW x (by simp [hx])) (runCall C db c) h3
    simp only [runCalls, List.foldl_cons] at i1 i2 i3 ⊢
    rw [h1, h2] at i1 i2
    exact ⟨i1, i2, i3⟩

/-! ### `Causal` from the order in which the manager stores a credential -/

/-- some call of `pre` stores (INSERT OR IGNORE) a record under table/key `d` -/
def Provides (pre : List Call) (d : Nat × Nat) : Prop :=
  ∃ c ∈ pre, ∃ rest, c.ops = .exec d.1 .orIgnore :: rest ∧ c.key = d.2

/-- list form of `Causal`: every call finds the record it points to provided by an earlier call -/
def CausalL (dep : Nat → Nat → Option (Nat × Nat)) : List Call → List Call → Prop
  | _, [] => True
  | pre, c :: cs =>
    (∀ row d, rowOf c = some row → dep row.table row.key = some d → Provides pre d) ∧ CausalL dep (pre ++ [c]) cs

theorem Provides.mono {pre : List Call} {d : Nat × Nat} (x : List Call) (h : Provides pre d) : Provides (pre ++ x) d := by
  obtain ⟨c, hc, rest, h1, h2⟩ := h
  exact ⟨c, List.mem_append.mpr (Or.inl hc), rest, h1, h2⟩

theorem hasKey_of_provides (pre : List Call) (hT : TopLevel pre) (d : Nat × Nat) (h : Provides pre d) :
    hasKey (spec pre).1 d.1 d.2 = true := by
  obtain ⟨c, hc, rest, hops, hk⟩ := h
  obtain ⟨A, B, hAB⟩ := List.append_of_mem hc
  subst hAB
  have hB : TopLevel B := fun x hx => hT x (by simp [hx])
  have e : A ++ c :: B = (A ++ [c]) ++ B := by simp
  rw [e]
  obtain ⟨extra, hext⟩ := spec_prefix (A ++ [c]) B hB
  rw [hext, spec_snoc, hasKey_append, ← hk, specStep_key (spec A) c d.1 rest hops]
  rfl

theorem causal_of_causalL (dep : Nat → Nat → Option (Nat × Nat)) (rest : List Call) :
    ∀ pre : List Call, TopLevel (pre ++ rest) → CausalL dep pre rest →
      ∀ i c, rest[i]? = some c → ∀ row, rowOf c = some row → ∀ d, dep row.table row.key = some d →
        hasKey (spec (pre ++ rest.take i)).1 d.1 d.2 = true := by
  induction rest with
  | nil => intro pre _ _ i c hi; simp at hi
  | cons c0 cs ih =>
    intro pre hT h i c hi row hrow d hd
    obtain ⟨h0, hrest⟩ := h
    cases i with
    | zero =>
      simp at hi; subst hi
      simp only [List.take_zero, List.append_nil]
      exact hasKey_of_provides pre (fun x hx => hT x (by simp [hx])) d (h0 row d hrow hd)
    | succ i =>
      have hT' : TopLevel ((pre ++ [c0]) ++ cs) := by simpa using hT
      have := ih (pre ++ [c0]) hT' hrest i c (by simpa using hi) row hrow d hd
      simpa [List.append_assoc] using this

theorem CausalL.append (dep : Nat → Nat → Option (Nat × Nat)) (A : List Call) :
    ∀ (pre B : List Call), CausalL dep pre A → CausalL dep (pre ++ A) B → CausalL dep pre (A ++ B) := by
  induction A with
  | nil => intro pre B _ hB; simpa using hB
  | cons a as ih =>
    intro pre B hA hB
    obtain ⟨h0, h1⟩ := hA
    refine ⟨h0, ?_⟩
    apply ih (pre ++ [a]) B h1
    simpa [List.append_assoc] using hB

/-- `dep` is the pointer structure of credential `c`: token → predecessor, metadata → token, attestation → metadata -/
structure DepOk (dep : Nat → Nat → Option (Nat × Nat)) (c : Cred) : Prop where
  tok : dep 0 c.tk = c.prev.map (fun p => (0, p))
  md : dep 1 c.mdk = some (0, c.tk)
  att : ∀ a ∈ c.aks, dep 2 a = some (1, c.mdk)

theorem credCalls_eq (c : Cred) :
    credCalls [0, 1, 2] c =
      [⟨0, storeOps 0, c.tk, c.tk⟩, ⟨0, storeOps 1, c.mdk, c.mdk⟩] ++ c.aks.map (fun a => ⟨0, storeOps 2, a, a⟩) := by
  simp [credCalls]

theorem attCalls_causalL (dep : Nat → Nat → Option (Nat × Nat)) (mdk : Nat) (aks : List Nat)
    (hd : ∀ a ∈ aks, dep 2 a = some (1, mdk)) :
    ∀ pre : List Call, Provides pre (1, mdk) →
      CausalL dep pre (aks.map (fun a => (⟨0, storeOps 2, a, a⟩ : Call))) := by
  induction aks with
  | nil => intro pre _; trivial
  | cons a as ih =>
    intro pre hp
    refine ⟨?_, ih (fun x hx => hd x (by simp [hx])) _ (hp.mono _)⟩
    intro row d hrow hdep
    simp [rowOf, callExec, storeOps] at hrow
    subst hrow
    rw [hd a (by simp)] at hdep
    cases hdep
    exact hp

theorem credCalls_causalL (dep : Nat → Nat → Option (Nat × Nat)) (c : Cred) (hd : DepOk dep c) (pre : List Call)
    (hp : ∀ p, c.prev = some p → Provides pre (0, p)) : CausalL dep pre (credCalls [0, 1, 2] c) := by
  rw [credCalls_eq]
  refine ⟨?_, ?_, ?_⟩
  · intro row d hrow hdep
    simp [rowOf, callExec, storeOps] at hrow
    subst hrow
    rw [hd.tok] at hdep
    cases hpv : c.prev with
    | none => rw [hpv] at hdep; simp at hdep
    | some p => rw [hpv] at hdep; simp at hdep; subst hdep; exact hp p hpv
  · intro row d hrow hdep
    simp [rowOf, callExec, storeOps] at hrow
    subst hrow
    rw [hd.md] at hdep
    cases hdep
    exact ⟨⟨0, storeOps 0, c.tk, c.tk⟩, by simp, [.callCommit, .ret], rfl, rfl⟩
  · apply attCalls_causalL dep c.mdk c.aks hd.att
    exact ⟨⟨0, storeOps 1, c.mdk, c.mdk⟩, by simp, [.callCommit, .ret], rfl, rfl⟩

theorem credCalls_provides_token (c : Cred) (pre : List Call) : Provides (pre ++ credCalls [0, 1, 2] c) (0, c.tk) := by
  rw [credCalls_eq]
  exact ⟨⟨0, storeOps 0, c.tk, c.tk⟩, by simp, [.callCommit, .ret], rfl, rfl⟩

theorem creds_causalL (dep : Nat → Nat → Option (Nat × Nat)) (creds : List Cred) :
    ∀ (known : List Nat) (pre : List Call), (∀ c ∈ creds, DepOk dep c) → Linked known creds →
      (∀ k ∈ known, Provides pre (0, k)) → CausalL dep pre (creds.flatMap (credCalls [0, 1, 2])) := by
  induction creds with
  | nil => intro _ _ _ _ _; trivial
  | cons c cs ih =>
    intro known pre hd hl hk
    obtain ⟨hl0, hl1⟩ := hl
    rw [List.flatMap_cons]
    apply CausalL.append
    · exact credCalls_causalL dep c (hd c (by simp)) pre (fun p hp => hk p (hl0 p hp))
    · apply ih (c.tk :: known) _ (fun x hx => hd x (by simp [hx])) hl1
      intro k hkm
      rcases List.mem_cons.mp hkm with h | h
      · subst h; exact credCalls_provides_token c pre
      · exact (hk k h).mono _

theorem credCalls_topLevel (creds : List Cred) : TopLevel (creds.flatMap (credCalls [0, 1, 2])) := by
  intro x hx
  simp only [List.mem_flatMap] at hx
  obtain ⟨c, _, hxc⟩ := hx
  rw [credCalls_eq] at hxc
  simp only [List.mem_append, List.mem_cons, List.mem_map, List.not_mem_nil, or_false] at hxc
  rcases hxc with (h | h) | ⟨a, _, h⟩ <;> subst h <;> rfl

end Ipv8.C19
