/-
  C19 — helper lemmas (core Lean only).
-/
import Ipv8.C19.Model

namespace Ipv8.C19

/-- a workload made only of insert calls of the checked shape (no `with db:` blocks) -/
def TopLevel (W : List Call) : Prop := ∀ c ∈ W, wfInsertPath c.ops = true

/-- committed and connection image coincide, commits are not deferred -/
def Clean (db : Db) : Prop := db.work = db.durable ∧ db.defer = 0

theorem wf_shape {ops : List Prim} (h : wfInsertPath ops = true) :
    ∃ t pol, pol ≠ Policy.replace ∧ ops = [.exec t pol, .callCommit, .ret] := by
  unfold wfInsertPath at h
  split at h
  · rename_i t pol
    exact ⟨t, pol, by simpa using h, rfl⟩
  · cases h

theorem wfCommit_idle {C : CommitMethod} (h : wfCommit C = true) : C.idle = [.connCommit, .ret] := by
  simp [wfCommit] at h; exact h.1

theorem wfCommit_deferred {C : CommitMethod} (h : wfCommit C = true) : C.deferred = [.incPending, .ret] := by
  simp [wfCommit] at h; exact h.2

theorem visible_eq (db : Db) : visible db = db.durable := rfl

theorem spec_snoc (W : List Call) (c : Call) : spec (W ++ [c]) = specStep (spec W) c := by
  simp [spec, List.foldl_append]

theorem specStep_shape (st : List Row × List Nat) (c : Call) (t : Nat) (pol : Policy) (rest : List Prim)
    (h : c.ops = .exec t pol :: rest) :
    specStep st c = match insertRow pol ⟨t, c.key, c.val⟩ st.1 with
      | some rows => (rows, st.2 ++ [c.id])
      | none => st := by
  simp only [specStep, callExec, h]
  cases insertRow pol ⟨t, c.key, c.val⟩ st.1 <;> rfl

/-- crash inside a well-formed insert issued on a clean store: the four possible positions -/
theorem runPrims_wf (C : CommitMethod) (hC : wfCommit C = true) (c : Call) (t : Nat) (pol : Policy)
    (db : Db) (hdb : Clean db) (j : Nat) :
    runPrims C c j [.exec t pol, .callCommit, .ret] db =
      match insertRow pol ⟨t, c.key, c.val⟩ db.durable with
      | none => db
      | some w =>
        match j with
        | 0 => db
        | 1 => { db with work := w }
        | 2 => { db with work := w, durable := w }
        | _ + 3 => { db with work := w, durable := w, acks := db.acks ++ [c.id] } := by
  obtain ⟨hw, hd⟩ := hdb
  have hi := wfCommit_idle hC
  cases hins : insertRow pol ⟨t, c.key, c.val⟩ db.durable with
  | none =>
    match j with
    | 0 => simp [runPrims]
    | j + 1 => simp [runPrims, stepPrim, hw, hins]
  | some w =>
    match j with
    | 0 => simp [runPrims]
    | 1 => simp [runPrims, stepPrim, hw, hins]
    | 2 => simp [runPrims, stepPrim, hw, hins, doCommit, hd, hi, commitBody]
    | j + 3 => simp [runPrims, stepPrim, hw, hins, doCommit, hd, hi, commitBody]

/-- a complete well-formed insert on a clean store is one step of the reference semantics -/
theorem runCall_wf (C : CommitMethod) (hC : wfCommit C = true) (c : Call) (hc : wfInsertPath c.ops = true)
    (db : Db) (hdb : Clean db) :
    runCall C db c =
      { durable := (specStep (db.durable, db.acks) c).1, work := (specStep (db.durable, db.acks) c).1,
        defer := 0, acks := (specStep (db.durable, db.acks) c).2 } := by
  obtain ⟨t, pol, _, hops⟩ := wf_shape hc
  have h := runPrims_wf C hC c t pol db hdb 3
  obtain ⟨hw, hd⟩ := hdb
  rw [runCall, hops]
  simp only [List.length_cons, List.length_nil] at *
  rw [h, specStep_shape _ c t pol _ hops]
  cases hins : insertRow pol ⟨t, c.key, c.val⟩ db.durable with
  | none => cases db; simp_all
  | some w => simp [hd]

theorem runCalls_wf (C : CommitMethod) (hC : wfCommit C = true) (W : List Call) (hW : TopLevel W) :
    ∀ (db : Db), Clean db →
      runCalls C W db =
        { durable := (W.foldl specStep (db.durable, db.acks)).1, work := (W.foldl specStep (db.durable, db.acks)).1,
          defer := 0, acks := (W.foldl specStep (db.durable, db.acks)).2 } := by
  induction W with
  | nil =>
    intro db hdb
    obtain ⟨hw, hd⟩ := hdb
    cases db; simp_all [runCalls]
  | cons c cs ih =>
    intro db hdb
    have hc : wfInsertPath c.ops = true := hW c (by simp)
    have hcs : TopLevel cs := fun x hx => hW x (by simp [hx])
    have h1 := runCall_wf C hC c hc db hdb
    simp only [runCalls, List.foldl_cons] at ih ⊢
    rw [h1, ih hcs _ ⟨rfl, rfl⟩]

theorem runCalls_init (C : CommitMethod) (hC : wfCommit C = true) (W : List Call) (hW : TopLevel W) :
    runCalls C W Db.init = { durable := (spec W).1, work := (spec W).1, defer := 0, acks := (spec W).2 } := by
  have := runCalls_wf C hC W hW Db.init ⟨rfl, rfl⟩
  simpa [spec, Db.init] using this

theorem topLevel_take {W : List Call} (hW : TopLevel W) (k : Nat) : TopLevel (W.take k) :=
  fun c hc => hW c (List.mem_of_mem_take hc)

theorem take_succ_getElem {α : Type} (W : List α) (k : Nat) (c : α) (h : W[k]? = some c) :
    W.take (k + 1) = W.take k ++ [c] := by
  rw [List.take_add_one, h]; rfl

/-! ### facts about `insertRow` without OR REPLACE: rows are only ever appended -/

theorem insertRow_mono {pol : Policy} (hp : pol ≠ .replace) {r : Row} {rows rows' : List Row}
    (h : insertRow pol r rows = some rows') : rows' = rows ∨ (hasKey rows r.table r.key = false ∧ rows' = rows ++ [r]) := by
  unfold insertRow at h
  split at h
  · cases pol <;> simp_all
  · right; simp_all

theorem hasKey_append (a b : List Row) (t k : Nat) : hasKey (a ++ b) t k = (hasKey a t k || hasKey b t k) := by
  simp [hasKey]

theorem insertRow_hasKey {pol : Policy} (hp : pol ≠ .replace) {r : Row} {rows rows' : List Row}
    (h : insertRow pol r rows = some rows') : hasKey rows' r.table r.key = true := by
  unfold insertRow at h
  split at h
  · rename_i hk
    cases pol <;> simp_all
  · simp at h; subst h; simp [hasKey, sameKey]

/-- one reference step keeps every stored row and every key (needs: no OR REPLACE) -/
theorem specStep_mono (st : List Row × List Nat) (c : Call) (hc : wfInsertPath c.ops = true) :
    ∃ extra, (specStep st c).1 = st.1 ++ extra := by
  obtain ⟨t, pol, hp, hops⟩ := wf_shape hc
  rw [specStep_shape st c t pol _ hops]
  cases hins : insertRow pol ⟨t, c.key, c.val⟩ st.1 with
  | none => exact ⟨[], by simp⟩
  | some rows =>
    rcases insertRow_mono hp hins with h | ⟨_, h⟩
    · exact ⟨[], by simp [h]⟩
    · exact ⟨[⟨t, c.key, c.val⟩], by simp [h]⟩

theorem foldl_specStep_mono (W : List Call) (hW : TopLevel W) :
    ∀ st : List Row × List Nat, ∃ extra, (W.foldl specStep st).1 = st.1 ++ extra := by
  induction W with
  | nil => intro st; exact ⟨[], by simp⟩
  | cons c cs ih =>
    intro st
    obtain ⟨e1, h1⟩ := specStep_mono st c (hW c (by simp))
    obtain ⟨e2, h2⟩ := ih (fun x hx => hW x (by simp [hx])) (specStep st c)
    exact ⟨e1 ++ e2, by simp [List.foldl_cons, h2, h1]⟩

/-- the reference content of a prefix is a list-prefix of the reference content of the whole workload -/
theorem spec_prefix (A B : List Call) (hB : TopLevel B) : ∃ extra, (spec (A ++ B)).1 = (spec A).1 ++ extra := by
  simp only [spec, List.foldl_append]
  exact foldl_specStep_mono B hB _

end Ipv8.C19
