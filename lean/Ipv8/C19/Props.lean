/-
  C19 — property theorems.  Every `theorem` in this file is an obligation of the check.

  `Gen.insertMethods`, `Gen.commitMethod`, `Gen.tables`, `Gen.schema*`, `Gen.versionHandlers` are REGENERATED from
  /repo on every run (tools/gen_db.py), so the `decide` theorems are re-proved against what the code says now.
  The general theorems quantify over every workload (any length), every crash point `(k, j)` = "after k complete
  calls and j primitives of call k" (any numbers, also beyond the end), every key/record assignment.
-/
import Ipv8.C19.Lemmas
import Ipv8.C19.GenDbOps

namespace Ipv8.C19

/-! ## the translated code has the shape the crash argument needs -/

/-- every path of every `insert_*` method is: one INSERT (not OR REPLACE), then `self.commit()`, then return -/
theorem insert_is_exec_then_commit :
    ∀ m ∈ Gen.insertMethods, ∀ p ∈ m.paths, wfInsertPath p = true := by decide

/-- `Database.commit` really commits when no `with db:` block is open, and only counts otherwise -/
theorem commit_commits_unless_deferred : wfCommit Gen.commitMethod = true := by decide

/-- the INSERT of every method binds all primary-key columns of its table and only columns the schema declares -/
theorem insert_binds_primary_key : ∀ m ∈ Gen.insertMethods, bindsPk Gen.tables m = true := by decide

/-- `Database._connect` keeps python's implicit transaction (an INSERT is not durable before `commit`) -/
theorem connection_not_autocommit : Gen.connectAutocommit = false := by decide

/-- the anchored durability mechanism as written in `_initial_statements`: WAL journal, synchronous NORMAL (a process
    kill cannot tell NORMAL from OFF, an operating-system crash can; that part of the mechanism is only checked here,
    on the source text, and read back from the reopened file by the harness) -/
theorem durability_pragmas : Gen.journalModeWal = true ∧ Gen.synchronousNormal = true := by decide

/-- `db_call` waits for the database lock (blocking `with db_locks[…]`) and calls the wrapped function whenever the
    cursor exists — it never returns None for a live database just because another thread holds the lock -/
theorem db_call_waits_for_lock : Gen.dbCallBlocking = true := by decide

/-- INSERT OR IGNORE (a returned insert that may have stored nothing) occurs only in the three IdentityDatabase methods
    for which that is a recorded known finding; any other insert must raise on a duplicate key (plain INSERT) -/
theorem or_ignore_only_where_known :
    ∀ m ∈ Gen.insertMethods, ∀ p ∈ m.paths, usesOrIgnore p = true → m.cls = 0 ∧ m.name ≤ 2 := by decide

/-- no code under ipv8/attestation wraps store calls in a `with <database>:` batch (inside one, every insert returns
    before anything is committed — `deferred_block_invisible`): this is what makes the block-free hypothesis `TopLevel`
    of `acked_survive` the right model of the identity and wallet code paths, community handlers included -/
theorem store_callers_do_not_batch : Gen.batchingCallers = [] := by decide

/-- nothing in the identity layer closes a database: the IdentityManager's store is shared by every loaded pseudonym,
    and on a closed `Database` `db_call` makes every later `execute`/`commit` return None silently — inserts of the
    other pseudonyms would return and store nothing (the model has no "closed" state: this obligation keeps it out) -/
theorem shared_store_not_closed_by_a_user : Gen.identityStoreClosers = [] := by decide

/-- one attestation lives in two stores: the wallet commits the proof blob and the secret key before the completion
    callback lets the identity overlay store (and disclose) the credential; with `acked_survive` for each store this
    gives: whenever a kill leaves the credential visible, its proof is visible too (the two stores are not composed in
    the model; the kill runs of `scripted-wallet-identity` check the composition) -/
theorem wallet_stores_proof_before_advertising : Gen.walletStoresBeforeCallback = true := by decide

example : Gen.insertMethods.length ≥ 4 := by decide

/-! ## crash at any point of any workload of inserts -/

/-- the crash theorem for a process that starts on any consistent store `db` (committed image = connection image,
    no block open) — e.g. the store an earlier, killed process left behind -/
theorem acked_survive_from (C : CommitMethod) (hC : wfCommit C = true) (db : Db) (hdb : Clean db)
    (W : List Call) (hW : TopLevel W) (k j : Nat) :
    visible (crashFrom C db W k j) = (specFrom (db.durable, db.acks) (W.take (if j ≤ 1 then k else k + 1))).1 ∧
    (crashFrom C db W k j).acks = (specFrom (db.durable, db.acks) (W.take (if j ≤ 2 then k else k + 1))).2 := by
  have h0 := runCalls_wf C hC (W.take k) (topLevel_take hW k) db hdb
  unfold crashFrom
  simp only [h0, visible_eq]
  cases hk : W[k]? with
  | none =>
    have hlen : W.length ≤ k := by simpa using hk
    have e1 : W.take (k + 1) = W.take k := by
      rw [List.take_of_length_le hlen, List.take_of_length_le (by omega)]
    by_cases h1 : j ≤ 1 <;> by_cases h2 : j ≤ 2 <;> simp [h1, h2, e1, specFrom]
  | some c =>
    have hc : wfInsertPath c.ops = true := hW c (List.mem_of_getElem? hk)
    obtain ⟨t, pol, _, hops⟩ := wf_shape hc
    have hs : specFrom (db.durable, db.acks) (W.take (k + 1)) =
        match insertRow pol ⟨t, c.key, c.val⟩ (specFrom (db.durable, db.acks) (W.take k)).1 with
        | some rows => (rows, (specFrom (db.durable, db.acks) (W.take k)).2 ++ [c.id])
        | none => specFrom (db.durable, db.acks) (W.take k) := by
      rw [take_succ_getElem W k c hk, specFrom_snoc, specStep_shape _ c t pol _ hops]
      cases insertRow pol ⟨t, c.key, c.val⟩ (specFrom (db.durable, db.acks) (W.take k)).1 <;> rfl
    simp only [hops]
    rw [runPrims_wf C hC c t pol _ ⟨rfl, rfl⟩ j]
    change _ = (specFrom (db.durable, db.acks) (W.take (if j ≤ 1 then k else k + 1))).1 ∧
      _ = (specFrom (db.durable, db.acks) (W.take (if j ≤ 2 then k else k + 1))).2
    cases hins : insertRow pol ⟨t, c.key, c.val⟩ (specFrom (db.durable, db.acks) (W.take k)).1 with
    | none =>
      rw [hins] at hs
      simp only [specFrom] at hins hs ⊢
      by_cases h1 : j ≤ 1 <;> by_cases h2 : j ≤ 2 <;> simp [h1, h2, hs, hins]
    | some w =>
      rw [hins] at hs
      simp only [specFrom] at hins hs ⊢
      match j with
      | 0 => simp [hins]
      | 1 => simp [hins]
      | 2 => simp [hs, hins]
      | j + 3 => simp [hs, hins]

/-- **acked_survive.**  Kill the process after `k` complete insert calls and `j` primitives of call `k`
    (j = 0 before the INSERT, 1 after it, 2 after the commit, ≥ 3 after the return) and let a fresh process open
    the file.  What it sees is exactly the reference content (no transactions, no crash) of the first `k` calls
    when the kill came before the commit, of the first `k+1` calls afterwards; the set of calls that had returned
    is the reference ack list of the first `k` (resp. `k+1` once the return happened).  Hence: every record whose
    insert had returned is there, the in-flight record is there completely or not at all, nothing else is there. -/
theorem acked_survive (C : CommitMethod) (hC : wfCommit C = true) (W : List Call) (hW : TopLevel W) (k j : Nat) :
    visible (crashAt C W k j) = (spec (W.take (if j ≤ 1 then k else k + 1))).1 ∧
    (crashAt C W k j).acks = (spec (W.take (if j ≤ 2 then k else k + 1))).2 :=
  acked_survive_from C hC Db.init ⟨rfl, rfl⟩ W hW k j

/-- the same for workloads built from the generated methods and the generated `Database.commit` -/
theorem acked_survive_generated (W : List Call)
    (hW : ∀ c ∈ W, ∃ m ∈ Gen.insertMethods, c.ops ∈ m.paths) (k j : Nat) :
    visible (crashAt Gen.commitMethod W k j) = (spec (W.take (if j ≤ 1 then k else k + 1))).1 ∧
    (crashAt Gen.commitMethod W k j).acks = (spec (W.take (if j ≤ 2 then k else k + 1))).2 :=
  acked_survive Gen.commitMethod commit_commits_unless_deferred W
    (fun c hc => by
      obtain ⟨m, hm, hp⟩ := hW c hc
      exact insert_is_exec_then_commit m hm c.ops hp) k j

/-- **in-flight atomicity**: whatever the crash point, the reopened store is the reference content of the calls
    that completed, with or without the call in flight — never anything in between or anything else -/
theorem inflight_atomic (C : CommitMethod) (hC : wfCommit C = true) (W : List Call) (hW : TopLevel W) (k j : Nat) :
    visible (crashAt C W k j) = (spec (W.take k)).1 ∨ visible (crashAt C W k j) = (spec (W.take (k + 1))).1 := by
  have h := (acked_survive C hC W hW k j).1
  by_cases hj : j ≤ 1
  · left; simpa [hj] using h
  · right; simpa [hj] using h

/-- non-vacuity: a workload over all four generated methods with a duplicate key; killed after the INSERT of
    the 4th call: the three acknowledged records are visible, the fourth is not -/
example :
    let W : List Call := [⟨0, [.exec 0 .orIgnore, .callCommit, .ret], 7, 70⟩,
                          ⟨1, [.exec 1 .orIgnore, .callCommit, .ret], 8, 80⟩,
                          ⟨2, [.exec 0 .orIgnore, .callCommit, .ret], 7, 71⟩,
                          ⟨3, [.exec 2 .orIgnore, .callCommit, .ret], 9, 90⟩]
    visible (crashAt Gen.commitMethod W 3 1) = [⟨0, 7, 70⟩, ⟨1, 8, 80⟩] ∧
    (crashAt Gen.commitMethod W 3 1).acks = [0, 1, 2] ∧
    visible (crashAt Gen.commitMethod W 3 2) = [⟨0, 7, 70⟩, ⟨1, 8, 80⟩, ⟨2, 9, 90⟩] := by decide

/-- why the shape matters (what a dropped `self.commit()` does): the call returns, is killed, and the record is gone -/
example :
    let W : List Call := [⟨0, [.exec 0 .orIgnore, .ret], 7, 70⟩]
    (crashAt Gen.commitMethod W 1 0).acks = [0] ∧ visible (crashAt Gen.commitMethod W 1 0) = [] := by decide

/-! ## any number of kill / restart cycles -/

/-- **kill_restart_cycles.**  A file goes through any number of process lifetimes; each runs any workload of inserts
    and is killed at any point `(k, j)`; the next process starts on what is left.  What the last fresh process sees
    is the reference content of the concatenation of the calls that had committed in each lifetime — every kill is
    as harmless as the first one. -/
theorem kill_restart_cycles (C : CommitMethod) (hC : wfCommit C = true) (ls : List Life)
    (hls : ∀ l ∈ ls, TopLevel l.W) :
    visible (runLives C Db.init ls) = (spec (ls.flatMap Life.survivors)).1 := by
  suffices h : ∀ (db : Db), Clean db →
      visible (runLives C db ls) = (specFrom (db.durable, db.acks) (ls.flatMap Life.survivors)).1 from
    h Db.init ⟨rfl, rfl⟩
  induction ls with
  | nil => intro db hdb; simp [runLives, specFrom, visible_eq]
  | cons l rest ih =>
    intro db hdb
    have h1 := (acked_survive_from C hC db hdb l.W (hls l (by simp)) l.k l.j).1
    have ih' := ih (fun x hx => hls x (by simp [hx])) (recover (crashFrom C db l.W l.k l.j)) (recover_clean _)
    simp only [runLives, List.foldl_cons] at ih' ⊢
    rw [ih']
    simp only [List.flatMap_cons, specFrom, List.foldl_append]
    have e : (recover (crashFrom C db l.W l.k l.j)).durable
        = (List.foldl specStep (db.durable, db.acks) l.survivors).1 := by
      rw [visible_eq] at h1; exact h1
    rw [e]
    exact specFrom_fst_indep _ _ _ _

/-- non-vacuity: two lifetimes; the first is killed after the INSERT of its 2nd call, the second after the commit
    of its 1st call -/
example :
    let ins (i k : Nat) : Call := ⟨i, [.exec 0 .orIgnore, .callCommit, .ret], k, k⟩
    visible (runLives Gen.commitMethod Db.init [⟨[ins 0 1, ins 1 2], 1, 1⟩, ⟨[ins 2 2, ins 3 3], 0, 2⟩])
      = [⟨0, 1, 1⟩, ⟨0, 2, 2⟩] := by decide

/-! ## the property text, clause by clause (corollaries of `acked_survive`) -/

/-- **every record whose insert call had returned is present and unchanged — PARTIAL.**
    Full statement of the clause (what the property says):
      for every call `c` with record `row` that had returned before the kill, `row ∈ visible (crashAt C W k j)`.
    That is FALSE for the current schema, with or without a kill: the primary keys are narrower than the records
    (Tokens omits signature and content, Metadata omits the JSON, Attestations omits the authority) and the inserts
    are INSERT OR IGNORE, so a returned insert of a *different* record under an existing key stores nothing
    (`acked_distinct_record_dropped_witness` below; known findings `…:acked-distinct-record-dropped-by-primary-key`).
    Proved part: call number `i` had returned (or raised) before the kill.  Then (a) if it is an INSERT OR IGNORE, a
    record with its primary key is visible; (b) if no earlier call used the same table and key — the excluding
    hypothesis — exactly its own record is visible, for any conflict clause; with (c) `visible_keys_unique`: under a
    key shared by several calls the first call's record is the one that stays, unchanged. -/
theorem acked_present_unchanged_partial (C : CommitMethod) (hC : wfCommit C = true) (W : List Call) (hW : TopLevel W)
    (k j i : Nat) (c : Call) (hi : W[i]? = some c) (hdone : i < (if j ≤ 2 then k else k + 1))
    (row : Row) (hrow : rowOf c = some row) :
    ((∃ rest, c.ops = .exec row.table .orIgnore :: rest) →
        hasKey (visible (crashAt C W k j)) row.table row.key = true) ∧
    ((∀ i' c', i' < i → W[i']? = some c' → ∀ r', rowOf c' = some r' → ¬ (r'.table = row.table ∧ r'.key = row.key)) →
        row ∈ visible (crashAt C W k j)) := by
  rw [(acked_survive C hC W hW k j).1]
  have hm : i < (if j ≤ 1 then k else k + 1) := by
    by_cases h1 : j ≤ 1
    · have : j ≤ 2 := by omega
      simp [h1, this] at hdone ⊢; exact hdone
    · by_cases h2 : j ≤ 2 <;> simp [h1, h2] at hdone ⊢ <;> omega
  obtain ⟨rest, hsplit⟩ := take_split W i _ c hi hm
  have hT : TopLevel (W.take i ++ [c] ++ rest) := by rw [← hsplit]; exact topLevel_take hW _
  obtain ⟨extra, hext⟩ := spec_prefix (W.take i ++ [c]) rest (topLevel_append_right hT)
  have hc : wfInsertPath c.ops = true := hW c (List.mem_of_getElem? hi)
  rw [hsplit, hext, spec_snoc]
  constructor
  · rintro ⟨r, hops⟩
    have hk := specStep_key (spec (W.take i)) c row.table r hops
    have hkey : row.key = c.key := by
      have := rowOf_shape hops; rw [hrow] at this
      have h2 := congrArg Row.key (Option.some.inj this)
      exact h2
    rw [hasKey_append, hkey, hk]; rfl
  · intro hfirst
    have hfresh : hasKey (spec (W.take i)).1 row.table row.key = false := by
      cases hh : hasKey (spec (W.take i)).1 row.table row.key with
      | false => rfl
      | true =>
        exfalso
        obtain ⟨r', hr', ht, hkk⟩ := hasKey_exists hh
        obtain ⟨c', hc', hrc'⟩ := spec_origin (W.take i) (topLevel_take hW i) r' hr'
        obtain ⟨i', hi', hget⟩ := List.mem_iff_getElem.mp hc'
        have hlt : i' < i := by
          have := hi'; simp [List.length_take] at this; omega
        have hW' : W[i']? = some c' := by
          rw [List.getElem_take] at hget
          have hl : i' < W.length := by simp [List.length_take] at hi'; omega
          rw [List.getElem?_eq_getElem hl, hget]
        exact hfirst i' c' hlt hW' r' hrc' ⟨ht, hkk⟩
    rw [(specStep_fresh (spec (W.take i)) c hc row hrow hfresh).1]
    simp

/-- the negation of the full clause, on the generated methods: two authorities attest the same metadata of the same
    subject (`insert_attestation`, table 2, same primary-key id 7, different records 70 / 71); both calls return;
    no kill is needed (crash point after both calls) — the second record is not in the store -/
theorem acked_distinct_record_dropped_witness :
    ∃ (W : List Call) (k j i : Nat) (c : Call) (row : Row),
      (∀ c ∈ W, ∃ m ∈ Gen.insertMethods, c.ops ∈ m.paths) ∧ W[i]? = some c ∧ i < k ∧ rowOf c = some row ∧
      c.id ∈ (crashAt Gen.commitMethod W k j).acks ∧ row ∉ visible (crashAt Gen.commitMethod W k j) :=
  ⟨[⟨0, [.exec 2 .orIgnore, .callCommit, .ret], 7, 70⟩, ⟨1, [.exec 2 .orIgnore, .callCommit, .ret], 7, 71⟩],
   2, 0, 1, ⟨1, [.exec 2 .orIgnore, .callCommit, .ret], 7, 71⟩, ⟨2, 7, 71⟩,
   by decide, by decide, by decide, by decide, by decide, by decide⟩

/-- (c) at most one visible record per table and primary key, at every crash point -/
theorem visible_keys_unique (C : CommitMethod) (hC : wfCommit C = true) (W : List Call) (hW : TopLevel W)
    (k j : Nat) : KeysUnique (visible (crashAt C W k j)) := by
  rw [(acked_survive C hC W hW k j).1]
  exact spec_unique _ (topLevel_take hW _)

/-- **no partially written / foreign record is visible; records of inserts that never started are absent**:
    every visible row is, completely, the record bound by one of the first `k+1` calls -/
theorem unstarted_absent (C : CommitMethod) (hC : wfCommit C = true) (W : List Call) (hW : TopLevel W)
    (k j : Nat) (r : Row) (hr : r ∈ visible (crashAt C W k j)) :
    ∃ c ∈ W.take (k + 1), rowOf c = some r := by
  rw [(acked_survive C hC W hW k j).1] at hr
  obtain ⟨c, hc, hrc⟩ := spec_origin _ (topLevel_take hW _) r hr
  refine ⟨c, ?_, hrc⟩
  by_cases h1 : j ≤ 1
  · simp [h1] at hc
    obtain ⟨i, hi, hget⟩ := List.mem_iff_getElem.mp hc
    rw [List.getElem_take] at hget
    simp [List.length_take] at hi
    exact List.mem_iff_getElem.mpr ⟨i, by simp [List.length_take]; omega, by rw [List.getElem_take]; exact hget⟩
  · simpa [h1] using hc

/-- **the pseudonym rebuilt from the store verifies.**  `dep` names the record a record points to (token → previous
    token or none for genesis, metadata → token, attestation → metadata).  If the workload writes a record only
    after the one it points to (what `PseudonymManager.create_credential/add_credential/add_attestation` do;
    checked on every generated manager workload), then after a kill at any point the visible store is closed under
    `dep` and from every visible record the pointer chain reaches a genesis record inside the store — the walk of
    `TokenTree.verify` succeeds (its depth limit of 1000 and the signature checks are not modelled). -/
theorem rebuild_verifies (C : CommitMethod) (hC : wfCommit C = true) (W : List Call) (hW : TopLevel W)
    (dep : Nat → Nat → Option (Nat × Nat)) (hdep : Causal dep W) (k j : Nat) :
    Closed dep (visible (crashAt C W k j)) ∧
    ∀ r ∈ visible (crashAt C W k j), Reaches dep (visible (crashAt C W k j)) r.table r.key := by
  rw [(acked_survive C hC W hW k j).1]
  exact spec_closed_reaches dep W hW hdep _

/-- the hypothesis `Causal` can be *computed* for a concrete workload: the executable `causalCheck` (run by the
    driver on the insert order observed from the real PseudonymManager in every manager run) is sound -/
theorem causal_check_sound (dep : Nat → Nat → Option (Nat × Nat)) (W : List Call)
    (h : causalCheck dep W = true) : Causal dep W := by
  intro i c hi row hrow d hd
  have := causalCheckFrom_sound dep W [] (by simpa [causalCheck, spec, specFrom] using h) i c hi row hrow d hd
  simpa using this

/-- the three IdentityDatabase inserts are exactly `storeOps` of their table, and the manager stores a credential's
    parts tokens first, then metadata, then attestations — in `add_credential` (hence `create_credential`) and in
    `substantiate` (both orders generated from the call sites of manager.py) -/
theorem credential_parts_stored_in_pointer_order :
    (Gen.insertMethods.take 3).map (·.paths) = [[storeOps 0], [storeOps 1], [storeOps 2]] ∧
    Gen.credentialOrder = [0, 1, 2] ∧ Gen.substantiateOrder = [0, 1, 2] := by decide

/-- **`Causal` discharged for credentials stored through the manager**: any list of credentials whose predecessor
    token is genesis or the token of an earlier credential (`Linked`: what `create_credential(after=…)` produces, and
    what a disclosure handed over oldest first produces), stored in the generated order, with any pointer function
    `dep` that reads the credentials' pointers (`DepOk`) — the resulting workload satisfies `Causal`.  No hypothesis
    about the insert order is left: it comes from `Gen.credentialOrder`. -/
theorem own_credentials_stored_causally (dep : Nat → Nat → Option (Nat × Nat)) (creds : List Cred)
    (hd : ∀ c ∈ creds, DepOk dep c) (hl : Linked [] creds) :
    TopLevel (creds.flatMap (credCalls Gen.credentialOrder)) ∧
    Causal dep (creds.flatMap (credCalls Gen.credentialOrder)) := by
  have ho : Gen.credentialOrder = [0, 1, 2] := credential_parts_stored_in_pointer_order.2.1
  rw [ho]
  refine ⟨credCalls_topLevel creds, ?_⟩
  intro i c hi row hrow d hdep
  have h := creds_causalL dep creds [] [] hd hl (by simp)
  have := causal_of_causalL dep _ [] (by simpa using credCalls_topLevel creds) h i c hi row hrow d hdep
  simpa using this

/-- … hence, with no hypothesis on the caller: credentials created through the manager, a kill at any point, reopen —
    the store is closed under the pointers and every chain reaches genesis -/
theorem own_pseudonym_survives (C : CommitMethod) (hC : wfCommit C = true) (dep : Nat → Nat → Option (Nat × Nat))
    (creds : List Cred) (hd : ∀ c ∈ creds, DepOk dep c) (hl : Linked [] creds) (k j : Nat) :
    let W := creds.flatMap (credCalls Gen.credentialOrder)
    Closed dep (visible (crashAt C W k j)) ∧
    ∀ r ∈ visible (crashAt C W k j), Reaches dep (visible (crashAt C W k j)) r.table r.key := by
  obtain ⟨hT, hc⟩ := own_credentials_stored_causally dep creds hd hl
  exact rebuild_verifies C hC _ hT dep hc k j

/-- what the order is for: metadata stored before its token is not `Causal` (the executable check says so) -/
example :
    causalCheck (fun t k => if t = 1 ∧ k = 5 then some (0, 1) else none)
      (credCalls [1, 0, 2] ⟨1, none, 5, []⟩) = false ∧
    causalCheck (fun t k => if t = 1 ∧ k = 5 then some (0, 1) else none)
      (credCalls [0, 1, 2] ⟨1, none, 5, []⟩) = true := by decide

/-- non-vacuity of `Causal`: token 1 (genesis), token 2 → token 1, metadata 5 → token 2 -/
example : Causal (fun t k => if t = 0 ∧ k = 2 then some (0, 1) else if t = 1 ∧ k = 5 then some (0, 2) else none)
    [⟨0, [.exec 0 .orIgnore, .callCommit, .ret], 1, 10⟩, ⟨1, [.exec 0 .orIgnore, .callCommit, .ret], 2, 20⟩,
     ⟨2, [.exec 1 .orIgnore, .callCommit, .ret], 5, 50⟩] := by
  intro i c hi row hrow d hd
  match i, hi with
  | 0, hi => simp at hi; subst hi; simp [rowOf, callExec] at hrow; subst hrow; simp at hd
  | 1, hi => simp at hi; subst hi; simp [rowOf, callExec] at hrow; subst hrow; simp at hd; subst hd; decide
  | 2, hi => simp at hi; subst hi; simp [rowOf, callExec] at hrow; subst hrow; simp at hd; subst hd; decide
  | n + 3, hi => simp at hi

/-- **the rebuilt pseudonym holds every stored token** (reload path, `PseudonymManager.__init__`): whatever the
    number of stored tokens, their tree shape and the order in which the set of rows is iterated, every stored token
    is in the rebuilt tree — so with `rebuild_verifies` (the store is closed and every chain reaches genesis) the
    rebuilt tree verifies.  Holds because the loop, as translated from the current source (`Gen.reloadMode`), places
    tokens directly; a loop through `gather_token` parks tokens in a bounded buffer and loses stored tokens once more
    than `cap` wait for their predecessor (example below). -/
theorem rebuilt_tree_complete (toks : List Tok) : ∀ t ∈ toks, t.id ∈ reload Gen.reloadMode toks := by
  have h : Gen.reloadMode = .direct := by decide
  intro t ht
  rw [h]
  simp only [reload, List.mem_map]
  exact ⟨t, ht, rfl⟩

/-- **store → reload → tree, composed**: after a kill at any point of any block-free workload that writes records
    after the ones they point to (`Causal`), let the reload loop read the visible token rows of table `tt` in ANY
    order (`toks` is a permutation of them, each with its predecessor from `dep`; pointers stay inside the table).
    Then every visible token is in the rebuilt tree and its pointer chain reaches genesis through tokens of the
    rebuilt tree — what `TokenTree.verify` walks (signatures and the depth limit of 1000 are not modelled).
    The reload mode is the generated one; the proof uses only `rebuilt_tree_complete`, i.e. it holds for every reload
    that keeps all tokens, and fails (example below) for one that does not. -/
theorem rebuilt_pseudonym_verifies (C : CommitMethod) (hC : wfCommit C = true) (W : List Call) (hW : TopLevel W)
    (dep : Nat → Nat → Option (Nat × Nat)) (hdep : Causal dep W) (k j tt : Nat)
    (hin : ∀ key d, dep tt key = some d → d.1 = tt) (toks : List Tok)
    (hperm : toks.Perm (toksOf dep tt (visible (crashAt C W k j)))) :
    ∀ r ∈ visible (crashAt C W k j), r.table = tt →
      ChainIn dep tt (reload Gen.reloadMode toks) r.key := by
  intro r hr ht
  have hreach := (rebuild_verifies C hC W hW dep hdep k j).2 r hr
  rw [ht] at hreach
  refine chainIn_of_reaches dep tt _ _ hin ?_ tt r.key hreach rfl
  intro r' hr' ht'
  exact rebuilt_tree_complete toks ⟨r'.key, (dep tt r'.key).map (·.2)⟩
    (hperm.mem_iff.mpr (mem_toksOf dep tt _ r' hr' ht'))

/-- a chain 0 ← 1 ← 2 ← 3 ← 4 read back newest first through a buffer of 2: tokens 4 and 3 are dropped -/
example : reload (.gather 2) [⟨4, some 3⟩, ⟨3, some 2⟩, ⟨2, some 1⟩, ⟨1, some 0⟩, ⟨0, none⟩] = [0, 1, 2] := by decide

/-- the same chain, short enough for the buffer, is re-linked completely by the chain reaction -/
example : reload (.gather 4) [⟨4, some 3⟩, ⟨3, some 2⟩, ⟨2, some 1⟩, ⟨1, some 0⟩, ⟨0, none⟩] = [0, 1, 2, 3, 4] := by
  decide

/-! ## `with db:` blocks (not used by the identity code today; mirrored because `Database` offers them) -/

/-- **a block is invisible until its exit**: after any complete inserts `pre`, `__enter__`, any complete inserts
    `blk` inside the block and `j` primitives of one more insert `c`, a kill shows exactly the content before the
    block — although every insert of `blk` has *returned*.  (So the property's "returned ⇒ present" holds for the
    call sites of the identity code only because none of them runs inside a block; `acked_survive` is stated for
    block-free workloads.)  `crashAt W k j` unfolds to this form for `W = pre ++ [e] ++ blk ++ [c] ++ …`. -/
theorem deferred_block_invisible (C : CommitMethod) (hC : wfCommit C = true) (pre blk : List Call)
    (hpre : TopLevel pre) (hblk : TopLevel blk) (e c : Call) (he : e.ops = [.enter])
    (hc : wfInsertPath c.ops = true) (j : Nat) :
    visible (runPrims C c j c.ops (runCalls C (pre ++ [e] ++ blk) Db.init)) = (spec pre).1 := by
  obtain ⟨t, pol, _, hops⟩ := wf_shape hc
  rw [List.append_assoc, runCalls_append, runCalls_append, runCalls_init C hC pre hpre]
  have h2 : runCalls C [e] { durable := (spec pre).1, work := (spec pre).1, defer := 0, acks := (spec pre).2 }
      = { durable := (spec pre).1, work := (spec pre).1, defer := 1, acks := (spec pre).2 } := by
    simp [runCalls, runCall, he, runPrims, stepPrim]
  rw [h2]
  obtain ⟨d1, _, _, d4, _⟩ := runCalls_deferred C hC blk hblk
    { durable := (spec pre).1, work := (spec pre).1, defer := 1, acks := (spec pre).2 } (by simp)
  rw [visible_eq, hops, runPrims_deferred C hC c t pol _ (by simpa using d4) j, d1]

/-- **a block commits as a whole at its normal exit**: afterwards the store is the reference content of
    `pre ++ blk`; together with the previous theorem: all of the block or nothing of it -/
theorem deferred_block_atomic (C : CommitMethod) (hC : wfCommit C = true) (hB : wfBatch C = true)
    (pre blk : List Call) (hpre : TopLevel pre) (hblk : TopLevel blk) (e x : Call) (he : e.ops = [.enter]) (hx : x.ops = [.exit]) :
    visible (runCalls C (pre ++ [e] ++ blk ++ [x]) Db.init) = (spec (pre ++ blk)).1 := by
  rw [List.append_assoc, List.append_assoc, runCalls_append, runCalls_append, runCalls_append,
    runCalls_init C hC pre hpre]
  have h2 : runCalls C [e] { durable := (spec pre).1, work := (spec pre).1, defer := 0, acks := (spec pre).2 }
      = { durable := (spec pre).1, work := (spec pre).1, defer := 1, acks := (spec pre).2 } := by
    simp [runCalls, runCall, he, runPrims, stepPrim]
  rw [h2]
  obtain ⟨d1, d2, _, d4, d5⟩ := runCalls_deferred C hC blk hblk
    { durable := (spec pre).1, work := (spec pre).1, defer := 1, acks := (spec pre).2 } (by simp)
  have hspec : (spec (pre ++ blk)).1 = (blk.foldl specStep ((spec pre).1, (spec pre).2)).1 := by
    simp [spec, specFrom, List.foldl_append]
  generalize runCalls C blk
    { durable := (spec pre).1, work := (spec pre).1, defer := 1, acks := (spec pre).2 } = s3 at d1 d2 d4 d5
  simp only [] at d1 d2 d4 d5
  rw [hspec, ← d2, visible_eq]
  have hX : C.exitResetsFirst = true := by simp [wfBatch] at hB; exact hB.2
  by_cases hgt : s3.defer > 1
  · simp [runCalls, runCall, hx, runPrims, stepPrim, hgt, hX, doCommit_idle C hC]
  · have h1 : s3.defer = 1 := by omega
    simp [runCalls, runCall, hx, runPrims, stepPrim, hgt, hX, d1, d5 h1]

/-- **batches of any nesting flush when they are left.**  `W` is any sequence of inserts, `__enter__`s and normal
    `__exit__`s (nested, repeated, even unbalanced).  After it ran without a kill: the connection's image is the
    reference content of all its inserts, and whenever at most one level of deferral is counted (`defer ≤ 1`, in
    particular after the outermost exit, `defer = 0`) everything is committed — every insert that returned inside a
    batch is durable once the outermost batch has been left, so a later kill cannot lose it.  Needs `wfBatch`:
    `__enter__` keeps the enclosing count and `__exit__` resets before committing (both generated; a nested
    `__enter__` that resets the count to 1 breaks exactly this, see the example below). -/
theorem batches_flush_on_exit (C : CommitMethod) (hC : wfCommit C = true) (hB : wfBatch C = true) (W : List Call)
    (hW : Batched W) :
    (runCalls C W Db.init).work = (spec W).1 ∧
    ((runCalls C W Db.init).defer ≤ 1 → (runCalls C W Db.init).durable = (runCalls C W Db.init).work) := by
  have h := runCalls_batched C hC hB W hW Db.init ⟨fun _ => rfl⟩
  exact ⟨h.1, h.2.2.1⟩

/-- … and a kill at that moment loses nothing: after a sequence of batches that has been left completely
    (`defer = 0`), what a fresh process sees is the reference content of all its inserts -/
theorem batches_survive_kill (C : CommitMethod) (hC : wfCommit C = true) (hB : wfBatch C = true) (W : List Call)
    (hW : Batched W) (hleft : (runCalls C W Db.init).defer = 0) :
    visible (runCalls C W Db.init) = (spec W).1 := by
  obtain ⟨h1, h2⟩ := batches_flush_on_exit C hC hB W hW
  rw [visible_eq, h2 (by omega), h1]

/-- the generated `Database` nests and flushes -/
theorem batch_counter_shape : wfBatch Gen.commitMethod = true := by decide

/-- what `max(1, …)` in `__enter__` is for: outer batch stores a record, an inner batch does nothing, both are left
    normally — with an `__enter__` that resets the counter the record is still uncommitted, a kill loses it -/
example :
    let C : CommitMethod := { Gen.commitMethod with enterKeeps := false }
    let W : List Call := [⟨0, [.enter], 0, 0⟩, ⟨1, [.exec 0 .orIgnore, .callCommit, .ret], 1, 1⟩, ⟨2, [.enter], 0, 0⟩,
                          ⟨3, [.exit], 0, 0⟩, ⟨4, [.exit], 0, 0⟩]
    (runCalls C W Db.init).defer = 0 ∧ (runCalls C W Db.init).acks = [1] ∧ visible (runCalls C W Db.init) = [] ∧
    visible (runCalls Gen.commitMethod W Db.init) = [⟨0, 1, 1⟩] := by decide

/-- mirrored quirk (outside `Batched`): an inner batch left by an exception that is swallowed inside the outer batch
    zeroes the counter, so the outer batch's normal exit commits nothing — its record is still uncommitted after
    both batches were left (the harness does not demand such records; `with db:` is unused by the anchored code) -/
example :
    let W : List Call := [⟨0, [.enter], 0, 0⟩, ⟨1, [.exec 0 .orIgnore, .callCommit, .ret], 1, 1⟩, ⟨2, [.enter], 0, 0⟩,
                          ⟨3, [.exitExc], 0, 0⟩, ⟨4, [.exit], 0, 0⟩]
    (runCalls Gen.commitMethod W Db.init).defer = 0 ∧ visible (runCalls Gen.commitMethod W Db.init) = [] := by decide

/-- non-vacuity: two inserts inside a block, killed after the second has returned: nothing is visible; after the
    exit both are -/
example :
    let ins (i k : Nat) : Call := ⟨i, [.exec 0 .orIgnore, .callCommit, .ret], k, k⟩
    visible (runCalls Gen.commitMethod [⟨0, [.enter], 0, 0⟩, ins 1 1, ins 2 2] Db.init) = [] ∧
    (runCalls Gen.commitMethod [⟨0, [.enter], 0, 0⟩, ins 1 1, ins 2 2] Db.init).acks = [1, 2] ∧
    visible (runCalls Gen.commitMethod [⟨0, [.enter], 0, 0⟩, ins 1 1, ins 2 2, ⟨3, [.exit], 0, 0⟩] Db.init)
      = [⟨0, 1, 1⟩, ⟨0, 2, 2⟩] := by decide

/-! ## the database opens again -/

/-- **the database opens again without error** (IdentityDatabase): whatever a kill left of a file written by this
    release — also a kill between the statements of the schema script of an earlier `open()`, each of which commits
    on its own — `open()` raises nothing (version-row read survived; tables are created IF NOT EXISTS; the version row
    is deleted before it is inserted) and ends with option table and version row.  Scope: the state `open()` depends
    on is (option table, version row, its value, upgraded column); `_initial_statements` (pragmas, VACUUM) is SQLite's
    business and is only exercised by the kill runs.  Proof: simulation on table-free states (`runTx_flags`), then
    `decide` over all of them × every prefix of the statements `open()` runs, on the generated configuration. -/
theorem reopen_never_fails_identity : OpenSafe Gen.openIdentityDatabase 1 :=
  openSafe_of _ _ (by decide)

/-- the same for AttestationsDB, **including files of schema version 1** that `check_database` upgrades
    (`ALTER TABLE … ADD id_format`): a kill behind any statement of the upgrade or schema script leaves a file that
    opens again and ends upgraded.  Holds because the generated upgrade script is one transaction that also bumps
    the version row (commit 6e6fbfe); see the example below for the script it replaced. -/
theorem reopen_never_fails_wallet : OpenSafe Gen.openAttestationsDB 2 :=
  openSafe_of _ _ (by decide)

/-- file states stay `consistent` under a killed open: so any number of killed opens in a row, then a complete one,
    is covered by the two theorems above (decided on all table-free states × every statement prefix; the record
    tables do not enter `consistent`) -/
theorem consistent_preserved :
    (∀ f ∈ flagStates 1, consistent Gen.openIdentityDatabase f = true →
      ∀ p ∈ prefixes (openStmts Gen.openIdentityDatabase f),
        consistent Gen.openIdentityDatabase (runTx p (fresh f)).1.committed = true) ∧
    (∀ f ∈ flagStates 2, consistent Gen.openAttestationsDB f = true →
      ∀ p ∈ prefixes (openStmts Gen.openAttestationsDB f),
        consistent Gen.openAttestationsDB (runTx p (fresh f)).1.committed = true) := by decide

/-- an upgrade that adds a column also fills it for the existing records, inside the same transaction (the wallet's
    reload path decodes `id_format` of every stored record: a NULL there keeps the wallet from ever starting) -/
theorem upgrade_fills_new_column :
    ∀ u ∈ Gen.openAttestationsDB.upgrades ++ Gen.openIdentityDatabase.upgrades, upgradeFills u.2 = true := by decide

/-- what the handler list is for (before commit fdb0f78): killed after `CREATE TABLE option`, before the version row
    is inserted, the next open fails -/
example :
    let cfg := { Gen.openIdentityDatabase with handlers := [.operationalError] }
    openOk cfg (openKilled cfg 4 {}) = false := by decide

/-- what the transaction in the upgrade script is for (before commit 6e6fbfe): a version-1 file killed right after
    the ALTER TABLE says version 1 and has the column; the next open raises "duplicate column name" -/
example :
    let cfg := { Gen.openAttestationsDB with upgrades := [(1, [.alterAddCol, .fillCol])] }
    let v1 : OpenSt := { tables := [3], option := true, version := true, ver := 1, col := false }
    openOk cfg v1 = true ∧ openOk cfg (openKilled cfg 1 v1) = false := by decide

/-- and what `DELETE … database_version` is for: without it the second open raises on the duplicate version row -/
example :
    let cfg : OpenCfg := { handlers := Gen.versionHandlers, latest := 1, upgrades := [],
                           script := [.createOption, .insertVersion 1] }
    openOk cfg (openEnd cfg {}) = false := by decide

end Ipv8.C19
