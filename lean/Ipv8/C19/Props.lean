/-
  C19 — property theorems.  Every `theorem` in this file is an obligation of the check.

  `Gen.insertMethods`, `Gen.commitMethod`, `Gen.tables`, `Gen.schema*`, `Gen.versionHandlers` are REGENERATED from
  /repo on every run (tools/gen_db.py), so the `decide` theorems are re-proved against what the code says now.
  The general theorems quantify over every workload (any length), every crash point `(k, j)` = "after k complete
  calls and j primitives of call k" (any numbers, also beyond the end), every key/record assignment.
-/
import Ipv8.C19.Lemmas
import Ipv8.C19.GenDbOps

namespace Ipv8.C19

/-! ## the translated code has the shape the crash argument needs -/

/-- every path of every `insert_*` method is: one INSERT (not OR REPLACE), then `self.commit()`, then return -/
theorem insert_is_exec_then_commit :
    ∀ m ∈ Gen.insertMethods, ∀ p ∈ m.paths, wfInsertPath p = true := by decide

/-- `Database.commit` really commits when no `with db:` block is open, and only counts otherwise -/
theorem commit_commits_unless_deferred : wfCommit Gen.commitMethod = true := by decide

/-- the INSERT of every method binds all primary-key columns of its table and only columns the schema declares -/
theorem insert_binds_primary_key : ∀ m ∈ Gen.insertMethods, bindsPk Gen.tables m = true := by decide

/-- `Database._connect` keeps python's implicit transaction (an INSERT is not durable before `commit`) -/
theorem connection_not_autocommit : Gen.connectAutocommit = false := by decide

example : Gen.insertMethods.length ≥ 4 := by decide

/-! ## crash at any point of any workload of inserts -/

/-- **acked_survive.**  Kill the process after `k` complete insert calls and `j` primitives of call `k`
    (j = 0 before the INSERT, 1 after it, 2 after the commit, ≥ 3 after the return) and let a fresh process open
    the file.  What it sees is exactly the reference content (no transactions, no crash) of the first `k` calls
    when the kill came before the commit, of the first `k+1` calls afterwards; the set of calls that had returned
    is the reference ack list of the first `k` (resp. `k+1` once the return happened).  Hence: every record whose
    insert had returned is there, the in-flight record is there completely or not at all, nothing else is there. -/
theorem acked_survive (C : CommitMethod) (hC : wfCommit C = true) (W : List Call) (hW : TopLevel W) (k j : Nat) :
    visible (crashAt C W k j) = (spec (W.take (if j ≤ 1 then k else k + 1))).1 ∧
    (crashAt C W k j).acks = (spec (W.take (if j ≤ 2 then k else k + 1))).2 := by
  have h0 := runCalls_init C hC (W.take k) (topLevel_take hW k)
  unfold crashAt
  simp only [h0, visible_eq]
  cases hk : W[k]? with
  | none =>
    have hlen : W.length ≤ k := by simpa using hk
    have e1 : W.take (k + 1) = W.take k := by
      rw [List.take_of_length_le hlen, List.take_of_length_le (by omega)]
    by_cases h1 : j ≤ 1 <;> by_cases h2 : j ≤ 2 <;> simp [h1, h2, e1]
  | some c =>
    have hc : wfInsertPath c.ops = true := hW c (List.mem_of_getElem? hk)
    obtain ⟨t, pol, _, hops⟩ := wf_shape hc
    have hs : spec (W.take (k + 1)) =
        match insertRow pol ⟨t, c.key, c.val⟩ (spec (W.take k)).1 with
        | some rows => (rows, (spec (W.take k)).2 ++ [c.id])
        | none => spec (W.take k) := by
      rw [take_succ_getElem W k c hk, spec_snoc, specStep_shape _ c t pol _ hops]
      cases insertRow pol ⟨t, c.key, c.val⟩ (spec (W.take k)).1 <;> rfl
    simp only [hops]
    rw [runPrims_wf C hC c t pol _ ⟨rfl, rfl⟩ j]
    cases hins : insertRow pol ⟨t, c.key, c.val⟩ (spec (W.take k)).1 with
    | none =>
      rw [hins] at hs
      by_cases h1 : j ≤ 1 <;> by_cases h2 : j ≤ 2 <;> simp [h1, h2, hs]
    | some w =>
      rw [hins] at hs
      match j with
      | 0 => simp
      | 1 => simp
      | 2 => simp [hs]
      | j + 3 => simp [hs]

/-- the same for workloads built from the generated methods and the generated `Database.commit` -/
theorem acked_survive_generated (W : List Call)
    (hW : ∀ c ∈ W, ∃ m ∈ Gen.insertMethods, c.ops ∈ m.paths) (k j : Nat) :
    visible (crashAt Gen.commitMethod W k j) = (spec (W.take (if j ≤ 1 then k else k + 1))).1 ∧
    (crashAt Gen.commitMethod W k j).acks = (spec (W.take (if j ≤ 2 then k else k + 1))).2 :=
  acked_survive Gen.commitMethod commit_commits_unless_deferred W
    (fun c hc => by
      obtain ⟨m, hm, hp⟩ := hW c hc
      exact insert_is_exec_then_commit m hm c.ops hp) k j

/-- **in-flight atomicity**: whatever the crash point, the reopened store is the reference content of the calls
    that completed, with or without the call in flight — never anything in between or anything else -/
theorem inflight_atomic (C : CommitMethod) (hC : wfCommit C = true) (W : List Call) (hW : TopLevel W) (k j : Nat) :
    visible (crashAt C W k j) = (spec (W.take k)).1 ∨ visible (crashAt C W k j) = (spec (W.take (k + 1))).1 := by
  have h := (acked_survive C hC W hW k j).1
  by_cases hj : j ≤ 1
  · left; simpa [hj] using h
  · right; simpa [hj] using h

/-- non-vacuity: a workload over all four generated methods with a duplicate key; killed after the INSERT of
    the 4th call: the three acknowledged records are visible, the fourth is not -/
example :
    let W : List Call := [⟨0, [.exec 0 .orIgnore, .callCommit, .ret], 7, 70⟩,
                          ⟨1, [.exec 1 .orIgnore, .callCommit, .ret], 8, 80⟩,
                          ⟨2, [.exec 0 .orIgnore, .callCommit, .ret], 7, 71⟩,
                          ⟨3, [.exec 2 .orIgnore, .callCommit, .ret], 9, 90⟩]
    visible (crashAt Gen.commitMethod W 3 1) = [⟨0, 7, 70⟩, ⟨1, 8, 80⟩] ∧
    (crashAt Gen.commitMethod W 3 1).acks = [0, 1, 2] ∧
    visible (crashAt Gen.commitMethod W 3 2) = [⟨0, 7, 70⟩, ⟨1, 8, 80⟩, ⟨2, 9, 90⟩] := by decide

/-- why the shape matters (what a dropped `self.commit()` does): the call returns, is killed, and the record is gone -/
example :
    let W : List Call := [⟨0, [.exec 0 .orIgnore, .ret], 7, 70⟩]
    (crashAt Gen.commitMethod W 1 0).acks = [0] ∧ visible (crashAt Gen.commitMethod W 1 0) = [] := by decide

end Ipv8.C19
