/-
  C19 — crash model of the identity / attestation stores (core Lean only).

  What is mirrored (ipv8/database.py, attestation/identity/database.py, attestation/wallet/database.py):
    * a connection has a committed image (`durable`) and the image its own connection sees (`work`);
      `cursor.execute("INSERT [OR IGNORE|OR REPLACE] …")` changes `work` only (python's sqlite3 opens an implicit
      transaction before the first INSERT), `connection.commit()` copies `work` to `durable`;
    * `Database.commit()`: the two paths of its body (`_pending_commits` zero / non-zero) are GENERATED from the
      source as primitive lists (`CommitMethod`), interpreted by `commitBody`;
    * `Database.__enter__/__exit__` (`with db:`): the pending-commit counter `defer`;
    * every `insert_*` method is a GENERATED list of primitives per control-flow path (`GenDbOps.lean`);
    * SIGKILL + reopen by a fresh process: `recover` (uncommitted image and all in-memory state are lost);
    * `open()`: the schema script (every statement is its own transaction under `executescript`) and
      `_prepare_version` reading the `database_version` row (`OpenSt`, `openDb`).
  Rows are atomic values `(table, primary-key id, full-record id)`: SQLite's statement and transaction atomicity
  is the runtime assumption, checked by the kill/reopen runs of harness/c19.py.
-/
namespace Ipv8.C19

/-- conflict clause of the INSERT statement -/
inductive Policy
  | orIgnore   -- INSERT OR IGNORE: an existing row with the same primary key wins, no error
  | abort      -- plain INSERT: sqlite3.IntegrityError on a duplicate primary key
  | replace    -- INSERT OR REPLACE: the existing row is deleted
  deriving DecidableEq, Repr

/-- primitive operations the translator (tools/gen_db.py) emits -/
inductive Prim
  | exec (table : Nat) (policy : Policy)   -- self.execute("INSERT … INTO <table> …", bindings)
  | callCommit                             -- self.commit()
  | connCommit                             -- self._connection.commit()          (inside Database.commit)
  | incPending                             -- self._pending_commits += 1         (inside Database.commit)
  | ret                                    -- return (explicit or falling off the end)
  | enter                                  -- Database.__enter__
  | exit                                   -- Database.__exit__(None, None, None)
  | exitExc                                -- Database.__exit__ with an exception (IgnoreCommits or any other)
  | kill                                   -- SIGKILL + reopen by a fresh process, as a workload step (kill/restart cycles)
  deriving DecidableEq, Repr

/-- the body of `Database.commit`, one primitive list per value of the test `if self._pending_commits:` -/
structure CommitMethod where
  idle : List Prim
  deferred : List Prim
  /-- `__enter__` keeps the count of commits an enclosing block has deferred: `max(1, self._pending_commits)` -/
  enterKeeps : Bool := true
  /-- `__exit__` takes the counter to 0 before it calls `self.commit()` (otherwise that commit is deferred again) -/
  exitResetsFirst : Bool := true
  deriving DecidableEq, Repr

/-- an `insert_*` method: one primitive list per control-flow path -/
structure Method where
  cls : Nat
  name : Nat
  table : Nat
  cols : List Nat          -- column ids bound by the INSERT (ids index `Gen.columnNames`)
  paths : List (List Prim)
  deriving DecidableEq, Repr

structure TableInfo where
  tid : Nat
  pk : List Nat            -- primary-key column ids
  cols : List Nat
  deriving DecidableEq, Repr

structure Row where
  table : Nat
  key : Nat                -- identifies the values of the primary-key columns
  val : Nat                -- identifies the whole record (all columns)
  deriving DecidableEq, Repr

structure Db where
  durable : List Row := []
  work : List Row := []
  defer : Nat := 0         -- Database._pending_commits
  acks : List Nat := []    -- ghost: ids of the calls that have returned
  deriving DecidableEq, Repr

def Db.init : Db := {}

def sameKey (t k : Nat) (r : Row) : Bool := r.table == t && r.key == k

def hasKey (rows : List Row) (t k : Nat) : Bool := rows.any (sameKey t k)

/-- effect of one INSERT on a table image; `none` = IntegrityError -/
def insertRow (pol : Policy) (r : Row) (rows : List Row) : Option (List Row) :=
  if hasKey rows r.table r.key then
    match pol with
    | .orIgnore => some rows
    | .abort => none
    | .replace => some (rows.filter (fun x => !sameKey r.table r.key x) ++ [r])
  else some (rows ++ [r])

/-- interpretation of the generated body of `Database.commit` -/
def commitBody : List Prim → Db → Db
  | [], db => db
  | .ret :: _, db => db
  | .connCommit :: ps, db => commitBody ps { db with durable := db.work }
  | .incPending :: ps, db => commitBody ps { db with defer := db.defer + 1 }
  | _ :: ps, db => commitBody ps db

/-- `self.commit()` -/
def doCommit (C : CommitMethod) (db : Db) : Db :=
  commitBody (if db.defer = 0 then C.idle else C.deferred) db

/-- SIGKILL, then a fresh process opens the file: only the committed image survives -/
def recover (db : Db) : Db := { db with work := db.durable, defer := 0 }

inductive Status
  | running | returned | raised
  deriving DecidableEq, Repr

/-- one call of the workload: the primitive list of the path taken, and the record it binds -/
structure Call where
  id : Nat
  ops : List Prim
  key : Nat
  val : Nat
  deriving DecidableEq, Repr

def stepPrim (C : CommitMethod) (c : Call) (p : Prim) (db : Db) : Db × Status :=
  match p with
  | .exec t pol =>
    match insertRow pol ⟨t, c.key, c.val⟩ db.work with
    | some w => ({ db with work := w }, .running)
    | none => (db, .raised)
  | .callCommit => (doCommit C db, .running)
  | .connCommit => ({ db with durable := db.work }, .running)
  | .incPending => ({ db with defer := db.defer + 1 }, .running)
  | .ret => ({ db with acks := db.acks ++ [c.id] }, .returned)
  | .enter => ({ db with defer := if C.enterKeeps then max 1 db.defer else 1 }, .running)
  | .exit =>
    if C.exitResetsFirst then
      let db' := { db with defer := 0 }
      (if db.defer > 1 then doCommit C db' else db', .running)
    else
      let db1 := if db.defer > 1 then doCommit C db else db
      ({ db1 with defer := 0 }, .running)
  | .exitExc => ({ db with defer := 0 }, .running)
  | .kill => (recover db, .running)

/-- run at most `n` primitives of a call (crash point `n` inside the call) -/
def runPrims (C : CommitMethod) (c : Call) : Nat → List Prim → Db → Db
  | 0, _, db => db
  | _, [], db => db
  | n + 1, p :: ps, db =>
    match stepPrim C c p db with
    | (db', .running) => runPrims C c n ps db'
    | (db', _) => db'

def runCall (C : CommitMethod) (db : Db) (c : Call) : Db := runPrims C c c.ops.length c.ops db

def runCalls (C : CommitMethod) (W : List Call) (db : Db) : Db := W.foldl (runCall C) db

/-- state of a process that starts on store `db` when it is killed after `k` complete calls and `j` primitives
    of call `k` -/
def crashFrom (C : CommitMethod) (db : Db) (W : List Call) (k j : Nat) : Db :=
  let s := runCalls C (W.take k) db
  match W[k]? with
  | some c => runPrims C c j c.ops s
  | none => s

/-- the same on a new, empty store -/
def crashAt (C : CommitMethod) (W : List Call) (k j : Nat) : Db := crashFrom C Db.init W k j

/-- the rows a fresh process sees -/
def visible (db : Db) : List Row := (recover db).work

/-! ### reference semantics: what a store without transactions, commits and crashes would contain -/

def callExec (c : Call) : Option (Nat × Policy) :=
  match c.ops with
  | .exec t pol :: _ => some (t, pol)
  | _ => none

def specStep (st : List Row × List Nat) (c : Call) : List Row × List Nat :=
  match callExec c with
  | some (t, pol) =>
    match insertRow pol ⟨t, c.key, c.val⟩ st.1 with
    | some rows => (rows, st.2 ++ [c.id])
    | none => st
  | none => st

def specFrom (st : List Row × List Nat) (W : List Call) : List Row × List Nat := W.foldl specStep st

def spec (W : List Call) : List Row × List Nat := specFrom ([], []) W

/-- one process lifetime: its workload and the point at which it is killed -/
structure Life where
  W : List Call
  k : Nat
  j : Nat

/-- the calls of a lifetime whose commit happened before the kill -/
def Life.survivors (l : Life) : List Call := l.W.take (if l.j ≤ 1 then l.k else l.k + 1)

/-- any number of start / work / kill cycles on the same file -/
def runLives (C : CommitMethod) (db : Db) (ls : List Life) : Db :=
  ls.foldl (fun db l => recover (crashFrom C db l.W l.k l.j)) db

/-- the record a call binds -/
def rowOf (c : Call) : Option Row :=
  match callExec c with
  | some (t, _) => some ⟨t, c.key, c.val⟩
  | none => none

/-- executable check that a workload writes every record after the record it points to (`dep`), against the
    reference content `rows` reached so far -/
def causalCheckFrom (dep : Nat → Nat → Option (Nat × Nat)) : List Row → List Call → Bool
  | _, [] => true
  | rows, c :: cs =>
    (match rowOf c with
      | some row =>
        match dep row.table row.key with
        | some d => hasKey rows d.1 d.2
        | none => true
      | none => true) && causalCheckFrom dep (specStep (rows, []) c).1 cs

def causalCheck (dep : Nat → Nat → Option (Nat × Nat)) (W : List Call) : Bool := causalCheckFrom dep [] W

/-- a dependency function given as a finite table ((table, key) ↦ (table, key)); absent = genesis -/
def depOfList (deps : List ((Nat × Nat) × (Nat × Nat))) (t k : Nat) : Option (Nat × Nat) :=
  (deps.find? (fun e => e.1 == (t, k))).map (·.2)

/-! ### a credential as `PseudonymManager.add_credential / create_credential` stores it -/

/-- `self.execute("INSERT OR IGNORE INTO <t> …"); self.commit(); return` -/
def storeOps (t : Nat) : List Prim := [.exec t .orIgnore, .callCommit, .ret]

/-- token key, predecessor token key (`none` = genesis), metadata key, attestation keys -/
structure Cred where
  tk : Nat
  prev : Option Nat
  mdk : Nat
  aks : List Nat
  deriving DecidableEq, Repr

/-- the insert calls that storing `c` issues, tables in the (generated) order `order`: 0 token, 1 metadata,
    2 attestations -/
def credCalls (order : List Nat) (c : Cred) : List Call :=
  order.flatMap fun t =>
    if t = 0 then [⟨0, storeOps 0, c.tk, c.tk⟩]
    else if t = 1 then [⟨0, storeOps 1, c.mdk, c.mdk⟩]
    else if t = 2 then c.aks.map (fun a => ⟨0, storeOps 2, a, a⟩)
    else []

/-- every credential's predecessor token is genesis or the token of an earlier credential (what `create_credential`
    with `after=` an existing credential, or a chain handed over oldest first, gives) -/
def Linked : List Nat → List Cred → Prop
  | _, [] => True
  | known, c :: cs => (∀ p, c.prev = some p → p ∈ known) ∧ Linked (c.tk :: known) cs

/-- shape every insert must have: one INSERT (never OR REPLACE), then `self.commit()`, then return -/
def wfInsertPath (ops : List Prim) : Bool :=
  match ops with
  | [.exec _ pol, .callCommit, .ret] => pol != .replace
  | _ => false

/-- the path contains an INSERT OR IGNORE: the call can return without having stored its record -/
def usesOrIgnore (ops : List Prim) : Bool :=
  ops.any fun
    | .exec _ .orIgnore => true
    | _ => false

def wfCommit (C : CommitMethod) : Bool :=
  C.idle == [.connCommit, .ret] && C.deferred == [.incPending, .ret]

/-- `with db:` blocks nest and flush: `__enter__` keeps the enclosing count, `__exit__` resets before committing -/
def wfBatch (C : CommitMethod) : Bool := C.enterKeeps && C.exitResetsFirst

/-- the INSERT of every method binds every primary-key column of its table -/
def bindsPk (tables : List TableInfo) (m : Method) : Bool :=
  match tables.find? (fun t => t.tid == m.table) with
  | some t => t.pk.all (fun c => m.cols.contains c) && m.cols.all (fun c => t.cols.contains c)
  | none => false

/-! ### `open()`: schema script and version row -/

/-- statements of the schema / upgrade scripts as classified by the translator -/
inductive SchemaStmt
  | createTable (tid : Nat)      -- CREATE TABLE IF NOT EXISTS <record table>
  | createOption                 -- CREATE TABLE IF NOT EXISTS option
  | deleteVersion                -- DELETE FROM option WHERE key = 'database_version'
  | insertVersion (n : Nat)      -- INSERT INTO option … 'database_version', '<n>'   (IntegrityError if the row exists)
  | upsertVersion (n : Nat)      -- INSERT OR REPLACE INTO option … 'database_version', '<n>'
  | setVersion (n : Nat)         -- UPDATE option SET value='<n>' WHERE key='database_version'
  | alterAddCol                  -- ALTER TABLE <record table> ADD <column>     (OperationalError if the column exists)
  | fillCol                      -- UPDATE <record table> SET <column>=…
  | begin                        -- BEGIN   (executescript honours explicit transactions)
  | commit                       -- COMMIT
  | other
  deriving DecidableEq, Repr

/-- exception kinds `_prepare_version` catches around reading the version row -/
inductive ExcKind
  | operationalError | stopIteration | other
  deriving DecidableEq, Repr

/-- what of a database file matters to `open()` -/
structure OpenSt where
  tables : List Nat := []     -- created record tables
  option : Bool := false      -- the `option` table exists
  version : Bool := false     -- the `database_version` row exists
  ver : Nat := 0              -- its value (meaningful when `version`)
  col : Bool := true          -- the record table has the column the upgrade adds
  deriving DecidableEq, Repr

/-- one statement; `none` = the statement raises (no such table / duplicate key / duplicate column) -/
def schemaStep (s : OpenSt) : SchemaStmt → Option OpenSt
  | .createTable t => some (if s.tables.contains t then s else { s with tables := s.tables ++ [t] })
  | .createOption => some { s with option := true }
  | .deleteVersion => if s.option then some { s with version := false } else none
  | .insertVersion n => if s.option && !s.version then some { s with version := true, ver := n } else none
  | .upsertVersion n => if s.option then some { s with version := true, ver := n } else none
  | .setVersion n => if s.option then some (if s.version then { s with ver := n } else s) else none
  | .alterAddCol => if s.col then none else some { s with col := true }
  | .fillCol => if s.col then some s else none
  | .begin => some s
  | .commit => some s
  | .other => some s

/-- the file (`committed`) and the connection's view (`working`) while a script runs -/
structure RunSt where
  committed : OpenSt
  working : OpenSt
  inTx : Bool := false
  deriving DecidableEq, Repr

/-- run statements under `executescript`: outside BEGIN…COMMIT every statement commits on its own; a raise leaves the
    file as committed so far.  Result: the run state and whether a statement raised. -/
def runTx : List SchemaStmt → RunSt → RunSt × Bool
  | [], r => (r, false)
  | .begin :: rest, r => runTx rest { r with inTx := true, working := r.committed }
  | .commit :: rest, r => runTx rest { committed := r.working, working := r.working, inTx := false }
  | st :: rest, r =>
    match schemaStep r.working st with
    | none => (r, true)
    | some w => if r.inTx then runTx rest { r with working := w }
                else runTx rest { committed := w, working := w, inTx := false }

/-- how a class opens its file (generated): handlers around the version read, latest version, the upgrade script of
    each older version, the schema script -/
structure OpenCfg where
  handlers : List ExcKind
  latest : Nat
  upgrades : List (Nat × List SchemaStmt)
  script : List SchemaStmt
  /-- with no stored version, `check_database` looks at the record table (PRAGMA table_info) and treats a table
      without the newest column as the oldest upgradable version instead of assuming the latest -/
  detectsOld : Bool := false
  deriving DecidableEq, Repr

/-- `_prepare_version`: with an `option` table but no version row, `next()` on the empty result raises
    StopIteration; it is survived only if the handler list covers it -/
def versionReadOk (handlers : List ExcKind) (s : OpenSt) : Bool :=
  !s.option || s.version || handlers.contains .stopIteration

/-- `check_database`: the statements `open()` runs on file state `s`: the upgrade scripts from the stored version
    (0 / missing = latest) up to the latest one, then the schema script -/
def openStmts (cfg : OpenCfg) (s : OpenSt) : List SchemaStmt :=
  let oldest := (cfg.upgrades.map (·.1)).foldl min cfg.latest
  let v := if s.option && s.version && s.ver != 0 then s.ver
           else if cfg.detectsOld && !s.col then oldest else cfg.latest
  ((cfg.upgrades.filter (fun u => v ≤ u.1 && u.1 < cfg.latest)).map (·.2)).flatten ++ cfg.script

def fresh (s : OpenSt) : RunSt := { committed := s, working := s }

/-- file state after an `open()` that is killed after `n` statements (or raises before): what was committed -/
def openKilled (cfg : OpenCfg) (n : Nat) (s : OpenSt) : OpenSt :=
  if versionReadOk cfg.handlers s then (runTx ((openStmts cfg s).take n) (fresh s)).1.committed else s

/-- a complete `open()` on file state `s` raises nothing -/
def openOk (cfg : OpenCfg) (s : OpenSt) : Bool :=
  versionReadOk cfg.handlers s && !(runTx (openStmts cfg s) (fresh s)).2

/-- file state after a complete `open()` -/
def openEnd (cfg : OpenCfg) (s : OpenSt) : OpenSt := (runTx (openStmts cfg s) (fresh s)).1.committed

/-- inside an upgrade script: after `ALTER TABLE … ADD` the new column is filled before the transaction commits -/
def upgradeFills : List SchemaStmt → Bool
  | [] => true
  | .alterAddCol :: rest => (rest.takeWhile (· != .commit)).contains .fillCol && upgradeFills rest
  | _ :: rest => upgradeFills rest

def OpenSt.flags (s : OpenSt) : OpenSt := { s with tables := [] }

def prefixes {α : Type} : List α → List (List α)
  | [] => [[]]
  | a :: l => [] :: (prefixes l).map (a :: ·)

/-- all table-free file states with a version value up to `maxVer` -/
def flagStates (maxVer : Nat) : List OpenSt :=
  [false, true].flatMap fun o => [false, true].flatMap fun v => [false, true].flatMap fun c =>
    (List.range (maxVer + 1)).map fun n => { tables := [], option := o, version := v, ver := n, col := c }

/-- file states releases and kills can produce: a version row lives in the option table; when the stored version is
    known, the column a newer version adds is there exactly when the file says it is of that version (the half-upgraded
    state "says older, has the column" is what the pre-6e6fbfe upgrade left and is not repaired); when no version is
    stored (a release was killed before it wrote one) the column may be missing if the class has upgrades at all -/
def consistent (cfg : OpenCfg) (s : OpenSt) : Bool :=
  (!s.version || s.option) &&
  (if s.option && s.version && s.ver != 0 then s.col == decide (cfg.latest ≤ s.ver)
   else s.col || !cfg.upgrades.isEmpty)

/-- decidable summary of "open is safe" on the table-free states: from each, after a kill behind any prefix of the
    statements that open() runs there, a complete open raises nothing and ends with option table, version row of the
    latest version and the added column -/
def flagsSafe (cfg : OpenCfg) (maxVer : Nat) : Bool :=
  (flagStates maxVer).all fun f => !consistent cfg f ||
    (prefixes (openStmts cfg f)).all fun p =>
      let f1 := if versionReadOk cfg.handlers f then (runTx p (fresh f)).1.committed else f
      openOk cfg f1 &&
        (let e := openEnd cfg f1
         e.option && e.version && e.ver == cfg.latest && e.col)

/-! ### reload path: `PseudonymManager.__init__` rebuilds the token tree from the stored rows -/

/-- how the reload loop puts a stored token into the tree (generated from manager.py / tree.py) -/
inductive ReloadMode
  | direct                 -- self.tree.elements[token.get_hash()] = token
  | gather (cap : Nat)     -- self.tree.gather_token(token): a token whose predecessor is not loaded yet waits in a
                           -- buffer of `cap` entries (TokenTree.unchained_max_size), the oldest is dropped on overflow
  deriving DecidableEq, Repr

/-- a stored token as the reload loop sees it: its id and the id of its predecessor (`none` = genesis) -/
structure Tok where
  id : Nat
  prev : Option Nat
  deriving DecidableEq, Repr

structure TreeSt where
  elements : List Nat := []
  unchained : List Tok := []     -- oldest first
  deriving DecidableEq, Repr

/-- `TokenTree.gather_token` with `_append_chain_reaction_token` (signature checks not modelled; `fuel` bounds the
    chain reaction: its depth is at most the number of waiting tokens) -/
def gather (cap : Nat) : Nat → TreeSt → Tok → TreeSt
  | 0, st, _ => st
  | fuel + 1, st, t =>
    let known := match t.prev with
      | none => true
      | some p => st.elements.contains p
    if !known then
      let u := if st.unchained.contains t then st.unchained else st.unchained ++ [t]
      { st with unchained := if u.length > cap then u.drop 1 else u }
    else if st.elements.contains t.id then st
    else
      -- every waiting child of the newly chained token is taken out of the buffer and gathered in turn
      let kids := st.unchained.filter (fun w => w.prev == some t.id)
      let st1 : TreeSt := { elements := st.elements ++ [t.id],
                            unchained := st.unchained.filter (fun w => w.prev != some t.id) }
      kids.foldl (fun s w => gather cap fuel s w) st1

/-- the ids in `tree.elements` after the reload loop ran over the stored tokens in the given (set-iteration) order -/
def reload (mode : ReloadMode) (toks : List Tok) : List Nat :=
  match mode with
  | .direct => toks.map (·.id)
  | .gather cap => (toks.foldl (fun st t => gather cap (st.unchained.length + 2) st t) {}).elements

end Ipv8.C19
