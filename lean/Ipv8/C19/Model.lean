/-
  C19 — crash model of the identity / attestation stores (core Lean only).

  What is mirrored (ipv8/database.py, attestation/identity/database.py, attestation/wallet/database.py):
    * a connection has a committed image (`durable`) and the image its own connection sees (`work`);
      `cursor.execute("INSERT [OR IGNORE|OR REPLACE] …")` changes `work` only (python's sqlite3 opens an implicit
      transaction before the first INSERT), `connection.commit()` copies `work` to `durable`;
    * `Database.commit()`: the two paths of its body (`_pending_commits` zero / non-zero) are GENERATED from the
      source as primitive lists (`CommitMethod`), interpreted by `commitBody`;
    * `Database.__enter__/__exit__` (`with db:`): the pending-commit counter `defer`;
    * every `insert_*` method is a GENERATED list of primitives per control-flow path (`GenDbOps.lean`);
    * SIGKILL + reopen by a fresh process: `recover` (uncommitted image and all in-memory state are lost);
    * `open()`: the schema script (every statement is its own transaction under `executescript`) and
      `_prepare_version` reading the `database_version` row (`OpenSt`, `openDb`).
  Rows are atomic values `(table, primary-key id, full-record id)`: SQLite's statement and transaction atomicity
  is the runtime assumption, checked by the kill/reopen runs of harness/c19.py.
-/
namespace Ipv8.C19

/-- conflict clause of the INSERT statement -/
inductive Policy
  | orIgnore   -- INSERT OR IGNORE: an existing row with the same primary key wins, no error
  | abort      -- plain INSERT: sqlite3.IntegrityError on a duplicate primary key
  | replace    -- INSERT OR REPLACE: the existing row is deleted
  deriving DecidableEq, Repr

/-- primitive operations the translator (tools/gen_db.py) emits -/
inductive Prim
  | exec (table : Nat) (policy : Policy)   -- self.execute("INSERT … INTO <table> …", bindings)
  | callCommit                             -- self.commit()
  | connCommit                             -- self._connection.commit()          (inside Database.commit)
  | incPending                             -- self._pending_commits += 1         (inside Database.commit)
  | ret                                    -- return (explicit or falling off the end)
  | enter                                  -- Database.__enter__
  | exit                                   -- Database.__exit__(None, None, None)
  | exitExc                                -- Database.__exit__ with an exception (IgnoreCommits or any other)
  deriving DecidableEq, Repr

/-- the body of `Database.commit`, one primitive list per value of the test `if self._pending_commits:` -/
structure CommitMethod where
  idle : List Prim
  deferred : List Prim
  deriving DecidableEq, Repr

/-- an `insert_*` method: one primitive list per control-flow path -/
structure Method where
  cls : Nat
  name : Nat
  table : Nat
  cols : List Nat          -- column ids bound by the INSERT (ids index `Gen.columnNames`)
  paths : List (List Prim)
  deriving DecidableEq, Repr

structure TableInfo where
  tid : Nat
  pk : List Nat            -- primary-key column ids
  cols : List Nat
  deriving DecidableEq, Repr

structure Row where
  table : Nat
  key : Nat                -- identifies the values of the primary-key columns
  val : Nat                -- identifies the whole record (all columns)
  deriving DecidableEq, Repr

structure Db where
  durable : List Row := []
  work : List Row := []
  defer : Nat := 0         -- Database._pending_commits
  acks : List Nat := []    -- ghost: ids of the calls that have returned
  deriving DecidableEq, Repr

def Db.init : Db := {}

def sameKey (t k : Nat) (r : Row) : Bool := r.table == t && r.key == k

def hasKey (rows : List Row) (t k : Nat) : Bool := rows.any (sameKey t k)

/-- effect of one INSERT on a table image; `none` = IntegrityError -/
def insertRow (pol : Policy) (r : Row) (rows : List Row) : Option (List Row) :=
  if hasKey rows r.table r.key then
    match pol with
    | .orIgnore => some rows
    | .abort => none
    | .replace => some (rows.filter (fun x => !sameKey r.table r.key x) ++ [r])
  else some (rows ++ [r])

/-- interpretation of the generated body of `Database.commit` -/
def commitBody : List Prim → Db → Db
  | [], db => db
  | .ret :: _, db => db
  | .connCommit :: ps, db => commitBody ps { db with durable := db.work }
  | .incPending :: ps, db => commitBody ps { db with defer := db.defer + 1 }
  | _ :: ps, db => commitBody ps db

/-- `self.commit()` -/
def doCommit (C : CommitMethod) (db : Db) : Db :=
  commitBody (if db.defer = 0 then C.idle else C.deferred) db

inductive Status
  | running | returned | raised
  deriving DecidableEq, Repr

/-- one call of the workload: the primitive list of the path taken, and the record it binds -/
structure Call where
  id : Nat
  ops : List Prim
  key : Nat
  val : Nat
  deriving DecidableEq, Repr

def stepPrim (C : CommitMethod) (c : Call) (p : Prim) (db : Db) : Db × Status :=
  match p with
  | .exec t pol =>
    match insertRow pol ⟨t, c.key, c.val⟩ db.work with
    | some w => ({ db with work := w }, .running)
    | none => (db, .raised)
  | .callCommit => (doCommit C db, .running)
  | .connCommit => ({ db with durable := db.work }, .running)
  | .incPending => ({ db with defer := db.defer + 1 }, .running)
  | .ret => ({ db with acks := db.acks ++ [c.id] }, .returned)
  | .enter => ({ db with defer := max 1 db.defer }, .running)
  | .exit =>
    let db' := { db with defer := 0 }
    (if db.defer > 1 then doCommit C db' else db', .running)
  | .exitExc => ({ db with defer := 0 }, .running)

/-- run at most `n` primitives of a call (crash point `n` inside the call) -/
def runPrims (C : CommitMethod) (c : Call) : Nat → List Prim → Db → Db
  | 0, _, db => db
  | _, [], db => db
  | n + 1, p :: ps, db =>
    match stepPrim C c p db with
    | (db', .running) => runPrims C c n ps db'
    | (db', _) => db'

def runCall (C : CommitMethod) (db : Db) (c : Call) : Db := runPrims C c c.ops.length c.ops db

def runCalls (C : CommitMethod) (W : List Call) (db : Db) : Db := W.foldl (runCall C) db

/-- state of the process when it is killed after `k` complete calls and `j` primitives of call `k` -/
def crashAt (C : CommitMethod) (W : List Call) (k j : Nat) : Db :=
  let s := runCalls C (W.take k) Db.init
  match W[k]? with
  | some c => runPrims C c j c.ops s
  | none => s

/-- SIGKILL, then a fresh process opens the file: only the committed image survives -/
def recover (db : Db) : Db := { db with work := db.durable, defer := 0 }

/-- the rows a fresh process sees -/
def visible (db : Db) : List Row := (recover db).work

/-! ### reference semantics: what a store without transactions, commits and crashes would contain -/

def callExec (c : Call) : Option (Nat × Policy) :=
  match c.ops with
  | .exec t pol :: _ => some (t, pol)
  | _ => none

def specStep (st : List Row × List Nat) (c : Call) : List Row × List Nat :=
  match callExec c with
  | some (t, pol) =>
    match insertRow pol ⟨t, c.key, c.val⟩ st.1 with
    | some rows => (rows, st.2 ++ [c.id])
    | none => st
  | none => st

def spec (W : List Call) : List Row × List Nat := W.foldl specStep ([], [])

/-- shape every insert must have: one INSERT (never OR REPLACE), then `self.commit()`, then return -/
def wfInsertPath (ops : List Prim) : Bool :=
  match ops with
  | [.exec _ pol, .callCommit, .ret] => pol != .replace
  | _ => false

def wfCommit (C : CommitMethod) : Bool :=
  C.idle == [.connCommit, .ret] && C.deferred == [.incPending, .ret]

/-- the INSERT of every method binds every primary-key column of its table -/
def bindsPk (tables : List TableInfo) (m : Method) : Bool :=
  match tables.find? (fun t => t.tid == m.table) with
  | some t => t.pk.all (fun c => m.cols.contains c) && m.cols.all (fun c => t.cols.contains c)
  | none => false

/-! ### `open()`: schema script and version row -/

/-- statements of the schema script as classified by the translator -/
inductive SchemaStmt
  | createTable (tid : Nat)
  | createOption
  | deleteVersion
  | insertVersion
  | other
  deriving DecidableEq, Repr

/-- exception kinds `_prepare_version` catches around reading the version row -/
inductive ExcKind
  | operationalError | stopIteration | other
  deriving DecidableEq, Repr

structure OpenSt where
  tables : List Nat := []     -- created record tables
  option : Bool := false      -- the `option` table exists
  version : Bool := false     -- the `database_version` row exists
  deriving DecidableEq, Repr

def schemaStep (s : OpenSt) : SchemaStmt → OpenSt
  | .createTable t => if s.tables.contains t then s else { s with tables := s.tables ++ [t] }
  | .createOption => { s with option := true }
  | .deleteVersion => { s with version := false }
  | .insertVersion => { s with version := true }     -- (a second INSERT would raise; the script deletes first)
  | .other => s

/-- `_prepare_version`: with an `option` table but no version row, `next()` on the empty result raises
    StopIteration; it is survived only if the handler list covers it -/
def versionReadOk (handlers : List ExcKind) (s : OpenSt) : Bool :=
  !s.option || s.version || handlers.contains .stopIteration

/-- `open()` on a file in state `s`, killed after `n` statements of the script (each is its own transaction) -/
def openDb (handlers : List ExcKind) (script : List SchemaStmt) (n : Nat) (s : OpenSt) : Option OpenSt :=
  if versionReadOk handlers s then some ((script.take n).foldl schemaStep s) else none

/-- the script is safe to re-run and leaves a complete schema -/
def scriptComplete (tables : List Nat) (script : List SchemaStmt) : Bool :=
  let s := script.foldl schemaStep {}
  tables.all (fun t => s.tables.contains t) && s.option && s.version

end Ipv8.C19
