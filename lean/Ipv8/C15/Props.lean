/-
  C15 — property theorems.  Every `theorem` in this file is an obligation of the check; helpers live in Lemmas.lean.

  The constants, comparison operators, guard lists, token scope, per-signer pick and the clean scan (`Gen.*`) are
  GENERATED from ipv8/dht/*.py on every run, so these theorems are re-proved against what the code says now.
  `C : Crypto Tok` is an arbitrary hash / signature interface; laws (injectivity of the token hash) appear as explicit
  hypotheses where they are needed, each with an `example` instance.  Unbounded quantifiers throughout: arbitrary
  storages, request contents, value lists and op histories.
-/
import Ipv8.C15.Lemmas
import Ipv8.C15.WireLemmas

namespace Ipv8.C15

/-- toy instance used by the non-vacuity examples: free token hash, "signature" = pk + data + version + 1 -/
def toyC : Crypto (Nat × Nat × Nat) :=
  { tokenHash := fun a m s => (a, m, s), verify := fun pk d v sig => sig == pk + d + v + 1 }

/-- the injectivity law of the token hash is satisfiable -/
example : ∀ a m s a' m' s', toyC.tokenHash a m s = toyC.tokenHash a' m' s' → a = a' ∧ m = m' ∧ s = s' := by
  intro a m s a' m' s' h
  simpa [toyC] using h

/-! ## the store gate -/

/-- A store request changes the storage or is answered only if the requester is not blocked, every value is within the
    size limit, the count is within the limit, and the token is the hash of THIS requester (address, mid) under one of the
    live secrets. -/
theorem store_requires_token {Tok : Type} [DecidableEq Tok] (C : Crypto Tok) (n : Node) (r : StoreReq Tok)
    (h : (n.storeReq C r).1.store ≠ n.store ∨ (n.storeReq C r).2 = true) :
    n.blocked r.nid = false ∧ (∀ v ∈ r.values, v.len ≤ Gen.maxEntrySize) ∧
    r.values.length ≤ Gen.maxValuesInStore ∧
    ∃ s ∈ n.secrets, C.tokenHash r.who.addr r.who.mid s.1 = r.token := by
  unfold Node.storeReq at h
  by_cases hb : n.blocked r.nid = true
  · simp [hb] at h
  · have hb' : n.blocked r.nid = false := by simpa using hb
    simp only [hb', Bool.false_eq_true, if_false] at h
    by_cases hg : Gen.storeGuards.any (fun g => g.fires C n r) = true
    · simp [hg, Node.noteQuery] at h
    · refine ⟨hb', ?_⟩
      have hall : ∀ g ∈ Gen.storeGuards, g.fires C n r = false := by
        intro g hgm
        cases hf : g.fires C n r with
        | false => rfl
        | true => exact absurd (List.any_eq_true.mpr ⟨g, hgm, hf⟩) hg
      have hsz := hall (.sizeLimit .gt Gen.maxEntrySize) (by decide)
      have hct := hall (.countLimit .gt Gen.maxValuesInStore) (by decide)
      have htk := hall .token (by decide)
      simp only [Guard.fires, Cmp.eval] at hsz hct
      refine ⟨?_, ?_, ?_⟩
      · intro v hv
        have := List.any_eq_false.mp hsz v hv
        simp only [decide_eq_true_eq] at this
        omega
      · simp only [decide_eq_false_iff_not] at hct
        omega
      · simp only [Guard.fires, Node.checkToken, Gen.checkScope, Bool.not_eq_eq_eq_not, Bool.not_false,
          List.any_eq_true, beq_iff_eq] at htk
        exact htk

example : (Node.storeReq toyC (Node.init 100)
    { who := ⟨1, 2, 3⟩, nid := 0, token := (1, 3, 0), target := 7,
      values := [{ uid := 1, len := 20, hid := 9, wire := .signed 4 5 2 3 12 }], numCloser := 0 }).2 = true := by decide

example : (Node.storeReq toyC (Node.init 100)
    { who := ⟨1, 2, 3⟩, nid := 0, token := (5, 3, 0), target := 7,
      values := [{ uid := 1, len := 20, hid := 9, wire := .str 4 }], numCloser := 0 }).2 = false := by decide

/-- With an injective token hash: a token that was issued to identity (a', m') under secret s' is accepted from a
    requester only if that requester IS (a', m') and s' is still live. -/
theorem token_bound_to_requester {Tok : Type} [DecidableEq Tok] (C : Crypto Tok)
    (hinj : ∀ a m s a' m' s', C.tokenHash a m s = C.tokenHash a' m' s' → a = a' ∧ m = m' ∧ s = s')
    (n : Node) (r : StoreReq Tok) (a' m' s' : Nat) (htok : r.token = C.tokenHash a' m' s')
    (h : (n.storeReq C r).1.store ≠ n.store ∨ (n.storeReq C r).2 = true) :
    r.who.addr = a' ∧ r.who.mid = m' ∧ ∃ sb ∈ n.secrets, sb.1 = s' := by
  obtain ⟨_, _, _, s, hs, he⟩ := store_requires_token C n r h
  rw [htok] at he
  obtain ⟨e1, e2, e3⟩ := hinj _ _ _ _ _ _ he
  exact ⟨e1, e2, s, hs, e3⟩

/-- `on_store_peer_request`: a peer is recorded (or answered) only with a token of this requester under a live secret,
    and only under the requester's own mid. -/
theorem store_peer_requires_token_and_own_mid {Tok : Type} [DecidableEq Tok] (C : Crypto Tok) (n : Node)
    (who : Ident) (tok : Tok) (target : Nat)
    (h : (n.storePeerReq C who tok target).1.peers ≠ n.peers ∨ (n.storePeerReq C who tok target).2 = true) :
    target = who.mid ∧ ∃ s ∈ n.secrets, C.tokenHash who.addr who.mid s.1 = tok := by
  unfold Node.storePeerReq at h
  simp only at h
  split at h
  · simp at h
  · rename_i hg
    have hall : ∀ g ∈ Gen.storePeerGuards,
        g.fires C n { who := who, nid := 0, token := tok, target := target, values := [], numCloser := 0 } = false := by
      intro g hgm
      cases hf : g.fires C n { who := who, nid := 0, token := tok, target := target, values := [], numCloser := 0 } with
      | false => rfl
      | true => exact absurd (List.any_eq_true.mpr ⟨g, hgm, hf⟩) hg
    have htk := hall .token (by decide)
    have hmid := hall .ownMid (by decide)
    simp only [Guard.fires, Node.checkToken, Gen.checkScope, Bool.not_eq_eq_eq_not, Bool.not_false,
      List.any_eq_true, beq_iff_eq] at htk
    simp only [Guard.fires, bne_eq_false_iff_eq] at hmid
    exact ⟨hmid, htk⟩

example : (Node.storePeerReq toyC (Node.init 100) ⟨1, 2, 3⟩ (1, 3, 0) 3).2 = true := by decide
example : (Node.storePeerReq toyC (Node.init 100) ⟨1, 2, 3⟩ (1, 3, 0) 4).2 = false := by decide

/-! ## the validity window (all histories) -/

/-- In every state reachable by any interleaving of clock advances (with the interval tasks firing when due), extra
    rotations, maintenance runs, find / store / store-peer requests: one or two secrets are live and each of them was
    created less than two rotation periods ago. -/
theorem live_secrets_recent {Tok : Type} [DecidableEq Tok] (C : Crypto Tok) (t0 : Nat) (ops : List (Op Tok)) :
    let n := (Node.init t0).run C ops
    n.secrets ≠ [] ∧ n.secrets.length ≤ Gen.tokenSecretsMaxlen ∧
    ∀ sb ∈ n.secrets, n.now < sb.2 + 2 * Gen.tokenMaintenanceInterval := by
  have hinv := inv_run C ops (Node.init t0) ⟨tokInv_init t0, by simpa [Node.init] using wf_nil⟩
  obtain ⟨⟨h1, h2, h3⟩, _⟩ := hinv
  have hp := interval_pos
  rcases h3 with ⟨x, hx, hb⟩ | ⟨x, y, hxy, hbx, hby⟩
  · refine ⟨by simp [hx], by simp [hx, Gen.tokenSecretsMaxlen], ?_⟩
    intro sb hsb
    simp only [hx, List.mem_singleton] at hsb
    subst hsb; omega
  · refine ⟨by simp [hxy], by simp [hxy, Gen.tokenSecretsMaxlen], ?_⟩
    intro sb hsb
    simp only [hxy, List.mem_cons, List.not_mem_nil, or_false] at hsb
    rcases hsb with rfl | rfl <;> omega

/-- `token_maintenance` in the client role: after a rotation no token RECEIVED more than TOKEN_EXPIRATION_TIME ago is kept,
    whatever the table held, and the rotation itself always takes place (the new secret is live afterwards) — in the model
    the clean-up cannot abort the run; that the code's clean-up cannot either is read by the translator (it iterates over a
    copy) and exercised by part B (`sfind` ops + maintenance through the task manager). -/
theorem received_tokens_pruned_and_rotation_completes (n : Node) :
    (∀ e ∈ n.rotate.recv, n.rotate.now ≤ e.2 + Gen.tokenExpirationTime) ∧
    n.rotate.secrets.getLast? = some (n.nextSecret, n.now) := by
  constructor
  · intro e he
    simp only [Node.rotate, List.mem_filter] at he ⊢
    have := he.2
    simp only [Bool.not_eq_eq_eq_not, Bool.not_true, decide_eq_false_iff_not, Nat.not_lt] at this
    exact this
  · simp only [Node.rotate, keepLast, Gen.tokenSecretsMaxlen]
    rw [List.getLast?_drop]
    simp
    omega

example : (({ (Node.init 0).recvToken 7 with now := 601 } : Node).rotate).recv = [] ∧
    (({ (Node.init 0).recvToken 7 with now := 600 } : Node).rotate).recv = [(7, 0)] := by decide

/-- Client side of the window: the node's own `store_on_nodes` presents a token to node `nid` only if it received one
    from `nid` less than TOKEN_EXPIRATION_TIME ago. -/
theorem client_presents_only_fresh_tokens (n : Node) (nid : Nat) (h : n.maySendStore nid = true) :
    ∃ e ∈ n.recv, e.1 = nid ∧ n.now < e.2 + Gen.tokenExpirationTime := by
  unfold Node.maySendStore at h
  obtain ⟨e, he, hc⟩ := List.any_eq_true.mp h
  simp only [Bool.and_eq_true, beq_iff_eq, Gen.sendTokenCmp, Cmp.eval, decide_eq_true_eq] at hc
  exact ⟨e, he, hc.1, hc.2⟩

/-- two rotation periods are within the advertised token lifetime -/
theorem window_within_token_expiration : 2 * Gen.tokenMaintenanceInterval ≤ Gen.tokenExpirationTime := by decide

/-- Consequence for every history: a store request that is accepted in a reachable state carries the hash of this
    requester under a secret younger than TOKEN_EXPIRATION_TIME. -/
theorem accepted_token_is_fresh {Tok : Type} [DecidableEq Tok] (C : Crypto Tok) (t0 : Nat) (ops : List (Op Tok))
    (r : StoreReq Tok)
    (h : (((Node.init t0).run C ops).storeReq C r).1.store ≠ ((Node.init t0).run C ops).store ∨
         (((Node.init t0).run C ops).storeReq C r).2 = true) :
    ∃ sb ∈ ((Node.init t0).run C ops).secrets,
      C.tokenHash r.who.addr r.who.mid sb.1 = r.token ∧
      ((Node.init t0).run C ops).now < sb.2 + Gen.tokenExpirationTime := by
  obtain ⟨_, _, _, s, hs, he⟩ := store_requires_token C _ r h
  have := (live_secrets_recent C t0 ops).2.2 s hs
  have hw := window_within_token_expiration
  exact ⟨s, hs, he, by omega⟩

/-- The other end of the window, for every history: with an injective token hash, a token issued now is refused after
    two further rotations. -/
theorem token_dies_after_two_rotations {Tok : Type} [DecidableEq Tok] (C : Crypto Tok)
    (hinj : ∀ a m s a' m' s', C.tokenHash a m s = C.tokenHash a' m' s' → a = a' ∧ m = m' ∧ s = s')
    (t0 : Nat) (ops : List (Op Tok)) (who : Ident) :
    ((Node.init t0).run C ops).rotate.rotate.checkToken C who (((Node.init t0).run C ops).genToken C who) = false := by
  have hinv := inv_run C ops (Node.init t0) ⟨tokInv_init t0, by simpa [Node.init] using wf_nil⟩
  have hsec := secInv_run C ops (Node.init t0) (secInv_init t0)
  generalize (Node.init t0).run C ops = n at hinv hsec
  obtain ⟨⟨_, _, h3⟩, _⟩ := hinv
  cases hct : n.rotate.rotate.checkToken C who (n.genToken C who) with
  | false => rfl
  | true =>
    exfalso
    rcases h3 with ⟨x, hx, _⟩ | ⟨x, y, hxy, _, _⟩
    · have hx1 := hsec x (by simp [hx])
      simp only [Node.checkToken, Gen.checkScope, Node.rotate, keepLast, Gen.tokenSecretsMaxlen, hx, Node.genToken,
        Node.newestSecret, List.any_eq_true, beq_iff_eq] at hct
      obtain ⟨s, hs, he⟩ := hct
      have := (hinj _ _ _ _ _ _ he).2.2
      simp at hs
      rcases hs with rfl | rfl <;> simp at this <;> omega
    · have hy1 := hsec y (by simp [hxy])
      simp only [Node.checkToken, Gen.checkScope, Node.rotate, keepLast, Gen.tokenSecretsMaxlen, hxy, Node.genToken,
        Node.newestSecret, List.any_eq_true, beq_iff_eq] at hct
      obtain ⟨s, hs, he⟩ := hct
      have := (hinj _ _ _ _ _ _ he).2.2
      simp at hs
      rcases hs with rfl | rfl <;> simp at this <;> omega

/-- … while the same token is still accepted after one rotation (the window is not empty) -/
example : ((Node.init 0).rotate).checkToken toyC ⟨1, 2, 3⟩ ((Node.init 0).genToken toyC ⟨1, 2, 3⟩) = true := by decide

example : ((Node.init 0).run toyC [.adv 299, .rotate, .adv 1]).secrets = [(1, 299), (2, 300)] := by decide +kernel

/-! ## find -/

/-- `on_find_request` answers with the token of this requester (source address and key) under the newest secret, with
    values that are the data of values stored under the target, and — when the code passes a limit to `storage.get`
    (generated `Gen.findLimit`) — with at most that many. -/
theorem find_reports_stored_values {Tok : Type} (C : Crypto Tok) (n : Node) (who : Ident) (nid target offset : Nat)
    (force : Bool) (tok : Tok) (vals : List Nat) (h : (n.findReq C who nid target offset force).2 = some (tok, vals)) :
    tok = C.tokenHash who.addr who.mid n.newestSecret ∧ (∀ lim, Gen.findLimit = some lim → vals.length ≤ lim) ∧
    ∀ d ∈ vals, ∃ v ∈ n.store.getItems target, v.data = d := by
  unfold Node.findReq at h
  split at h
  · simp at h
  · simp only [Option.some.injEq, Prod.mk.injEq] at h
    obtain ⟨h1, h2⟩ := h
    refine ⟨h1.symm, ?_, ?_⟩
    · intro lim hl
      rw [← h2]
      split
      · simp
      · simp only [Storage.get, sliceItems, hl, List.length_map, List.length_take]
        exact Nat.min_le_left _ _
    · intro d hd
      rw [← h2] at hd
      split at hd
      · simp at hd
      · simp only [Storage.get, List.mem_map] at hd
        obtain ⟨v, hv, rfl⟩ := hd
        refine ⟨v, ?_, rfl⟩
        unfold sliceItems at hv
        split at hv
        · exact List.mem_of_mem_drop hv
        · exact List.mem_of_mem_drop (List.mem_of_mem_take hv)

/-- In every reachable state the token a find hands out is accepted by `check_token` for the same requester
    (the gate of `store_requires_token` is not vacuous at any point of any history). -/
theorem issued_token_is_accepted {Tok : Type} [DecidableEq Tok] (C : Crypto Tok) (t0 : Nat) (ops : List (Op Tok))
    (who : Ident) :
    ((Node.init t0).run C ops).checkToken C who (((Node.init t0).run C ops).genToken C who) = true := by
  have hinv := inv_run C ops (Node.init t0) ⟨tokInv_init t0, by simpa [Node.init] using wf_nil⟩
  generalize (Node.init t0).run C ops = n at hinv
  obtain ⟨⟨_, _, h3⟩, _⟩ := hinv
  rcases h3 with ⟨x, hx, _⟩ | ⟨x, y, hxy, _, _⟩
  · simp [Node.checkToken, Gen.checkScope, Node.genToken, Node.newestSecret, hx]
  · simp [Node.checkToken, Gen.checkScope, Node.genToken, Node.newestSecret, hxy]

example : (Node.findReq toyC (Node.init 5) ⟨1, 2, 3⟩ 0 7 0 false).2 = some ((1, 3, 0), []) := by decide

/-! ## authenticity -/

/-- A value whose signature does not verify under the key it names never enters the storage. -/
theorem forged_value_not_stored {Tok : Type} (C : Crypto Tok) (now key maxAge : Nat) (b : Blob) (s : Storage)
    (d v pk pkh sig : Nat) (hw : b.wire = .signed d v pk pkh sig) (hbad : C.verify pk d v sig = false) :
    addValue C now key b maxAge s = some s := by
  simp [addValue, unserialize, hw, hbad]

/-- What `add_value` stores under a signer's id is a value that verifies under that signer's key (or a plain value
    under its own hash). -/
theorem stored_value_is_authentic {Tok : Type} (C : Crypto Tok) (now key maxAge : Nat) (b : Blob) (s s' : Storage)
    (h : addValue C now key b maxAge s = some s') (hne : s' ≠ s) :
    (∃ d, b.wire = .str d) ∨ (∃ d v pk pkh sig, b.wire = .signed d v pk pkh sig ∧ C.verify pk d v sig = true) := by
  unfold addValue unserialize at h
  cases hw : b.wire with
  | str d => exact Or.inl ⟨d, rfl⟩
  | signed d v pk pkh sig =>
    right
    by_cases hv : C.verify pk d v sig = true
    · exact ⟨d, v, pk, pkh, sig, rfl, hv⟩
    · simp [hw, hv] at h
      exact absurd h.symm hne
  | unknown => simp [hw] at h; exact absurd h.symm hne
  | malformed => simp [hw] at h

/-- A lookup reports data as signed by a key only if one of the values it processed carries exactly this data, names this
    key, and its signature verifies under this key.  (For every list of values, of any length.) -/
theorem signed_only_if_verifies {Tok : Type} (C : Crypto Tok) (blobs : List Blob) (res : List (Nat × Option Nat))
    (h : postProcess C blobs = some res) (d pk : Nat) (hm : (d, some pk) ∈ res) :
    ∃ b ∈ blobs, ∃ v pkh sig, b.wire = .signed d v pk pkh sig ∧ C.verify pk d v sig = true := by
  unfold postProcess at h
  split at h
  · simp at h
  · rename_i a hf
    simp only [Option.some.injEq] at h
    subst h
    have hs : PPSound C blobs a :=
      foldl_sound C blobs blobs (fun _ hb => hb) { signed := [], unsigned := [] } a
        (by intro g hg; simp at hg) hf
    simp only [List.mem_append, List.mem_filterMap, List.mem_map] at hm
    rcases hm with ⟨g, hg, hq⟩ | ⟨x, _, hx⟩
    · cases hp : pickBy Gen.lookupPick.better g.2 with
      | none => simp [hp] at hq
      | some e =>
        simp only [hp, Option.map_some, Option.some.injEq, Prod.mk.injEq] at hq
        obtain ⟨e1, e2⟩ := hq
        have hmem := pickBy_mem _ _ _ hp
        obtain ⟨b, hb, pkh, sig, hw, hv⟩ := hs g hg e hmem
        rw [e1] at hw hv
        rw [e2] at hw hv
        exact ⟨b, hb, e.1, pkh, sig, hw, hv⟩
    · simp at hx

example : postProcess toyC [{ uid := 1, len := 9, hid := 1, wire := .signed 4 5 2 3 12 },
                            { uid := 2, len := 9, hid := 2, wire := .signed 6 7 2 3 99 },
                            { uid := 3, len := 9, hid := 3, wire := .signed 8 9 2 3 20 }] = some [(8, some 2)] := by decide

/-- A lookup reports, per signer, the data of the highest version among ALL values it processed that verify under that
    signer's key (every list of values, any length, any mixture of forged / older / equal / newer entries). -/
theorem highest_version_per_signer {Tok : Type} (C : Crypto Tok) (blobs : List Blob) (res : List (Nat × Option Nat))
    (h : postProcess C blobs = some res) (d pk : Nat) (hm : (d, some pk) ∈ res) :
    ∃ v, (∃ b ∈ blobs, ∃ pkh sig, b.wire = .signed d v pk pkh sig ∧ C.verify pk d v sig = true) ∧
      ∀ b' ∈ blobs, ∀ d' v' pkh' sig', b'.wire = .signed d' v' pk pkh' sig' → C.verify pk d' v' sig' = true →
        v' ≤ v := by
  unfold postProcess at h
  split at h
  · simp at h
  · rename_i a hf
    simp only [Option.some.injEq] at h
    subst h
    have hs : PPSound C blobs a :=
      foldl_sound C blobs blobs (fun _ hb => hb) { signed := [], unsigned := [] } a
        (by intro g hg; simp at hg) hf
    have hc := foldl_complete C blobs (fun _ => False) { signed := [], unsigned := [] } a
      ⟨by simp [GKeysNodup], by intro b hb; exact hb.elim⟩ hf
    simp only [List.mem_append, List.mem_filterMap, List.mem_map] at hm
    rcases hm with ⟨g, hg, hq⟩ | ⟨x, _, hx⟩
    · cases hp : pickBy Gen.lookupPick.better g.2 with
      | none => simp [hp] at hq
      | some e =>
        simp only [hp, Option.map_some, Option.some.injEq, Prod.mk.injEq] at hq
        obtain ⟨e1, e2⟩ := hq
        have hmem := pickBy_mem _ _ _ hp
        have hmax : ∀ y ∈ g.2, y.1 ≤ e.1 := by
          have hp' := hp
          rw [show Gen.lookupPick = Pick.maxVersion from by decide] at hp'
          exact pickBy_max g.2 e hp'
        obtain ⟨b, hb, pkh, sig, hw, hv⟩ := hs g hg e hmem
        rw [e1] at hw hv
        rw [e2] at hw hv
        refine ⟨e.1, ⟨b, hb, pkh, sig, hw, hv⟩, ?_⟩
        intro b' hb' d' v' pkh' sig' hw' hv'
        obtain ⟨g', hg', hk', hin⟩ := hc.2 b' (Or.inr hb') d' v' pk pkh' sig' hw' hv'
        have : g' = g := gkeys_unique a.signed hc.1 g' g hg' hg (hk'.trans e2.symm)
        subst this
        exact hmax (v', d') hin
    · simp at hx


/-- Every signer that has at least one verifying value among the processed ones is reported, and no signer is reported
    twice (for every list of values). -/
theorem each_signer_reported_once {Tok : Type} (C : Crypto Tok) (blobs : List Blob) (res : List (Nat × Option Nat))
    (h : postProcess C blobs = some res) :
    res.Pairwise (fun x y => ∀ pk, x.2 = some pk → y.2 ≠ some pk) ∧
    ∀ b ∈ blobs, ∀ d v pk pkh sig, b.wire = .signed d v pk pkh sig → C.verify pk d v sig = true →
      ∃ d', (d', some pk) ∈ res := by
  unfold postProcess at h
  split at h
  · simp at h
  · rename_i a hf
    simp only [Option.some.injEq] at h
    subst h
    have hc := foldl_complete C blobs (fun _ => False) { signed := [], unsigned := [] } a
      ⟨by simp [GKeysNodup], by intro b hb; exact hb.elim⟩ hf
    constructor
    · rw [List.pairwise_append]
      refine ⟨?_, ?_, ?_⟩
      · apply List.Pairwise.filterMap _ _ hc.1
        intro g g' hne x hx y hy pk hxp hyp
        simp only [Option.map_eq_some_iff] at hx hy
        obtain ⟨e, _, rfl⟩ := hx
        obtain ⟨e', _, rfl⟩ := hy
        simp only [Option.some.injEq] at hxp hyp
        exact hne (hxp.trans hyp.symm)
      · rw [List.pairwise_map]
        exact List.Pairwise.imp (fun _ => by intro pk h1; simp at h1) (List.pairwise_of_forall (R := fun _ _ => True) (fun _ _ => trivial))
      · intro x hx y hy pk _ hyp
        simp only [List.mem_map] at hy
        obtain ⟨d, _, rfl⟩ := hy
        simp at hyp
    · intro b hb d v pk pkh sig hw hv
      obtain ⟨g, hg, hk, hin⟩ := hc.2 b (Or.inr hb) d v pk pkh sig hw hv
      obtain ⟨e, he⟩ := pickBy_some_of_mem Gen.lookupPick.better g.2 (v, d) hin
      refine ⟨e.2, ?_⟩
      simp only [List.mem_append, List.mem_filterMap]
      left
      exact ⟨g, hg, by simp [he, hk]⟩

/-- `Crawl.values` neither invents nor loses values and reports each at most once: a value is in the merged list iff some
    find response contained it. -/
theorem crawl_values_exact (responses : List (List Nat)) :
    (crawlValues responses).Nodup ∧ ∀ x, x ∈ crawlValues responses ↔ ∃ r ∈ responses, x ∈ r := by
  unfold crawlValues
  refine ⟨nodup_dedup _ _, ?_⟩
  intro x
  rw [mem_dedup, mem_interleave]
  · simp
  · intro l hl
    have := (le_foldl_max (responses.map List.length) 0).2 l.length (List.mem_map.mpr ⟨l, hl, rfl⟩)
    omega

example : crawlValues [[1, 2, 3], [4], [2, 5]] = [1, 4, 2, 5, 3] := by decide

/-- Within one signer's group the reported entry has the highest version (Python `max`, first maximal element). -/
theorem group_pick_is_highest_version (l : List (Nat × Nat)) (e : Nat × Nat)
    (hmax : Gen.lookupPick = .maxVersion) (h : pickBy Gen.lookupPick.better l = some e) :
    e ∈ l ∧ ∀ y ∈ l, y.1 ≤ e.1 := by
  rw [hmax] at h
  exact ⟨pickBy_mem _ _ _ h, pickBy_max l e h⟩

/-- the hypothesis of the previous theorem holds for the code as it is now -/
theorem lookup_picks_max : Gen.lookupPick = .maxVersion := by decide

/-! ## the value codec at byte level (serialize_value / unserialize_value) -/

open Ipv8 (Bytes) in
/-- toy byte-level scheme for the examples: one-byte "signature" = length of the message -/
def toyB : BCrypto :=
  { keyOk := fun pk => !pk.isEmpty, sigLen := fun _ => 1,
    verify := fun _ m s => s == [UInt8.ofNat m.length], canon := fun pk => pk.take 1 }

open Ipv8 (Bytes) in
/-- `unserialize_value` returns a signed triple only if the three fields parse at offset 1, the key parses, and
    `is_valid_signature(key, value[:-n], value[-n:])` holds for that key's signature length n — for every byte string. -/
theorem unserializeB_signed_sound (B : BCrypto) (v d pk' : Ipv8.Bytes) (ver : Nat)
    (h : unserializeB B v = .ok d (some pk') ver) :
    ∃ pk o3, readSigned v = some (d, ver, pk, o3) ∧ pk' = B.canon pk ∧ B.keyOk pk = true ∧
      B.verify pk (pyButLast v (B.sigLen pk)) (pyLast v (B.sigLen pk)) = true := by
  unfold unserializeB at h
  split at h
  · simp at h
  · split at h
    · simp at h
    · split at h
      · split at h
        · simp at h
        · rename_i data ver' pk o3 hrs
          split at h
          · split at h
            · rename_i hk hv
              simp only [BUnser.ok.injEq, Option.some.injEq] at h
              obtain ⟨h1, h2, h3⟩ := h
              subst h1; subst h3
              exact ⟨pk, o3, hrs, h2.symm, hk, hv⟩
            · simp at h
          · simp at h
      · simp at h

open Ipv8 (Bytes) in
/-- The signed message itself parses to the same data, version and key whenever the payload does not reach into the
    signature: what a lookup reports is covered by the signature that was verified. -/
theorem signature_covers_reported_fields (v d pk : Bytes) (ver o3 n : Nat)
    (h : readSigned v = some (d, ver, pk, o3)) (hn : 0 < n) (hfit : o3 + n ≤ v.length) :
    readSigned (pyButLast v n) = some (d, ver, pk, o3) := by
  have hne : n ≠ 0 := by omega
  simp only [pyButLast, hne, if_false]
  unfold readSigned at h ⊢
  split at h
  · simp at h
  · rename_i data o1 h1
    split at h
    · simp at h
    · rename_i ver' o2 h2
      split at h
      · simp at h
      · rename_i pk' o3' h3
        simp only [Option.some.injEq, Prod.mk.injEq] at h
        obtain ⟨rfl, rfl, rfl, rfl⟩ := h
        have b2 := readU32_end v o1 _ _ h2
        have b3 := readVarLenH_end v o2 _ _ h3
        rw [readVarLenH_take v _ 1 _ _ h1 (by omega)]
        simp only
        rw [readU32_take v _ o1 _ _ h2 (by omega)]
        simp only
        rw [readVarLenH_take v _ o2 _ _ h3 (by omega)]

open Ipv8 (Bytes) in
/-- `unserialize_value(serialize_value(data, sign=True))` returns (data, own key, version): for every data and key of
    at most 65535 bytes, every 32-bit version, and every signing function whose output has the scheme's (non-zero)
    signature length and verifies. -/
theorem unserialize_serialize_signed (B : BCrypto) (sign : Bytes → Bytes) (data pk : Bytes) (ver : Nat)
    (hd : data.length < 65536) (hp : pk.length < 65536) (hv : ver < 4294967296)
    (hk : B.keyOk pk = true) (hc : B.canon pk = pk) (hn : 0 < B.sigLen pk)
    (hl : (sign (signedBody data ver pk)).length = B.sigLen pk)
    (hs : B.verify pk (signedBody data ver pk) (sign (signedBody data ver pk)) = true) :
    unserializeB B (serializeSigned sign data ver pk) = .ok data (some pk) ver := by
  have hne : B.sigLen pk ≠ 0 := by omega
  have hrs := readSigned_signedBody data pk (sign (signedBody data ver pk)) ver hd hp hv
  have hlen : (signedBody data ver pk ++ sign (signedBody data ver pk)).length - B.sigLen pk
      = (signedBody data ver pk).length := by
    rw [List.length_append, hl]; omega
  have hlast : pyLast (serializeSigned sign data ver pk) (B.sigLen pk) = sign (signedBody data ver pk) := by
    simp only [pyLast, hne, if_false, serializeSigned, hlen]
    exact List.drop_left
  have hbut : pyButLast (serializeSigned sign data ver pk) (B.sigLen pk) = signedBody data ver pk := by
    simp only [pyButLast, hne, if_false, serializeSigned, hlen]
    exact List.take_left
  have hcons : serializeSigned sign data ver pk
      = UInt8.ofNat Gen.entryStrSigned :: ((encH data.length ++ data ++ encU32 ver ++ encH pk.length ++ pk)
          ++ sign (signedBody data ver pk)) := by
    simp [serializeSigned, signedBody]
  unfold unserializeB
  rw [hcons]
  simp only
  rw [← hcons]
  have t1 : ¬ (UInt8.ofNat Gen.entryStrSigned).toNat = Gen.entryStr := by decide
  have t2 : (UInt8.ofNat Gen.entryStrSigned).toNat = Gen.entryStrSigned := by decide
  simp only [t1, if_false, t2, if_true]
  have hrs' : readSigned (serializeSigned sign data ver pk)
      = some (data, ver, pk, (signedBody data ver pk).length) := hrs
  rw [hrs']
  simp only [hk, if_true, hlast, hbut, hs, hc]
  have t3 : ¬ Gen.entryStrSigned = Gen.entryStr := by decide
  rw [if_neg t3]

open Ipv8 (Bytes) in
theorem unserialize_serialize_plain (B : BCrypto) (data : Bytes) :
    unserializeB B (serializePlain data) = .ok data none 0 := by
  unfold unserializeB serializePlain
  have t : (UInt8.ofNat Gen.entryStr).toNat = Gen.entryStr := by decide
  simp [t]

example : unserializeB toyB (serializeSigned (fun m => [UInt8.ofNat m.length]) [1, 2] 5 [9]) = .ok [1, 2] (some [9]) 5 := by
  decide
/-- two byte strings of one key are reported as one signer -/
example : unserializeB toyB (serializeSigned (fun m => [UInt8.ofNat m.length]) [1, 2] 5 [9, 7]) = .ok [1, 2] (some [9]) 5 := by
  decide
example : unserializeB toyB (serializeSigned (fun _ => [0]) [1, 2] 5 [9]) = .none := by decide
example : unserializeB toyB [1, 0, 2, 1] = .raise := by decide

/-! ## versions -/

/-- A stored newer version is never replaced by an older one: such a `put` leaves the list untouched. -/
theorem newer_never_replaced_by_older (key : Nat) (nv old : Value) (l : Items)
    (hf : l.find? (fun v => v.id == nv.id) = some old) (hlt : nv.version < old.version) :
    putItems key nv l = l := by
  unfold putItems
  rw [hf]
  have : Gen.putCmp.eval nv.version old.version = false := by
    simp [Gen.putCmp, Cmp.eval]; omega
  simp [this]

/-- … and the whole storage is unchanged (every key). -/
theorem put_older_is_noop (s : Storage) (key : Nat) (nv old : Value)
    (hf : (s.getItems key).find? (fun v => v.id == nv.id) = some old) (hlt : nv.version < old.version) (k : Nat) :
    (s.put key nv).getItems k = s.getItems k := by
  unfold Storage.put
  rw [getItems_setItems, newer_never_replaced_by_older key nv old _ hf hlt]
  split
  · rename_i h; rw [h]
  · rfl

/-- Across any `put`: every id that was stored is still stored, with a version at least as high. -/
theorem put_version_monotone (key : Nat) (nv : Value) (l : Items) (hn : IdsNodup l) :
    ∀ v ∈ l, ∃ v' ∈ putItems key nv l, v'.id = v.id ∧ v.version ≤ v'.version := by
  intro v hv
  unfold putItems
  split
  · rename_i old hf
    split
    · rename_i hc
      by_cases e : v.id = nv.id
      · have hvo : v = old := find_unique nv.id l hn old hf v hv e
        refine ⟨nv, (mem_sortOwn ..).mpr (List.mem_cons_self ..), e.symm, ?_⟩
        subst hvo
        simpa [Gen.putCmp, Cmp.eval] using hc
      · refine ⟨v, (mem_sortOwn ..).mpr (List.mem_cons_of_mem _ ?_), rfl, Nat.le_refl _⟩
        exact (List.mem_eraseP_of_neg (by simp [e])).mpr hv
    · exact ⟨v, hv, rfl, Nat.le_refl _⟩
  · exact ⟨v, (mem_sortOwn ..).mpr (List.mem_cons_of_mem _ hv), rfl, Nat.le_refl _⟩

/-- `add_value` never lowers a stored version (and never drops an id) -/
theorem addValue_versions_kept {Tok : Type} (C : Crypto Tok) (now key : Nat) (b : Blob) (maxAge : Nat) (s s' : Storage)
    (hw : s.WF) (he : addValue C now key b maxAge s = some s') : VersionsKept s s' := by
  unfold addValue at he
  split at he
  · simp at he
  · simp only [Option.some.injEq] at he; rw [← he]; exact versionsKept_refl s
  · simp only [Option.some.injEq] at he
    rw [← he]
    intro k v hv
    unfold Storage.put
    rw [getItems_setItems]
    split
    · rename_i hk
      subst hk
      exact put_version_monotone k _ _ (hw k) v hv
    · exact ⟨v, hv, rfl, Nat.le_refl _⟩

theorem addValues_versions_kept {Tok : Type} (C : Crypto Tok) (now key maxAge : Nat) (bs : List Blob) (s : Storage)
    (hw : s.WF) : VersionsKept s (addValues C now key maxAge bs s).1 := by
  induction bs generalizing s with
  | nil => simpa [addValues] using versionsKept_refl s
  | cons b bs ih =>
    simp only [addValues]
    split
    · exact versionsKept_refl s
    · rename_i s' he
      exact versionsKept_trans s s' _ (addValue_versions_kept C now key b maxAge s s' hw he)
        (ih s' (wf_addValue C now key b maxAge s s' hw he))

/-- In every reachable state, handling a store request (accepted or not, whatever it contains) and the node's own
    `store_on_nodes` keep every stored id with a version at least as high as before.  (Versions can only go down after
    the newer value expired and maintenance removed it — see `expired_gone_after_clean`; there is deliberately no
    "monotone across all histories" statement, it would be false.) -/
theorem store_and_cache_keep_versions {Tok : Type} [DecidableEq Tok] (C : Crypto Tok) (t0 : Nat) (ops : List (Op Tok)) :
    (∀ r : StoreReq Tok, VersionsKept ((Node.init t0).run C ops).store
        ((((Node.init t0).run C ops).storeReq C r).1.store)) ∧
    (∀ key values loc, VersionsKept ((Node.init t0).run C ops).store
        ((((Node.init t0).run C ops).cacheStore C key values loc).store)) := by
  have hinv := inv_run C ops (Node.init t0) ⟨tokInv_init t0, by simpa [Node.init] using wf_nil⟩
  generalize (Node.init t0).run C ops = n at hinv
  constructor
  · intro r
    unfold Node.storeReq
    split
    · exact versionsKept_refl _
    · split
      · exact versionsKept_refl _
      · exact addValues_versions_kept C _ _ _ _ _ hinv.wf
  · intro key values loc
    unfold Node.cacheStore
    split
    · exact addValues_versions_kept C _ _ _ _ _ hinv.wf
    · exact versionsKept_refl _

/-- In every reachable node state there is at most one stored value per id (signer) under each key — the hypothesis of
    `put_version_monotone` holds in all histories. -/
theorem one_value_per_signer {Tok : Type} [DecidableEq Tok] (C : Crypto Tok) (t0 : Nat) (ops : List (Op Tok)) (k : Nat) :
    IdsNodup (((Node.init t0).run C ops).store.getItems k) :=
  (inv_run C ops (Node.init t0) ⟨tokInv_init t0, by simpa [Node.init] using wf_nil⟩).wf k

example : putItems 0 ⟨7, 2, 10, 60, 1, default⟩ [⟨7, 1, 0, 60, 3, default⟩] = [⟨7, 1, 0, 60, 3, default⟩] := by decide
example : putItems 0 ⟨7, 2, 10, 60, 3, default⟩ [⟨7, 1, 0, 60, 3, default⟩] = [⟨7, 2, 10, 60, 3, default⟩] := by decide

/-! ## expiry -/

/-- `Storage.clean` keeps exactly the non-expired values of every key, in order — for every mixture of lifetimes. -/
theorem expired_gone_after_clean (s : Storage) (now k : Nat) :
    (s.clean now).getItems k = (s.getItems k).filter (fun v => !v.expired now) := by
  rw [getItems_clean]
  simp [cleanItems, Gen.cleanStopsAtFirstFresh]

/-- After a maintenance run nothing expired is stored, and a find issued at that moment returns only values that were
    stored and are not past their lifetime. -/
theorem no_expired_after_maintenance (n : Node) (k start : Nat) (limit : Option Nat) :
    (∀ v ∈ n.clean.store.getItems k, v.expired n.now = false) ∧
    ∀ d ∈ n.clean.store.get k start limit, ∃ v ∈ n.store.getItems k, v.data = d ∧ v.expired n.now = false := by
  have hmem : ∀ v ∈ n.clean.store.getItems k, v ∈ n.store.getItems k ∧ v.expired n.now = false := by
    intro v hv
    simp only [Node.clean] at hv
    rw [expired_gone_after_clean] at hv
    have := List.mem_filter.mp hv
    exact ⟨this.1, by simpa using this.2⟩
  refine ⟨fun v hv => (hmem v hv).2, ?_⟩
  intro d hd
  simp only [Storage.get, List.mem_map] at hd
  obtain ⟨v, hv, rfl⟩ := hd
  have hv' : v ∈ n.clean.store.getItems k := by
    unfold sliceItems at hv
    split at hv
    · exact List.mem_of_mem_drop hv
    · exact List.mem_of_mem_drop (List.mem_of_mem_take hv)
  exact ⟨v, (hmem v hv').1, rfl, (hmem v hv').2⟩

/-- differing lifetimes: the expired value in front of a longer-lived one is removed -/
example : cleanItems 100 [⟨1, 1, 50, 10, 0, default⟩, ⟨2, 2, 0, 3600, 0, default⟩] = [⟨2, 2, 0, 3600, 0, default⟩] := by decide

/-! ## provenance of everything that is stored (all histories, including the node's own caching) -/

/-- In every reachable state — histories now include the node's own `store_on_nodes` / lookup caching (`Op.cache`), which
    writes the same storage without any token — every stored value is within MAX_ENTRY_SIZE and is either a plain entry
    stored under its own hash with version 0, or a signed entry whose signature verifies under the key it names, stored under
    the hash of that (canonical) key with exactly the signed version. -/
theorem stored_values_authentic_and_within_size {Tok : Type} [DecidableEq Tok] (C : Crypto Tok) (t0 : Nat)
    (ops : List (Op Tok)) (k : Nat) :
    ∀ v ∈ ((Node.init t0).run C ops).store.getItems k, Stored C v :=
  allStored_run C ops (Node.init t0) (by intro k v hv; simp [Node.init, Storage.getItems] at hv) k

/-- the local store of `store_on_nodes` applies the size filter and the count cap -/
theorem local_store_within_limits (vs : List Blob) :
    (keepLocal vs).length ≤ Gen.maxValuesInStore ∧ ∀ v ∈ keepLocal vs, v.len ≤ Gen.maxEntrySize := by
  refine ⟨?_, keepLocal_sizes vs⟩
  unfold keepLocal
  simp only [Gen.localKeep, Gen.localCap, List.length_take]
  exact Nat.min_le_left _ _

example : (Node.cacheStore toyC (Node.init 0) 7
    [{ uid := 1, len := 5001, hid := 9, wire := .str 4 }, { uid := 2, len := 20, hid := 8, wire := .str 5 }] true).store
    = [(7, [{ id := 8, data := 2, lastUpdate := 0, maxAge := 3600, version := 0,
              src := { uid := 2, len := 20, hid := 8, wire := .str 5 } }])] := by decide

/-- In every reachable state the timer field `nextClean` lies less than one value_maintenance interval ahead, and that
    interval (generated) does not exceed MAX_ENTRY_AGE.  This bounds the timer only; what a run removes is
    `expired_gone_after_clean`, and how old a stored value can be is `stored_lifetimes_are_real` below. -/
theorem maintenance_is_never_far {Tok : Type} [DecidableEq Tok] (C : Crypto Tok) (t0 : Nat) (ops : List (Op Tok)) :
    ((Node.init t0).run C ops).now < ((Node.init t0).run C ops).nextClean ∧
    ((Node.init t0).run C ops).nextClean ≤ ((Node.init t0).run C ops).now + Gen.valueMaintenanceInterval ∧
    Gen.valueMaintenanceInterval ≤ Gen.maxEntryAge := by
  obtain ⟨h1, h2⟩ := cleanInv_run C ops (Node.init t0) (cleanInv_init t0)
  exact ⟨h1, h2, by decide⟩

/-- Lifetimes are real, in every reachable state (all histories, both write paths): every stored value carries the time at
    which it was stored (never in the future) and a lifetime of at most MAX_ENTRY_AGE (the generated `max_age` expression of
    `on_store_request` never exceeds it).  Consequently, right after a maintenance run every value still stored was stored at
    most MAX_ENTRY_AGE seconds ago: a value is gone after the first maintenance run later than its store time plus its
    lifetime. -/
theorem stored_lifetimes_are_real {Tok : Type} [DecidableEq Tok] (C : Crypto Tok) (t0 : Nat) (ops : List (Op Tok))
    (k : Nat) :
    (∀ v ∈ ((Node.init t0).run C ops).store.getItems k,
        v.lastUpdate ≤ ((Node.init t0).run C ops).now ∧ v.maxAge ≤ Gen.maxEntryAge) ∧
    (∀ v ∈ ((Node.init t0).run C ops).clean.store.getItems k,
        ((Node.init t0).run C ops).now ≤ v.lastUpdate + v.maxAge ∧
        ((Node.init t0).run C ops).now ≤ v.lastUpdate + Gen.maxEntryAge) := by
  have ht := timed_run C ops (Node.init t0) (by intro k v hv; simp [Node.init, Storage.getItems] at hv)
  generalize (Node.init t0).run C ops = n at ht
  refine ⟨fun v hv => ht k v hv, ?_⟩
  intro v hv
  have hne := (no_expired_after_maintenance n k 0 none).1 v hv
  have hmem : v ∈ n.store.getItems k := by
    simp only [Node.clean] at hv
    rw [expired_gone_after_clean] at hv
    exact (List.mem_filter.mp hv).1
  obtain ⟨h1, h2⟩ := ht k v hmem
  have hle : n.now - v.lastUpdate ≤ v.maxAge := by
    simpa [Value.expired, Gen.expiredCmp, Cmp.eval] using hne
  omega

/-- the `max_age` an accepted store request assigns never exceeds MAX_ENTRY_AGE and halves per closer node beyond TARGET_NODES -/
theorem store_max_age_bounded (nc : Nat) : Gen.storeMaxAge nc ≤ Gen.maxEntryAge := storeMaxAge_le nc

example : Gen.storeMaxAge 0 = 3600 ∧ Gen.storeMaxAge 8 = 1800 ∧ Gen.storeMaxAge 10 = 450 := by decide

/-! ## the property, sentence by sentence, in every reachable state -/

/-- For every crypto interface, start time and history of operations, the state `n` reached satisfies:
    (1) a store request is accepted only from an unblocked requester, within the size and count limits, with the token hash
        of this requester under a live secret younger than TOKEN_EXPIRATION_TIME;
    (2) a lookup over any value list reports a signer only with the data of a verifying value of that signer whose
        version is maximal among the signer's verifying values;
    (3) a put of an older version than the stored one changes nothing, and there is one value per signer under every key;
    (4) after maintenance no stored value is expired;
    (5) every stored value is within the size limit, authentic, and stored under its signer's id and signed version.
    Only (1) (freshness of the secret), the one-value-per-signer part of (3) and (5) use that the state is reachable; (2), the
    first half of (3) and (4) hold for arbitrary states / value lists and are instantiated here. -/
theorem c15_all_histories {Tok : Type} [DecidableEq Tok] (C : Crypto Tok) (t0 : Nat) (ops : List (Op Tok)) :
    (∀ r : StoreReq Tok,
      ((((Node.init t0).run C ops).storeReq C r).1.store ≠ ((Node.init t0).run C ops).store ∨
        (((Node.init t0).run C ops).storeReq C r).2 = true) →
      ((Node.init t0).run C ops).blocked r.nid = false ∧ (∀ v ∈ r.values, v.len ≤ Gen.maxEntrySize) ∧
      r.values.length ≤ Gen.maxValuesInStore ∧
      ∃ sb ∈ ((Node.init t0).run C ops).secrets, C.tokenHash r.who.addr r.who.mid sb.1 = r.token ∧
        ((Node.init t0).run C ops).now < sb.2 + Gen.tokenExpirationTime) ∧
    (∀ blobs res, postProcess C blobs = some res → ∀ d pk, (d, some pk) ∈ res →
      ∃ v, (∃ b ∈ blobs, ∃ pkh sig, b.wire = .signed d v pk pkh sig ∧ C.verify pk d v sig = true) ∧
        ∀ b' ∈ blobs, ∀ d' v' pkh' sig', b'.wire = .signed d' v' pk pkh' sig' → C.verify pk d' v' sig' = true →
          v' ≤ v) ∧
    (∀ k nv old, (((Node.init t0).run C ops).store.getItems k).find? (fun v => v.id == nv.id) = some old →
      nv.version < old.version →
      ∀ k', (((Node.init t0).run C ops).store.put k nv).getItems k' = ((Node.init t0).run C ops).store.getItems k') ∧
    (∀ k, IdsNodup (((Node.init t0).run C ops).store.getItems k)) ∧
    (∀ k, ∀ v ∈ ((Node.init t0).run C ops).clean.store.getItems k, v.expired ((Node.init t0).run C ops).now = false) ∧
    (∀ k, ∀ v ∈ ((Node.init t0).run C ops).store.getItems k, Stored C v) := by
  refine ⟨?_, ?_, ?_, ?_, ?_, ?_⟩
  · intro r h
    obtain ⟨h1, h2, h3, _⟩ := store_requires_token C _ r h
    obtain ⟨sb, hs, he, hf⟩ := accepted_token_is_fresh C t0 ops r h
    exact ⟨h1, h2, h3, sb, hs, he, hf⟩
  · intro blobs res h d pk hm
    exact highest_version_per_signer C blobs res h d pk hm
  · intro k nv old hf hlt k'
    exact put_older_is_noop _ k nv old hf hlt k'
  · intro k
    exact one_value_per_signer C t0 ops k
  · intro k
    exact (no_expired_after_maintenance _ k 0 none).1
  · intro k
    exact stored_values_authentic_and_within_size C t0 ops k

end Ipv8.C15
