/-
  C15 — vocabulary shared by the generated file (GenDht.lean) and the hand-written model.  Core Lean only.
-/
namespace Ipv8.C15

/-- comparison operators as they appear in the Python source -/
inductive Cmp
  | lt | le | gt | ge | eq | ne
  deriving DecidableEq, Repr, Inhabited

def Cmp.eval : Cmp → Nat → Nat → Bool
  | .lt, a, b => decide (a < b)
  | .le, a, b => decide (a ≤ b)
  | .gt, a, b => decide (a > b)
  | .ge, a, b => decide (a ≥ b)
  | .eq, a, b => decide (a = b)
  | .ne, a, b => decide (a ≠ b)

/-- one `if <cond>: return` guard of a request handler; the request is dropped when the guard fires -/
inductive Guard
  | notBlocked                         -- `if not node: return` after get_requesting_node (rate limit)
  | sizeLimit (c : Cmp) (bound : Nat)  -- `if any(len(v) <c> bound for v in payload.values): return`
  | countLimit (c : Cmp) (bound : Nat) -- `if len(payload.values) <c> bound: return`
  | token                              -- `if not self.check_token(node, payload.token): return`
  | ownMid                             -- `if payload.target != peer.mid: return`
  deriving DecidableEq, Repr, Inhabited

/-- which secrets `check_token` consults -/
inductive TokenScope
  | allLive | newest
  deriving DecidableEq, Repr, Inhabited

/-- how `post_process_values` picks one value per signer -/
inductive Pick
  | maxVersion | minVersion
  deriving DecidableEq, Repr, Inhabited

end Ipv8.C15
