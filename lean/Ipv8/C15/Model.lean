/-
  C15 — executable model of the DHT value store (core Lean only).

  Mirrors, with the constants / comparison operators / guard sequences taken from the GENERATED file GenDht.lean:
    ipv8/dht/storage.py    Value.expired, Storage.put / get / items_older_than / clean
    ipv8/dht/community.py  token_maintenance, generate_token, check_token, get_requesting_node (rate limit),
                           unserialize_value, add_value, on_store_request, on_find_request, value_maintenance,
                           post_process_values, Crawl.values
    ipv8/dht/discovery.py  on_store_peer_request
    ipv8/taskmanager.py    the two interval tasks (token_maintenance, value_maintenance) as a per-second tick

  Abstractions: 20-byte strings (keys, sha1 values, mids), public keys, addresses and serialized values are natural
  numbers handed out by the harness (equal bytes ⇔ equal number); time is in whole seconds; hashes and signatures
  are the abstract interface `Crypto` (no law is assumed by the model itself; theorems state the laws they need).
-/
import Ipv8.C15.GenDht

namespace Ipv8.C15

/-! ## Serialized values as the store sees them -/

/-- what `unserialize_value` sees in a byte string -/
inductive Wire
  | str (data : Nat)                              -- first byte DHT_ENTRY_STR
  | signed (data version pk pkHash sig : Nat)     -- first byte DHT_ENTRY_STR_SIGNED, parses as SignedStrPayload;
                                                  --   pk = canonical encoding of the key the key bytes parse to
  | unknown                                       -- any other first byte: returns None
  | malformed                                     -- raises (empty, truncated, invalid key)
  deriving DecidableEq, Repr, Inhabited

/-- a byte string offered as a value: identity, length, sha1, parse -/
structure Blob where
  uid : Nat
  len : Nat
  hid : Nat
  wire : Wire
  deriving DecidableEq, Repr, Inhabited

/-! ## Storage (storage.py) -/

structure Value where
  id : Nat
  data : Nat
  lastUpdate : Nat
  maxAge : Nat
  version : Nat
  src : Blob := default     -- ghost: the byte string `data` stands for (`data = src.uid` for values stored by add_value)
  deriving DecidableEq, Repr, Inhabited

/-- `Value.expired`: `self.age <cmp> self.max_age` with `age = time.time() - last_update` -/
def Value.expired (now : Nat) (v : Value) : Bool :=
  Gen.expiredCmp.eval (now - v.lastUpdate) v.maxAge

abbrev Items := List Value

/-- `items.sort(key=lambda v: 1 if v.id == key else 0)` (stable) -/
def sortOwn (key : Nat) (l : Items) : Items :=
  l.filter (fun v => v.id != key) ++ l.filter (fun v => v.id == key)

/-- the body of `Storage.put` on one key's list (`Value.__eq__` compares ids; `list.index` finds the first) -/
def putItems (key : Nat) (nv : Value) (l : Items) : Items :=
  match l.find? (fun v => v.id == nv.id) with
  | some old =>
    if Gen.putCmp.eval nv.version old.version then
      sortOwn key (nv :: l.eraseP (fun v => v.id == nv.id))
    else l
  | none => sortOwn key (nv :: l)

/-- reverse scan that pops expired values and stops at the first non-expired one -/
def dropExpiredTail (now : Nat) : Items → Items
  | [] => []
  | v :: rest =>
    match dropExpiredTail now rest with
    | [] => if v.expired now then [] else [v]
    | r => v :: r

/-- `Storage.clean` on one key's list; which scan is used is read from the source -/
def cleanItems (now : Nat) (l : Items) : Items :=
  if Gen.cleanStopsAtFirstFresh then dropExpiredTail now l else l.filter (fun v => !v.expired now)

/-- `Storage.items`: keys in creation order -/
abbrev Storage := List (Nat × Items)

def Storage.getItems : Storage → Nat → Items
  | [], _ => []
  | (k', l) :: r, k => if k' == k then l else Storage.getItems r k

def Storage.setItems : Storage → Nat → Items → Storage
  | [], k, l => [(k, l)]
  | (k', l') :: r, k, l => if k' == k then (k', l) :: r else (k', l') :: Storage.setItems r k l

def Storage.put (s : Storage) (key : Nat) (nv : Value) : Storage :=
  s.setItems key (putItems key nv (s.getItems key))

/-- `items[start:upper]` with `upper = start + limit if limit else limit` -/
def sliceItems (l : Items) (start : Nat) (limit : Option Nat) : Items :=
  match limit with
  | none => l.drop start
  | some n => (l.drop start).take n

def Storage.get (s : Storage) (key start : Nat) (limit : Option Nat) : List Nat :=
  (sliceItems (s.getItems key) start limit).map (·.data)

def Storage.clean (now : Nat) (s : Storage) : Storage :=
  s.map (fun kl => (kl.1, cleanItems now kl.2))

def Storage.olderThan (now minAge : Nat) (s : Storage) : List (Nat × Nat) :=
  s.flatMap (fun kl => (kl.2.filter (fun v => decide (now - v.lastUpdate > minAge))).map (fun v => (kl.1, v.data)))

/-! ## Serialized values (community.py: unserialize_value / add_value) -/

/-- abstract hash (tokens) and signature scheme -/
structure Crypto (Tok : Type) where
  tokenHash : Nat → Nat → Nat → Tok       -- sha1(str(node) + secret): address, mid, secret
  verify : Nat → Nat → Nat → Nat → Bool   -- is_valid_signature: pk, data, version, signature

inductive Unser
  | none
  | raise
  | ok (data : Nat) (signer : Option (Nat × Nat)) (version : Nat)   -- signer = (public key, sha1(public key))
  deriving DecidableEq, Repr, Inhabited

def unserialize {Tok : Type} (C : Crypto Tok) (b : Blob) : Unser :=
  match b.wire with
  | .str d => .ok d none 0
  | .signed d v pk pkh sig => if C.verify pk d v sig then .ok d (some (pk, pkh)) v else .none
  | .unknown => .none
  | .malformed => .raise

/-- `add_value`; `none` = an exception left the function -/
def addValue {Tok : Type} (C : Crypto Tok) (now key : Nat) (b : Blob) (maxAge : Nat) (s : Storage) : Option Storage :=
  match unserialize C b with
  | .raise => none
  | .none => some s
  | .ok _ signer ver =>
    let id := match signer with
      | some (_, pkh) => pkh
      | none => b.hid
    some (s.put key { id := id, data := b.uid, lastUpdate := now, maxAge := maxAge, version := ver, src := b })

/-- the `for value in payload.values: self.add_value(...)` loop; the flag is false when an exception ended it -/
def addValues {Tok : Type} (C : Crypto Tok) (now key maxAge : Nat) : List Blob → Storage → Storage × Bool
  | [], s => (s, true)
  | b :: bs, s =>
    match addValue C now key b maxAge s with
    | none => (s, false)
    | some s' => addValues C now key maxAge bs s'

/-! ## Node state (community.py / discovery.py) -/

structure Ident where
  addr : Nat
  pk : Nat
  mid : Nat
  deriving DecidableEq, Repr, Inhabited

structure Node where
  now : Nat
  secrets : List (Nat × Nat)          -- (secret, time of creation), newest last; `deque(maxlen=…)`
  nextSecret : Nat                    -- os.urandom never repeats: secrets are numbered
  nextRotate : Nat                    -- next firing of the token_maintenance interval task
  nextClean : Nat                     -- next firing of the value_maintenance interval task
  store : Storage
  queries : List (Nat × List Nat)     -- node id ↦ last query times (oldest first), `deque(maxlen=NODE_LIMIT_QUERIES)`
  peers : List (Nat × List Ident)     -- DHTDiscoveryCommunity.store
  recv : List (Nat × Nat) := []       -- `self.tokens`: node id ↦ time a token was RECEIVED from that node (client role)
  deriving Repr, Inhabited

def keepLast {α : Type} (n : Nat) (l : List α) : List α := l.drop (l.length - n)

def Node.init (now0 : Nat) : Node :=
  { now := now0, secrets := [(0, now0)], nextSecret := 1,
    nextRotate := now0 + Gen.tokenMaintenanceInterval, nextClean := now0 + Gen.valueMaintenanceInterval,
    store := [], queries := [], peers := [] }

/-- `token_maintenance` -/
def Node.rotate (n : Node) : Node :=
  { n with secrets := keepLast Gen.tokenSecretsMaxlen (n.secrets ++ [(n.nextSecret, n.now)]),
           nextSecret := n.nextSecret + 1,
           -- "Cleanup old tokens": received tokens past TOKEN_EXPIRATION_TIME are dropped; the run always completes
           recv := n.recv.filter (fun e => !decide (n.now > e.2 + Gen.tokenExpirationTime)) }

/-- `store_on_nodes`: a store request goes to node `nid` only if a token was received from it and that token passes the
    freshness test read from the source (`ts + TOKEN_EXPIRATION_TIME > now`) -/
def Node.maySendStore (n : Node) (nid : Nat) : Bool :=
  n.recv.any (fun e => e.1 == nid && Gen.sendTokenCmp.eval (e.2 + Gen.tokenExpirationTime) n.now)

/-- `on_find_response`: `self.tokens[node.id] = (time.time(), token)` -/
def Node.recvToken (n : Node) (nid : Nat) : Node :=
  { n with recv := if n.recv.any (fun e => e.1 == nid)
                   then n.recv.map (fun e => if e.1 == nid then (nid, n.now) else e)
                   else n.recv ++ [(nid, n.now)] }

/-- `value_maintenance` -/
def Node.clean (n : Node) : Node := { n with store := n.store.clean n.now }

/-- the token_maintenance interval task fires when due and re-arms itself -/
def Node.fireRotate (n : Node) : Node :=
  if n.now == n.nextRotate then
    { n.rotate with nextRotate := n.nextRotate + Gen.tokenMaintenanceInterval } else n

/-- the value_maintenance interval task fires when due and re-arms itself -/
def Node.fireClean (n : Node) : Node :=
  if n.now == n.nextClean then
    { n.clean with nextClean := n.nextClean + Gen.valueMaintenanceInterval } else n

/-- one second passes; interval tasks due at the new time fire -/
def Node.tick1 (n : Node) : Node :=
  ({ n with now := n.now + 1 } : Node).fireRotate.fireClean

def Node.adv : Nat → Node → Node
  | 0, n => n
  | k + 1, n => Node.adv k n.tick1

def Node.newestSecret (n : Node) : Nat :=
  match n.secrets.getLast? with
  | some s => s.1
  | none => 0

def Node.genToken {Tok : Type} (C : Crypto Tok) (n : Node) (who : Ident) : Tok :=
  C.tokenHash who.addr who.mid n.newestSecret

def Node.checkToken {Tok : Type} [DecidableEq Tok] (C : Crypto Tok) (n : Node) (who : Ident) (t : Tok) : Bool :=
  match Gen.checkScope with
  | .allLive => n.secrets.any (fun s => C.tokenHash who.addr who.mid s.1 == t)
  | .newest => C.tokenHash who.addr who.mid n.newestSecret == t

def lookupQ : List (Nat × List Nat) → Nat → List Nat
  | [], _ => []
  | (k', l) :: r, k => if k' == k then l else lookupQ r k

def setQ : List (Nat × List Nat) → Nat → List Nat → List (Nat × List Nat)
  | [], k, l => [(k, l)]
  | (k', l') :: r, k, l => if k' == k then (k', l) :: r else (k', l') :: setQ r k l

/-- `Node.blocked` of the routing-table entry of the requester -/
def Node.blocked (n : Node) (nid : Nat) : Bool :=
  let q := lookupQ n.queries nid
  decide (q.length ≥ Gen.nodeLimitQueries) &&
    (match q.head? with
     | some t => decide (n.now - t < Gen.nodeLimitInterval)
     | none => false)

def Node.noteQuery (n : Node) (nid : Nat) : Node :=
  { n with queries := setQ n.queries nid (keepLast Gen.nodeLimitQueries (lookupQ n.queries nid ++ [n.now])) }

structure StoreReq (Tok : Type) where
  who : Ident
  nid : Nat
  token : Tok
  target : Nat
  values : List Blob
  numCloser : Nat

def Guard.fires {Tok : Type} [DecidableEq Tok] (C : Crypto Tok) (n : Node) (r : StoreReq Tok) : Guard → Bool
  | .notBlocked => n.blocked r.nid
  | .sizeLimit c b => r.values.any (fun v => c.eval v.len b)
  | .countLimit c b => c.eval r.values.length b
  | .token => !n.checkToken C r.who r.token
  | .ownMid => r.target != r.who.mid

/-- `on_store_request`; the flag says whether a StoreResponse is sent -/
def Node.storeReq {Tok : Type} [DecidableEq Tok] (C : Crypto Tok) (n : Node) (r : StoreReq Tok) : Node × Bool :=
  if n.blocked r.nid then (n, false) else
  let n1 := n.noteQuery r.nid
  if Gen.storeGuards.any (fun g => g.fires C n r) then (n1, false)
  else
    let res := addValues C n.now r.target (Gen.storeMaxAge r.numCloser) r.values n1.store
    ({ n1 with store := res.1 }, res.2)

/-- `on_find_request`: (token, values) of the FindResponse, `none` when the requester is blocked -/
def Node.findReq {Tok : Type} (C : Crypto Tok) (n : Node) (who : Ident) (nid target offset : Nat) (force : Bool) :
    Node × Option (Tok × List Nat) :=
  if n.blocked nid then (n, none) else
  let vals := if force then [] else n.store.get target offset Gen.findLimit
  (n.noteQuery nid, some (n.genToken C who, vals))

/-- `on_ping_request`: answered unless the requester is blocked; counts as a query for the rate limit -/
def Node.pingReq (n : Node) (nid : Nat) : Node × Bool :=
  if n.blocked nid then (n, false) else (n.noteQuery nid, true)

def lookupP : List (Nat × List Ident) → Nat → List Ident
  | [], _ => []
  | (k', l) :: r, k => if k' == k then l else lookupP r k

def setP : List (Nat × List Ident) → Nat → List Ident → List (Nat × List Ident)
  | [], k, l => [(k, l)]
  | (k', l') :: r, k, l => if k' == k then (k', l) :: r else (k', l') :: setP r k l

/-- `on_store_peer_request` (Peer equality is equality of public keys) -/
def Node.storePeerReq {Tok : Type} [DecidableEq Tok] (C : Crypto Tok) (n : Node) (who : Ident) (token : Tok)
    (target : Nat) : Node × Bool :=
  let r : StoreReq Tok := { who := who, nid := 0, token := token, target := target, values := [], numCloser := 0 }
  if Gen.storePeerGuards.any (fun g => g.fires C n r) then (n, false)
  else
    let cur := lookupP n.peers target
    let cur' := if cur.any (fun i => i.pk == who.pk) then cur else cur ++ [who]
    ({ n with peers := setP n.peers target cur' }, true)

/-- `store_on_nodes`: the values kept after the size filter and the count cap (both read from the source) -/
def keepLocal (vs : List Blob) : List Blob :=
  let vs := match Gen.localKeep with
    | some (c, b) => vs.filter (fun v => c.eval v.len b)
    | none => vs
  match Gen.localCap with
  | some n => vs.take n
  | none => vs

/-- the local part of `store_on_nodes` (also reached from every lookup through `_find`): when the node decides to keep the
    pair itself (`local`), `for value in reversed(values): self.add_value(key, value, storage)` with the default max_age;
    no token is involved — the node acts on its own behalf -/
def Node.cacheStore {Tok : Type} (C : Crypto Tok) (n : Node) (key : Nat) (values : List Blob) (loc : Bool) : Node :=
  if loc then { n with store := (addValues C n.now key Gen.maxEntryAge (keepLocal values).reverse n.store).1 } else n

/-! ## Histories -/

inductive Op (Tok : Type)
  | adv (dt : Nat)                                             -- the clock advances; due interval tasks fire
  | rotate                                                     -- an extra token_maintenance() call
  | clean                                                      -- an extra value_maintenance() call
  | find (who : Ident) (nid target offset : Nat) (force : Bool)
  | store (r : StoreReq Tok)
  | storePeer (who : Ident) (token : Tok) (target : Nat)
  | ping (nid : Nat)
  | cache (key : Nat) (values : List Blob) (loc : Bool)     -- the node's own store_on_nodes / lookup caching
  | recvTok (nid : Nat)                                     -- the node itself did a find and got a token from `nid`

def Node.step {Tok : Type} [DecidableEq Tok] (C : Crypto Tok) (n : Node) : Op Tok → Node
  | .adv dt => n.adv dt
  | .rotate => n.rotate
  | .clean => n.clean
  | .find w nid t o f => (n.findReq C w nid t o f).1
  | .store r => (n.storeReq C r).1
  | .storePeer w tok t => (n.storePeerReq C w tok t).1
  | .ping nid => (n.pingReq nid).1
  | .cache key values loc => n.cacheStore C key values loc
  | .recvTok nid => n.recvToken nid

def Node.run {Tok : Type} [DecidableEq Tok] (C : Crypto Tok) (n : Node) (ops : List (Op Tok)) : Node :=
  ops.foldl (Node.step C) n

/-! ## Lookup side (post_process_values, Crawl.values) -/

/-- insertion-ordered `defaultdict(list)`: public key ↦ [(version, data)] -/
def groupAdd : List (Nat × List (Nat × Nat)) → Nat → (Nat × Nat) → List (Nat × List (Nat × Nat))
  | [], pk, e => [(pk, [e])]
  | (k, l) :: r, pk, e => if k == pk then (k, l ++ [e]) :: r else (k, l) :: groupAdd r pk e

/-- Python `max(l, key=…)` / `min(l, key=…)`: the first extremal element -/
def pickBy (better : Nat → Nat → Bool) : List (Nat × Nat) → Option (Nat × Nat)
  | [] => none
  | x :: xs => some (xs.foldl (fun best y => if better y.1 best.1 then y else best) x)

def Pick.better : Pick → Nat → Nat → Bool
  | .maxVersion, a, b => decide (a > b)
  | .minVersion, a, b => decide (a < b)

structure PP where
  signed : List (Nat × List (Nat × Nat))
  unsigned : List Nat
  deriving Repr, Inhabited

def ppStep {Tok : Type} (C : Crypto Tok) (acc : Option PP) (b : Blob) : Option PP :=
  match acc with
  | none => none
  | some a =>
    match unserialize C b with
    | .raise => none
    | .none => some a
    | .ok d none _ => some { a with unsigned := a.unsigned ++ [d] }
    | .ok d (some (pk, _)) v => some { a with signed := groupAdd a.signed pk (v, d) }

/-- `post_process_values`: `none` = an exception left the function; results are (data, signer) -/
def postProcess {Tok : Type} (C : Crypto Tok) (blobs : List Blob) : Option (List (Nat × Option Nat)) :=
  match blobs.foldl (ppStep C) (some { signed := [], unsigned := [] }) with
  | none => none
  | some a =>
    some (a.signed.filterMap (fun g => (pickBy Gen.lookupPick.better g.2).map (fun e => (e.2, some g.1)))
          ++ a.unsigned.map (fun d => (d, none)))

/-- `sum(zip_longest(*lists), ())` without the `None` fill values -/
def interleave : Nat → List (List Nat) → List Nat
  | 0, _ => []
  | fuel + 1, ls =>
    let ls := ls.filter (fun l => !l.isEmpty)
    if ls.isEmpty then [] else ls.filterMap List.head? ++ interleave fuel (ls.map List.tail)

def dedup : List Nat → List Nat → List Nat
  | _, [] => []
  | seen, x :: xs => if seen.contains x then dedup seen xs else x :: dedup (x :: seen) xs

/-- `Crawl.values` -/
def crawlValues (responses : List (List Nat)) : List Nat :=
  dedup [] (interleave ((responses.map List.length).foldl Nat.max 0 + 1) responses)

end Ipv8.C15
