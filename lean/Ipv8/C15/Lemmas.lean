/-
  C15 — helper lemmas (core Lean only).
-/
import Ipv8.C15.Model

namespace Ipv8.C15

/-! ### assoc-list storage -/

theorem getItems_setItems (s : Storage) (k k' : Nat) (l : Items) :
    (s.setItems k l).getItems k' = if k' = k then l else s.getItems k' := by
  induction s with
  | nil =>
    by_cases h : k' = k
    · subst h; simp [Storage.setItems, Storage.getItems]
    · have : ¬ k = k' := fun e => h e.symm
      simp [Storage.setItems, Storage.getItems, h, this]
  | cons hd tl ih =>
    obtain ⟨k0, l0⟩ := hd
    by_cases h0 : k0 = k
    · subst h0
      by_cases h : k' = k0
      · subst h; simp [Storage.setItems, Storage.getItems]
      · have : ¬ k0 = k' := fun e => h e.symm
        simp [Storage.setItems, Storage.getItems, h, this]
    · by_cases h : k' = k
      · subst h
        simp [Storage.setItems, Storage.getItems, h0, ih]
      · by_cases h1 : k0 = k'
        · subst h1
          simp [Storage.setItems, Storage.getItems, h0]
        · simp [Storage.setItems, Storage.getItems, h0, h, h1, ih]

theorem getItems_map (f : Items → Items) (hf : f [] = []) (s : Storage) (k : Nat) :
    Storage.getItems (s.map (fun kl => (kl.1, f kl.2))) k = f (s.getItems k) := by
  induction s with
  | nil => simp [Storage.getItems, hf]
  | cons hd tl ih =>
    obtain ⟨k0, l0⟩ := hd
    by_cases h : k0 = k
    · simp [Storage.getItems, h]
    · simp only [List.map_cons, Storage.getItems]
      have : (k0 == k) = false := by simp [h]
      simp only [this]
      exact ih

/-! ### sortOwn / putItems -/

theorem mem_sortOwn (key : Nat) (l : Items) (v : Value) : v ∈ sortOwn key l ↔ v ∈ l := by
  unfold sortOwn
  simp only [List.mem_append, List.mem_filter]
  constructor
  · rintro (h | h) <;> exact h.1
  · intro h
    by_cases e : v.id = key
    · right; exact ⟨h, by simp [e]⟩
    · left; exact ⟨h, by simp [e]⟩

def IdsNodup (l : Items) : Prop := l.Pairwise (fun a b => a.id ≠ b.id)

theorem idsNodup_sortOwn (key : Nat) (l : Items) (h : IdsNodup l) : IdsNodup (sortOwn key l) := by
  unfold IdsNodup sortOwn
  rw [List.pairwise_append]
  refine ⟨h.filter _, h.filter _, ?_⟩
  intro a ha b hb
  simp only [List.mem_filter] at ha hb
  intro e
  have h1 : a.id ≠ key := by simpa using ha.2
  have h2 : b.id = key := by simpa using hb.2
  exact h1 (e.trans h2)

theorem not_mem_eraseP_of_idsNodup (x : Nat) (l : Items) (h : IdsNodup l) :
    ∀ b ∈ l.eraseP (fun v => v.id == x), b.id ≠ x := by
  induction l with
  | nil => simp
  | cons a t ih =>
    have ht : IdsNodup t := (List.pairwise_cons.mp h).2
    have ha : ∀ b ∈ t, a.id ≠ b.id := (List.pairwise_cons.mp h).1
    by_cases e : a.id = x
    · have hp : (fun v : Value => v.id == x) a = true := by simp [e]
      rw [List.eraseP_cons_of_pos (a := a) (l := t) (p := fun v : Value => v.id == x) hp]
      intro b hb hbx
      exact ha b hb (e.trans hbx.symm)
    · have hp : ¬ (fun v : Value => v.id == x) a = true := by simp [e]
      rw [List.eraseP_cons_of_neg (a := a) (l := t) (p := fun v : Value => v.id == x) hp]
      intro b hb
      rcases List.mem_cons.mp hb with rfl | hb
      · exact e
      · exact ih ht b hb

theorem find_none_ids (x : Nat) (l : Items) (h : l.find? (fun v => v.id == x) = none) : ∀ b ∈ l, b.id ≠ x := by
  intro b hb e
  have := List.find?_eq_none.mp h b hb
  simp [e] at this

theorem idsNodup_putItems (key : Nat) (nv : Value) (l : Items) (h : IdsNodup l) : IdsNodup (putItems key nv l) := by
  unfold putItems
  split
  · rename_i old hfind
    split
    · apply idsNodup_sortOwn
      unfold IdsNodup
      rw [List.pairwise_cons]
      refine ⟨?_, h.sublist (List.eraseP_sublist ..)⟩
      intro b hb e
      exact not_mem_eraseP_of_idsNodup nv.id l h b hb e.symm
    · exact h
  · rename_i hfind
    apply idsNodup_sortOwn
    unfold IdsNodup
    rw [List.pairwise_cons]
    refine ⟨?_, h⟩
    intro b hb e
    exact find_none_ids nv.id l hfind b hb e.symm

theorem idsNodup_filter (p : Value → Bool) (l : Items) (h : IdsNodup l) : IdsNodup (l.filter p) :=
  List.Pairwise.filter p h

/-- with distinct ids, the value found for an id is the only one with that id -/
theorem find_unique (x : Nat) (l : Items) (h : IdsNodup l) (old : Value)
    (hf : l.find? (fun v => v.id == x) = some old) : ∀ v ∈ l, v.id = x → v = old := by
  induction l with
  | nil => simp at hf
  | cons a t ih =>
    have ht : IdsNodup t := (List.pairwise_cons.mp h).2
    have ha : ∀ b ∈ t, a.id ≠ b.id := (List.pairwise_cons.mp h).1
    intro v hv hvx
    by_cases e : a.id = x
    · have ea : (a.id == x) = true := by simp [e]
      simp only [List.find?_cons, ea] at hf
      have hao : a = old := by simpa using hf
      rcases List.mem_cons.mp hv with rfl | hv'
      · exact hao
      · exact absurd (e.trans hvx.symm) (ha v hv')
    · have ea : (a.id == x) = false := by simp [e]
      simp only [List.find?_cons, ea] at hf
      rcases List.mem_cons.mp hv with rfl | hv'
      · exact absurd hvx e
      · exact ih ht hf v hv' hvx

/-! ### clean -/

theorem cleanItems_nil (now : Nat) : cleanItems now [] = [] := by
  unfold cleanItems
  split <;> simp [dropExpiredTail]

/-! ### pickBy -/

theorem foldl_pick_mem (better : Nat → Nat → Bool) (xs : List (Nat × Nat)) (x : Nat × Nat) :
    xs.foldl (fun best y => if better y.1 best.1 then y else best) x ∈ x :: xs := by
  induction xs generalizing x with
  | nil => simp
  | cons y ys ih =>
    simp only [List.foldl_cons]
    by_cases c : better y.1 x.1 = true
    · rw [if_pos c]
      rcases List.mem_cons.mp (ih y) with h | h
      · rw [h]; simp
      · exact List.mem_cons_of_mem _ (List.mem_cons_of_mem _ h)
    · rw [if_neg c]
      rcases List.mem_cons.mp (ih x) with h | h
      · rw [h]; simp
      · exact List.mem_cons_of_mem _ (List.mem_cons_of_mem _ h)

theorem pickBy_mem (better : Nat → Nat → Bool) (l : List (Nat × Nat)) (e : Nat × Nat)
    (h : pickBy better l = some e) : e ∈ l := by
  cases l with
  | nil => simp [pickBy] at h
  | cons x xs =>
    simp only [pickBy, Option.some.injEq] at h
    rw [← h]
    exact foldl_pick_mem better xs x

theorem foldl_pick_max (xs : List (Nat × Nat)) (x : Nat × Nat) :
    x.1 ≤ (xs.foldl (fun best y => if Pick.maxVersion.better y.1 best.1 then y else best) x).1 ∧
    ∀ y ∈ xs, y.1 ≤ (xs.foldl (fun best y => if Pick.maxVersion.better y.1 best.1 then y else best) x).1 := by
  induction xs generalizing x with
  | nil => simp
  | cons y ys ih =>
    simp only [List.foldl_cons]
    by_cases c : Pick.maxVersion.better y.1 x.1 = true
    · rw [if_pos c]
      obtain ⟨h1, h2⟩ := ih y
      have c' : y.1 > x.1 := by simpa [Pick.better] using c
      refine ⟨by omega, ?_⟩
      intro z hz
      rcases List.mem_cons.mp hz with rfl | hz
      · exact h1
      · exact h2 z hz
    · rw [if_neg c]
      obtain ⟨h1, h2⟩ := ih x
      have c' : ¬ y.1 > x.1 := by simpa [Pick.better] using c
      refine ⟨h1, ?_⟩
      intro z hz
      rcases List.mem_cons.mp hz with rfl | hz
      · omega
      · exact h2 z hz

theorem pickBy_max (l : List (Nat × Nat)) (e : Nat × Nat)
    (h : pickBy Pick.maxVersion.better l = some e) : ∀ y ∈ l, y.1 ≤ e.1 := by
  cases l with
  | nil => simp [pickBy] at h
  | cons x xs =>
    simp only [pickBy, Option.some.injEq] at h
    have := foldl_pick_max xs x
    rw [h] at this
    intro y hy
    rcases List.mem_cons.mp hy with rfl | hy
    · exact this.1
    · exact this.2 y hy

/-! ### invariant of reachable node states -/

def Storage.WF (s : Storage) : Prop := ∀ k, IdsNodup (s.getItems k)

theorem wf_nil : Storage.WF ([] : Storage) := by
  intro k; simp [Storage.getItems, IdsNodup]

theorem wf_put (s : Storage) (key : Nat) (nv : Value) (h : s.WF) : (s.put key nv).WF := by
  intro k
  unfold Storage.put
  rw [getItems_setItems]
  split
  · exact idsNodup_putItems key nv _ (h key)
  · exact h k

theorem getItems_clean (s : Storage) (now k : Nat) :
    (s.clean now).getItems k = cleanItems now (s.getItems k) := by
  unfold Storage.clean
  exact getItems_map (cleanItems now) (cleanItems_nil now) s k

theorem dropExpiredTail_sublist (now : Nat) (l : Items) : (dropExpiredTail now l).Sublist l := by
  induction l with
  | nil => simp [dropExpiredTail]
  | cons v t ih =>
    simp only [dropExpiredTail]
    split
    · rename_i hnil
      split
      · exact List.nil_sublist _
      · exact (List.Sublist.refl [v]).append (List.nil_sublist t) |>.trans (by simp)
    · rename_i r hne
      exact List.Sublist.cons₂ v ih

theorem cleanItems_sublist (now : Nat) (l : Items) : (cleanItems now l).Sublist l := by
  unfold cleanItems
  split
  · exact dropExpiredTail_sublist now l
  · exact List.filter_sublist

theorem wf_clean (s : Storage) (now : Nat) (h : s.WF) : (s.clean now).WF := by
  intro k
  rw [getItems_clean]
  exact List.Pairwise.sublist (cleanItems_sublist now _) (h k)

theorem wf_addValue {Tok : Type} (C : Crypto Tok) (now key : Nat) (b : Blob) (maxAge : Nat) (s s' : Storage)
    (h : s.WF) (he : addValue C now key b maxAge s = some s') : s'.WF := by
  unfold addValue at he
  split at he
  · simp at he
  · simp only [Option.some.injEq] at he; rw [← he]; exact h
  · simp only [Option.some.injEq] at he; rw [← he]; exact wf_put _ _ _ h

theorem wf_addValues {Tok : Type} (C : Crypto Tok) (now key maxAge : Nat) (bs : List Blob) (s : Storage)
    (h : s.WF) : (addValues C now key maxAge bs s).1.WF := by
  induction bs generalizing s with
  | nil => simpa [addValues] using h
  | cons b bs ih =>
    simp only [addValues]
    split
    · exact h
    · rename_i s' he
      exact ih s' (wf_addValue C now key b maxAge s s' h he)

/-- the part of the node state the token window depends on -/
structure TokInv (n : Node) : Prop where
  lt : n.now < n.nextRotate
  le : n.nextRotate ≤ n.now + Gen.tokenMaintenanceInterval
  shape : (∃ x, n.secrets = [x] ∧ n.nextRotate ≤ x.2 + Gen.tokenMaintenanceInterval) ∨
          (∃ x y, n.secrets = [x, y] ∧ n.nextRotate ≤ x.2 + 2 * Gen.tokenMaintenanceInterval ∧
                  n.nextRotate ≤ y.2 + Gen.tokenMaintenanceInterval)

structure Inv (n : Node) : Prop where
  tok : TokInv n
  wf : n.store.WF

theorem interval_pos : 0 < Gen.tokenMaintenanceInterval := by decide

theorem tokInv_init (t0 : Nat) : TokInv (Node.init t0) := by
  have := interval_pos
  refine ⟨?_, ?_, Or.inl ⟨(0, t0), rfl, ?_⟩⟩ <;> simp [Node.init] <;> omega

/-- a rotation that leaves `nextRotate` alone (an extra `token_maintenance()` call) -/
theorem tokInv_rotate (n : Node) (h : TokInv n) : TokInv n.rotate := by
  obtain ⟨h1, h2, h3⟩ := h
  refine ⟨h1, h2, ?_⟩
  rcases h3 with ⟨x, hx, hb⟩ | ⟨x, y, hxy, hbx, hby⟩
  · right
    refine ⟨x, (n.nextSecret, n.now), ?_, ?_, ?_⟩
    · simp [Node.rotate, hx, keepLast, Gen.tokenSecretsMaxlen]
    · simp only [Node.rotate]; omega
    · simp only [Node.rotate]; omega
  · right
    refine ⟨y, (n.nextSecret, n.now), ?_, ?_, ?_⟩
    · simp [Node.rotate, hxy, keepLast, Gen.tokenSecretsMaxlen]
    · simp only [Node.rotate]; omega
    · simp only [Node.rotate]; omega

/-- the scheduled rotation: fires exactly at `nextRotate` and re-arms the timer -/
theorem tokInv_scheduled (n : Node) (h2 : n.nextRotate ≤ n.now + Gen.tokenMaintenanceInterval)
    (hnow : n.now = n.nextRotate)
    (h3 : (∃ x, n.secrets = [x] ∧ n.nextRotate ≤ x.2 + Gen.tokenMaintenanceInterval) ∨
          (∃ x y, n.secrets = [x, y] ∧ n.nextRotate ≤ x.2 + 2 * Gen.tokenMaintenanceInterval ∧
                  n.nextRotate ≤ y.2 + Gen.tokenMaintenanceInterval)) :
    TokInv { n.rotate with nextRotate := n.nextRotate + Gen.tokenMaintenanceInterval } := by
  have hp := interval_pos
  refine ⟨?_, ?_, ?_⟩
  · simp only [Node.rotate]; omega
  · simp only [Node.rotate]; omega
  · rcases h3 with ⟨x, hx, hb⟩ | ⟨x, y, hxy, hbx, hby⟩
    · right
      refine ⟨x, (n.nextSecret, n.now), ?_, ?_, ?_⟩
      · simp [Node.rotate, hx, keepLast, Gen.tokenSecretsMaxlen]
      · simp only [Node.rotate]; omega
      · simp only [Node.rotate]; omega
    · right
      refine ⟨y, (n.nextSecret, n.now), ?_, ?_, ?_⟩
      · simp [Node.rotate, hxy, keepLast, Gen.tokenSecretsMaxlen]
      · simp only [Node.rotate]; omega
      · simp only [Node.rotate]; omega

theorem inv_fireClean (n : Node) (h : Inv n) : Inv n.fireClean := by
  unfold Node.fireClean
  split
  · exact ⟨⟨h.tok.lt, h.tok.le, h.tok.shape⟩, wf_clean _ _ h.wf⟩
  · exact h

theorem inv_bump_fireRotate (n : Node) (h : Inv n) : Inv ({ n with now := n.now + 1 } : Node).fireRotate := by
  obtain ⟨⟨h1, h2, h3⟩, hw⟩ := h
  unfold Node.fireRotate
  split
  · rename_i hr
    have hr' : n.now + 1 = n.nextRotate := by simpa using hr
    exact ⟨tokInv_scheduled { n with now := n.now + 1 } (by simp only; omega) (by simp only; omega) h3, hw⟩
  · rename_i hr
    have hr' : n.now + 1 ≠ n.nextRotate := by simpa using hr
    exact ⟨⟨by simp only; omega, by simp only; omega, h3⟩, hw⟩

theorem inv_tick1 (n : Node) (h : Inv n) : Inv n.tick1 :=
  inv_fireClean _ (inv_bump_fireRotate n h)

theorem inv_adv (dt : Nat) (n : Node) (h : Inv n) : Inv (n.adv dt) := by
  induction dt generalizing n with
  | zero => exact h
  | succ k ih => exact ih _ (inv_tick1 n h)

theorem inv_step {Tok : Type} [DecidableEq Tok] (C : Crypto Tok) (n : Node) (op : Op Tok) (h : Inv n) :
    Inv (n.step C op) := by
  cases op with
  | adv dt => exact inv_adv dt n h
  | rotate => exact ⟨tokInv_rotate n h.tok, h.wf⟩
  | clean => exact ⟨⟨h.tok.lt, h.tok.le, h.tok.shape⟩, wf_clean _ _ h.wf⟩
  | find w nid t o f =>
    simp only [Node.step, Node.findReq]
    split
    · exact h
    · exact ⟨⟨h.tok.lt, h.tok.le, h.tok.shape⟩, h.wf⟩
  | store r =>
    simp only [Node.step, Node.storeReq]
    split
    · exact h
    · split
      · exact ⟨⟨h.tok.lt, h.tok.le, h.tok.shape⟩, h.wf⟩
      · exact ⟨⟨h.tok.lt, h.tok.le, h.tok.shape⟩, wf_addValues C _ _ _ _ _ h.wf⟩
  | storePeer w tok t =>
    simp only [Node.step, Node.storePeerReq]
    split
    · exact h
    · exact ⟨⟨h.tok.lt, h.tok.le, h.tok.shape⟩, h.wf⟩
  | ping nid =>
    simp only [Node.step, Node.pingReq]
    split
    · exact h
    · exact ⟨⟨h.tok.lt, h.tok.le, h.tok.shape⟩, h.wf⟩
  | cache key values loc =>
    simp only [Node.step, Node.cacheStore]
    split
    · exact ⟨⟨h.tok.lt, h.tok.le, h.tok.shape⟩, wf_addValues C _ _ _ _ _ h.wf⟩
    · exact h
  | recvTok nid => exact ⟨⟨h.tok.lt, h.tok.le, h.tok.shape⟩, h.wf⟩

theorem inv_run {Tok : Type} [DecidableEq Tok] (C : Crypto Tok) (ops : List (Op Tok)) (n : Node) (h : Inv n) :
    Inv (n.run C ops) := by
  induction ops generalizing n with
  | nil => exact h
  | cons op ops ih => exact ih _ (inv_step C n op h)

/-! ### post_process_values -/

/-- per-group invariant of the `post_process_values` loop -/
def PPSound {Tok : Type} (C : Crypto Tok) (blobs : List Blob) (a : PP) : Prop :=
  ∀ g ∈ a.signed, ∀ e ∈ g.2, ∃ b ∈ blobs, ∃ pkh sig, b.wire = .signed e.2 e.1 g.1 pkh sig ∧ C.verify g.1 e.2 e.1 sig = true

theorem groupAdd_sound (l : List (Nat × List (Nat × Nat))) (pk : Nat) (e : Nat × Nat) :
    ∀ g ∈ groupAdd l pk e, ∀ x ∈ g.2, (∃ g0 ∈ l, g0.1 = g.1 ∧ x ∈ g0.2) ∨ (g.1 = pk ∧ x = e) := by
  induction l with
  | nil =>
    intro g hg x hx
    simp only [groupAdd, List.mem_singleton] at hg
    subst hg
    simp only [List.mem_singleton] at hx
    exact Or.inr ⟨rfl, hx⟩
  | cons hd tl ih =>
    obtain ⟨k, kl⟩ := hd
    intro g hg x hx
    simp only [groupAdd] at hg
    split at hg
    · rename_i hk
      have hk' : k = pk := by simpa using hk
      rcases List.mem_cons.mp hg with rfl | hg
      · simp only [List.mem_append, List.mem_singleton] at hx
        rcases hx with hx | hx
        · exact Or.inl ⟨(k, kl), List.mem_cons_self .., rfl, hx⟩
        · exact Or.inr ⟨hk', hx⟩
      · exact Or.inl ⟨g, List.mem_cons_of_mem _ hg, rfl, hx⟩
    · rcases List.mem_cons.mp hg with rfl | hg
      · exact Or.inl ⟨(k, kl), List.mem_cons_self .., rfl, hx⟩
      · rcases ih g hg x hx with ⟨g0, hg0, h1, h2⟩ | h
        · exact Or.inl ⟨g0, List.mem_cons_of_mem _ hg0, h1, h2⟩
        · exact Or.inr h

theorem ppStep_sound {Tok : Type} (C : Crypto Tok) (blobs : List Blob) (a a' : PP) (b : Blob) (hb : b ∈ blobs)
    (h : PPSound C blobs a) (hs : ppStep C (some a) b = some a') : PPSound C blobs a' := by
  unfold ppStep unserialize at hs
  cases hw : b.wire with
  | str d =>
    simp [hw] at hs; subst hs; exact h
  | signed d v pk pkh sig =>
    by_cases hv : C.verify pk d v sig = true
    · simp [hw, hv] at hs
      subst hs
      intro g hg x hx
      rcases groupAdd_sound a.signed pk (v, d) g hg x hx with ⟨g0, hg0, h1, h2⟩ | ⟨h1, h2⟩
      · rw [← h1]; exact h g0 hg0 x h2
      · subst h2; rw [h1]; exact ⟨b, hb, pkh, sig, hw, hv⟩
    · simp [hw, hv] at hs; subst hs; exact h
  | unknown => simp [hw] at hs; subst hs; exact h
  | malformed => simp [hw] at hs

theorem foldl_ppStep_none {Tok : Type} (C : Crypto Tok) (bs : List Blob) :
    bs.foldl (ppStep C) none = none := by
  induction bs with
  | nil => rfl
  | cons b bs ih => simpa [List.foldl_cons, ppStep] using ih

theorem foldl_sound {Tok : Type} (C : Crypto Tok) (blobs bs : List Blob) (hsub : ∀ b ∈ bs, b ∈ blobs)
    (a a' : PP) (h : PPSound C blobs a) (hf : bs.foldl (ppStep C) (some a) = some a') : PPSound C blobs a' := by
  induction bs generalizing a with
  | nil => simp at hf; subst hf; exact h
  | cons b bs ih =>
    simp only [List.foldl_cons] at hf
    cases hst : ppStep C (some a) b with
    | none => rw [hst, foldl_ppStep_none] at hf; simp at hf
    | some a1 =>
      rw [hst] at hf
      exact ih (fun x hx => hsub x (List.mem_cons_of_mem _ hx)) a1
        (ppStep_sound C blobs a a1 b (hsub b (List.mem_cons_self ..)) h hst) hf


/-! ### grouping by signer is complete and keys are distinct -/

def GKeysNodup (l : List (Nat × List (Nat × Nat))) : Prop := l.Pairwise (fun a b => a.1 ≠ b.1)

theorem groupAdd_keys (l : List (Nat × List (Nat × Nat))) (pk : Nat) (e : Nat × Nat) :
    ∀ g ∈ groupAdd l pk e, g.1 = pk ∨ ∃ g0 ∈ l, g0.1 = g.1 := by
  induction l with
  | nil => intro g hg; simp only [groupAdd, List.mem_singleton] at hg; subst hg; exact Or.inl rfl
  | cons hd tl ih =>
    obtain ⟨k, kl⟩ := hd
    intro g hg
    simp only [groupAdd] at hg
    split at hg
    · rcases List.mem_cons.mp hg with rfl | hg
      · exact Or.inr ⟨(k, kl), List.mem_cons_self .., rfl⟩
      · exact Or.inr ⟨g, List.mem_cons_of_mem _ hg, rfl⟩
    · rcases List.mem_cons.mp hg with rfl | hg
      · exact Or.inr ⟨(k, kl), List.mem_cons_self .., rfl⟩
      · rcases ih g hg with h | ⟨g0, hg0, h⟩
        · exact Or.inl h
        · exact Or.inr ⟨g0, List.mem_cons_of_mem _ hg0, h⟩

theorem groupAdd_nodup (l : List (Nat × List (Nat × Nat))) (pk : Nat) (e : Nat × Nat) (h : GKeysNodup l) :
    GKeysNodup (groupAdd l pk e) := by
  induction l with
  | nil => simp [groupAdd, GKeysNodup]
  | cons hd tl ih =>
    obtain ⟨k, kl⟩ := hd
    have htl : GKeysNodup tl := (List.pairwise_cons.mp h).2
    have hhd : ∀ b ∈ tl, k ≠ b.1 := (List.pairwise_cons.mp h).1
    simp only [groupAdd]
    split
    · unfold GKeysNodup
      rw [List.pairwise_cons]
      exact ⟨hhd, htl⟩
    · rename_i hk
      have hk' : k ≠ pk := by simpa using hk
      unfold GKeysNodup
      rw [List.pairwise_cons]
      refine ⟨?_, ih htl⟩
      intro b hb
      rcases groupAdd_keys tl pk e b hb with h1 | ⟨g0, hg0, h1⟩
      · rw [h1]; exact hk'
      · rw [← h1]; exact hhd g0 hg0

theorem groupAdd_has_new (l : List (Nat × List (Nat × Nat))) (pk : Nat) (e : Nat × Nat) :
    ∃ g ∈ groupAdd l pk e, g.1 = pk ∧ e ∈ g.2 := by
  induction l with
  | nil => exact ⟨(pk, [e]), by simp [groupAdd], rfl, by simp⟩
  | cons hd tl ih =>
    obtain ⟨k, kl⟩ := hd
    simp only [groupAdd]
    split
    · rename_i hk
      have hk' : k = pk := by simpa using hk
      exact ⟨(k, kl ++ [e]), List.mem_cons_self .., hk', by simp⟩
    · obtain ⟨g, hg, h1, h2⟩ := ih
      exact ⟨g, List.mem_cons_of_mem _ hg, h1, h2⟩

theorem groupAdd_keeps (l : List (Nat × List (Nat × Nat))) (pk : Nat) (e : Nat × Nat) :
    ∀ g0 ∈ l, ∀ x ∈ g0.2, ∃ g ∈ groupAdd l pk e, g.1 = g0.1 ∧ x ∈ g.2 := by
  induction l with
  | nil => intro g0 hg0; simp at hg0
  | cons hd tl ih =>
    obtain ⟨k, kl⟩ := hd
    intro g0 hg0 x hx
    simp only [groupAdd]
    split
    · rcases List.mem_cons.mp hg0 with rfl | hg0
      · exact ⟨(k, kl ++ [e]), List.mem_cons_self .., rfl, by simp [hx]⟩
      · exact ⟨g0, List.mem_cons_of_mem _ hg0, rfl, hx⟩
    · rcases List.mem_cons.mp hg0 with rfl | hg0
      · exact ⟨(k, kl), List.mem_cons_self .., rfl, hx⟩
      · obtain ⟨g, hg, h1, h2⟩ := ih g0 hg0 x hx
        exact ⟨g, List.mem_cons_of_mem _ hg, h1, h2⟩

/-- every verifying signed value among the processed ones sits in the group of its key; group keys are distinct -/
def PPComplete {Tok : Type} (C : Crypto Tok) (S : Blob → Prop) (a : PP) : Prop :=
  GKeysNodup a.signed ∧
  ∀ b, S b → ∀ d v pk pkh sig, b.wire = .signed d v pk pkh sig → C.verify pk d v sig = true →
    ∃ g ∈ a.signed, g.1 = pk ∧ (v, d) ∈ g.2

theorem ppStep_complete {Tok : Type} (C : Crypto Tok) (S : Blob → Prop) (a a' : PP) (b : Blob)
    (h : PPComplete C S a) (hs : ppStep C (some a) b = some a') : PPComplete C (fun x => S x ∨ x = b) a' := by
  obtain ⟨hk, hc⟩ := h
  unfold ppStep unserialize at hs
  cases hw : b.wire with
  | str d0 =>
    simp [hw] at hs; subst hs
    refine ⟨hk, ?_⟩
    intro x hx d v pk pkh sig hxw hxv
    rcases hx with hx | rfl
    · exact hc x hx d v pk pkh sig hxw hxv
    · rw [hw] at hxw; cases hxw
  | signed d0 v0 pk0 pkh0 sig0 =>
    by_cases hv : C.verify pk0 d0 v0 sig0 = true
    · simp [hw, hv] at hs
      subst hs
      refine ⟨groupAdd_nodup _ _ _ hk, ?_⟩
      intro x hx d v pk pkh sig hxw hxv
      rcases hx with hx | rfl
      · obtain ⟨g0, hg0, h1, h2⟩ := hc x hx d v pk pkh sig hxw hxv
        obtain ⟨g, hg, h3, h4⟩ := groupAdd_keeps a.signed pk0 (v0, d0) g0 hg0 _ h2
        exact ⟨g, hg, h3.trans h1, h4⟩
      · rw [hw] at hxw
        cases hxw
        exact groupAdd_has_new a.signed pk0 (v0, d0)
    · simp [hw, hv] at hs; subst hs
      refine ⟨hk, ?_⟩
      intro x hx d v pk pkh sig hxw hxv
      rcases hx with hx | rfl
      · exact hc x hx d v pk pkh sig hxw hxv
      · rw [hw] at hxw; cases hxw; exact absurd hxv hv
  | unknown =>
    simp [hw] at hs; subst hs
    refine ⟨hk, ?_⟩
    intro x hx d v pk pkh sig hxw hxv
    rcases hx with hx | rfl
    · exact hc x hx d v pk pkh sig hxw hxv
    · rw [hw] at hxw; cases hxw
  | malformed => simp [hw] at hs

theorem foldl_complete {Tok : Type} (C : Crypto Tok) (bs : List Blob) (S : Blob → Prop) (a a' : PP)
    (h : PPComplete C S a) (hf : bs.foldl (ppStep C) (some a) = some a') :
    PPComplete C (fun x => S x ∨ x ∈ bs) a' := by
  induction bs generalizing a S with
  | nil =>
    simp at hf; subst hf
    refine ⟨h.1, ?_⟩
    intro x hx
    rcases hx with hx | hx
    · exact h.2 x hx
    · simp at hx
  | cons b bs ih =>
    simp only [List.foldl_cons] at hf
    cases hst : ppStep C (some a) b with
    | none => rw [hst, foldl_ppStep_none] at hf; simp at hf
    | some a1 =>
      rw [hst] at hf
      have := ih (fun x => S x ∨ x = b) a1 (ppStep_complete C S a a1 b h hst) hf
      refine ⟨this.1, ?_⟩
      intro x hx
      apply this.2 x
      rcases hx with hx | hx
      · exact Or.inl (Or.inl hx)
      · rcases List.mem_cons.mp hx with rfl | hx
        · exact Or.inl (Or.inr rfl)
        · exact Or.inr hx

theorem gkeys_unique (l : List (Nat × List (Nat × Nat))) (h : GKeysNodup l) (g g' : Nat × List (Nat × Nat))
    (hg : g ∈ l) (hg' : g' ∈ l) (e : g.1 = g'.1) : g = g' := by
  induction l with
  | nil => simp at hg
  | cons a t ih =>
    have ht : GKeysNodup t := (List.pairwise_cons.mp h).2
    have ha : ∀ b ∈ t, a.1 ≠ b.1 := (List.pairwise_cons.mp h).1
    rcases List.mem_cons.mp hg with h1 | h1
    · rcases List.mem_cons.mp hg' with h2 | h2
      · rw [h1, h2]
      · rw [h1] at e; exact absurd e (ha g' h2)
    · rcases List.mem_cons.mp hg' with h2 | h2
      · rw [h2] at e; exact absurd e.symm (ha g h1)
      · exact ih ht h1 h2

/-! ### secrets are numbered in order of creation (os.urandom never repeats) -/

def SecInv (n : Node) : Prop := ∀ sb ∈ n.secrets, sb.1 < n.nextSecret

theorem secInv_rotate (n : Node) (h : SecInv n) : SecInv n.rotate := by
  intro sb hsb
  simp only [Node.rotate, keepLast] at hsb ⊢
  have := List.mem_of_mem_drop hsb
  rcases List.mem_append.mp this with h1 | h1
  · have := h sb h1; omega
  · simp only [List.mem_singleton] at h1; subst h1; simp

theorem secInv_tick1 (n : Node) (h : SecInv n) : SecInv n.tick1 := by
  unfold Node.tick1 Node.fireClean Node.fireRotate
  simp only
  split <;> split
  · exact secInv_rotate { n with now := n.now + 1 } h
  · exact secInv_rotate { n with now := n.now + 1 } h
  · exact h
  · exact h

theorem secInv_adv (dt : Nat) (n : Node) (h : SecInv n) : SecInv (n.adv dt) := by
  induction dt generalizing n with
  | zero => exact h
  | succ k ih => exact ih _ (secInv_tick1 n h)

theorem secInv_step {Tok : Type} [DecidableEq Tok] (C : Crypto Tok) (n : Node) (op : Op Tok) (h : SecInv n) :
    SecInv (n.step C op) := by
  cases op with
  | adv dt => exact secInv_adv dt n h
  | rotate => exact secInv_rotate n h
  | clean => exact h
  | find w nid t o f =>
    simp only [Node.step, Node.findReq]
    split <;> exact h
  | store r =>
    simp only [Node.step, Node.storeReq]
    split
    · exact h
    · split <;> exact h
  | storePeer w tok t =>
    simp only [Node.step, Node.storePeerReq]
    split <;> exact h
  | ping nid =>
    simp only [Node.step, Node.pingReq]
    split <;> exact h
  | cache key values loc =>
    simp only [Node.step, Node.cacheStore]
    split <;> exact h
  | recvTok nid => exact h

theorem secInv_run {Tok : Type} [DecidableEq Tok] (C : Crypto Tok) (ops : List (Op Tok)) (n : Node) (h : SecInv n) :
    SecInv (n.run C ops) := by
  induction ops generalizing n with
  | nil => exact h
  | cons op ops ih => exact ih _ (secInv_step C n op h)

theorem secInv_init (t0 : Nat) : SecInv (Node.init t0) := by
  intro sb hsb
  simp only [Node.init, List.mem_singleton] at hsb ⊢
  subst hsb; simp

theorem pickBy_some_of_mem (better : Nat → Nat → Bool) (l : List (Nat × Nat)) (x : Nat × Nat) (hx : x ∈ l) :
    ∃ e, pickBy better l = some e := by
  cases l with
  | nil => simp at hx
  | cons a t => exact ⟨_, rfl⟩

/-! ### the value_maintenance timer -/

/-- a maintenance run is always less than one interval away -/
def CleanInv (n : Node) : Prop := n.now < n.nextClean ∧ n.nextClean ≤ n.now + Gen.valueMaintenanceInterval

theorem value_interval_pos : 0 < Gen.valueMaintenanceInterval := by decide

theorem cleanInv_init (t0 : Nat) : CleanInv (Node.init t0) := by
  have := value_interval_pos
  simp only [CleanInv, Node.init]; omega

theorem cleanInv_tick1 (n : Node) (h : CleanInv n) : CleanInv n.tick1 := by
  have hp := value_interval_pos
  obtain ⟨h1, h2⟩ := h
  unfold Node.tick1 Node.fireClean
  have hr : ∀ m : Node, m.fireRotate.now = m.now ∧ m.fireRotate.nextClean = m.nextClean := by
    intro m; unfold Node.fireRotate; split <;> simp [Node.rotate]
  obtain ⟨e1, e2⟩ := hr { n with now := n.now + 1 }
  simp only at e1 e2
  split
  · rename_i hc
    have hc' : ({ n with now := n.now + 1 } : Node).fireRotate.now = ({ n with now := n.now + 1 } : Node).fireRotate.nextClean := by
      simpa using hc
    simp only [CleanInv, Node.clean]
    rw [e1, e2] at hc'
    rw [e1, e2]
    omega
  · rename_i hc
    have hc' : ({ n with now := n.now + 1 } : Node).fireRotate.now ≠ ({ n with now := n.now + 1 } : Node).fireRotate.nextClean := by
      simpa using hc
    simp only [CleanInv]
    rw [e1, e2] at hc'
    rw [e1, e2]
    omega

theorem cleanInv_adv (dt : Nat) (n : Node) (h : CleanInv n) : CleanInv (n.adv dt) := by
  induction dt generalizing n with
  | zero => exact h
  | succ k ih => exact ih _ (cleanInv_tick1 n h)

theorem cleanInv_step {Tok : Type} [DecidableEq Tok] (C : Crypto Tok) (n : Node) (op : Op Tok) (h : CleanInv n) :
    CleanInv (n.step C op) := by
  cases op with
  | adv dt => exact cleanInv_adv dt n h
  | rotate => exact h
  | clean => exact h
  | find w nid t o f =>
    simp only [Node.step, Node.findReq]
    split <;> exact h
  | store r =>
    simp only [Node.step, Node.storeReq]
    split
    · exact h
    · split <;> exact h
  | storePeer w tok t =>
    simp only [Node.step, Node.storePeerReq]
    split <;> exact h
  | ping nid =>
    simp only [Node.step, Node.pingReq]
    split <;> exact h
  | cache key values loc =>
    simp only [Node.step, Node.cacheStore]
    split <;> exact h
  | recvTok nid => exact h

theorem cleanInv_run {Tok : Type} [DecidableEq Tok] (C : Crypto Tok) (ops : List (Op Tok)) (n : Node) (h : CleanInv n) :
    CleanInv (n.run C ops) := by
  induction ops generalizing n with
  | nil => exact h
  | cons op ops ih => exact ih _ (cleanInv_step C n op h)

/-! ### provenance of stored values -/

/-- what `add_value` may put into a storage: the bytes are within the size limit and either a plain entry stored under its
    own hash with version 0, or a signed entry that verifies, stored under the hash of its (canonical) key with the signed
    version -/
def Stored {Tok : Type} (C : Crypto Tok) (v : Value) : Prop :=
  v.data = v.src.uid ∧ v.src.len ≤ Gen.maxEntrySize ∧
  ((∃ d, v.src.wire = .str d ∧ v.id = v.src.hid ∧ v.version = 0) ∨
   (∃ d ver pk pkh sig, v.src.wire = .signed d ver pk pkh sig ∧ C.verify pk d ver sig = true ∧ v.id = pkh ∧
      v.version = ver))

def Storage.AllStored {Tok : Type} (C : Crypto Tok) (s : Storage) : Prop := ∀ k, ∀ v ∈ s.getItems k, Stored C v

theorem mem_putItems (key : Nat) (nv : Value) (l : Items) : ∀ v ∈ putItems key nv l, v = nv ∨ v ∈ l := by
  intro v hv
  unfold putItems at hv
  split at hv
  · split at hv
    · rcases List.mem_cons.mp ((mem_sortOwn ..).mp hv) with h | h
      · exact Or.inl h
      · exact Or.inr (List.mem_of_mem_eraseP h)
    · exact Or.inr hv
  · rcases List.mem_cons.mp ((mem_sortOwn ..).mp hv) with h | h
    · exact Or.inl h
    · exact Or.inr h

theorem allStored_put {Tok : Type} (C : Crypto Tok) (s : Storage) (key : Nat) (nv : Value) (h : s.AllStored C)
    (hn : Stored C nv) : (s.put key nv).AllStored C := by
  intro k v hv
  unfold Storage.put at hv
  rw [getItems_setItems] at hv
  split at hv
  · rcases mem_putItems key nv _ v hv with rfl | h1
    · exact hn
    · exact h key v h1
  · exact h k v hv

theorem allStored_clean {Tok : Type} (C : Crypto Tok) (s : Storage) (now : Nat) (h : s.AllStored C) :
    (s.clean now).AllStored C := by
  intro k v hv
  rw [getItems_clean] at hv
  exact h k v ((cleanItems_sublist now _).subset hv)

theorem allStored_addValue {Tok : Type} (C : Crypto Tok) (now key : Nat) (b : Blob) (maxAge : Nat) (s s' : Storage)
    (h : s.AllStored C) (hb : b.len ≤ Gen.maxEntrySize) (he : addValue C now key b maxAge s = some s') :
    s'.AllStored C := by
  unfold addValue unserialize at he
  cases hw : b.wire with
  | str d =>
    simp only [hw, Option.some.injEq] at he
    rw [← he]
    exact allStored_put C s key _ h ⟨rfl, hb, Or.inl ⟨d, hw, rfl, rfl⟩⟩
  | signed d v pk pkh sig =>
    by_cases hv : C.verify pk d v sig = true
    · simp only [hw, hv, if_true, Option.some.injEq] at he
      rw [← he]
      exact allStored_put C s key _ h ⟨rfl, hb, Or.inr ⟨d, v, pk, pkh, sig, hw, hv, rfl, rfl⟩⟩
    · simp only [hw, hv, Option.some.injEq] at he
      simp at he
      rw [← he]; exact h
  | unknown => simp [hw] at he; rw [← he]; exact h
  | malformed => simp [hw] at he

theorem allStored_addValues {Tok : Type} (C : Crypto Tok) (now key maxAge : Nat) (bs : List Blob) (s : Storage)
    (h : s.AllStored C) (hb : ∀ b ∈ bs, b.len ≤ Gen.maxEntrySize) :
    (addValues C now key maxAge bs s).1.AllStored C := by
  induction bs generalizing s with
  | nil => simpa [addValues] using h
  | cons b bs ih =>
    simp only [addValues]
    split
    · exact h
    · rename_i s' he
      exact ih s' (allStored_addValue C now key b maxAge s s' h (hb b (List.mem_cons_self ..)) he)
        (fun x hx => hb x (List.mem_cons_of_mem _ hx))

/-- the size guard of `on_store_request`, when it does not fire -/
theorem guards_pass_sizes {Tok : Type} [DecidableEq Tok] (C : Crypto Tok) (n : Node) (r : StoreReq Tok)
    (hg : ¬ Gen.storeGuards.any (fun g => g.fires C n r) = true) : ∀ v ∈ r.values, v.len ≤ Gen.maxEntrySize := by
  have hall : ∀ g ∈ Gen.storeGuards, g.fires C n r = false := by
    intro g hgm
    cases hf : g.fires C n r with
    | false => rfl
    | true => exact absurd (List.any_eq_true.mpr ⟨g, hgm, hf⟩) hg
  have hsz := hall (.sizeLimit .gt Gen.maxEntrySize) (by decide)
  simp only [Guard.fires, Cmp.eval] at hsz
  intro v hv
  have := List.any_eq_false.mp hsz v hv
  simp only [decide_eq_true_eq] at this
  omega

/-- what `store_on_nodes` keeps for the local store is within the size limit -/
theorem keepLocal_sizes (vs : List Blob) : ∀ v ∈ keepLocal vs, v.len ≤ Gen.maxEntrySize := by
  intro v hv
  unfold keepLocal at hv
  simp only [Gen.localKeep, Gen.localCap] at hv
  have := List.mem_of_mem_take hv
  have := (List.mem_filter.mp this).2
  simpa [Cmp.eval] using this

theorem allStored_step {Tok : Type} [DecidableEq Tok] (C : Crypto Tok) (n : Node) (op : Op Tok)
    (h : n.store.AllStored C) : (n.step C op).store.AllStored C := by
  cases op with
  | adv dt =>
    simp only [Node.step]
    induction dt generalizing n with
    | zero => exact h
    | succ k ih =>
      apply ih
      unfold Node.tick1 Node.fireClean
      have hr : ∀ m : Node, m.fireRotate.store = m.store := by
        intro m; unfold Node.fireRotate; split <;> simp [Node.rotate]
      split
      · simp only [Node.clean]
        rw [hr]
        exact allStored_clean C _ _ h
      · rw [hr]; exact h
  | rotate => exact h
  | clean => exact allStored_clean C _ _ h
  | find w nid t o f =>
    simp only [Node.step, Node.findReq]
    split <;> exact h
  | store r =>
    simp only [Node.step, Node.storeReq]
    split
    · exact h
    · split
      · exact h
      · rename_i hg
        exact allStored_addValues C _ _ _ _ _ h (guards_pass_sizes C n r hg)
  | storePeer w tok t =>
    simp only [Node.step, Node.storePeerReq]
    split <;> exact h
  | ping nid =>
    simp only [Node.step, Node.pingReq]
    split <;> exact h
  | cache key values loc =>
    simp only [Node.step, Node.cacheStore]
    split
    · exact allStored_addValues C _ _ _ _ _ h
        (fun b hb => keepLocal_sizes values b (List.mem_reverse.mp hb))
    · exact h
  | recvTok nid => exact h

theorem allStored_run {Tok : Type} [DecidableEq Tok] (C : Crypto Tok) (ops : List (Op Tok)) (n : Node)
    (h : n.store.AllStored C) : (n.run C ops).store.AllStored C := by
  induction ops generalizing n with
  | nil => exact h
  | cons op ops ih => exact ih _ (allStored_step C n op h)

/-! ### versions never go down while values are added -/

def VersionsKept (s s' : Storage) : Prop :=
  ∀ k, ∀ v ∈ s.getItems k, ∃ v' ∈ s'.getItems k, v'.id = v.id ∧ v.version ≤ v'.version

theorem versionsKept_refl (s : Storage) : VersionsKept s s := fun _ v hv => ⟨v, hv, rfl, Nat.le_refl _⟩

theorem versionsKept_trans (a b c : Storage) (h1 : VersionsKept a b) (h2 : VersionsKept b c) : VersionsKept a c := by
  intro k v hv
  obtain ⟨v1, hv1, e1, l1⟩ := h1 k v hv
  obtain ⟨v2, hv2, e2, l2⟩ := h2 k v1 hv1
  exact ⟨v2, hv2, e2.trans e1, Nat.le_trans l1 l2⟩

/-! ### lifetimes: when a value was stored and for how long -/

def Storage.Timed (now : Nat) (s : Storage) : Prop :=
  ∀ k, ∀ v ∈ s.getItems k, v.lastUpdate ≤ now ∧ v.maxAge ≤ Gen.maxEntryAge

theorem storeMaxAge_le (nc : Nat) : Gen.storeMaxAge nc ≤ Gen.maxEntryAge := by
  unfold Gen.storeMaxAge
  have h := Int.ediv_le_self ((2 : Int) ^ Int.toNat (max (0 : Int) (((nc : Int) - (Gen.targetNodes : Int)) + (1 : Int))))
    (Int.natCast_nonneg Gen.maxEntryAge)
  omega

theorem timed_mono (s : Storage) (a b : Nat) (hab : a ≤ b) (h : s.Timed a) : s.Timed b :=
  fun k v hv => ⟨Nat.le_trans (h k v hv).1 hab, (h k v hv).2⟩

theorem timed_put (s : Storage) (now key : Nat) (nv : Value) (h : s.Timed now)
    (hn : nv.lastUpdate ≤ now ∧ nv.maxAge ≤ Gen.maxEntryAge) : (s.put key nv).Timed now := by
  intro k v hv
  unfold Storage.put at hv
  rw [getItems_setItems] at hv
  split at hv
  · rcases mem_putItems key nv _ v hv with rfl | h1
    · exact hn
    · exact h key v h1
  · exact h k v hv

theorem timed_clean (s : Storage) (now t : Nat) (h : s.Timed now) : (s.clean t).Timed now := by
  intro k v hv
  rw [getItems_clean] at hv
  exact h k v ((cleanItems_sublist t _).subset hv)

theorem timed_addValue {Tok : Type} (C : Crypto Tok) (now key : Nat) (b : Blob) (maxAge : Nat) (s s' : Storage)
    (h : s.Timed now) (hm : maxAge ≤ Gen.maxEntryAge) (he : addValue C now key b maxAge s = some s') :
    s'.Timed now := by
  unfold addValue at he
  split at he
  · simp at he
  · simp only [Option.some.injEq] at he; rw [← he]; exact h
  · simp only [Option.some.injEq] at he; rw [← he]
    exact timed_put s now key _ h ⟨Nat.le_refl _, hm⟩

theorem timed_addValues {Tok : Type} (C : Crypto Tok) (now key maxAge : Nat) (bs : List Blob) (s : Storage)
    (h : s.Timed now) (hm : maxAge ≤ Gen.maxEntryAge) : (addValues C now key maxAge bs s).1.Timed now := by
  induction bs generalizing s with
  | nil => simpa [addValues] using h
  | cons b bs ih =>
    simp only [addValues]
    split
    · exact h
    · rename_i s' he
      exact ih s' (timed_addValue C now key b maxAge s s' h hm he)

theorem timed_tick1 (n : Node) (h : n.store.Timed n.now) : n.tick1.store.Timed n.tick1.now := by
  unfold Node.tick1 Node.fireClean
  have hr : ∀ m : Node, m.fireRotate.store = m.store ∧ m.fireRotate.now = m.now := by
    intro m; unfold Node.fireRotate; split <;> simp [Node.rotate]
  obtain ⟨e1, e2⟩ := hr { n with now := n.now + 1 }
  simp only at e1 e2
  have h' : n.store.Timed (n.now + 1) := timed_mono _ _ _ (Nat.le_succ _) h
  split
  · simp only [Node.clean]
    rw [e1, e2]
    exact timed_clean _ _ _ h'
  · rw [e1, e2]; exact h'

theorem timed_step {Tok : Type} [DecidableEq Tok] (C : Crypto Tok) (n : Node) (op : Op Tok)
    (h : n.store.Timed n.now) : (n.step C op).store.Timed (n.step C op).now := by
  cases op with
  | adv dt =>
    simp only [Node.step]
    induction dt generalizing n with
    | zero => exact h
    | succ k ih => exact ih _ (timed_tick1 n h)
  | rotate => exact h
  | clean => exact timed_clean _ _ _ h
  | find w nid t o f =>
    simp only [Node.step, Node.findReq]
    split <;> exact h
  | store r =>
    simp only [Node.step, Node.storeReq]
    split
    · exact h
    · split
      · exact h
      · exact timed_addValues C _ _ _ _ _ h (storeMaxAge_le _)
  | storePeer w tok t =>
    simp only [Node.step, Node.storePeerReq]
    split <;> exact h
  | ping nid =>
    simp only [Node.step, Node.pingReq]
    split <;> exact h
  | cache key values loc =>
    simp only [Node.step, Node.cacheStore]
    split
    · exact timed_addValues C _ _ _ _ _ h (Nat.le_refl _)
    · exact h
  | recvTok nid => exact h

theorem timed_run {Tok : Type} [DecidableEq Tok] (C : Crypto Tok) (ops : List (Op Tok)) (n : Node)
    (h : n.store.Timed n.now) : (n.run C ops).store.Timed (n.run C ops).now := by
  induction ops generalizing n with
  | nil => exact h
  | cons op ops ih => exact ih _ (timed_step C n op h)

/-! ### Crawl.values -/

theorem mem_dedup (l seen : List Nat) (x : Nat) : x ∈ dedup seen l ↔ x ∈ l ∧ x ∉ seen := by
  induction l generalizing seen with
  | nil => simp [dedup]
  | cons a t ih =>
    simp only [dedup]
    by_cases hc : seen.contains a = true
    · simp only [hc, if_true]
      rw [ih]
      have ha : a ∈ seen := by simpa using hc
      constructor
      · rintro ⟨h1, h2⟩; exact ⟨List.mem_cons_of_mem _ h1, h2⟩
      · rintro ⟨h1, h2⟩
        rcases List.mem_cons.mp h1 with rfl | h1
        · exact absurd ha h2
        · exact ⟨h1, h2⟩
    · have ha : a ∉ seen := by simpa using hc
      simp only [hc]
      simp only [Bool.false_eq_true, if_false, List.mem_cons]
      rw [ih]
      constructor
      · rintro (rfl | ⟨h1, h2⟩)
        · exact ⟨Or.inl rfl, ha⟩
        · exact ⟨Or.inr h1, fun h => h2 (List.mem_cons_of_mem _ h)⟩
      · rintro ⟨h1 | h1, h2⟩
        · exact Or.inl h1
        · by_cases e : x = a
          · exact Or.inl e
          · right
            refine ⟨h1, ?_⟩
            intro h
            rcases List.mem_cons.mp h with h | h
            · exact e h
            · exact h2 h

theorem nodup_dedup (l seen : List Nat) : (dedup seen l).Nodup := by
  induction l generalizing seen with
  | nil => simp [dedup]
  | cons a t ih =>
    simp only [dedup]
    split
    · exact ih seen
    · rw [List.nodup_cons]
      refine ⟨?_, ih _⟩
      intro h
      have := ((mem_dedup t (a :: seen) a).mp h).2
      exact this (List.mem_cons_self ..)

theorem mem_interleave (f : Nat) : ∀ (ls : List (List Nat)), (∀ l ∈ ls, l.length ≤ f) →
    ∀ x, x ∈ interleave f ls ↔ ∃ l ∈ ls, x ∈ l := by
  induction f with
  | zero =>
    intro ls hl x
    simp only [interleave, List.not_mem_nil, false_iff]
    rintro ⟨l, hm, hx⟩
    have := hl l hm
    have : l = [] := List.eq_nil_of_length_eq_zero (by omega)
    subst this; simp at hx
  | succ f ih =>
    intro ls hl x
    simp only [interleave]
    have hfilt : ∀ l, l ∈ ls.filter (fun l => !l.isEmpty) ↔ l ∈ ls ∧ l ≠ [] := by
      intro l; simp [List.mem_filter, List.isEmpty_iff]
    split
    · rename_i hemp
      simp only [List.not_mem_nil, false_iff]
      rintro ⟨l, hm, hx⟩
      have hne : l ≠ [] := by intro e; subst e; simp at hx
      have : l ∈ ls.filter (fun l => !l.isEmpty) := (hfilt l).mpr ⟨hm, hne⟩
      have he : ls.filter (fun l => !l.isEmpty) = [] := by simpa [List.isEmpty_iff] using hemp
      rw [he] at this; simp at this
    · have htl : ∀ t ∈ (ls.filter (fun l => !l.isEmpty)).map List.tail, t.length ≤ f := by
        intro t ht
        obtain ⟨l, hlm, rfl⟩ := List.mem_map.mp ht
        have := hl l ((hfilt l).mp hlm).1
        simp only [List.length_tail]; omega
      rw [List.mem_append, ih _ htl x]
      constructor
      · rintro (h | ⟨t, ht, hx⟩)
        · obtain ⟨l, hlm, hh⟩ := List.mem_filterMap.mp h
          refine ⟨l, ((hfilt l).mp hlm).1, ?_⟩
          cases l with
          | nil => simp at hh
          | cons a t => simp at hh; subst hh; exact List.mem_cons_self ..
        · obtain ⟨l, hlm, rfl⟩ := List.mem_map.mp ht
          exact ⟨l, ((hfilt l).mp hlm).1, List.mem_of_mem_tail hx⟩
      · rintro ⟨l, hm, hx⟩
        cases l with
        | nil => simp at hx
        | cons a t =>
          have hlm : (a :: t) ∈ ls.filter (fun l => !l.isEmpty) := (hfilt _).mpr ⟨hm, by simp⟩
          rcases List.mem_cons.mp hx with rfl | hx
          · left; exact List.mem_filterMap.mpr ⟨_, hlm, rfl⟩
          · right; exact ⟨t, List.mem_map.mpr ⟨_, hlm, rfl⟩, hx⟩

theorem le_foldl_max (ls : List Nat) (init : Nat) : init ≤ ls.foldl Nat.max init ∧ ∀ a ∈ ls, a ≤ ls.foldl Nat.max init := by
  induction ls generalizing init with
  | nil => simp
  | cons b t ih =>
    simp only [List.foldl_cons]
    obtain ⟨h1, h2⟩ := ih (Nat.max init b)
    refine ⟨Nat.le_trans (Nat.le_max_left ..) h1, ?_⟩
    intro a ha
    rcases List.mem_cons.mp ha with rfl | ha
    · exact Nat.le_trans (Nat.le_max_right ..) h1
    · exact h2 a ha

end Ipv8.C15
