/-
  C15 — byte-level model of `DHTCommunity.serialize_value` / `unserialize_value` (core Lean only).

  Mirrors community.py `unserialize_value` together with the packers it reaches through
  `Serializer.unpack_serializable(StrPayload | SignedStrPayload, value, offset=1)`:
    `raw`      data[offset:]
    `varlenH`  big-endian 2-byte length, `PackError` when the length prefix or the announced bytes are not there
    `I`        big-endian 4 bytes, error when fewer are left
  and the Python slices `value[-sig_len:]`, `value[:-sig_len]` (including their behaviour for sig_len = 0 and
  sig_len > len(value)).  Key parsing, signature length and verification are the abstract interface `BCrypto`.
-/
import Ipv8.Base.Proto
import Ipv8.C15.GenDht

namespace Ipv8.C15

open Ipv8 (Bytes)

/-- big-endian value of a byte string -/
def beVal (bs : Bytes) : Nat := bs.foldl (fun a b => a * 256 + b.toNat) 0

/-- `VarLen(">H").unpack(data, offset)`: (bytes, end offset); `none` = PackError / struct.error -/
def readVarLenH (v : Bytes) (off : Nat) : Option (Bytes × Nat) :=
  if off + 2 ≤ v.length then
    let n := beVal ((v.drop off).take 2)
    if off + 2 + n ≤ v.length then some ((v.drop (off + 2)).take n, off + 2 + n) else none
  else none

/-- `DefaultStruct(">I").unpack(data, offset)` -/
def readU32 (v : Bytes) (off : Nat) : Option (Nat × Nat) :=
  if off + 4 ≤ v.length then some (beVal ((v.drop off).take 4), off + 4) else none

/-- key parsing / signature scheme on byte strings -/
structure BCrypto where
  keyOk : Bytes → Bool                    -- `key_from_public_bin` does not raise
  sigLen : Bytes → Nat                    -- `get_signature_length` of the parsed key
  verify : Bytes → Bytes → Bytes → Bool   -- `is_valid_signature(key, message, signature)`
  canon : Bytes → Bytes                   -- `key.key_to_bin()` of the parsed key: one byte string per key

/-- `value[-n:]` -/
def pyLast (v : Bytes) (n : Nat) : Bytes := if n = 0 then v else v.drop (v.length - n)

/-- `value[:-n]` -/
def pyButLast (v : Bytes) (n : Nat) : Bytes := if n = 0 then [] else v.take (v.length - n)

inductive BUnser
  | none
  | raise
  | ok (data : Bytes) (pk : Option Bytes) (version : Nat)
  deriving DecidableEq, Repr, Inhabited

/-- the three fields of a SignedStrPayload starting at offset 1, and the offset after them -/
def readSigned (v : Bytes) : Option (Bytes × Nat × Bytes × Nat) :=
  match readVarLenH v 1 with
  | none => none
  | some (data, o1) =>
    match readU32 v o1 with
    | none => none
    | some (ver, o2) =>
      match readVarLenH v o2 with
      | none => none
      | some (pk, o3) => some (data, ver, pk, o3)

def unserializeB (B : BCrypto) (v : Bytes) : BUnser :=
  match v with
  | [] => .raise                                         -- value[0] raises IndexError
  | t :: _ =>
    if t.toNat = Gen.entryStr then .ok (v.drop 1) none 0
    else if t.toNat = Gen.entryStrSigned then
      match readSigned v with
      | none => .raise
      | some (data, ver, pk, _) =>
        if B.keyOk pk then
          if B.verify pk (pyButLast v (B.sigLen pk)) (pyLast v (B.sigLen pk)) then .ok data (some (B.canon pk)) ver
          else .none
        else .raise
    else .none

/-! serialize_value -/

def encH (n : Nat) : Bytes := [UInt8.ofNat (n / 256 % 256), UInt8.ofNat (n % 256)]

def encU32 (n : Nat) : Bytes :=
  [UInt8.ofNat (n / 16777216 % 256), UInt8.ofNat (n / 65536 % 256), UInt8.ofNat (n / 256 % 256), UInt8.ofNat (n % 256)]

/-- `_ez_pack(b"", DHT_ENTRY_STR_SIGNED, [SignedStrPayload(data, version, pk)], sig=False)` -/
def signedBody (data : Bytes) (ver : Nat) (pk : Bytes) : Bytes :=
  UInt8.ofNat Gen.entryStrSigned :: (encH data.length ++ data ++ encU32 ver ++ encH pk.length ++ pk)

/-- `serialize_value(data, sign=True)` with `sign` the node's signing function -/
def serializeSigned (sign : Bytes → Bytes) (data : Bytes) (ver : Nat) (pk : Bytes) : Bytes :=
  signedBody data ver pk ++ sign (signedBody data ver pk)

/-- `serialize_value(data, sign=False)` -/
def serializePlain (data : Bytes) : Bytes := UInt8.ofNat Gen.entryStr :: data

end Ipv8.C15
