/-
  C15 — helper lemmas for the byte-level value codec (core Lean only).
-/
import Ipv8.C15.Wire

namespace Ipv8.C15
open Ipv8 (Bytes)
theorem take_drop_take (v : Bytes) (m off k : Nat) (h : off + k ≤ m) :
    ((v.take m).drop off).take k = (v.drop off).take k := by
  rw [List.drop_take, List.take_take]
  congr 1
  omega

theorem readVarLenH_take (v : Bytes) (m off : Nat) (r : Bytes) (e : Nat)
    (h : readVarLenH v off = some (r, e)) (he : e ≤ m) : readVarLenH (v.take m) off = some (r, e) := by
  unfold readVarLenH at h ⊢
  split at h
  · rename_i h2
    simp only at h
    split at h
    · rename_i h3
      simp only [Option.some.injEq, Prod.mk.injEq] at h
      obtain ⟨hr, hE⟩ := h
      have hlen : (v.take m).length = min m v.length := List.length_take
      have e1 : off + 2 ≤ (v.take m).length := by rw [hlen]; omega
      have e2 : ((v.take m).drop off).take 2 = (v.drop off).take 2 := take_drop_take v m off 2 (by omega)
      simp only [e1, if_true, e2]
      have e3 : off + 2 + beVal ((v.drop off).take 2) ≤ (v.take m).length := by rw [hlen]; omega
      simp only [e3, if_true, Option.some.injEq, Prod.mk.injEq]
      refine ⟨?_, hE⟩
      rw [← hr]
      exact take_drop_take v m (off + 2) _ (by omega)
    · simp at h
  · simp at h

theorem readU32_take (v : Bytes) (m off : Nat) (r e : Nat)
    (h : readU32 v off = some (r, e)) (he : e ≤ m) : readU32 (v.take m) off = some (r, e) := by
  unfold readU32 at h ⊢
  split at h
  · rename_i h2
    simp only [Option.some.injEq, Prod.mk.injEq] at h
    obtain ⟨hr, hE⟩ := h
    have hlen : (v.take m).length = min m v.length := List.length_take
    have e1 : off + 4 ≤ (v.take m).length := by rw [hlen]; omega
    simp only [e1, if_true, Option.some.injEq, Prod.mk.injEq]
    refine ⟨?_, hE⟩
    rw [← hr, take_drop_take v m off 4 (by omega)]
  · simp at h

theorem readVarLenH_end (v : Bytes) (off : Nat) (r : Bytes) (e : Nat) (h : readVarLenH v off = some (r, e)) :
    off + 2 ≤ e := by
  unfold readVarLenH at h
  split at h
  · simp only at h
    split at h
    · simp only [Option.some.injEq, Prod.mk.injEq] at h; omega
    · simp at h
  · simp at h

theorem readU32_end (v : Bytes) (off r e : Nat) (h : readU32 v off = some (r, e)) : e = off + 4 := by
  unfold readU32 at h
  split at h
  · simp only [Option.some.injEq, Prod.mk.injEq] at h; omega
  · simp at h



theorem beVal_encH (n : Nat) (h : n < 65536) : beVal (encH n) = n := by
  simp [beVal, encH, UInt8.toNat_ofNat']
  omega

theorem beVal_encU32 (n : Nat) (h : n < 4294967296) : beVal (encU32 n) = n := by
  simp [beVal, encU32, UInt8.toNat_ofNat']
  omega

theorem encH_length (n : Nat) : (encH n).length = 2 := rfl
theorem encU32_length (n : Nat) : (encU32 n).length = 4 := rfl

theorem readVarLenH_append (pre data rest : Bytes) (h : data.length < 65536) :
    readVarLenH (pre ++ (encH data.length ++ (data ++ rest))) pre.length
      = some (data, pre.length + 2 + data.length) := by
  unfold readVarLenH
  have hl : (pre ++ (encH data.length ++ (data ++ rest))).length = pre.length + 2 + data.length + rest.length := by
    simp [encH_length]; omega
  have h1 : pre.length + 2 ≤ (pre ++ (encH data.length ++ (data ++ rest))).length := by omega
  have hd : (pre ++ (encH data.length ++ (data ++ rest))).drop pre.length = encH data.length ++ (data ++ rest) :=
    List.drop_left
  have ht : (encH data.length ++ (data ++ rest)).take 2 = encH data.length := by
    rw [List.take_append_of_le_length (by simp [encH_length])]
    exact List.take_of_length_le (by simp [encH_length])
  simp only [h1, if_true, hd, ht, beVal_encH _ h]
  have h2 : pre.length + 2 + data.length ≤ (pre ++ (encH data.length ++ (data ++ rest))).length := by omega
  simp only [h2, if_true, Option.some.injEq, Prod.mk.injEq, and_true]
  have hd2 : (pre ++ (encH data.length ++ (data ++ rest))).drop (pre.length + 2) = data ++ rest := by
    have : pre ++ (encH data.length ++ (data ++ rest)) = (pre ++ encH data.length) ++ (data ++ rest) := by simp
    rw [this]
    exact List.drop_left' (by simp [encH_length])
  rw [hd2]
  exact List.take_left

theorem readU32_append (pre rest : Bytes) (n : Nat) (h : n < 4294967296) :
    readU32 (pre ++ (encU32 n ++ rest)) pre.length = some (n, pre.length + 4) := by
  unfold readU32
  have hl : (pre ++ (encU32 n ++ rest)).length = pre.length + 4 + rest.length := by
    simp [encU32_length]; omega
  have h1 : pre.length + 4 ≤ (pre ++ (encU32 n ++ rest)).length := by omega
  have hd : (pre ++ (encU32 n ++ rest)).drop pre.length = encU32 n ++ rest := List.drop_left
  have ht : (encU32 n ++ rest).take 4 = encU32 n := by
    rw [List.take_append_of_le_length (by simp [encU32_length])]
    exact List.take_of_length_le (by simp [encU32_length])
  simp only [h1, if_true, hd, ht, beVal_encU32 _ h]



theorem signedBody_length (data pk : Bytes) (ver : Nat) :
    (signedBody data ver pk).length = 1 + 2 + data.length + 4 + 2 + pk.length := by
  simp [signedBody, encH_length, encU32_length]; omega

theorem readSigned_signedBody (data pk rest : Bytes) (ver : Nat) (hd : data.length < 65536) (hp : pk.length < 65536)
    (hv : ver < 4294967296) :
    readSigned (signedBody data ver pk ++ rest) = some (data, ver, pk, (signedBody data ver pk).length) := by
  let t : UInt8 := UInt8.ofNat Gen.entryStrSigned
  let R2 : Bytes := encH pk.length ++ (pk ++ rest)
  let R1 : Bytes := encU32 ver ++ R2
  let L : Bytes := [t] ++ (encH data.length ++ (data ++ R1))
  have eL : signedBody data ver pk ++ rest = L := by simp [signedBody, L, R1, R2, t]
  have h1 : readVarLenH L 1 = some (data, 1 + 2 + data.length) := readVarLenH_append [t] data R1 hd
  have h2 : readU32 L (1 + 2 + data.length) = some (ver, 1 + 2 + data.length + 4) := by
    have := readU32_append ([t] ++ encH data.length ++ data) R2 ver hv
    have hL : ([t] ++ encH data.length ++ data) ++ (encU32 ver ++ R2) = L := by simp [L, R1]
    have ho : ([t] ++ encH data.length ++ data).length = 1 + 2 + data.length := by simp [encH_length]; omega
    rw [hL, ho] at this
    exact this
  have h3 : readVarLenH L (1 + 2 + data.length + 4) = some (pk, 1 + 2 + data.length + 4 + 2 + pk.length) := by
    have := readVarLenH_append ([t] ++ encH data.length ++ data ++ encU32 ver) pk rest hp
    have hL : ([t] ++ encH data.length ++ data ++ encU32 ver) ++ (encH pk.length ++ (pk ++ rest)) = L := by
      simp [L, R1, R2]
    have ho : ([t] ++ encH data.length ++ data ++ encU32 ver).length = 1 + 2 + data.length + 4 := by
      simp [encH_length, encU32_length]; omega
    rw [hL, ho] at this
    exact this
  rw [eL]
  unfold readSigned
  rw [h1]; simp only
  rw [h2]; simp only
  rw [h3]; simp only
  rw [signedBody_length]


end Ipv8.C15
