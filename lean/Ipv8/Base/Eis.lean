/-
  The ring R[ω]/(ω² + ω + 1) as pairs  re + im·ω  over an arbitrary commutative ring R
  (for R = ZMod p, p ≡ 2 mod 3, this is the quadratic extension field F_{p²} used by value.py).
  Proof-side only (imports Mathlib tactics); never imported by a driver.
-/
import Mathlib.Tactic.Ring
import Mathlib.Algebra.Ring.Defs

namespace Ipv8

structure Eis (R : Type) where
  re : R
  im : R
deriving DecidableEq, Repr

namespace Eis
variable {R : Type} [CommRing R]

@[ext] theorem ext' {a b : Eis R} (h1 : a.re = b.re) (h2 : a.im = b.im) : a = b := by
  cases a; cases b; simp_all

instance : Zero (Eis R) := ⟨⟨0, 0⟩⟩
instance : One (Eis R) := ⟨⟨1, 0⟩⟩
instance : Add (Eis R) := ⟨fun a b => ⟨a.re + b.re, a.im + b.im⟩⟩
instance : Neg (Eis R) := ⟨fun a => ⟨-a.re, -a.im⟩⟩
instance : Sub (Eis R) := ⟨fun a b => ⟨a.re - b.re, a.im - b.im⟩⟩
instance : Mul (Eis R) :=
  ⟨fun a b => ⟨a.re * b.re - a.im * b.im, a.re * b.im + a.im * b.re - a.im * b.im⟩⟩

@[simp] theorem zero_re : (0 : Eis R).re = 0 := rfl
@[simp] theorem zero_im : (0 : Eis R).im = 0 := rfl
@[simp] theorem one_re : (1 : Eis R).re = 1 := rfl
@[simp] theorem one_im : (1 : Eis R).im = 0 := rfl
@[simp] theorem add_re (a b : Eis R) : (a + b).re = a.re + b.re := rfl
@[simp] theorem add_im (a b : Eis R) : (a + b).im = a.im + b.im := rfl
@[simp] theorem neg_re (a : Eis R) : (-a).re = -a.re := rfl
@[simp] theorem neg_im (a : Eis R) : (-a).im = -a.im := rfl
@[simp] theorem sub_re (a b : Eis R) : (a - b).re = a.re - b.re := rfl
@[simp] theorem sub_im (a b : Eis R) : (a - b).im = a.im - b.im := rfl
@[simp] theorem mul_re (a b : Eis R) : (a * b).re = a.re * b.re - a.im * b.im := rfl
@[simp] theorem mul_im (a b : Eis R) : (a * b).im = a.re * b.im + a.im * b.re - a.im * b.im := rfl

instance : CommRing (Eis R) where
  add_assoc a b c := by ext <;> simp <;> ring
  zero_add a := by ext <;> simp
  add_zero a := by ext <;> simp
  add_comm a b := by ext <;> simp <;> ring
  mul_assoc a b c := by ext <;> simp <;> ring
  one_mul a := by ext <;> simp
  mul_one a := by ext <;> simp
  mul_comm a b := by ext <;> simp <;> ring
  left_distrib a b c := by ext <;> simp <;> ring
  right_distrib a b c := by ext <;> simp <;> ring
  zero_mul a := by ext <;> simp
  mul_zero a := by ext <;> simp
  neg_add_cancel a := by ext <;> simp
  sub_eq_add_neg a b := by ext <;> simp <;> ring
  nsmul := nsmulRec
  zsmul := zsmulRec

/-- ω itself -/
def omega : Eis R := ⟨0, 1⟩

theorem omega_sq_add : (omega : Eis R) * omega + omega + 1 = 0 := by
  ext <;> simp [omega]

end Eis
end Ipv8
