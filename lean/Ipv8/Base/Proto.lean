/-
  Line-protocol helpers shared by all drivers (core Lean only, no Mathlib).
  One request per line, space separated tokens; bytes are lowercase hex ("-" = empty),
  naturals decimal, lists "[a,b,c]" ("[]" = empty).  One reply line per request.
-/
namespace Ipv8

abbrev Bytes := List UInt8

namespace Proto

def hexChar (n : Nat) : Char :=
  if n < 10 then Char.ofNat (48 + n) else Char.ofNat (87 + n)

def hexByte (b : UInt8) : List Char :=
  [hexChar (b.toNat / 16), hexChar (b.toNat % 16)]

def toHex (b : Bytes) : String :=
  if b.isEmpty then "-" else String.ofList (b.flatMap hexByte)

def hexVal? (c : Char) : Option Nat :=
  if '0' ≤ c ∧ c ≤ '9' then some (c.toNat - 48)
  else if 'a' ≤ c ∧ c ≤ 'f' then some (c.toNat - 87)
  else if 'A' ≤ c ∧ c ≤ 'F' then some (c.toNat - 55)
  else none

def ofHexChars? : List Char → Option Bytes
  | [] => some []
  | [_] => none
  | a :: b :: rest => do
    let x ← hexVal? a
    let y ← hexVal? b
    let r ← ofHexChars? rest
    pure (UInt8.ofNat (16 * x + y) :: r)

def ofHex? (s : String) : Option Bytes :=
  if s == "-" then some [] else ofHexChars? s.toList

/-- split on a single character, keeping empty pieces -/
def splitChar (s : String) (sep : Char) : List String :=
  let rec go : List Char → List Char → List String
    | [], acc => [String.ofList acc.reverse]
    | c :: cs, acc => if c == sep then String.ofList acc.reverse :: go cs [] else go cs (c :: acc)
  go s.toList []

def tokens (line : String) : List String :=
  (splitChar line ' ').filter (fun t => !t.isEmpty)

def stripNl (s : String) : String :=
  String.ofList (s.toList.filter (fun c => c != '\n' && c != '\r'))

/-- "[1,2,3]" → [1,2,3]; "[]" → [] -/
def listItems? (s : String) : Option (List String) :=
  match s.toList with
  | '[' :: rest =>
    match rest.reverse with
    | ']' :: mid =>
      let inner := String.ofList mid.reverse
      if inner.isEmpty then some [] else some (splitChar inner ',')
    | _ => none
  | _ => none

def natList? (s : String) : Option (List Nat) := do
  let items ← listItems? s
  items.mapM String.toNat?

def showNatList (l : List Nat) : String :=
  "[" ++ ",".intercalate (l.map toString) ++ "]"

def showStrList (l : List String) : String :=
  "[" ++ ",".intercalate l ++ "]"

def intOf? (s : String) : Option Int := s.toInt?

/-- generic read–eval–print loop over stdin -/
partial def loop {σ : Type} (h : IO.FS.Stream) (out : IO.FS.Stream) (st : σ)
    (step : σ → List String → σ × String) : IO Unit := do
  let line ← h.getLine
  if line.isEmpty then
    out.flush
    return ()
  let toks := tokens (stripNl line)
  if toks.isEmpty then
    loop h out st step
  else
    let (st', reply) := step st toks
    out.putStrLn reply
    out.flush
    loop h out st' step

def run {σ : Type} (init : σ) (step : σ → List String → σ × String) : IO Unit := do
  let i ← IO.getStdin
  let o ← IO.getStdout
  loop i o init step

end Proto
end Ipv8
