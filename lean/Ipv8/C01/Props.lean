/-
  C01 — property theorems.  Every `theorem` in this file is an obligation of the check.

  Subject: the wrapper programs `Gen.lazyWrapper`, `Gen.lazyWrapperWd`, `Gen.ezUnpackAuth`, the signature check
  `Gen.verifySignature`, the sender `Gen.ezrPack` and the handler table `Gen.overlays` are all REGENERATED from /repo on
  every run (tools/gen_c01.py), so these theorems are re-proved against what the code says now.

  The signature scheme is abstract (`Scheme`).  Its laws are explicit hypotheses:
    `WellSized S`    0 < sigLen k ≤ |key bytes| + 2 for every key that parses (true for all five shipped curves;
                     the harness re-checks it on every key it meets)
    `Canon S`        a canonical key encoding parses to itself
    `NetOK S net`    `verified_by_public_key_bin` maps key bytes to a Peer holding exactly that key
                     (an invariant of `Network.add_verified_peer`; preserved by `Node.recv`, see `history_sound`)
    `Unforgeable`    only in `tamper_rejected`: a valid signature implies the key holder signed exactly these bytes
  Each bundle has an `example` instance below (a toy scheme), so no theorem is vacuous.

  The soundness theorems are stated for EVERY wrapper program that passes the static guard `guarded` (Guard.lean): they
  do not depend on the exact statement order of today's wrappers, only on "no Peer-call unless the key field at 23 was
  verified, asserted, and the payloads / the peer come from that same verification".  `gen_wrappers_guarded` (`decide`)
  says the programs translated from the source pass the guard.
-/
import Ipv8.C01.Lemmas

namespace Ipv8.C01
open Ipv8

variable {P : Type}

/-! ### hypotheses on the scheme -/

structure WellSized (S : Scheme) : Prop where
  pos : ∀ kb k, S.parse kb = some k → 0 < S.sigLen k
  le : ∀ kb k, S.parse kb = some k → S.sigLen k ≤ kb.length + 2

def Canon (S : Scheme) : Prop := ∀ kb k, S.parse kb = some k → S.parse k = some k

def NetOK (S : Scheme) (net : Bytes → Option Bytes) : Prop := ∀ kb k, net kb = some k → S.parse kb = some k

/-- what the property promises about one handler invocation with peer key `k` and payloads `p` -/
def Delivered (E : Env P) (data k : Bytes) (p : P) : Prop :=
  ∃ kb signed sg,
    keyField E.strict data = some kb ∧          -- the key is the varlenH field at offset 23 of this datagram
    E.S.parse kb = some k ∧                      -- the peer handed to the handler is exactly that key
    data = signed ++ sg ∧ sg.length = E.S.sigLen k ∧   -- the datagram ends in a signature of that key's length
    E.S.verify k signed sg = true ∧              -- valid over EVERY byte that precedes it
    23 ≤ signed.length ∧                         -- which includes the overlay prefix and the message id
    E.decode (signed.drop (2 + kb.length)) 23 = some p   -- and every byte the payload decoder reads

/-! ### the generated definitions are what the theorems below are about -/

/-- `_verify_signature` as translated: key from the carried bytes, verification over `data[:-n]` with `data[-n:]` -/
theorem gen_verifySignature_is_reference (S : Scheme) (kb data : Bytes) :
    Gen.verifySignature S kb data = refVerifySignature S kb data := rfl

/-- what `on_packet` needs of the wrapper programs in force -/
structure GuardedProgs (G : Progs) : Prop where
  signed : guarded G.signed = true
  signedWd : guarded G.signedWd = true
  signedNoAddr : noAddrCall G.signed = true
  signedWdNoAddr : noAddrCall G.signedWd = true
  unsigned : noPeerCall G.unsigned = true
  unsignedWd : noPeerCall G.unsignedWd = true
  ezUnpackAuth : guarded G.ezUnpackAuth = true
  ezUnpackAuthNoPeer : noPeerCall G.ezUnpackAuth = true

/-- the wrapper bodies translated from lazy_community.py pass the static guard: in `lazy_wrapper`, `lazy_wrapper_wd`
    and `_ez_unpack_auth` the call / return is reached only after unpack(23) → verify → `if not signature_valid: raise`,
    with payloads decoded from that verification's remainder and the peer looked up under that key; the unsigned
    wrappers contain no Peer-call -/
theorem gen_wrappers_guarded : GuardedProgs Gen.progs :=
  ⟨by decide, by decide, by decide, by decide, by decide, by decide, by decide, by decide⟩

/-! ### soundness of one delivery -/

/-- hypothesis-free core: whatever the scheme, a call means the carried key parsed to the peer's key and the scheme
    accepted `data[-n:]` as a signature over `data[:-n]` (Python slices, `n` = that key's signature length) -/
theorem deliver_raw (E : Env P) (hv : E.verifySig = Gen.verifySignature) (hN : NetOK E.S E.net)
    (prog : List Op) (hg : guarded prog = true)
    (data k : Bytes) (p : P) (wd : Option Bytes) (h : run E prog data = .called k p wd) :
    ∃ kb, keyField E.strict data = some kb ∧ E.S.parse kb = some k ∧
      E.S.verify k (pySlice data none (some (-(E.S.sigLen k : Int)))) (pySlice data (some (-(E.S.sigLen k : Int))) none)
        = true ∧
      E.decode (pySlice data (some ((2 : Int) + (kb.length : Int))) (some (-(E.S.sigLen k : Int)))) 23 = some p := by
  obtain ⟨kb, e, rem, hu, hver, hdec, hk, _⟩ := run_guarded_called hg h
  rw [hv, gen_verifySignature_is_reference] at hver
  unfold refVerifySignature at hver
  cases hpk : E.S.parse kb with
  | none => simp [hpk] at hver
  | some pk =>
    simp only [hpk, Option.some.injEq, Prod.mk.injEq] at hver
    have hkk : pk = k := by
      rcases hk with hk | ⟨_, hk⟩
      · have := hN kb k hk
        rw [hpk] at this
        exact Option.some.inj this
      · rw [hpk] at hk
        exact Option.some.inj hk
    subst hkk
    refine ⟨kb, by simp [keyField, hu], hpk, hver.1, ?_⟩
    rw [hver.2]
    exact hdec

/-- **deliver_sound** — a handler behind ANY guarded wrapper program (in particular `lazy_wrapper` / `lazy_wrapper_wd`
    as translated, see `gen_wrappers_guarded`) is entered only for a datagram that ends in a valid signature, by the key
    carried at offset 23, over every preceding byte; the peer is that key -/
theorem deliver_sound (E : Env P) (hv : E.verifySig = Gen.verifySignature) (hS : WellSized E.S)
    (hN : NetOK E.S E.net) (prog : List Op) (hg : guarded prog = true)
    (data k : Bytes) (p : P) (wd : Option Bytes) (h : run E prog data = .called k p wd) :
    Delivered E data k p := by
  obtain ⟨kb, hkf, hpk, hver, hdec⟩ := deliver_raw E hv hN prog hg data k p wd h
  have hpos := hS.pos kb k hpk
  have hle := hS.le kb k hpk
  have hlen := keyField_length hkf
  have hn : E.S.sigLen k ≤ data.length := by omega
  rw [slice_signed _ _ hpos, slice_sig _ _ hpos] at hver
  rw [slice_remainder _ _ _ hpos] at hdec
  obtain ⟨hsplit, hsl⟩ := split_at_sig data (E.S.sigLen k) hn
  exact ⟨kb, data.take (data.length - E.S.sigLen k), data.drop (data.length - E.S.sigLen k), hkf, hpk, hsplit, hsl,
    hver, by simp; omega, hdec⟩

/-- if a guarded wrapper passes a raw datagram along (`lazy_wrapper_wd`), it is the datagram that was authenticated -/
theorem deliver_wd_is_datagram (E : Env P) (prog : List Op) (hg : guarded prog = true) (data k w : Bytes) (p : P)
    (h : run E prog data = .called k p (some w)) : w = data := by
  obtain ⟨_, _, _, _, _, _, _, hw⟩ := run_guarded_called hg h
  rcases hw with hw | hw
  · cases hw
  · exact Option.some.inj hw

/-- `Delivered` implies the specification's `Authentic` predicate -/
theorem delivered_authentic (E : Env P) (data k : Bytes) (p : P) (h : Delivered E data k p) :
    Authentic E.S E.strict data k := by
  obtain ⟨kb, signed, sg, h1, h2, h3, h4, h5, _, _⟩ := h
  exact ⟨kb, signed, sg, h1, h2, h3, h4, h5⟩

/-! ### tampering -/

/-- **tamper_rejected** — if the scheme is unforgeable *as a hypothesis* (a verifying signature means the holder of `k`
    signed exactly these bytes), then a handler call for key `k` means `k`'s holder signed exactly the bytes that precede
    the signature: prefix, message id, key field and every payload byte.  Hence a flipped bit anywhere before the
    signature, a truncation, an extension, a substituted key, a foreign signature, a spliced payload, a swapped prefix or
    message id is delivered only if those exact bytes were signed by that key. -/
theorem tamper_rejected (E : Env P) (hv : E.verifySig = Gen.verifySignature) (hS : WellSized E.S)
    (hN : NetOK E.S E.net) (SignedBy : Bytes → Bytes → Prop)
    (hU : ∀ k m s, E.S.verify k m s = true → SignedBy k m)
    (prog : List Op) (hg : guarded prog = true)
    (data k : Bytes) (p : P) (wd : Option Bytes) (h : run E prog data = .called k p wd) :
    SignedBy k (data.take (data.length - E.S.sigLen k)) ∧ 23 ≤ data.length - E.S.sigLen k := by
  obtain ⟨kb, signed, sg, _, _, hsplit, hsl, hver, h23, _⟩ := deliver_sound E hv hS hN prog hg data k p wd h
  have hlen : data.length = signed.length + sg.length := by rw [hsplit]; simp
  have : data.take (data.length - E.S.sigLen k) = signed := by
    rw [hlen, hsl, Nat.add_sub_cancel, hsplit]
    simp
  rw [this]
  exact ⟨hU k signed sg hver, by omega⟩

/-- contrapositive, in the form used for mutants: a datagram whose signed part the holder of `k` never signed is not
    delivered as coming from `k`, whatever else the attacker controls -/
theorem mutant_not_delivered (E : Env P) (hv : E.verifySig = Gen.verifySignature) (hS : WellSized E.S)
    (hN : NetOK E.S E.net) (SignedBy : Bytes → Bytes → Prop)
    (hU : ∀ k m s, E.S.verify k m s = true → SignedBy k m)
    (prog : List Op) (hg : guarded prog = true)
    (data k : Bytes) (hno : ¬ SignedBy k (data.take (data.length - E.S.sigLen k))) (p : P) (wd : Option Bytes) :
    run E prog data ≠ .called k p wd := fun h =>
  hno (tamper_rejected E hv hS hN SignedBy hU prog hg data k p wd h).1

/-- a wrapper program without a Peer-call statement — in particular the unsigned wrappers as translated — never hands
    a `Peer` to a handler -/
theorem unsigned_never_yields_peer (E : Env P) (prog : List Op) (hn : noPeerCall prog = true) (data k : Bytes) (p : P)
    (wd : Option Bytes) : run E prog data ≠ .called k p wd :=
  runFrom_noPeerCall prog {} hn

/-! ### dispatch -/

/-- the environments of all handlers share the scheme / strictness / generated signature check -/
structure EnvsOK (S : Scheme) (strict : Bool) (envOf : Handler → Env P) : Prop where
  scheme : ∀ h, (envOf h).S = S
  strict : ∀ h, (envOf h).strict = strict
  vsig : ∀ h, (envOf h).verifySig = Gen.verifySignature

/-- **onPacket_sound** — through `Community.on_packet` of any overlay (any handler table, any guarded wrapper
    programs — `Gen.progs` by `gen_wrappers_guarded`), a handler is entered with
    a `Peer` only for a datagram that carries this overlay's prefix, whose msg id selects that handler, that was
    registered with a signing wrapper, and that is `Delivered` (authentic, peer = carried key, payloads signed) -/
theorem onPacket_sound (G : Progs) (hG : GuardedProgs G) (S : Scheme) (strict : Bool) (hS : WellSized S) (o : Overlay)
    (envOf : Handler → Env P) (hE : EnvsOK S strict envOf) (hN : ∀ h, NetOK S (envOf h).net) (data k : Bytes)
    (hd : Handler) (p : P) (wd : Option Bytes)
    (h : onPacket G o envOf Gen.prefixLen Gen.msgIdOffset data = .handler hd (.called k p wd)) :
    data.take 22 = o.pfx ∧ (∃ m, data[22]? = some m ∧ o.find m.toNat = some hd) ∧
      hd.kind.authenticating = true ∧ Delivered (envOf hd) data k p := by
  obtain ⟨hpfx, m, hm, hf, hk⟩ := onPacket_called h
  refine ⟨hpfx, ⟨m, hm, hf⟩, ?_⟩
  have hWS : WellSized (envOf hd).S := by rw [hE.scheme hd]; exact hS
  have hNN : NetOK (envOf hd).S (envOf hd).net := by rw [hE.scheme hd]; exact hN hd
  rcases hk with ⟨hk, hr⟩ | ⟨hk, hr⟩ | ⟨hk, hr⟩ | ⟨hk, hr⟩
  · exact ⟨by simp [hk, Kind.authenticating],
      deliver_sound (envOf hd) (hE.vsig hd) hWS hNN _ hG.signed data k p wd hr⟩
  · exact ⟨by simp [hk, Kind.authenticating],
      deliver_sound (envOf hd) (hE.vsig hd) hWS hNN _ hG.signedWd data k p wd hr⟩
  · exact absurd hr (unsigned_never_yields_peer (envOf hd) _ hG.unsigned data k p wd)
  · exact absurd hr (unsigned_never_yields_peer (envOf hd) _ hG.unsignedWd data k p wd)

/-- replay into another overlay / prefix mismatch: nothing runs — for every environment, i.e. whatever the receiver
    already believes about the source address (`Env.netAddr`: some verified peer may sit there) or about the key -/
theorem cross_overlay_replay_dropped (G : Progs) (o : Overlay) (envOf : Handler → Env P) (data : Bytes)
    (hpfx : data.take 22 ≠ o.pfx) : onPacket G o envOf 22 22 data = .droppedPrefix := by
  simp [onPacket, hpfx]

/-- prefix swap / msg-id swap under unforgeability: a delivery in overlay `o` for key `k` under msg id `m` means the
    holder of `k` signed bytes that start with `o`'s prefix followed by `m` -/
theorem signed_bytes_name_overlay_and_message (G : Progs) (hG : GuardedProgs G) (S : Scheme) (strict : Bool)
    (hS : WellSized S) (o : Overlay)
    (envOf : Handler → Env P) (hE : EnvsOK S strict envOf) (hN : ∀ h, NetOK S (envOf h).net)
    (SignedBy : Bytes → Bytes → Prop) (hU : ∀ k m s, S.verify k m s = true → SignedBy k m)
    (data k : Bytes) (hd : Handler) (p : P) (wd : Option Bytes)
    (h : onPacket G o envOf Gen.prefixLen Gen.msgIdOffset data = .handler hd (.called k p wd)) :
    ∃ signed m, SignedBy k signed ∧ signed.take 22 = o.pfx ∧ signed[22]? = some m ∧ hd.msgId = m.toNat := by
  obtain ⟨hpfx, ⟨m, hm, hf⟩, _, kb, signed, sg, _, _, hsplit, _, hver, h23, _⟩ :=
    onPacket_sound G hG S strict hS o envOf hE hN data k hd p wd h
  rw [hE.scheme hd] at hver
  refine ⟨signed, m, hU k signed sg hver, ?_, ?_, ?_⟩
  · rw [← hpfx, hsplit, List.take_append_of_le_length (by omega)]
  · rw [hsplit, List.getElem?_append_left (by omega)] at hm
    exact hm
  · have := List.find?_some hf
    simp at this
    exact this

/-! ### the raw discovery handler -/

/-- `DiscoveryCommunity.on_old_introduction_request` (two `_ez_unpack_auth` attempts, then
    `Peer(auth.public_key_bin, …)` and `add_verified_peer`): accepted only for an authentic datagram, whichever of
    the two payload formats decoded — for every guarded `_ez_unpack_auth` body (the translated one by
    `gen_wrappers_guarded`) and whether or not decode errors are caught -/
theorem discRaw_sound (prog : List Op) (hg : guarded prog = true) (hnp : noPeerCall prog = true) (catches : Bool)
    (E1 E2 : Env P) (hS12 : E2.S = E1.S) (hst : E2.strict = E1.strict)
    (hv1 : E1.verifySig = Gen.verifySignature) (hv2 : E2.verifySig = Gen.verifySignature) (hS : WellSized E1.S)
    (data k : Bytes) (p : P) (wd : Option Bytes)
    (h : discRaw E1 E2 prog catches data = .called k p wd) :
    Authentic E1.S E1.strict data k := by
  have key : ∀ (E : Env P), E.S = E1.S → E.strict = E1.strict → E.verifySig = Gen.verifySignature →
      ∀ kb p', run E prog data = .returned kb p' → E1.S.parse kb = some k →
        Authentic E1.S E1.strict data k := by
    intro E hES hEst hEv kb p' hr hpk
    obtain ⟨e, rem, hu, hver, _⟩ := run_guarded_returned hg hr
    rw [hEv, gen_verifySignature_is_reference] at hver
    unfold refVerifySignature at hver
    rw [hES, hpk] at hver
    simp only [Option.some.injEq, Prod.mk.injEq] at hver
    have hkf : keyField E1.strict data = some kb := by simp [keyField, ← hEst, hu]
    have hpos := hS.pos kb k hpk
    have hle := hS.le kb k hpk
    have hlen := keyField_length hkf
    have hn : E1.S.sigLen k ≤ data.length := by omega
    rw [slice_signed _ _ hpos, slice_sig _ _ hpos] at hver
    obtain ⟨hsplit, hsl⟩ := split_at_sig data (E1.S.sigLen k) hn
    exact ⟨kb, _, _, hkf, hpk, hsplit, hsl, hver.1⟩
  have nocall : ∀ (E : Env P) a b c, run E prog data ≠ .called a b c := fun E a b c =>
    runFrom_noPeerCall prog {} hnp
  unfold discRaw at h
  simp only [newPeerKey] at h
  -- first attempt
  cases h1 : run E1 prog data with
  | returned kb p' =>
    simp only [h1] at h
    cases hpk : E1.S.parse kb with
    | none => simp [hpk] at h
    | some k' =>
      simp [hpk] at h
      exact key E1 rfl rfl hv1 kb p' h1 (by rw [hpk, h.1])
  | called a b c => exact absurd h1 (nocall E1 a b c)
  | calledAddr a b => simp [h1] at h
  | stuck => simp [h1] at h
  | rejected st =>
    simp only [h1] at h
    cases st with
    | keyParse => simp at h
    | keyField | decode | signature =>
      cases catches with
      | false => simp at h
      | true =>
        simp only [if_true] at h
        cases h2 : run E2 prog data with
        | returned kb p' =>
          simp only [h2] at h
          cases hpk : E1.S.parse kb with
          | none => simp [hpk] at h
          | some k' =>
            simp [hpk] at h
            exact key E2 hS12 hst hv2 kb p' h2 (by rw [hpk, h.1])
        | called a b c => exact absurd h2 (nocall E2 a b c)
        | calledAddr a b => simp [h2] at h
        | stuck => simp [h2] at h
        | rejected st2 => simp [h2] at h

/-! ### histories: who can end up in verified_peers -/

/-- **history_sound** — start from any node whose verified keys are canonical; feed it ANY finite history of
    datagrams (any bytes, any order, any number); let ANY subset of handlers add the peer they were handed.  Then every
    key in `verified` at the end was there at the start or is authenticated by some datagram of the history that
    carries this overlay's prefix. -/
theorem history_sound (G : Progs) (hG : GuardedProgs G) (S : Scheme) (strict : Bool) (hS : WellSized S)
    (hC : Canon S) (o : Overlay)
    (envOf : Handler → Env P) (hE : EnvsOK S strict envOf) (adds : Handler → Bool) (hist : List Bytes) :
    ∀ (n0 : Node), (∀ kb ∈ n0.verified, S.parse kb = some kb) →
    ∀ k ∈ (Node.runHistory G o envOf adds n0 hist).verified,
      k ∈ n0.verified ∨ ∃ d ∈ hist, Authentic S strict d k ∧ d.take 22 = o.pfx := by
  induction hist with
  | nil => intro n0 _ k hk; exact Or.inl hk
  | cons d ds ih =>
    intro n0 h0 k hk
    simp only [Node.runHistory] at hk
    -- one step
    have hstep : (∀ kb ∈ (Node.recv G o envOf adds n0 d).verified, S.parse kb = some kb) ∧
        ∀ k' ∈ (Node.recv G o envOf adds n0 d).verified,
          k' ∈ n0.verified ∨ (Authentic S strict d k' ∧ d.take 22 = o.pfx) := by
      unfold Node.recv
      split
      · rename_i hd' k' p' wd' hop
        split
        · -- the handler adds the peer it was handed
          have hE' : EnvsOK S strict (fun h => { envOf h with net := n0.net }) :=
            ⟨fun h => hE.scheme h, fun h => hE.strict h, fun h => hE.vsig h⟩
          have hN' : ∀ h, NetOK S ({ envOf h with net := n0.net } : Env P).net := by
            intro h kb k'' hnet
            simp only [Node.net] at hnet
            split at hnet
            · rename_i hmem
              cases hnet
              exact h0 kb hmem
            · cases hnet
          obtain ⟨hpfx, _, _, hdel⟩ := onPacket_sound G hG S strict hS o _ hE' hN' d k' hd' p' wd' hop
          have hauth := delivered_authentic _ d k' p' hdel
          simp only [hE.scheme hd', hE.strict hd'] at hauth
          obtain ⟨kb, _, _, _, hpk, _⟩ := hauth
          have hauth' := delivered_authentic _ d k' p' hdel
          simp only [hE.scheme hd', hE.strict hd'] at hauth'
          refine ⟨?_, ?_⟩
          · intro kb' hm
            simp only [List.mem_cons] at hm
            rcases hm with rfl | hm
            · exact hC kb _ hpk
            · exact h0 kb' hm
          · intro k'' hm
            simp only [List.mem_cons] at hm
            rcases hm with rfl | hm
            · exact Or.inr ⟨hauth', hpfx⟩
            · exact Or.inl hm
        · exact ⟨h0, fun k' hm => Or.inl hm⟩
      · exact ⟨h0, fun k' hm => Or.inl hm⟩
    rcases ih _ hstep.1 k hk with hin | ⟨d', hd', hA⟩
    · rcases hstep.2 k hin with h1 | h1
      · exact Or.inl h1
      · exact Or.inr ⟨d, List.mem_cons_self, h1⟩
    · exact Or.inr ⟨d', List.mem_cons_of_mem _ hd', hA⟩

/-! ### completeness: honest datagrams are delivered (the model does not reject everything) -/

/-- laws of an honest signer (hypotheses; instance: `toySigner` below) -/
structure Honest (S : Signer) : Prop where
  parse_pub : ∀ sk, S.parse (S.pub sk) = some (S.pub sk)
  sign_len : ∀ sk m, (S.sign sk m).length = S.sigLen (S.pub sk)
  sign_verifies : ∀ sk m, S.verify (S.pub sk) m (S.sign sk m) = true
  sig_pos : ∀ sk, 0 < S.sigLen (S.pub sk)
  pub_short : ∀ sk, (S.pub sk).length < 65536

/-- **deliver_complete** — whatever `ezr_pack(msg, payloads, sig=True)` (as translated) produces for any prefix of 22
    bytes, any message id, any payload bytes that the handler's decoder accepts and any key of an honest signer, the
    signed wrapper (as translated) enters the handler with exactly that key and those payloads -/
theorem deliver_complete (S : Signer) (hH : Honest S) (E : Env P) (hES : E.S = S.toScheme)
    (hv : E.verifySig = Gen.verifySignature) (sk : S.SK) (pfx : Bytes) (hpfx : pfx.length = 22) (m : UInt8)
    (body : Bytes) (p : P) (hdec : ∀ buf, buf.drop 23 = body → E.decode buf 23 = some p)
    (hnet : E.net (S.pub sk) = none ∨ E.net (S.pub sk) = some (S.pub sk)) :
    run E Gen.lazyWrapper (Gen.ezrPack S sk pfx m body true) = .called (S.pub sk) p none := by
  -- name the pieces
  have hl := hH.pub_short sk
  let pub := S.pub sk
  let packet : Bytes := pfx ++ [m] ++ (packVarlenH pub ++ body)
  let sg := S.sign sk packet
  have hdata : Gen.ezrPack S sk pfx m body true = packet ++ sg := by
    simp [Gen.ezrPack, Gen.ezPack, packet, sg, pub]
  rw [hdata]
  have hn : sg.length = S.sigLen pub := hH.sign_len sk packet
  have hpos : 0 < S.sigLen pub := hH.sig_pos sk
  -- (a) the key field
  have hdrop : (packet ++ sg).drop 23 =
      UInt8.ofNat (pub.length / 256) :: UInt8.ofNat (pub.length % 256) :: (pub ++ body ++ sg) := by
    have h23 : (pfx ++ [m]).length = 23 := by simp [hpfx]
    have : packet ++ sg = (pfx ++ [m]) ++ (packVarlenH pub ++ body ++ sg) := by simp [packet]
    rw [this, List.drop_left' h23]
    simp [packVarlenH]
  have hU : unpackVarlenH E.strict (packet ++ sg) 23 = some (pub, 23 + 2 + pub.length) := by
    unfold unpackVarlenH
    rw [hdrop]
    have hb : be16 (UInt8.ofNat (pub.length / 256)) (UInt8.ofNat (pub.length % 256)) = pub.length :=
      be16_pack _ hl
    simp [hb]
  -- (b) the signature check
  have hlen : (packet ++ sg).length - S.sigLen pub = packet.length := by simp [hn]
  have hV : E.verifySig E.S pub (packet ++ sg) = some (true, packet.drop (2 + pub.length)) := by
    rw [hv, gen_verifySignature_is_reference, hES]
    unfold refVerifySignature
    have hp : S.toScheme.parse pub = some pub := hH.parse_pub sk
    simp only [hp]
    have e1 : S.toScheme.sigLen pub = S.sigLen pub := rfl
    rw [e1, slice_signed _ _ hpos, slice_sig _ _ hpos, slice_remainder _ _ _ hpos, hlen]
    simp only [List.take_left', List.drop_left']
    have : S.toScheme.verify pub packet sg = true := hH.sign_verifies sk packet
    simp [this]
  -- (c) the payload decoder sees exactly `body` at offset 23 of the remainder
  have hD : E.decode (packet.drop (2 + pub.length)) 23 = some p := by
    apply hdec
    rw [List.drop_drop]
    have h25 : (pfx ++ [m] ++ packVarlenH pub).length = 2 + pub.length + 23 := by
      simp [hpfx, packVarlenH]; omega
    have : packet = (pfx ++ [m] ++ packVarlenH pub) ++ body := by simp [packet]
    rw [this, List.drop_left' h25]
  -- run the program
  simp only [run, Gen.lazyWrapper, runFrom, step, hU, hV, hD, newPeerKey]
  have hp : E.S.parse pub = some pub := by rw [hES]; exact hH.parse_pub sk
  rcases hnet with hnone | hsome
  · simp [pub] at hnone hp ⊢
    simp [hnone, hp]
  · simp [pub] at hsome ⊢
    simp [hsome]

/-! ### the handler table -/

/-- every (overlay, msg id) that the frozen specification lists as authenticated is registered with a signing wrapper
    in the live decode_map — or is one of the raw handlers modelled separately (`discRaw_sound`) -/
theorem handlers_respect_auth_spec :
    ∀ om ∈ Gen.authRequired,
      (match kindOf Gen.overlays om.1 om.2 with
       | some k => k.authenticating || (k == .raw && Gen.rawModelled.contains om)
       | none => false) = true := by decide

/-- every registered handler of every shipped overlay has been reviewed: it is either in the authenticated list or in
    the list of ids that are unauthenticated by protocol design — never both, never neither -/
theorem every_handler_reviewed :
    ∀ o ∈ Gen.overlays, ∀ h ∈ o.handlers,
      (Gen.authRequired.contains (o.name, h.msgId) != Gen.unauthByDesign.contains (o.name, h.msgId)) = true := by
  decide

/-- table-direct form of the same fact (quantifies over the generated table itself) -/
theorem auth_required_kinds :
    ∀ o ∈ Gen.overlays, ∀ h ∈ o.handlers, Gen.authRequired.contains (o.name, h.msgId) = true →
      (h.kind.authenticating || (h.kind == .raw && Gen.rawModelled.contains (o.name, h.msgId))) = true := by
  decide

/-- **auth_required_only_authentic** — table and wrappers together: for every shipped overlay (generated table) and
    every message id that the frozen specification lists as authenticated, whatever datagram arrives, if `on_packet`
    runs a wrapper for it then the wrapped handler is never entered with a bare address, and if it is entered at all
    the delivery is authentic, carries this overlay's prefix and the peer is the carried key. -/
theorem auth_required_only_authentic (S : Scheme) (strict : Bool) (hS : WellSized S) (o : Overlay)
    (ho : o ∈ Gen.overlays) (envOf : Handler → Env P) (hE : EnvsOK S strict envOf) (hN : ∀ h, NetOK S (envOf h).net)
    (data : Bytes) (hd : Handler) (out : Outcome P)
    (hreq : Gen.authRequired.contains (o.name, hd.msgId) = true)
    (h : onPacket Gen.progs o envOf Gen.prefixLen Gen.msgIdOffset data = .handler hd out) :
    (∀ p wd, out ≠ .calledAddr p wd) ∧
    (∀ k p wd, out = .called k p wd → data.take 22 = o.pfx ∧ Delivered (envOf hd) data k p) := by
  obtain ⟨hmem, hk⟩ := onPacket_handler h
  have hkind := auth_required_kinds o ho hd hmem hreq
  constructor
  · intro p wd hc
    rcases hk with ⟨hk, hr⟩ | ⟨hk, hr⟩ | ⟨hk, hr⟩ | ⟨hk, hr⟩
    · rw [hr] at hc
      exact runFrom_noAddrCall _ {} gen_wrappers_guarded.signedNoAddr hc
    · rw [hr] at hc
      exact runFrom_noAddrCall _ {} gen_wrappers_guarded.signedWdNoAddr hc
    · simp [hk, Kind.authenticating] at hkind
    · simp [hk, Kind.authenticating] at hkind
  · intro k p wd hc
    subst hc
    obtain ⟨h1, _, _, h4⟩ := onPacket_sound Gen.progs gen_wrappers_guarded S strict hS o envOf hE hN data k hd p wd h
    exact ⟨h1, h4⟩

/-! ### non-vacuity: a toy scheme satisfies every hypothesis bundle, and concrete datagrams exercise the theorems -/

/-- one-byte "signatures": a checksum of key and message (not unforgeable, of course — the structural laws only) -/
def toyTag (k m : Bytes) : UInt8 := (k ++ m).foldl (· + ·) 7

def toySigner : Signer :=
  { parse := fun b => some b, sigLen := fun _ => 1, verify := fun k m s => s == [toyTag k m],
    SK := UInt8, pub := fun sk => [sk, sk], sign := fun sk m => [toyTag [sk, sk] m] }

def toyEnv : Env Bytes :=
  { S := toySigner.toScheme, strict := Gen.strictVarlen, verifySig := Gen.verifySignature,
    decode := fun buf off => some (buf.drop off), net := fun _ => none }

example : WellSized toySigner.toScheme :=
  ⟨fun _ _ _ => Nat.one_pos, fun kb _ _ => by simp [toySigner]⟩
example : Canon toySigner.toScheme := fun _ _ h => by simp [toySigner] at h ⊢
example : NetOK toySigner.toScheme toyEnv.net := fun _ _ h => by simp [toyEnv] at h
example : Honest toySigner :=
  ⟨fun _ => rfl, fun _ _ => rfl, fun _ _ => by simp [toySigner], fun _ => Nat.one_pos,
   fun _ => by simp [toySigner, List.length]⟩
example : EnvsOK toySigner.toScheme Gen.strictVarlen (fun _ => toyEnv) := ⟨fun _ => rfl, fun _ => rfl, fun _ => rfl⟩

/-- an honest datagram (prefix of 22 ones, msg id 246, key [5,5], payload [9,9]) -/
def toyDatagram : Bytes := Gen.ezrPack toySigner (5 : UInt8) (List.replicate 22 1) 246 [9, 9] true

/-- the hypotheses of `deliver_sound` hold for a concrete call -/
example : run toyEnv Gen.lazyWrapper toyDatagram = .called [5, 5] [9, 9] none := by decide +kernel
example : run toyEnv Gen.lazyWrapperWd toyDatagram = .called [5, 5] [9, 9] (some toyDatagram) := by decide +kernel
/-- one flipped payload bit: rejected at the signature stage -/
example : run toyEnv Gen.lazyWrapper (toyDatagram.set 27 8) = .rejected .signature := by decide +kernel
/-- one flipped prefix bit -/
example : run toyEnv Gen.lazyWrapper (toyDatagram.set 3 0) = .rejected .signature := by decide +kernel
/-- truncated by one byte -/
example : run toyEnv Gen.lazyWrapper toyDatagram.dropLast ≠ .called [5, 5] [9, 9] none := by decide +kernel
/-- the guard matters: the same program WITHOUT `assertValid` is not `guarded` and does enter the handler for the
    tampered datagram, so `deliver_sound` really depends on the translated `if not signature_valid: raise` -/
example : guarded (refSigned.filter (· != .assertValid)) = false := by decide
example : run toyEnv (refSigned.filter (· != .assertValid)) (toyDatagram.set 27 8) = .called [5, 5] [8, 9] none := by
  decide +kernel
/-- other unguarded shapes: verifying a key field taken from another offset; decoding the payloads from the whole
    datagram instead of the signed remainder; re-reading the key after the check; call before the check -/
example : guarded [.unpackAuth 25, .verify, .decode .remainder 23, .assertValid, .lookupPeer, .callPeer] = false := by decide
example : guarded [.unpackAuth 23, .verify, .decode .data 23, .assertValid, .lookupPeer, .callPeer] = false := by decide
example : guarded [.unpackAuth 23, .verify, .decode .remainder 23, .assertValid, .unpackAuth 23, .lookupPeer, .callPeer] = false := by decide
example : guarded [.unpackAuth 23, .verify, .decode .remainder 23, .lookupPeer, .callPeer, .assertValid] = false := by decide
/-- "reuse the Peer we already track at the source address" (`peer = key lookup or get_verified_by_address(src)`) is
    translated, not refused, and fails the guard; the model then really misattributes: an authentic datagram of key
    [5,5] arriving from an address where [7,7] is verified is handed to the handler as [7,7] -/
example : guarded [.unpackAuth 23, .verify, .decode .remainder 23, .assertValid, .appendData, .lookupPeer,
    .orLookupByAddr, .callPeer] = false := by decide
example : run { toyEnv with netAddr := some [7, 7] } [.unpackAuth 23, .verify, .decode .remainder 23, .assertValid,
    .lookupPeer, .orLookupByAddr, .callPeer] toyDatagram = .called [7, 7] [9, 9] none := by decide +kernel
/-- a harmless reordering (lookup before the check) stays guarded -/
example : guarded [.unpackAuth 23, .lookupPeer, .verify, .assertValid, .decode .remainder 23, .callPeer] = true := by decide
/-- `Authentic` is satisfiable -/
example : Authentic toySigner.toScheme Gen.strictVarlen toyDatagram [5, 5] :=
  delivered_authentic toyEnv toyDatagram [5, 5] [9, 9]
    (deliver_sound toyEnv rfl ⟨fun _ _ _ => Nat.one_pos, fun kb _ _ => by simp [toyEnv, toySigner]⟩
      (fun _ _ h => by simp [toyEnv] at h) _ gen_wrappers_guarded.signed _ _ _ none (by decide +kernel))
/-- a two-datagram history on a one-handler overlay: the forged datagram adds nobody, the honest one adds [5,5] -/
def toyOverlay : Overlay :=
  { name := "toy", pfx := List.replicate 22 1,
    handlers := [{ msgId := 246, name := "on_intro", kind := .signed, payloads := [] }] }
example : (Node.runHistory Gen.progs toyOverlay (fun _ => toyEnv) (fun _ => true) {}
    [toyDatagram.set 27 8, toyDatagram]).verified = [[5, 5]] := by decide +kernel

end Ipv8.C01
