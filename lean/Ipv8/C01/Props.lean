/-
  C01 — property theorems.  Every `theorem` in this file is an obligation of the check.

  Subject: the wrapper programs `Gen.lazyWrapper`, `Gen.lazyWrapperWd`, `Gen.ezUnpackAuth` (one `Op` per Python
  statement, translated on every run), the slices of `Gen.verifySignature`, and the handler table `Gen.overlays` (read
  from the live classes).  `Gen.ezrPack`, `Gen.prefixLen/msgIdOffset` and the skeleton of `Gen.verifySignature` are
  fixed texts that the translator emits only after checking the source against an exact pattern ("checked", not
  "translated").

  The signature scheme is abstract (`Scheme`).  Its laws are explicit hypotheses (Lemmas.lean), never axioms:
    `WellSized S`     0 < sigLen k ≤ |key bytes| + 2 for every key that parses
    `Canon S`         a canonical key encoding parses to itself
    `NetOK S net`     `verified_by_public_key_bin` maps key bytes to a Peer holding exactly that key (a run-time
                      invariant of network.py; preserved by the model's `Node.recv`, see `history_sound`; on the code it
                      is only sampled by the harness)
    `OnlySigned`      unforgeability for one key: everything that verifies under `k` is in the list of messages its
                      holder signed (only in the tampering theorems)
  Examples at the end instantiate every bundle non-trivially (a scheme whose parser fails on short keys and strips
  trailing bytes, a network with a stored peer).

  The soundness theorems are stated for EVERY wrapper program that passes the static guard `guarded` (Guard.lean).
  What is NOT covered by any theorem: handler bodies (the history theorem ASSUMES a handler adds at most the Peer it was
  handed), code that adds verified peers outside handlers (DHT PingChurn, discover_address), cell handlers, payload
  decoding (abstract), computational unforgeability.
-/
import Ipv8.C01.Lemmas

namespace Ipv8.C01
open Ipv8

variable {P : Type}

/-- `DeliveredBy` with the handler's own payload decoder -/
abbrev Delivered (E : Env P) (data k : Bytes) (p : P) : Prop := DeliveredBy E E.decode data k p

/-! ### the generated definitions are what the theorems below are about -/

/-- tripwire: `_verify_signature` as translated verifies `data[:-n]` with `data[-n:]` under the key parsed from the
    carried bytes, remainder `data[2+|key|:-n]` (the three slices are translated from the AST; the skeleton is checked) -/
theorem gen_verifySignature_is_reference (S : Scheme) (kb data : Bytes) :
    Gen.verifySignature S kb data = refVerifySignature S kb data := rfl

/-- what `on_packet` needs of the wrapper programs in force -/
structure GuardedProgs (G : Progs) : Prop where
  signed : guarded G.signed = true
  signedWd : guarded G.signedWd = true
  signedNoAddr : noAddrCall G.signed = true
  signedWdNoAddr : noAddrCall G.signedWd = true
  unsigned : noPeerCall G.unsigned = true
  unsignedWd : noPeerCall G.unsignedWd = true
  ezUnpackAuth : guarded G.ezUnpackAuth = true
  ezUnpackAuthNoPeer : noPeerCall G.ezUnpackAuth = true

/-- the wrapper bodies translated from lazy_community.py pass the static guard: in `lazy_wrapper`, `lazy_wrapper_wd`
    and `_ez_unpack_auth` the call / return — and the address update of the stored Peer — is reached only after
    unpack(23) → verify → `if not signature_valid: raise`, with payloads decoded from that verification's remainder and
    the peer looked up under that key; the unsigned wrappers contain no Peer-call -/
theorem gen_wrappers_guarded : GuardedProgs Gen.progs :=
  ⟨by decide, by decide, by decide, by decide, by decide, by decide, by decide, by decide⟩

/-! ### soundness of one delivery -/

/-- hypothesis-free core: whatever the scheme, a call means the carried key parsed to the peer's key and the scheme
    accepted `data[-n:]` as a signature over `data[:-n]` (Python slices, `n` = that key's signature length) -/
theorem deliver_raw (E : Env P) (hv : E.verifySig = Gen.verifySignature) (hN : NetOK E.S E.net)
    (prog : List Op) (hg : guarded prog = true)
    (data k : Bytes) (p : P) (wd : Option Bytes) (h : run E prog data = .called k p wd) :
    ∃ kb, keyField E.strict data = some kb ∧ E.S.parse kb = some k ∧
      E.S.verify k (pySlice data none (some (-(E.S.sigLen k : Int)))) (pySlice data (some (-(E.S.sigLen k : Int))) none)
        = true ∧
      E.decode (pySlice data (some ((2 : Int) + (kb.length : Int))) (some (-(E.S.sigLen k : Int)))) 23 = some p := by
  obtain ⟨kb, e, rem, hu, hver, hdec, hk, _⟩ := run_guarded_called hg h
  rw [hv, gen_verifySignature_is_reference] at hver
  unfold refVerifySignature at hver
  cases hpk : E.S.parse kb with
  | none => simp [hpk] at hver
  | some pk =>
    simp only [hpk, Option.some.injEq, Prod.mk.injEq] at hver
    have hkk : pk = k := by
      rcases hk with hk | ⟨_, hk⟩
      · have := hN kb k hk
        rw [hpk] at this
        exact Option.some.inj this
      · rw [hpk] at hk
        exact Option.some.inj hk
    subst hkk
    refine ⟨kb, by simp [keyField, hu], hpk, hver.1, ?_⟩
    rw [hver.2]
    exact hdec

/-- **deliver_sound** — a handler behind ANY guarded wrapper program (in particular `lazy_wrapper` / `lazy_wrapper_wd`
    as translated, see `gen_wrappers_guarded`) is entered only for a datagram that ends in a valid signature, by the key
    carried at offset 23, over every preceding byte; the peer is that key -/
theorem deliver_sound (E : Env P) (hv : E.verifySig = Gen.verifySignature) (hS : WellSized E.S)
    (hN : NetOK E.S E.net) (prog : List Op) (hg : guarded prog = true)
    (data k : Bytes) (p : P) (wd : Option Bytes) (h : run E prog data = .called k p wd) :
    Delivered E data k p := by
  obtain ⟨kb, e, rem, hu, hver, hdec, hk, _⟩ := run_guarded_called hg h
  have hpk : E.S.parse kb = some k := by
    rcases hk with hk | ⟨_, hk⟩
    · exact hN kb k hk
    · exact hk
  obtain ⟨signed, sg, hkf, hsplit, hsl, hvf, h25, hrem⟩ := checked_core hv hS hu hver hpk
  exact ⟨kb, signed, sg, hkf, hpk, hsplit, hsl, hvf, h25, by rw [← hrem]; exact hdec⟩

/-- if a guarded wrapper passes a raw datagram along (`lazy_wrapper_wd`), it is the datagram that was authenticated -/
theorem deliver_wd_is_datagram (E : Env P) (prog : List Op) (hg : guarded prog = true) (data k w : Bytes) (p : P)
    (h : run E prog data = .called k p (some w)) : w = data := by
  obtain ⟨_, _, _, _, _, _, _, hw⟩ := run_guarded_called hg h
  rcases hw with hw | hw
  · cases hw
  · exact Option.some.inj hw

/-- `DeliveredBy` implies the specification's `Authentic` predicate -/
theorem delivered_authentic (E : Env P) (dec : Bytes → Nat → Option P) (data k : Bytes) (p : P)
    (h : DeliveredBy E dec data k p) : Authentic E.S E.strict data k := by
  obtain ⟨kb, signed, sg, h1, h2, h3, h4, h5, _, _⟩ := h
  exact ⟨kb, signed, sg, h1, h2, h3, h4, h5⟩

/-- the overlay prefix and the message id lie inside the signed part whenever the key's signature is not longer than
    its carried encoding + 2 (all uncompressed encodings of the five shipped curves; NOT the compressed-point encodings
    the parser also accepts — for those the header is inside the signed part only under unforgeability, see
    `prefix_or_msgid_swap_rejected`) -/
theorem header_signed_when_encoding_long (E : Env P) (dec : Bytes → Nat → Option P) (data k : Bytes) (p : P)
    (h : DeliveredBy E dec data k p) :
    ∃ kb signed sg, keyField E.strict data = some kb ∧ data = signed ++ sg ∧ E.S.verify k signed sg = true ∧
      (E.S.sigLen k ≤ kb.length + 2 → 23 ≤ signed.length ∧ signed.take 23 = data.take 23) := by
  obtain ⟨kb, signed, sg, h1, _, h3, h4, h5, h6, _⟩ := h
  refine ⟨kb, signed, sg, h1, h3, h5, ?_⟩
  intro hle
  have : 23 ≤ signed.length := by omega
  exact ⟨this, by rw [h3, List.take_append_of_le_length this]⟩

/-- **touch_only_after_authentication** — the wrappers' side effect on receiver state that does not wait for the
    handler: `if peer: peer.add_address(source_address)` on the STORED verified Peer.  For every guarded program —
    whatever the final outcome, exception included — the Peer of key `k` is touched only by a datagram that is
    authentic for `k`.  (A wrapper that moves the lookup + `add_address` in front of `if not signature_valid: raise`
    is not `guarded`: example below.) -/
theorem touch_only_after_authentication (E : Env P) (hv : E.verifySig = Gen.verifySignature) (hS : WellSized E.S)
    (hN : NetOK E.S E.net) (prog : List Op) (hg : guarded prog = true) (data k : Bytes)
    (h : touchedBy E prog data = some k) : Authentic E.S E.strict data k := by
  obtain ⟨kb, e, rem, hu, hver, hnet⟩ := touchedBy_guarded hg h
  have hpk := hN kb k hnet
  obtain ⟨signed, sg, hkf, hsplit, hsl, hvf, _, _⟩ := checked_core hv hS hu hver hpk
  exact ⟨kb, signed, sg, hkf, hpk, hsplit, hsl, hvf⟩

/-! ### tampering: unforgeability as a hypothesis, then the mutation operators one by one -/

/-- **tamper_rejected** — let `msgs` be everything the holder of `k` ever signed (`OnlySigned`: nothing else verifies
    under `k`).  A handler call for key `k` means the bytes that precede the signature — prefix, message id, key field,
    every payload byte — are literally one of those messages.  (This is `deliver_sound` plus one use of the hypothesis;
    its content is the operator corollaries below.) -/
theorem tamper_rejected (E : Env P) (hv : E.verifySig = Gen.verifySignature) (hS : WellSized E.S)
    (hN : NetOK E.S E.net) (k : Bytes) (msgs : List Bytes) (hU : OnlySigned E.S k msgs)
    (prog : List Op) (hg : guarded prog = true)
    (data : Bytes) (p : P) (wd : Option Bytes) (h : run E prog data = .called k p wd) :
    data.take (data.length - E.S.sigLen k) ∈ msgs ∧ E.S.sigLen k ≤ data.length := by
  obtain ⟨kb, signed, sg, _, _, hsplit, hsl, hver, _, _⟩ := deliver_sound E hv hS hN prog hg data k p wd h
  have hlen : data.length = signed.length + sg.length := by rw [hsplit]; simp
  have : data.take (data.length - E.S.sigLen k) = signed := by
    rw [hlen, hsl, Nat.add_sub_cancel, hsplit]
    simp
  rw [this]
  exact ⟨hU signed sg hver, by omega⟩

/-- **bit flip anywhere before the signature** — `msgs` is EVERYTHING the holder of `k` ever signed (any number of
    messages).  `d` with a byte before the signature replaced by a different value is delivered as `k` only if the holder
    of `k` also signed ANOTHER message: one that equals the flipped signed part and differs from `d`'s signed part. -/
theorem bitflip_needs_another_signed_message (E : Env P) (hv : E.verifySig = Gen.verifySignature) (hS : WellSized E.S)
    (hN : NetOK E.S E.net) (k d : Bytes) (msgs : List Bytes) (hU : OnlySigned E.S k msgs)
    (prog : List Op) (hg : guarded prog = true) (i : Nat) (b : UInt8) (hi : i < d.length - E.S.sigLen k)
    (hb : d[i]? ≠ some b) (p : P) (wd : Option Bytes) (h : run E prog (d.set i b) = .called k p wd) :
    (d.set i b).take (d.length - E.S.sigLen k) ∈ msgs ∧
      (d.set i b).take (d.length - E.S.sigLen k) ≠ d.take (d.length - E.S.sigLen k) := by
  obtain ⟨hm, _⟩ := tamper_rejected E hv hS hN k _ hU prog hg _ p wd h
  simp only [List.length_set] at hm
  refine ⟨hm, fun heq => ?_⟩
  have := congrArg (fun l => l[i]?) heq
  simp only [List.getElem?_take, hi, if_true] at this
  rw [List.getElem?_set_self (by omega)] at this
  exact hb this.symm

/-- **truncation**: `d` minus its last `c > 0` bytes is delivered as `k` only if `k` signed another, different message -/
theorem truncation_needs_another_signed_message (E : Env P) (hv : E.verifySig = Gen.verifySignature)
    (hS : WellSized E.S) (hN : NetOK E.S E.net) (k d : Bytes) (msgs : List Bytes) (hU : OnlySigned E.S k msgs)
    (prog : List Op) (hg : guarded prog = true) (c : Nat) (hc : 0 < c) (p : P) (wd : Option Bytes)
    (h : run E prog (d.take (d.length - c)) = .called k p wd) :
    ∃ m ∈ msgs, m = (d.take (d.length - c)).take ((d.take (d.length - c)).length - E.S.sigLen k) ∧
      m ≠ d.take (d.length - E.S.sigLen k) := by
  obtain ⟨hm, hn⟩ := tamper_rejected E hv hS hN k _ hU prog hg _ p wd h
  have hpos : 0 < E.S.sigLen k := by
    obtain ⟨kb, _, hpk, _⟩ := deliver_raw E hv hN prog hg _ k p wd h
    exact hS.pos kb k hpk
  refine ⟨_, hm, rfl, fun heq => ?_⟩
  have := congrArg List.length heq
  simp only [List.length_take] at this hn
  omega

/-- **extension**: `d ++ ext` (`ext` non-empty, `d` long enough to hold a signature) likewise -/
theorem extension_needs_another_signed_message (E : Env P) (hv : E.verifySig = Gen.verifySignature)
    (hS : WellSized E.S) (hN : NetOK E.S E.net) (k d : Bytes) (msgs : List Bytes) (hU : OnlySigned E.S k msgs)
    (hd : E.S.sigLen k ≤ d.length)
    (prog : List Op) (hg : guarded prog = true) (ext : Bytes) (he : ext ≠ []) (p : P) (wd : Option Bytes)
    (h : run E prog (d ++ ext) = .called k p wd) :
    ∃ m ∈ msgs, m = (d ++ ext).take ((d ++ ext).length - E.S.sigLen k) ∧ m ≠ d.take (d.length - E.S.sigLen k) := by
  obtain ⟨hm, hn⟩ := tamper_rejected E hv hS hN k _ hU prog hg _ p wd h
  refine ⟨_, hm, rfl, fun heq => ?_⟩
  have := congrArg List.length heq
  have hel : 0 < ext.length := List.length_pos_iff.mpr he
  simp only [List.length_take, List.length_append] at this hn
  omega

/-- a wrapper program without a Peer-call statement — in particular the unsigned wrappers as translated — never hands
    a `Peer` to a handler -/
theorem unsigned_never_yields_peer (E : Env P) (prog : List Op) (hn : noPeerCall prog = true) (data k : Bytes) (p : P)
    (wd : Option Bytes) : run E prog data ≠ .called k p wd :=
  runFrom_noPeerCall prog {} hn

/-! ### the raw discovery handler -/

/-- `DiscoveryCommunity.on_old_introduction_request` (two `_ez_unpack_auth` attempts, then
    `Peer(auth.public_key_bin, …)` and `add_verified_peer`): accepted only for an authentic datagram whose payloads
    were decoded — by the first or the second format — from the signed remainder; for every guarded `_ez_unpack_auth`
    body (the translated one by `gen_wrappers_guarded`) and whether or not decode errors are caught -/
theorem discRaw_sound (prog : List Op) (hg : guarded prog = true) (hnp : noPeerCall prog = true) (catches : Bool)
    (E : Env P) (hv : E.verifySig = Gen.verifySignature) (hS : WellSized E.S)
    (data k : Bytes) (p : P) (wd : Option Bytes)
    (h : discRaw E prog catches data = .called k p wd) :
    DeliveredBy E E.decode data k p ∨ DeliveredBy E E.decodeAlt data k p := by
  have key : ∀ (E' : Env P), E'.S = E.S → E'.strict = E.strict → E'.verifySig = Gen.verifySignature →
      ∀ kb p', run E' prog data = .returned kb p' → E.S.parse kb = some k → DeliveredBy E E'.decode data k p' := by
    intro E' hES hEst hEv kb p' hr hpk
    obtain ⟨e, rem, hu, hver, hdec⟩ := run_guarded_returned hg hr
    rw [hEst] at hu
    rw [hES, hEv, ← hv] at hver
    obtain ⟨signed, sg, hkf, hsplit, hsl, hvf, h25, hrem⟩ := checked_core hv hS hu hver hpk
    exact ⟨kb, signed, sg, hkf, hpk, hsplit, hsl, hvf, h25, by rw [← hrem]; exact hdec⟩
  have nocall : ∀ (E' : Env P) a b c, run E' prog data ≠ .called a b c := fun E' a b c =>
    runFrom_noPeerCall prog {} hnp
  unfold discRaw at h
  simp only [newPeerKey] at h
  cases h1 : run E prog data with
  | returned kb p' =>
    simp only [h1] at h
    cases hpk : E.S.parse kb with
    | none => simp [hpk] at h
    | some k' =>
      simp [hpk] at h
      obtain ⟨hk, hp, _⟩ := h
      subst hk hp
      exact Or.inl (key E rfl rfl hv kb p' h1 hpk)
  | called a b c => exact absurd h1 (nocall E a b c)
  | calledAddr a b => simp [h1] at h
  | stuck => simp [h1] at h
  | rejected st =>
    simp only [h1] at h
    cases st with
    | keyParse => simp at h
    | keyField | decode | signature =>
      cases catches with
      | false => simp at h
      | true =>
        simp only [if_true] at h
        cases h2 : run { E with decode := E.decodeAlt } prog data with
        | returned kb p' =>
          simp only [h2] at h
          cases hpk : E.S.parse kb with
          | none => simp [hpk] at h
          | some k' =>
            simp [hpk] at h
            obtain ⟨hk, hp, _⟩ := h
            subst hk hp
            exact Or.inr (key { E with decode := E.decodeAlt } rfl rfl hv kb p' h2 hpk)
        | called a b c => exact absurd h2 (nocall _ a b c)
        | calledAddr a b => simp [h2] at h
        | stuck => simp [h2] at h
        | rejected st2 => simp [h2] at h

/-! ### dispatch -/

/-- the environments of all handlers share the scheme / strictness / generated signature check -/
structure EnvsOK (S : Scheme) (strict : Bool) (envOf : Handler → Env P) : Prop where
  scheme : ∀ h, (envOf h).S = S
  strict : ∀ h, (envOf h).strict = strict
  vsig : ∀ h, (envOf h).verifySig = Gen.verifySignature

/-- **onPacket_sound** — through `Community.on_packet` of any overlay (any handler table, any guarded wrapper
    programs — `Gen.progs` by `gen_wrappers_guarded`), a handler is entered with a `Peer` — by a signing wrapper or by
    the reviewed raw handler, which is part of `onPacket` — only for a datagram that carries this overlay's prefix,
    whose msg id selects that handler, and that is delivered authentically (peer = carried key, payloads signed) -/
theorem onPacket_sound (G : Progs) (hG : GuardedProgs G) (S : Scheme) (strict : Bool) (hS : WellSized S) (o : Overlay)
    (envOf : Handler → Env P) (hE : EnvsOK S strict envOf) (hN : ∀ h, NetOK S (envOf h).net) (data k : Bytes)
    (hd : Handler) (p : P) (wd : Option Bytes)
    (h : onPacket G o envOf Gen.prefixLen Gen.msgIdOffset data = .handler hd (.called k p wd)) :
    data.take Gen.prefixLen = o.pfx ∧ (∃ m, data[Gen.msgIdOffset]? = some m ∧ o.find m.toNat = some hd) ∧
      (hd.kind.authenticating = true ∨ hd.kind = .raw) ∧
      (DeliveredBy (envOf hd) (envOf hd).decode data k p ∨ DeliveredBy (envOf hd) (envOf hd).decodeAlt data k p) := by
  obtain ⟨hpfx, m, hm, hf, hk⟩ := onPacket_called h
  refine ⟨hpfx, ⟨m, hm, hf⟩, ?_⟩
  have hWS : WellSized (envOf hd).S := by rw [hE.scheme hd]; exact hS
  have hNN : NetOK (envOf hd).S (envOf hd).net := by rw [hE.scheme hd]; exact hN hd
  rcases hk with ⟨hk, hr⟩ | ⟨hk, hr⟩ | ⟨hk, hr⟩ | ⟨hk, hr⟩ | ⟨hk, hr⟩
  · exact ⟨Or.inl (by simp [hk, Kind.authenticating]),
      Or.inl (deliver_sound (envOf hd) (hE.vsig hd) hWS hNN _ hG.signed data k p wd hr)⟩
  · exact ⟨Or.inl (by simp [hk, Kind.authenticating]),
      Or.inl (deliver_sound (envOf hd) (hE.vsig hd) hWS hNN _ hG.signedWd data k p wd hr)⟩
  · exact absurd hr (unsigned_never_yields_peer (envOf hd) _ hG.unsigned data k p wd)
  · exact absurd hr (unsigned_never_yields_peer (envOf hd) _ hG.unsignedWd data k p wd)
  · exact ⟨Or.inr hk,
      discRaw_sound _ hG.ezUnpackAuth hG.ezUnpackAuthNoPeer _ (envOf hd) (hE.vsig hd) hWS data k p wd hr⟩

/-- tripwire (first line of the hand-written `onPacket`, with the generated offsets): prefix mismatch ⇒ nothing runs,
    for every environment, i.e. whatever the receiver believes about the source address or the key -/
theorem cross_overlay_replay_dropped (G : Progs) (o : Overlay) (envOf : Handler → Env P) (data : Bytes)
    (hpfx : data.take Gen.prefixLen ≠ o.pfx) :
    onPacket G o envOf Gen.prefixLen Gen.msgIdOffset data = .droppedPrefix := by
  simp [onPacket, hpfx]

/-- **prefix swap / msg-id swap / replay into another overlay** — `msgs` is everything the holder of `k` ever signed, in
    whatever overlays and under whatever message ids, each at least a header long.  A handler of overlay `o` registered
    under id `hd.msgId` is entered as `k` only if one of those messages starts with `o`'s prefix followed by that id. -/
theorem delivery_needs_message_signed_for_this_overlay_and_id (G : Progs) (hG : GuardedProgs G) (S : Scheme)
    (strict : Bool) (hS : WellSized S) (o : Overlay)
    (envOf : Handler → Env P) (hE : EnvsOK S strict envOf) (hN : ∀ h, NetOK S (envOf h).net)
    (k : Bytes) (msgs : List Bytes) (hU : OnlySigned S k msgs) (hlen : ∀ m ∈ msgs, 23 ≤ m.length)
    (data : Bytes) (hd : Handler) (p : P) (wd : Option Bytes)
    (h : onPacket G o envOf Gen.prefixLen Gen.msgIdOffset data = .handler hd (.called k p wd)) :
    ∃ m ∈ msgs, ∃ mid : UInt8, m.take 22 = o.pfx ∧ m[22]? = some mid ∧ hd.msgId = mid.toNat := by
  obtain ⟨hpfx, ⟨m, hm, hf⟩, _, hdel⟩ := onPacket_sound G hG S strict hS o envOf hE hN data k hd p wd h
  have hcore : ∃ signed sg, data = signed ++ sg ∧ (envOf hd).S.verify k signed sg = true := by
    rcases hdel with ⟨_, signed, sg, _, _, h3, _, h5, _, _⟩ | ⟨_, signed, sg, _, _, h3, _, h5, _, _⟩
    · exact ⟨signed, sg, h3, h5⟩
    · exact ⟨signed, sg, h3, h5⟩
  obtain ⟨signed, sg, hsplit, hver⟩ := hcore
  rw [hE.scheme hd] at hver
  have hmem := hU signed sg hver
  have h23 := hlen signed hmem
  have hp22 : data.take 22 = signed.take 22 := by
    rw [hsplit, List.take_append_of_le_length (by omega)]
  have hm22 : data[22]? = signed[22]? := by
    rw [hsplit, List.getElem?_append_left (by omega)]
  refine ⟨signed, hmem, m, ?_, ?_, ?_⟩
  · have : data.take 22 = o.pfx := hpfx
    rw [← hp22, this]
  · have hm' : data[22]? = some m := hm
    rw [← hm22]; exact hm'
  · have := List.find?_some hf
    simpa using this

/-- **liveness credit ignores what the datagram says** — `on_packet` refreshes `last_response` of a "probable peer" for
    every incoming datagram, before the prefix guard and before any signature check.  With the lookups translated from
    the source (`Gen.livenessSources`), which stored Peer gets that credit does not depend on a single byte of the
    datagram: nobody can keep a verified-peer entry of key `k` alive by NAMING `k`.  (The credit by transport address
    itself — a spoofable source — is outside this property: seen, not judged.) -/
theorem liveness_credit_ignores_datagram_content (netAddr : Option Bytes) (net : Bytes → Option Bytes)
    (d d' : Bytes) :
    livenessCredit Gen.livenessSources netAddr net d = livenessCredit Gen.livenessSources netAddr net d' := by
  simp [Gen.livenessSources, livenessCredit]

/-! ### histories: who can end up in verified_peers -/

/-- **history_sound** — ONE key index shared by any number of overlays (one `Network` per IPv8 instance).  Start from
    any node whose verified keys are canonical; feed it ANY finite history of (overlay, datagram) deliveries (any bytes,
    any order, any number); let ANY subset of handlers — the reviewed raw handler included — add the Peer they were
    handed.  Then every key in `verified` at the end was there at the start or is authenticated by some datagram of the
    history that carries the prefix of the overlay it was delivered to.
    MODELLING ASSUMPTION (not derived from the code): handlers add no other key than the Peer they were handed. -/
theorem history_sound (G : Progs) (hG : GuardedProgs G) (S : Scheme) (strict : Bool) (hS : WellSized S)
    (hC : Canon S) (envOf : Handler → Env P) (hE : EnvsOK S strict envOf) (adds : Handler → Bool)
    (hist : List (Overlay × Bytes)) :
    ∀ (n0 : Node), (∀ kb ∈ n0.verified, S.parse kb = some kb) →
    ∀ k ∈ (Node.runHistory G envOf adds n0 hist).verified,
      k ∈ n0.verified ∨ ∃ od ∈ hist, Authentic S strict od.2 k ∧ od.2.take 22 = od.1.pfx := by
  induction hist with
  | nil => intro n0 _ k hk; exact Or.inl hk
  | cons od ds ih =>
    obtain ⟨o, d⟩ := od
    intro n0 h0 k hk
    simp only [Node.runHistory] at hk
    have hstep : (∀ kb ∈ (Node.recv G envOf adds n0 o d).verified, S.parse kb = some kb) ∧
        ∀ k' ∈ (Node.recv G envOf adds n0 o d).verified,
          k' ∈ n0.verified ∨ (Authentic S strict d k' ∧ d.take 22 = o.pfx) := by
      unfold Node.recv
      split
      · rename_i hd' k' p' wd' hop
        split
        · have hE' : EnvsOK S strict (fun h => { envOf h with net := n0.net }) :=
            ⟨fun h => hE.scheme h, fun h => hE.strict h, fun h => hE.vsig h⟩
          have hN' : ∀ h, NetOK S ({ envOf h with net := n0.net } : Env P).net := by
            intro h kb k'' hnet
            simp only [Node.net] at hnet
            split at hnet
            · rename_i hmem
              cases hnet
              exact h0 kb hmem
            · cases hnet
          obtain ⟨hpfx, _, _, hdel⟩ := onPacket_sound G hG S strict hS o _ hE' hN' d k' hd' p' wd' hop
          have hauth : Authentic S strict d k' := by
            rcases hdel with hdel | hdel
            · have := delivered_authentic _ _ d k' p' hdel
              simpa only [hE.scheme hd', hE.strict hd'] using this
            · have := delivered_authentic _ _ d k' p' hdel
              simpa only [hE.scheme hd', hE.strict hd'] using this
          obtain ⟨kb, _, _, _, hpk, _⟩ := hauth
          refine ⟨?_, ?_⟩
          · intro kb' hm
            simp only [List.mem_cons] at hm
            rcases hm with rfl | hm
            · exact hC kb _ hpk
            · exact h0 kb' hm
          · intro k'' hm
            simp only [List.mem_cons] at hm
            rcases hm with rfl | hm
            · exact Or.inr ⟨by
                rcases hdel with hdel | hdel
                · have := delivered_authentic _ _ d k'' p' hdel
                  simpa only [hE.scheme hd', hE.strict hd'] using this
                · have := delivered_authentic _ _ d k'' p' hdel
                  simpa only [hE.scheme hd', hE.strict hd'] using this, hpfx⟩
            · exact Or.inl hm
        · exact ⟨h0, fun k' hm => Or.inl hm⟩
      · exact ⟨h0, fun k' hm => Or.inl hm⟩
    rcases ih _ hstep.1 k hk with hin | ⟨od', hd', hA⟩
    · rcases hstep.2 k hin with h1 | h1
      · exact Or.inl h1
      · exact Or.inr ⟨(o, d), List.mem_cons_self, h1⟩
    · exact Or.inr ⟨od', List.mem_cons_of_mem _ hd', hA⟩

/-! ### completeness: honest datagrams are delivered (the model does not reject everything) -/

/-- **deliver_complete** — whatever `ezr_pack(msg, payloads, sig=True)` produces for any prefix of 22 bytes, any
    message id, any payload bytes that the handler's decoder accepts and any key of an honest signer, the translated
    `lazy_wrapper` enters the handler with exactly that key and those payloads -/
theorem deliver_complete (S : Signer) (hH : Honest S) (E : Env P) (hES : E.S = S.toScheme)
    (hv : E.verifySig = Gen.verifySignature) (sk : S.SK) (pfx : Bytes) (hpfx : pfx.length = 22) (m : UInt8)
    (body : Bytes) (p : P) (hdec : ∀ buf, buf.drop 23 = body → E.decode buf 23 = some p)
    (hnet : E.net (S.pub sk) = none ∨ E.net (S.pub sk) = some (S.pub sk)) :
    run E Gen.lazyWrapper (Gen.ezrPack S sk pfx m body true) = .called (S.pub sk) p none := by
  obtain ⟨rem, hU, hV, hD, hp⟩ := honest_facts S hH E hES hv sk pfx hpfx m body
  have hD' := hdec rem hD
  simp only [run, Gen.lazyWrapper, runFrom, step, hU, hV, hD', newPeerKey]
  rcases hnet with hnone | hsome
  · simp [hnone, hp]
  · simp [hsome]

/-- the same for `lazy_wrapper_wd`: the handler also receives exactly the datagram -/
theorem deliver_complete_wd (S : Signer) (hH : Honest S) (E : Env P) (hES : E.S = S.toScheme)
    (hv : E.verifySig = Gen.verifySignature) (sk : S.SK) (pfx : Bytes) (hpfx : pfx.length = 22) (m : UInt8)
    (body : Bytes) (p : P) (hdec : ∀ buf, buf.drop 23 = body → E.decode buf 23 = some p)
    (hnet : E.net (S.pub sk) = none ∨ E.net (S.pub sk) = some (S.pub sk)) :
    run E Gen.lazyWrapperWd (Gen.ezrPack S sk pfx m body true)
      = .called (S.pub sk) p (some (Gen.ezrPack S sk pfx m body true)) := by
  obtain ⟨rem, hU, hV, hD, hp⟩ := honest_facts S hH E hES hv sk pfx hpfx m body
  have hD' := hdec rem hD
  simp only [run, Gen.lazyWrapperWd, runFrom, step, hU, hV, hD', newPeerKey]
  rcases hnet with hnone | hsome
  · simp [hnone, hp]
  · simp [hsome]

/-- and for the reviewed raw handler (first payload format) -/
theorem deliver_complete_raw (S : Signer) (hH : Honest S) (E : Env P) (hES : E.S = S.toScheme)
    (hv : E.verifySig = Gen.verifySignature) (sk : S.SK) (pfx : Bytes) (hpfx : pfx.length = 22) (m : UInt8)
    (body : Bytes) (p : P) (hdec : ∀ buf, buf.drop 23 = body → E.decode buf 23 = some p) (catches : Bool) :
    discRaw E Gen.ezUnpackAuth catches (Gen.ezrPack S sk pfx m body true) = .called (S.pub sk) p none := by
  obtain ⟨rem, hU, hV, hD, hp⟩ := honest_facts S hH E hES hv sk pfx hpfx m body
  have hD' := hdec rem hD
  simp only [discRaw, run, Gen.ezUnpackAuth, runFrom, step, hU, hV, hD', newPeerKey]
  simp [hp]

/-! ### the handler table -/

/-- every (overlay, msg id) that the frozen specification lists as authenticated is registered with a signing wrapper
    in the live decode_map — or is the reviewed raw handler (kind `raw` is only emitted for ids in the specification's
    `raw_modelled`; it is dispatched to `discRaw` inside `onPacket`) -/
theorem handlers_respect_auth_spec :
    ∀ om ∈ Gen.authRequired,
      (match kindOf Gen.overlays om.1 om.2 with
       | some k => k.authenticating || (k == .raw && Gen.rawModelled.contains om)
       | none => false) = true := by decide

/-- no shipped overlay class replaces a step of the receive / send path (`_verify_signature`, `_ez_unpack_auth`,
    `_ez_pack`, `ezr_pack`, `on_packet`, `add_message_handler`) by a definition of its own: the wrapper theorems above
    are about the definitions in lazy_community.py / community.py, and they are what every overlay of the table runs
    (read from the live classes: `cls.<name> is Base.<name>`, and nothing of that name on the instance) -/
theorem no_overlay_overrides_the_receive_path : ∀ o ∈ Gen.overlays, o.overrides = [] := by decide

/-- every registered handler of every shipped overlay has been reviewed: it is either in the authenticated list or in
    the list of ids that are unauthenticated by protocol design — never both, never neither -/
theorem every_handler_reviewed :
    ∀ o ∈ Gen.overlays, ∀ h ∈ o.handlers,
      (Gen.authRequired.contains (o.name, h.msgId) != Gen.unauthByDesign.contains (o.name, h.msgId)) = true := by
  decide

/-- table-direct form of the same fact (quantifies over the generated table itself) -/
theorem auth_required_kinds :
    ∀ o ∈ Gen.overlays, ∀ h ∈ o.handlers, Gen.authRequired.contains (o.name, h.msgId) = true →
      (h.kind.authenticating || (h.kind == .raw && Gen.rawModelled.contains (o.name, h.msgId))) = true := by
  decide

/-- **auth_required_only_authentic** — table and wrappers together: for every shipped overlay (generated table) and
    EVERY message id that the frozen specification lists as authenticated (the raw discovery handler included),
    whatever datagram arrives: `on_packet` does run a modelled handler for it (never `Dispatch.other`), the handler
    is never entered with a bare address, and if it is entered at all the delivery is authentic, carries this
    overlay's prefix and the peer is the carried key. -/
theorem auth_required_only_authentic (S : Scheme) (strict : Bool) (hS : WellSized S) (o : Overlay)
    (ho : o ∈ Gen.overlays) (envOf : Handler → Env P) (hE : EnvsOK S strict envOf) (hN : ∀ h, NetOK S (envOf h).net)
    (data : Bytes) :
    (∀ hd, Gen.authRequired.contains (o.name, hd.msgId) = true →
      onPacket Gen.progs o envOf Gen.prefixLen Gen.msgIdOffset data ≠ .other hd) ∧
    (∀ hd out, Gen.authRequired.contains (o.name, hd.msgId) = true →
      onPacket Gen.progs o envOf Gen.prefixLen Gen.msgIdOffset data = .handler hd out →
      (∀ p wd, out ≠ .calledAddr p wd) ∧
      (∀ k p wd, out = .called k p wd → data.take 22 = o.pfx ∧
        (DeliveredBy (envOf hd) (envOf hd).decode data k p ∨ DeliveredBy (envOf hd) (envOf hd).decodeAlt data k p))) := by
  constructor
  · intro hd hreq hoth
    obtain ⟨hmem, hk⟩ := onPacket_other hoth
    have hkind := auth_required_kinds o ho hd hmem hreq
    rcases hk with hk | hk | hk | hk <;> simp [hk, Kind.authenticating] at hkind
  · intro hd out hreq h
    obtain ⟨hmem, hk⟩ := onPacket_handler h
    have hkind := auth_required_kinds o ho hd hmem hreq
    constructor
    · intro p wd hc
      rcases hk with ⟨hk, hr⟩ | ⟨hk, hr⟩ | ⟨hk, hr⟩ | ⟨hk, hr⟩ | ⟨hk, hr⟩
      · rw [hr] at hc
        exact runFrom_noAddrCall _ {} gen_wrappers_guarded.signedNoAddr hc
      · rw [hr] at hc
        exact runFrom_noAddrCall _ {} gen_wrappers_guarded.signedWdNoAddr hc
      · simp [hk, Kind.authenticating] at hkind
      · simp [hk, Kind.authenticating] at hkind
      · rw [hr] at hc
        exact discRaw_not_calledAddr (prog := Gen.progs.ezUnpackAuth) (by decide) hc
    · intro k p wd hc
      subst hc
      obtain ⟨h1, _, _, h4⟩ :=
        onPacket_sound Gen.progs gen_wrappers_guarded S strict hS o envOf hE hN data k hd p wd h
      exact ⟨h1, h4⟩

/-! ### non-vacuity: toy schemes satisfy every hypothesis bundle, and concrete datagrams exercise the theorems -/

/-- one-byte "signatures": a checksum of key and message (not unforgeable, of course — the structural laws only) -/
def toyTag (k m : Bytes) : UInt8 := (k ++ m).foldl (· + ·) 7

/-- keys are two bytes; the parser rejects shorter material and IGNORES trailing bytes (like the real one), so the
    carried key bytes and the canonical key can differ -/
def toySigner : Signer :=
  { parse := fun b => if b.length < 2 then none else some (b.take 2), sigLen := fun _ => 1,
    verify := fun k m s => s == [toyTag k m],
    SK := UInt8, pub := fun sk => [sk, sk], sign := fun sk m => [toyTag [sk, sk] m] }

def toyEnv : Env Bytes :=
  { S := toySigner.toScheme, strict := Gen.strictVarlen, verifySig := Gen.verifySignature,
    decode := fun buf off => some (buf.drop off), net := fun _ => none }

/-- a receiver that already stores the peer [5,5] -/
def toyEnvKnown : Env Bytes := { toyEnv with net := fun kb => if kb == [5, 5] then some [5, 5] else none }

example : WellSized toySigner.toScheme :=
  ⟨fun _ _ _ => Nat.one_pos, fun _ _ s h => by simp [toySigner] at h; simp [h, toySigner]⟩
example : Canon toySigner.toScheme := fun kb k h => by
  simp only [toySigner] at h ⊢
  split at h
  · cases h
  · rename_i hl
    cases h
    have : (List.take 2 kb).length = 2 := by simp; omega
    simp [this, List.take_take]
example : NetOK toySigner.toScheme toyEnvKnown.net := fun kb k h => by
  simp only [toyEnvKnown] at h
  split at h
  · rename_i hk
    cases h
    have : kb = [5, 5] := by simpa using hk
    subst this
    decide
  · cases h
example : Honest toySigner :=
  ⟨fun _ => by simp [toySigner, List.take, List.length], fun _ _ => rfl, fun _ _ => by simp [toySigner], fun _ => Nat.one_pos,
   fun _ => by simp [toySigner, List.length]⟩
example : EnvsOK toySigner.toScheme Gen.strictVarlen (fun _ => toyEnv) := ⟨fun _ => rfl, fun _ => rfl, fun _ => rfl⟩
/-- `OnlySigned` is satisfiable non-trivially: under the toy scheme the key [5,5] "signed" exactly the messages whose
    checksum byte is the one in the signature — here stated for a scheme that accepts one fixed message only -/
example : OnlySigned { toySigner.toScheme with verify := fun _ m s => m == [1, 2, 3] && s == [0] } [5, 5] [[1, 2, 3]] :=
  fun m s h => by simp at h; simp [h.1]

/-- an honest datagram (prefix of 22 ones, msg id 246, key [5,5], payload [9,9]) -/
def toyDatagram : Bytes := Gen.ezrPack toySigner (5 : UInt8) (List.replicate 22 1) 246 [9, 9] true
/-- the same content with a NON-CANONICAL key encoding (trailing byte 0xAA after the key), signed by the owner -/
def toyDatagramNC : Bytes :=
  let body : Bytes := List.replicate 22 1 ++ [246] ++ [0, 3, 5, 5, 0xAA] ++ [9, 9]
  body ++ [toyTag [5, 5] body]

/-- the hypotheses of `deliver_sound` hold for concrete calls: fresh peer, stored peer (lookup hit), non-canonical key -/
example : run toyEnv Gen.lazyWrapper toyDatagram = .called [5, 5] [9, 9] none := by decide +kernel
example : run toyEnv Gen.lazyWrapperWd toyDatagram = .called [5, 5] [9, 9] (some toyDatagram) := by decide +kernel
example : run toyEnvKnown Gen.lazyWrapper toyDatagram = .called [5, 5] [9, 9] none := by decide +kernel
example : touchedBy toyEnvKnown Gen.lazyWrapper toyDatagram = some [5, 5] := by decide +kernel
example : run toyEnvKnown Gen.lazyWrapper toyDatagramNC = .called [5, 5] [9, 9] none := by decide +kernel
/-- the tampering theorems are not vacuous: a scheme under which [5,5] signed EXACTLY the signed part of `toyDatagram`
    satisfies `OnlySigned` and `WellSized`, and that datagram is delivered -/
def onlyToy : Scheme :=
  { toySigner.toScheme with verify := fun k m s => k == [5, 5] && m == toyDatagram.dropLast && s == [toyTag k m] }
example : OnlySigned onlyToy [5, 5] [toyDatagram.dropLast] := fun m s h => by
  simp only [onlyToy, Bool.and_eq_true, beq_iff_eq] at h
  simp [h.1.2]
example : WellSized onlyToy := ⟨fun _ _ _ => Nat.one_pos, fun k m s h => by
  simp only [onlyToy, Bool.and_eq_true, beq_iff_eq] at h
  simp [h.2, onlyToy, toySigner]⟩
example : run { toyEnv with S := onlyToy } Gen.lazyWrapper toyDatagram = .called [5, 5] [9, 9] none := by decide +kernel
example : run { toyEnv with S := onlyToy } Gen.lazyWrapper (toyDatagram.set 27 8) = .rejected .signature := by
  decide +kernel
/-- a key field that does not parse (one byte) -/
example : run toyEnv Gen.lazyWrapper (List.replicate 22 1 ++ [246, 0, 1, 5, 9, 9, 0]) = .rejected .keyParse := by
  decide +kernel
/-- one flipped payload bit: rejected at the signature stage; the stored Peer is not touched -/
example : run toyEnvKnown Gen.lazyWrapper (toyDatagram.set 27 8) = .rejected .signature := by decide +kernel
example : touchedBy toyEnvKnown Gen.lazyWrapper (toyDatagram.set 27 8) = none := by decide +kernel
/-- one flipped prefix bit -/
example : run toyEnv Gen.lazyWrapper (toyDatagram.set 3 0) = .rejected .signature := by decide +kernel
/-- truncated by one byte -/
example : run toyEnv Gen.lazyWrapper toyDatagram.dropLast ≠ .called [5, 5] [9, 9] none := by decide +kernel
/-- the guard matters: the same program WITHOUT `assertValid` is not `guarded` and does enter the handler for the
    tampered datagram, so `deliver_sound` really depends on the translated `if not signature_valid: raise` -/
example : guarded (refSigned.filter (· != .assertValid)) = false := by decide
example : run toyEnv (refSigned.filter (· != .assertValid)) (toyDatagram.set 27 8) = .called [5, 5] [8, 9] none := by
  decide +kernel
/-- other unguarded shapes: verifying a key field taken from another offset; decoding the payloads from the whole
    datagram instead of the signed remainder; re-reading the key after the check; call before the check -/
example : guarded [.unpackAuth 25, .verify, .decode .remainder 23, .assertValid, .lookupPeer, .callPeer] = false := by decide
example : guarded [.unpackAuth 23, .verify, .decode .data 23, .assertValid, .lookupPeer, .callPeer] = false := by decide
example : guarded [.unpackAuth 23, .verify, .decode .remainder 23, .assertValid, .unpackAuth 23, .lookupPeer, .callPeer] = false := by decide
example : guarded [.unpackAuth 23, .verify, .decode .remainder 23, .lookupPeer, .callPeer, .assertValid] = false := by decide
/-- the stored Peer's address update moved in front of the signature check: not guarded, and the model shows the
    effect — a datagram with a broken signature that merely CARRIES the stored key re-points that Peer -/
example : guarded [.unpackAuth 23, .verify, .decode .remainder 23, .lookupPeer, .touchPeer, .assertValid, .callPeer]
    = false := by decide
example : touchedBy toyEnvKnown [.unpackAuth 23, .verify, .decode .remainder 23, .lookupPeer, .touchPeer, .assertValid,
    .callPeer] (toyDatagram.set 27 8) = some [5, 5] := by decide +kernel
/-- "reuse the Peer we already track at the source address" (`peer = key lookup or get_verified_by_address(src)`) is
    translated, not refused, and fails the guard; the model then really misattributes: an authentic datagram of key
    [5,5] arriving from an address where [7,7] is verified is handed to the handler as [7,7] -/
example : guarded [.unpackAuth 23, .verify, .decode .remainder 23, .assertValid, .appendData, .lookupPeer,
    .orLookupByAddr, .callPeer] = false := by decide
example : run { toyEnv with netAddr := some [7, 7] } [.unpackAuth 23, .verify, .decode .remainder 23, .assertValid,
    .lookupPeer, .orLookupByAddr, .callPeer] toyDatagram = .called [7, 7] [9, 9] none := by decide +kernel
/-- the check written as an `assert` statement: not guarded, because the model knows the interpreter configuration —
    under `python -O` (`optimized := true`) the tampered datagram enters the handler, otherwise it is rejected -/
example : guarded [.unpackAuth 23, .verify, .decode .remainder 23, .assertDebug, .lookupPeer, .touchPeer, .callPeer]
    = false := by decide
example : run { toyEnv with optimized := true } [.unpackAuth 23, .verify, .decode .remainder 23, .assertDebug, .lookupPeer,
    .touchPeer, .callPeer] (toyDatagram.set 27 8) = .called [5, 5] [8, 9] none := by decide +kernel
example : run toyEnv [.unpackAuth 23, .verify, .decode .remainder 23, .assertDebug, .lookupPeer,
    .touchPeer, .callPeer] (toyDatagram.set 27 8) = .rejected .signature := by decide +kernel
/-- a check weakened by a second condition (`if not signature_valid and <cond>: raise`) is not guarded: when the
    condition is false the tampered datagram is delivered -/
example : guarded [.unpackAuth 23, .verify, .decode .remainder 23, .assertWeakened, .lookupPeer, .touchPeer, .callPeer]
    = false := by decide
example : run { toyEnv with weakCond := false } [.unpackAuth 23, .verify, .decode .remainder 23, .assertWeakened,
    .lookupPeer, .touchPeer, .callPeer] (toyDatagram.set 27 8) = .called [5, 5] [8, 9] none := by decide +kernel
/-- a liveness lookup by the key the datagram names DOES depend on the datagram: two datagrams, two different credits -/
example : livenessCredit [.sourceAddress, .datagramContent] none toyEnvKnown.net toyDatagram
    ≠ livenessCredit [.sourceAddress, .datagramContent] none toyEnvKnown.net [] := by decide +kernel
/-- a harmless reordering (lookup before the check, touch after it) stays guarded -/
example : guarded [.unpackAuth 23, .lookupPeer, .verify, .assertValid, .decode .remainder 23, .touchPeer, .callPeer]
    = true := by decide
/-- `Authentic` is satisfiable -/
example : Authentic toySigner.toScheme Gen.strictVarlen toyDatagram [5, 5] :=
  delivered_authentic toyEnv _ toyDatagram [5, 5] [9, 9]
    (deliver_sound toyEnv rfl ⟨fun _ _ _ => Nat.one_pos, fun _ _ s h => by simp [toyEnv, toySigner] at h; simp [h, toyEnv, toySigner]⟩
      (fun _ _ h => by simp [toyEnv] at h) _ gen_wrappers_guarded.signed _ _ _ none (by decide +kernel))
/-- histories over TWO overlays sharing one key index, one of them with the reviewed raw handler: the forged datagram
    adds nobody, the honest one adds [5,5] through the raw handler; afterwards the other overlay's lookup hits -/
def toyOverlay : Overlay :=
  { name := "toy", pfx := List.replicate 22 1,
    handlers := [{ msgId := 246, name := "on_intro", kind := .raw, payloads := [] }] }
def toyOverlay2 : Overlay :=
  { name := "toy2", pfx := List.replicate 22 1,
    handlers := [{ msgId := 246, name := "on_intro", kind := .signed, payloads := [] }] }
example : onPacket Gen.progs toyOverlay (fun _ => toyEnv) 22 22 toyDatagram
    = .handler { msgId := 246, name := "on_intro", kind := .raw, payloads := [] } (.called [5, 5] [9, 9] none) := by
  decide +kernel
example : (Node.runHistory Gen.progs (fun _ => toyEnv) (fun _ => true) {}
    [(toyOverlay, toyDatagram.set 27 8), (toyOverlay, toyDatagram), (toyOverlay2, toyDatagram)]).verified = [[5, 5]] := by
  decide +kernel

end Ipv8.C01
