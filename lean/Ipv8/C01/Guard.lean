/-
  C01 — a static guard on wrapper programs and its soundness (core Lean only).

  `guarded prog` is a syntactic check on an op list (an abstract interpretation over five booleans):
  every `callPeer` / `returnAuth` is reached only after  unpackAuth 23 → verify → assertValid,  with the payloads decoded
  from the *remainder* of that verification at offset 23 and the peer looked up under the *same* key field, and with no
  later statement overwriting any of these variables.  `runFrom_guarded_*` show that for EVERY guarded program a
  `called` / `returned` outcome implies that the key field at offset 23 passed the signature check.
-/
import Ipv8.C01.Gen

namespace Ipv8.C01
open Ipv8

structure Abs where
  auth : Bool      -- `auth` holds the key field at offset 23
  ver : Bool       -- `signature_valid, remainder` come from `_verify_signature` on the current `auth`
  asserted : Bool  -- `if not signature_valid: raise` was executed after that
  dec : Bool       -- `unpacked` was decoded from the current `remainder` at offset 23
  look : Bool      -- `peer` was looked up under the current `auth`
  deriving DecidableEq, Repr

def Abs.init : Abs := ⟨false, false, false, false, false⟩

def absStep (a : Abs) : Op → Abs
  | .unpackAuth off => ⟨off == 23, false, false, false, false⟩
  | .verify => { a with ver := a.auth, asserted := false, dec := false }
  | .decode .remainder off => { a with dec := a.ver && off == 23 }
  | .decode .data _ => { a with dec := false }
  | .assertValid => { a with asserted := a.ver }
  | .lookupPeer => { a with look := a.auth }
  | .orLookupByAddr => { a with look := false }     -- the peer may now be whoever sits at the source address
  | _ => a

def guardedFrom : Abs → List Op → Bool
  | _, [] => true
  | a, op :: rest =>
    match op with
    | .callPeer => a.asserted && a.dec && a.look
    | .returnAuth => a.asserted && a.dec
    | .callAddr => true
    | .callAddrData => true
    | .touchPeer => a.asserted && a.look && guardedFrom a rest
    | _ => guardedFrom (absStep a op) rest

/-- the static guard -/
def guarded (prog : List Op) : Bool := guardedFrom Abs.init prog

/-- no statement of the program hands a `Peer` to the handler -/
def noPeerCall (prog : List Op) : Bool := prog.all (fun o => o != .callPeer)
/-- no statement of the program enters the handler with a bare address -/
def noAddrCall (prog : List Op) : Bool := prog.all (fun o => o != .callAddr && o != .callAddrData)

variable {P : Type}

/-- what the abstract state means for the concrete variables -/
def Inv (E : Env P) (data : Bytes) (a : Abs) (r : Regs P) : Prop :=
  (a.asserted = true → a.ver = true) ∧ (a.dec = true → a.ver = true) ∧ (a.ver = true → a.auth = true) ∧
  (a.auth = true → ∃ kb e, r.auth = some kb ∧ unpackVarlenH E.strict data 23 = some (kb, e)) ∧
  (a.ver = true → ∃ kb v rem, r.auth = some kb ∧ r.sigValid = some v ∧ r.remainder = some rem ∧
      E.verifySig E.S kb data = some (v, rem)) ∧
  (a.asserted = true → r.sigValid = some true) ∧
  (a.dec = true → ∃ rem p, r.remainder = some rem ∧ r.unpacked = some p ∧ E.decode rem 23 = some p) ∧
  (a.look = true → ∃ kb, r.auth = some kb ∧ r.peer = some (E.net kb)) ∧
  (r.wd = none ∨ r.wd = some data)

theorem inv_init (E : Env P) (data : Bytes) : Inv E data Abs.init ({} : Regs P) := by
  simp [Inv, Abs.init]

/-- every non-terminal statement preserves the invariant -/
theorem inv_step {E : Env P} {data : Bytes} {a : Abs} {r r' : Regs P} {op : Op}
    (hi : Inv E data a r) (hs : step E data r op = .ok r') : Inv E data (absStep a op) r' := by
  obtain ⟨i1, i2, i3, i4, i5, i6, i7, i8, i9⟩ := hi
  cases op with
  | unpackAuth off =>
    simp only [step] at hs
    cases hu : unpackVarlenH E.strict data off with
    | none => simp [hu] at hs
    | some x =>
      obtain ⟨kb, e⟩ := x
      simp [hu] at hs
      subst hs
      refine ⟨by simp [absStep], by simp [absStep], by simp [absStep], ?_, by simp [absStep], by simp [absStep],
        by simp [absStep], by simp [absStep], i9⟩
      intro h
      simp [absStep] at h
      subst h
      exact ⟨kb, e, rfl, hu⟩
  | verify =>
    simp only [step] at hs
    cases ha : r.auth with
    | none => simp [ha] at hs
    | some kb =>
      simp only [ha] at hs
      cases hv : E.verifySig E.S kb data with
      | none => simp [hv] at hs
      | some y =>
        obtain ⟨v, rem⟩ := y
        simp [hv] at hs
        subst hs
        refine ⟨by simp [absStep], by simp [absStep], by simp [absStep], ?_, ?_, by simp [absStep],
          by simp [absStep], ?_, i9⟩
        · intro h
          simp [absStep] at h
          obtain ⟨kb', e, h1, h2⟩ := i4 h
          have hk : kb' = kb := by rw [ha] at h1; exact (Option.some.inj h1).symm
          subst hk
          exact ⟨kb', e, by first | rfl | exact ha, h2⟩
        · intro h
          exact ⟨kb, v, rem, by first | rfl | exact ha, rfl, rfl, hv⟩
        · intro h
          simp [absStep] at h
          obtain ⟨kb', h1, h2⟩ := i8 h
          have hk : kb' = kb := by rw [ha] at h1; exact (Option.some.inj h1).symm
          subst hk
          exact ⟨kb', by first | rfl | exact ha, h2⟩
  | decode src off =>
    simp only [step] at hs
    cases src with
    | data =>
      simp only at hs
      cases hd : E.decode data off with
      | none => simp [hd] at hs
      | some p =>
        simp [hd] at hs
        subst hs
        exact ⟨i1, by simp [absStep], i3, i4, i5, i6, by simp [absStep], i8, i9⟩
    | remainder =>
      simp only at hs
      cases hr : r.remainder with
      | none => simp [hr] at hs
      | some b =>
        simp only [hr] at hs
        cases hd : E.decode b off with
        | none => simp [hd] at hs
        | some p =>
          simp [hd] at hs
          subst hs
          refine ⟨i1, ?_, i3, i4, ?_, i6, ?_, i8, i9⟩
          · intro h
            simp [absStep] at h
            exact h.1
          · intro h
            obtain ⟨kb', v, rem, h1, h2, h3, h4⟩ := i5 h
            exact ⟨kb', v, rem, h1, h2, by first | exact h3 | (rw [hr] at h3; exact h3), h4⟩
          · intro h
            simp [absStep] at h
            obtain ⟨_, hoff⟩ := h
            subst hoff
            exact ⟨b, p, by first | rfl | exact hr, rfl, hd⟩
  | assertValid =>
    simp only [step] at hs
    cases hv : r.sigValid with
    | none => simp [hv] at hs
    | some v =>
      cases v with
      | false => simp [hv] at hs
      | true =>
        simp [hv] at hs
        subst hs
        exact ⟨by simp [absStep], i2, i3, i4, i5, by intro _; exact hv, i7, i8, i9⟩
  | lookupPeer =>
    simp only [step] at hs
    cases ha : r.auth with
    | none => simp [ha] at hs
    | some kb =>
      simp [ha] at hs
      subst hs
      refine ⟨i1, i2, i3, ?_, ?_, i6, i7, ?_, i9⟩
      · intro h
        obtain ⟨kb', e, h1, h2⟩ := i4 h
        have hk : kb' = kb := by rw [ha] at h1; exact (Option.some.inj h1).symm
        subst hk
        exact ⟨kb', e, by first | rfl | exact ha, h2⟩
      · intro h
        obtain ⟨kb', v, rem, h1, h2, h3, h4⟩ := i5 h
        have hk : kb' = kb := by rw [ha] at h1; exact (Option.some.inj h1).symm
        subst hk
        exact ⟨kb', v, rem, by first | rfl | exact ha, h2, h3, h4⟩
      · intro _
        exact ⟨kb, by first | rfl | exact ha, rfl⟩
  | orLookupByAddr =>
    simp only [step] at hs
    split at hs
    · cases hs
    · simp at hs
      subst hs
      exact ⟨i1, i2, i3, i4, i5, i6, i7, by simp [absStep], i9⟩
    · simp at hs
      subst hs
      exact ⟨i1, i2, i3, i4, i5, i6, i7, by simp [absStep], i9⟩
  | assertWeakened =>
    simp only [step] at hs
    split at hs
    · simp at hs
      subst hs
      exact ⟨i1, i2, i3, i4, i5, i6, i7, i8, i9⟩
    · split at hs
      · cases hs
      · simp at hs
        subst hs
        exact ⟨i1, i2, i3, i4, i5, i6, i7, i8, i9⟩
      · cases hs
  | assertDebug =>
    simp only [step] at hs
    split at hs
    · simp at hs
      subst hs
      exact ⟨i1, i2, i3, i4, i5, i6, i7, i8, i9⟩
    · split at hs
      · cases hs
      · simp at hs
        subst hs
        exact ⟨i1, i2, i3, i4, i5, i6, i7, i8, i9⟩
      · cases hs
  | touchPeer =>
    simp only [step] at hs
    split at hs
    · cases hs
    · simp at hs
      subst hs
      exact ⟨i1, i2, i3, i4, i5, i6, i7, i8, i9⟩
    · simp at hs
      subst hs
      exact ⟨i1, i2, i3, i4, i5, i6, i7, i8, i9⟩
  | appendData =>
    simp only [step] at hs
    simp at hs
    subst hs
    exact ⟨i1, i2, i3, i4, i5, i6, i7, i8, Or.inr rfl⟩
  | callPeer =>
    simp only [step] at hs
    split at hs
    · split at hs
      · cases hs
      · split at hs <;> cases hs
    · cases hs
  | callAddr =>
    simp only [step] at hs
    split at hs <;> cases hs
  | callAddrData =>
    simp only [step] at hs
    split at hs <;> cases hs
  | returnAuth =>
    simp only [step] at hs
    split at hs <;> cases hs

/-- the facts a guarded program has established when it hands over a `Peer` -/
def Checked (E : Env P) (data k : Bytes) (p : P) (wd : Option Bytes) : Prop :=
  ∃ kb e rem, unpackVarlenH E.strict data 23 = some (kb, e) ∧ E.verifySig E.S kb data = some (true, rem) ∧
    E.decode rem 23 = some p ∧ (E.net kb = some k ∨ (E.net kb = none ∧ E.S.parse kb = some k)) ∧
    (wd = none ∨ wd = some data)

theorem runFrom_guarded_called {E : Env P} {data k : Bytes} {p : P} {wd : Option Bytes} :
    ∀ (prog : List Op) (a : Abs) (r : Regs P), Inv E data a r → guardedFrom a prog = true →
      runFrom E data prog r = .called k p wd → Checked E data k p wd := by
  intro prog
  induction prog with
  | nil => intro a r _ _ h; simp [runFrom] at h
  | cons op rest ih =>
    intro a r hi hg h
    simp only [runFrom] at h
    cases hs : step E data r op with
    | ok r' =>
      simp only [hs] at h
      have hi' := inv_step hi hs
      have hg' : guardedFrom (absStep a op) rest = true := by
        cases op <;> first
          | (simpa [guardedFrom] using hg)
          | (simp only [guardedFrom, Bool.and_eq_true] at hg; simpa [absStep] using hg.2)
          | (simp only [step] at hs; (repeat' split at hs) <;> cases hs)
      exact ih _ _ hi' hg' h
    | error o =>
      simp only [hs] at h
      subst h
      cases op with
      | callPeer =>
        simp [guardedFrom] at hg
        obtain ⟨⟨hA, hD⟩, hL⟩ := hg
        obtain ⟨i1, i2, i3, i4, i5, i6, i7, i8, i9⟩ := hi
        obtain ⟨kb, v, rem, ha, hv, hr, hver⟩ := i5 (i1 hA)
        obtain ⟨kb0, e, ha0, hu⟩ := i4 (i3 (i1 hA))
        have hsv := i6 hA
        obtain ⟨rem', p', hr', hup, hdec⟩ := i7 hD
        obtain ⟨kb2, ha2, hpeer⟩ := i8 hL
        rw [ha] at ha0 ha2
        cases ha0
        cases ha2
        rw [hv] at hsv
        cases hsv
        rw [hr] at hr'
        cases hr'
        simp only [step, ha, hpeer, hup, newPeerKey] at hs
        cases hn : E.net kb with
        | some k' =>
          simp [hn] at hs
          obtain ⟨h1, h2, h3⟩ := hs
          subst h1 h2
          exact ⟨kb, e, rem, hu, hver, hdec, Or.inl hn, by rw [← h3]; exact i9⟩
        | none =>
          simp [hn] at hs
          cases hk : E.S.parse kb with
          | none => simp [hk] at hs
          | some k' =>
            simp [hk] at hs
            obtain ⟨h1, h2, h3⟩ := hs
            subst h1 h2
            exact ⟨kb, e, rem, hu, hver, hdec, Or.inr ⟨hn, hk⟩, by rw [← h3]; exact i9⟩
      | unpackAuth off => simp only [step] at hs; split at hs <;> simp at hs
      | verify => simp only [step] at hs; (repeat' split at hs) <;> simp at hs
      | decode src off => simp only [step] at hs; (repeat' split at hs) <;> simp at hs
      | assertValid => simp only [step] at hs; (repeat' split at hs) <;> simp at hs
      | lookupPeer => simp only [step] at hs; (repeat' split at hs) <;> simp at hs
      | orLookupByAddr => simp only [step] at hs; (repeat' split at hs) <;> simp at hs
      | touchPeer => simp only [step] at hs; (repeat' split at hs) <;> simp at hs
      | assertDebug => simp only [step] at hs; (repeat' split at hs) <;> simp at hs
      | assertWeakened => simp only [step] at hs; (repeat' split at hs) <;> simp at hs
      | appendData => simp [step] at hs
      | callAddr => simp only [step] at hs; (repeat' split at hs) <;> simp at hs
      | callAddrData => simp only [step] at hs; (repeat' split at hs) <;> simp at hs
      | returnAuth => simp only [step] at hs; (repeat' split at hs) <;> simp at hs

theorem runFrom_guarded_returned {E : Env P} {data kb : Bytes} {p : P} :
    ∀ (prog : List Op) (a : Abs) (r : Regs P), Inv E data a r → guardedFrom a prog = true →
      runFrom E data prog r = .returned kb p →
      ∃ e rem, unpackVarlenH E.strict data 23 = some (kb, e) ∧ E.verifySig E.S kb data = some (true, rem) ∧
        E.decode rem 23 = some p := by
  intro prog
  induction prog with
  | nil => intro a r _ _ h; simp [runFrom] at h
  | cons op rest ih =>
    intro a r hi hg h
    simp only [runFrom] at h
    cases hs : step E data r op with
    | ok r' =>
      simp only [hs] at h
      have hi' := inv_step hi hs
      have hg' : guardedFrom (absStep a op) rest = true := by
        cases op <;> first
          | (simpa [guardedFrom] using hg)
          | (simp only [guardedFrom, Bool.and_eq_true] at hg; simpa [absStep] using hg.2)
          | (simp only [step] at hs; (repeat' split at hs) <;> cases hs)
      exact ih _ _ hi' hg' h
    | error o =>
      simp only [hs] at h
      subst h
      cases op with
      | returnAuth =>
        simp [guardedFrom] at hg
        obtain ⟨hA, hD⟩ := hg
        obtain ⟨i1, i2, i3, i4, i5, i6, i7, i8, i9⟩ := hi
        obtain ⟨kb1, v, rem, ha, hv, hr, hver⟩ := i5 (i1 hA)
        obtain ⟨kb0, e, ha0, hu⟩ := i4 (i3 (i1 hA))
        have hsv := i6 hA
        obtain ⟨rem', p', hr', hup, hdec⟩ := i7 hD
        rw [ha] at ha0
        cases ha0
        rw [hv] at hsv
        cases hsv
        rw [hr] at hr'
        cases hr'
        simp only [step, ha, hup] at hs
        simp at hs
        obtain ⟨h1, h2⟩ := hs
        subst h1 h2
        exact ⟨e, rem, hu, hver, hdec⟩
      | unpackAuth off => simp only [step] at hs; split at hs <;> simp at hs
      | verify => simp only [step] at hs; (repeat' split at hs) <;> simp at hs
      | decode src off => simp only [step] at hs; (repeat' split at hs) <;> simp at hs
      | assertValid => simp only [step] at hs; (repeat' split at hs) <;> simp at hs
      | lookupPeer => simp only [step] at hs; (repeat' split at hs) <;> simp at hs
      | orLookupByAddr => simp only [step] at hs; (repeat' split at hs) <;> simp at hs
      | touchPeer => simp only [step] at hs; (repeat' split at hs) <;> simp at hs
      | assertDebug => simp only [step] at hs; (repeat' split at hs) <;> simp at hs
      | assertWeakened => simp only [step] at hs; (repeat' split at hs) <;> simp at hs
      | appendData => simp [step] at hs
      | callAddr => simp only [step] at hs; (repeat' split at hs) <;> simp at hs
      | callAddrData => simp only [step] at hs; (repeat' split at hs) <;> simp at hs
      | callPeer => simp only [step] at hs; (repeat' split at hs) <;> simp at hs

/-- a program without `callPeer` never hands over a `Peer` -/
theorem runFrom_noPeerCall {E : Env P} {data k : Bytes} {p : P} {wd : Option Bytes} :
    ∀ (prog : List Op) (r : Regs P), noPeerCall prog = true → runFrom E data prog r ≠ .called k p wd := by
  intro prog
  induction prog with
  | nil => intro r _ h; simp [runFrom] at h
  | cons op rest ih =>
    intro r hn h
    simp only [noPeerCall, List.all_cons, Bool.and_eq_true] at hn
    simp only [runFrom] at h
    cases hs : step E data r op with
    | ok r' =>
      simp only [hs] at h
      exact ih r' hn.2 h
    | error o =>
      simp only [hs] at h
      subst h
      cases op <;> first
        | (simp at hn; done)
        | (simp only [step] at hs; (repeat' split at hs) <;> simp at hs)

/-- a program without `callAddr`/`callAddrData` never enters the handler with a bare address -/
theorem runFrom_noAddrCall {E : Env P} {data : Bytes} {p : P} {wd : Option Bytes} :
    ∀ (prog : List Op) (r : Regs P), noAddrCall prog = true → runFrom E data prog r ≠ .calledAddr p wd := by
  intro prog
  induction prog with
  | nil => intro r _ h; simp [runFrom] at h
  | cons op rest ih =>
    intro r hn h
    simp only [noAddrCall, List.all_cons, Bool.and_eq_true] at hn
    simp only [runFrom] at h
    cases hs : step E data r op with
    | ok r' =>
      simp only [hs] at h
      exact ih r' hn.2 h
    | error o =>
      simp only [hs] at h
      subst h
      cases op <;> first
        | (simp at hn; done)
        | (simp only [step] at hs; (repeat' split at hs) <;> simp at hs)


/-- what must hold for the stored Peer of key `k` to have been touched -/
def TouchOK (E : Env P) (data k : Bytes) : Prop :=
  ∃ kb e rem, unpackVarlenH E.strict data 23 = some (kb, e) ∧ E.verifySig E.S kb data = some (true, rem) ∧
    E.net kb = some k

/-- a guarded program updates the address book of a stored verified Peer only after the datagram's signature was
    checked for exactly that Peer's key — whatever the final outcome of the wrapper (call or exception) -/
theorem touchedFrom_guarded {E : Env P} {data k : Bytes} :
    ∀ (prog : List Op) (a : Abs) (r : Regs P), Inv E data a r → guardedFrom a prog = true →
      (r.touched = some k → TouchOK E data k) → touchedFrom E data prog r = some k → TouchOK E data k := by
  intro prog
  induction prog with
  | nil => intro a r _ _ ht h; exact ht h
  | cons op rest ih =>
    intro a r hi hg ht h
    simp only [touchedFrom] at h
    cases hs : step E data r op with
    | error o =>
      simp only [hs] at h
      exact ht h
    | ok r' =>
      simp only [hs] at h
      have hi' := inv_step hi hs
      by_cases hop : op = .touchPeer
      · subst hop
        simp only [guardedFrom, Bool.and_eq_true] at hg
        obtain ⟨⟨hA, hL⟩, hrest⟩ := hg
        have hrest' : guardedFrom (absStep a .touchPeer) rest = true := by simpa [absStep] using hrest
        refine ih _ _ hi' hrest' ?_ h
        intro htr
        obtain ⟨i1, i2, i3, i4, i5, i6, i7, i8, i9⟩ := hi
        obtain ⟨kb, v, rem, ha, hv, hr, hver⟩ := i5 (i1 hA)
        obtain ⟨kb0, e, ha0, hu⟩ := i4 (i3 (i1 hA))
        have hsv := i6 hA
        obtain ⟨kb2, ha2, hpeer⟩ := i8 hL
        rw [ha] at ha0 ha2
        cases ha0
        cases ha2
        rw [hv] at hsv
        cases hsv
        simp only [step, hpeer] at hs
        cases hn : E.net kb with
        | none =>
          simp [hn] at hs
          subst hs
          exact ht htr
        | some k' =>
          simp [hn] at hs
          subst hs
          simp at htr
          subst htr
          exact ⟨kb, e, rem, hu, hver, hn⟩
      · have hg' : guardedFrom (absStep a op) rest = true := by
          cases op <;> first
            | (exact absurd rfl hop)
            | (simpa [guardedFrom] using hg)
            | (simp only [step] at hs; (repeat' split at hs) <;> cases hs)
        refine ih _ _ hi' hg' ?_ h
        intro htr
        apply ht
        -- no other statement writes `touched`
        cases op <;> first
          | (exact absurd rfl hop)
          | (simp only [step] at hs
             (repeat' split at hs) <;> first | (cases hs; done) | (simp at hs; subst hs; simpa using htr))

theorem touchedBy_guarded {E : Env P} {data k : Bytes} {prog : List Op} (hg : guarded prog = true)
    (h : touchedBy E prog data = some k) : TouchOK E data k :=
  touchedFrom_guarded prog Abs.init {} (inv_init E data) hg (by simp) h

/-- the entry points for `run` -/
theorem run_guarded_called {E : Env P} {data k : Bytes} {p : P} {wd : Option Bytes} {prog : List Op}
    (hg : guarded prog = true) (h : run E prog data = .called k p wd) : Checked E data k p wd :=
  runFrom_guarded_called prog Abs.init {} (inv_init E data) hg h

theorem run_guarded_returned {E : Env P} {data kb : Bytes} {p : P} {prog : List Op}
    (hg : guarded prog = true) (h : run E prog data = .returned kb p) :
    ∃ e rem, unpackVarlenH E.strict data 23 = some (kb, e) ∧ E.verifySig E.S kb data = some (true, rem) ∧
      E.decode rem 23 = some p :=
  runFrom_guarded_returned prog Abs.init {} (inv_init E data) hg h

end Ipv8.C01
