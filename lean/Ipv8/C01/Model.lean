/-
  C01 — model of the authenticated receive path (core Lean only; executable).

  Mirrors (ipv8/lazy_community.py, ipv8/community.py, ipv8/peerdiscovery/community.py, ipv8/peerdiscovery/network.py):
    * Python slice semantics `data[a:b]` with negative / out-of-range bounds            → `pySlice`
    * `VarLen(">H").unpack` for the `BinMemberAuthenticationPayload` at offset 23      → `unpackVarlenH`
      (today's packer does not bound-check the declared length; `strict` says which behaviour the live packer has)
    * the wrapper bodies of `lazy_wrapper`, `lazy_wrapper_wd`, `lazy_wrapper_unsigned[_wd]`, `_ez_unpack_auth`
      as op lists interpreted by `run`; the op lists themselves are GENERATED from the source (Gen.lean)
    * `_verify_signature` is GENERATED (Gen.verifySignature); the interpreter takes it as a parameter
    * `Community.on_packet` (prefix compare, msg id, decode_map, try/except)          → `onPacket`
    * `DiscoveryCommunity.on_old_introduction_request` (raw handler, two `_ez_unpack_auth` attempts) → `discRaw`
    * `Network.verified_by_public_key_bin` as an association list; `add_verified_peer` keyed by the peer's own key
    * a node as a state machine over datagram histories                                 → `Node.recv`, `Node.runHistory`

  Cryptography is a parameter (`Scheme`): key parsing may fail, returns the key's canonical encoding
  (`key_from_public_bin(b).key_to_bin()`, which ignores trailing bytes for every curve — observed), a signature
  length per key and a boolean verification function.  No law of the scheme is assumed in this file.
-/
import Ipv8.Base.Proto

namespace Ipv8.C01
open Ipv8

/-! ### Python slices -/

/-- normalise one slice bound like CPython: negative bounds count from the end, everything is clamped to `[0, len]` -/
def normIdx (len : Nat) (i : Int) : Nat :=
  if i < 0 then Int.toNat ((len : Int) + i) else min i.toNat len

/-- `d[lo:hi]` (step 1) -/
def pySlice (d : Bytes) (lo hi : Option Int) : Bytes :=
  let a := match lo with | none => 0 | some i => normIdx d.length i
  let b := match hi with | none => d.length | some i => normIdx d.length i
  (d.take b).drop a

/-! ### varlenH -/

def be16 (a b : UInt8) : Nat := a.toNat * 256 + b.toNat

/-- `VarLen(">H").unpack(data, off)`: `struct.unpack_from` needs two bytes; the payload is `data[off+2 : off+2+len]`
    (silently truncated by the slice when `strict = false`, `PackError` when the packer checks the bound) -/
def unpackVarlenH (strict : Bool) (d : Bytes) (off : Nat) : Option (Bytes × Nat) :=
  match d.drop off with
  | a :: b :: rest =>
    let l := be16 a b
    if strict && decide (rest.length < l) then none else some (rest.take l, off + 2 + l)
  | _ => none

/-- `VarLen(">H").pack` (length must fit two bytes; the caller's obligation) -/
def packVarlenH (k : Bytes) : Bytes :=
  UInt8.ofNat (k.length / 256) :: UInt8.ofNat (k.length % 256) :: k

/-! ### abstract signature scheme -/

structure Scheme where
  /-- `key_from_public_bin(b).key_to_bin()`; `none` when the key material does not parse -/
  parse : Bytes → Option Bytes
  /-- `get_signature_length` of a (canonical) key -/
  sigLen : Bytes → Nat
  /-- `is_valid_signature(key, message, signature)` (exception-safe: any failure is `false`) -/
  verify : Bytes → Bytes → Bytes → Bool

/-- the sending side: private keys, their public encoding, signing -/
structure Signer extends Scheme where
  SK : Type
  pub : SK → Bytes
  sign : SK → Bytes → Bytes

/-! ### wrapper programs -/

inductive Src | remainder | data
  deriving DecidableEq, Repr

/-- the statements a wrapper body may consist of (see tools/gen_c01.py for the Python form of each) -/
inductive Op
  | unpackAuth (off : Nat)        -- auth, _ = unpack_serializable(BinMemberAuthenticationPayload, data, offset=off)
  | verify                        -- signature_valid, remainder = self._verify_signature(auth, data)
  | decode (src : Src) (off : Nat) -- unpacked = unpack_serializable_list(payloads, src, offset=off)   (consume_all)
  | assertValid                   -- if not signature_valid: raise PacketDecodingError
  | assertWeakened                -- if not signature_valid and <another condition>: raise      (NOT in the code today: the
                                  --   check is skipped whenever the other condition is false; fails the guard)
  | assertDebug                   -- assert signature_valid, msg     (compiled away under python -O / PYTHONOPTIMIZE;
                                  --   NOT in the code today; translated so that it fails the guard, not the translator)
  | lookupPeer                    -- peer = network.verified_by_public_key_bin.get(auth.public_key_bin)
  | orLookupByAddr                -- peer = peer or network.get_verified_by_address(source_address)   (NOT in the code
                                  --   today; translated so that such an `or`-chain fails the guard, not the translator)
  | touchPeer                     -- if peer: peer.add_address(source_address)   (mutates the STORED verified Peer)
  | appendData                    -- output = [*unpacked, data]
  | callPeer                      -- return func(self, peer or Peer(auth.public_key_bin, source_address), *unpacked)
  | callAddr                      -- return func(self, source_address, *unpacked)
  | callAddrData                  -- … with data=data
  | returnAuth                    -- return auth, unpacked[0], unpacked[1]        (_ez_unpack_auth)
  deriving DecidableEq, Repr

inductive Stage | keyField | keyParse | decode | signature
  deriving DecidableEq, Repr

/-- what a handler invocation attempt ends in; `P` is the type of decoded payload lists -/
inductive Outcome (P : Type)
  /-- wrapped function entered with a `Peer` whose key is `peerKey`; `wd` = raw datagram if passed -/
  | called (peerKey : Bytes) (payloads : P) (wd : Option Bytes)
  /-- wrapped function entered with the source address only (unsigned wrappers) -/
  | calledAddr (payloads : P) (wd : Option Bytes)
  /-- `_ez_unpack_auth` returned `(auth, …)` -/
  | returned (authKeyBin : Bytes) (payloads : P)
  /-- an exception left the wrapper (caught by `on_packet`) -/
  | rejected (stage : Stage)
  /-- the op list reads a variable that was never assigned / ends without a return (cannot come from the translator) -/
  | stuck
  deriving Repr, DecidableEq

/-- what the wrapper's environment provides -/
structure Env (P : Type) where
  S : Scheme
  strict : Bool
  /-- the generated `_verify_signature` -/
  verifySig : Scheme → Bytes → Bytes → Option (Bool × Bytes)
  /-- `unpack_serializable_list(payloads, buf, offset)` with `consume_all`; `none` = PackError -/
  decode : Bytes → Nat → Option P
  /-- the second payload format a raw handler falls back to (`DiscoveryCommunity.on_old_introduction_request`:
      first `DiscoveryIntroductionRequestPayload`, then `IntroductionRequestPayload`); irrelevant for wrappers -/
  decodeAlt : Bytes → Nat → Option P := decode
  /-- `Network.verified_by_public_key_bin.get`: carried key bytes ↦ canonical key of the stored `Peer` -/
  net : Bytes → Option Bytes
  /-- `Network.get_verified_by_address(source_address)`: key of whichever verified peer is recorded at the source
      address of this datagram (unrelated to what the datagram carries) -/
  netAddr : Option Bytes := none
  /-- interpreter configuration: `python -O` / `PYTHONOPTIMIZE` (assert statements are not executed) -/
  optimized : Bool := false
  /-- value of the extra condition of a weakened check (`if not signature_valid and <cond>`) for this datagram -/
  weakCond : Bool := true

structure Regs (P : Type) where
  auth : Option Bytes := none
  sigValid : Option Bool := none
  remainder : Option Bytes := none
  unpacked : Option P := none
  peer : Option (Option Bytes) := none
  wd : Option Bytes := none
  /-- key of the stored verified Peer whose address book was updated with the source address of this datagram -/
  touched : Option Bytes := none

/-- `Peer(auth.public_key_bin, source_address)`: parses the key again; the peer's identity is the canonical key -/
def newPeerKey (S : Scheme) (kb : Bytes) : Option Bytes := S.parse kb

def step {P : Type} (E : Env P) (data : Bytes) (r : Regs P) : Op → Except (Outcome P) (Regs P)
  | .unpackAuth off =>
    match unpackVarlenH E.strict data off with
    | none => .error (.rejected .keyField)
    | some (kb, _) => .ok { r with auth := some kb }
  | .verify =>
    match r.auth with
    | none => .error .stuck
    | some kb =>
      match E.verifySig E.S kb data with
      | none => .error (.rejected .keyParse)
      | some (v, rem) => .ok { r with sigValid := some v, remainder := some rem }
  | .decode src off =>
    let buf := match src with | .data => some data | .remainder => r.remainder
    match buf with
    | none => .error .stuck
    | some b =>
      match E.decode b off with
      | none => .error (.rejected .decode)
      | some p => .ok { r with unpacked := some p }
  | .assertValid =>
    match r.sigValid with
    | none => .error .stuck
    | some true => .ok r
    | some false => .error (.rejected .signature)
  | .assertWeakened =>
    if !E.weakCond then .ok r else
    match r.sigValid with
    | none => .error .stuck
    | some true => .ok r
    | some false => .error (.rejected .signature)
  | .assertDebug =>
    if E.optimized then .ok r else
    match r.sigValid with
    | none => .error .stuck
    | some true => .ok r
    | some false => .error (.rejected .signature)
  | .lookupPeer =>
    match r.auth with
    | none => .error .stuck
    | some kb => .ok { r with peer := some (E.net kb) }
  | .orLookupByAddr =>
    match r.peer with
    | none => .error .stuck
    | some (some _) => .ok r
    | some none => .ok { r with peer := some E.netAddr }
  | .touchPeer =>
    match r.peer with
    | none => .error .stuck
    | some none => .ok r
    | some (some k) => .ok { r with touched := some k }
  | .appendData => .ok { r with wd := some data }
  | .callPeer =>
    match r.auth, r.peer, r.unpacked with
    | some kb, some found, some p =>
      match found with
      | some k => .error (.called k p r.wd)
      | none =>
        match newPeerKey E.S kb with
        | some k => .error (.called k p r.wd)
        | none => .error (.rejected .keyParse)
    | _, _, _ => .error .stuck
  | .callAddr =>
    match r.unpacked with
    | some p => .error (.calledAddr p none)
    | none => .error .stuck
  | .callAddrData =>
    match r.unpacked with
    | some p => .error (.calledAddr p (some data))
    | none => .error .stuck
  | .returnAuth =>
    match r.auth, r.unpacked with
    | some kb, some p => .error (.returned kb p)
    | _, _ => .error .stuck

def runFrom {P : Type} (E : Env P) (data : Bytes) : List Op → Regs P → Outcome P
  | [], _ => .stuck
  | op :: rest, r =>
    match step E data r op with
    | .error o => o
    | .ok r' => runFrom E data rest r'

/-- run a wrapper body on a datagram -/
def run {P : Type} (E : Env P) (prog : List Op) (data : Bytes) : Outcome P := runFrom E data prog {}

/-- the side effect of a wrapper body on the receiver's stored Peers, whatever the outcome (also when it ends in an
    exception): the key of the verified Peer whose addresses were updated with this datagram's source address -/
def touchedFrom {P : Type} (E : Env P) (data : Bytes) : List Op → Regs P → Option Bytes
  | [], r => r.touched
  | op :: rest, r =>
    match step E data r op with
    | .error _ => r.touched
    | .ok r' => touchedFrom E data rest r'

def touchedBy {P : Type} (E : Env P) (prog : List Op) (data : Bytes) : Option Bytes := touchedFrom E data prog {}

/-! ### reference programs (what the wrappers are today; documentation and examples only — the theorems quantify
     over every program that passes the static guard of Guard.lean, and Gen.lean's programs are shown to pass it) -/

def refSigned : List Op :=
  [.unpackAuth 23, .verify, .decode .remainder 23, .assertValid, .lookupPeer, .touchPeer, .callPeer]
def refSignedWd : List Op :=
  [.unpackAuth 23, .verify, .decode .remainder 23, .assertValid, .appendData, .lookupPeer, .touchPeer, .callPeer]
def refUnsigned : List Op := [.decode .data 23, .callAddr]
def refEzUnpackAuth : List Op := [.unpackAuth 23, .verify, .decode .remainder 23, .assertValid, .returnAuth]

/-- what `_verify_signature` must be (Gen.verifySignature is proved equal to this by `rfl`) -/
def refVerifySignature (S : Scheme) (keyBin data : Bytes) : Option (Bool × Bytes) :=
  match S.parse keyBin with
  | none => none
  | some pk =>
    let n : Int := (S.sigLen pk : Int)
    some (S.verify pk (pySlice data none (some (-n))) (pySlice data (some (-n)) none),
          pySlice data (some ((2 : Int) + (keyBin.length : Int))) (some (-n)))

/-! ### the specification's notion of an authentic datagram -/

/-- the key field the specification names: the varlenH at offset 23 -/
def keyField (strict : Bool) (data : Bytes) : Option Bytes := (unpackVarlenH strict data 23).map (·.1)

/-- `data` ends in a signature of the key it carries (at offset 23) over every byte that precedes the signature -/
def Authentic (S : Scheme) (strict : Bool) (data : Bytes) (k : Bytes) : Prop :=
  ∃ kb signed sg, keyField strict data = some kb ∧ S.parse kb = some k ∧
    data = signed ++ sg ∧ sg.length = S.sigLen k ∧ S.verify k signed sg = true

/-! ### handler tables and dispatch -/

/-- `raw` = the REVIEWED raw handler shape (spec raw_modelled: authenticates by calling `_ez_unpack_auth` itself, modelled
    by `discRaw`); `rawOther` = any other undecorated function (not modelled: `Dispatch.other`) -/
inductive Kind | signed | signedWd | unsigned | unsignedWd | deprecated | cell | cellDirect | raw | rawOther
  deriving DecidableEq, Repr

structure Handler where
  msgId : Nat
  name : String
  kind : Kind
  payloads : List String
  deriving Repr, DecidableEq

structure Overlay where
  name : String
  pfx : Bytes
  handlers : List Handler
  /-- members of the receive / send path that this overlay class (or a class between it and EZPackOverlay / Community)
      OVERRIDES: `_verify_signature`, `_ez_unpack_auth`, `_ez_pack`, `ezr_pack`, `on_packet`, `add_message_handler`.  The
      theorems are about the base definitions; they speak about an overlay only if this list is empty. -/
  overrides : List String := []
  deriving Repr

def Overlay.find (o : Overlay) (m : Nat) : Option Handler := o.handlers.find? (fun h => h.msgId == m)

def findOverlay (os : List Overlay) (n : String) : Option Overlay := os.find? (fun o => o.name == n)

def kindOf (os : List Overlay) (n : String) (m : Nat) : Option Kind :=
  match findOverlay os n with
  | none => none
  | some o => (o.find m).map (·.kind)

def Kind.authenticating : Kind → Bool
  | .signed | .signedWd => true
  | _ => false

/-- the wrapper programs in force (generated) -/
structure Progs where
  signed : List Op
  signedWd : List Op
  unsigned : List Op
  unsignedWd : List Op
  ezUnpackAuth : List Op
  /-- does the raw handler catch PacketDecodingError / PackError of the first attempt and try the second format? -/
  rawCatches : Bool := true

def refProgs : Progs :=
  { signed := refSigned, signedWd := refSignedWd, unsigned := refUnsigned,
    unsignedWd := refUnsigned.map (fun o => match o with | .callAddr => .callAddrData | o => o),
    ezUnpackAuth := refEzUnpackAuth }

inductive Dispatch (P : Type)
  | droppedPrefix
  | droppedShort            -- no msg-id byte: `len(data) < 23` returns (before C03's repair: IndexError on data[22])
  | noHandler
  | handler (h : Handler) (o : Outcome P)
  | other (h : Handler)     -- deprecated / cell / unreviewed raw handlers: not modelled further here
  deriving Repr, DecidableEq

/-- `DiscoveryCommunity.on_old_introduction_request` after the max_peers gate: `_ez_unpack_auth` with the first
    payload format, on PacketDecodingError / PackError again with the second (`decodeAlt`); then
    `Peer(auth.public_key_bin, source_address)` (and `add_verified_peer(peer)`, see `Node.recv`) -/
def discRaw {P : Type} (E : Env P) (prog : List Op) (catches : Bool) (data : Bytes) : Outcome P :=
  let E2 : Env P := { E with decode := E.decodeAlt }
  let fin : Outcome P → Outcome P := fun o =>
    match o with
    | .returned kb p =>
      match newPeerKey E.S kb with
      | some k => .called k p none
      | none => .rejected .keyParse
    | o => o
  match run E prog data with
  | .rejected .keyParse => .rejected .keyParse            -- ValueError is not caught
  | .rejected st => if catches then fin (run E2 prog data) else .rejected st
  | o => fin o

/-- `Community.on_packet` for one overlay; `envOf h` gives the environment (payload decoder) of handler `h` -/
def onPacket {P : Type} (G : Progs) (o : Overlay) (envOf : Handler → Env P) (prefixLen msgOff : Nat)
    (data : Bytes) : Dispatch P :=
  if data.take prefixLen ≠ o.pfx then .droppedPrefix
  else match data[msgOff]? with
    | none => .droppedShort
    | some m =>
      match o.find m.toNat with
      | none => .noHandler
      | some h =>
        match h.kind with
        | .signed => .handler h (run (envOf h) G.signed data)
        | .signedWd => .handler h (run (envOf h) G.signedWd data)
        | .unsigned => .handler h (run (envOf h) G.unsigned data)
        | .unsignedWd => .handler h (run (envOf h) G.unsignedWd data)
        | .raw => .handler h (discRaw (envOf h) G.ezUnpackAuth G.rawCatches data)
        | _ => .other h

/-! ### liveness bookkeeping in `on_packet` (before any check) -/

/-- what `on_packet` uses to find the "probable peer" whose `last_response` it refreshes for EVERY incoming datagram -/
inductive LivenessSource
  | sourceAddress      -- network.get_verified_by_address(source_address)
  | datagramContent    -- anything computed from `data` (e.g. the key named at offset 23): NOT in the code today
  deriving DecidableEq, Repr

/-- the stored Peer that gets the liveness credit: first source that yields one -/
def livenessCredit (srcs : List LivenessSource) (netAddr : Option Bytes) (net : Bytes → Option Bytes) (data : Bytes) :
    Option Bytes :=
  srcs.foldl (fun acc s =>
    match acc with
    | some k => some k
    | none =>
      match s with
      | .sourceAddress => netAddr
      | .datagramContent => (keyField false data).bind net) none

/-! ### a node over histories: who ends up in `verified_peers` -/

/-- The key index of ONE `Network`, shared by all overlays of an IPv8 instance.  Modelling assumption (not derived from
    handler bodies): a handler can add only the authenticated Peer it was handed (`add_verified_peer(peer)`); whether a
    given handler does so is left open (`adds`).  Code that adds verified peers outside handlers (DHT `PingChurn`,
    `Network.discover_address`) is outside this model; the harness watches it on the implementation. -/
structure Node where
  verified : List Bytes := []

def Node.net (n : Node) (kb : Bytes) : Option Bytes := if kb ∈ n.verified then some kb else none

/-- one datagram arriving at overlay `o` of the node -/
def Node.recv {P : Type} (G : Progs) (envOf : Handler → Env P) (adds : Handler → Bool)
    (n : Node) (o : Overlay) (data : Bytes) : Node :=
  match onPacket G o (fun h => { envOf h with net := n.net }) 22 22 data with
  | .handler h (.called k _ _) => if adds h && !(n.verified.contains k) then { verified := k :: n.verified } else n
  | _ => n

/-- a history: which overlay of the node each datagram is delivered to -/
def Node.runHistory {P : Type} (G : Progs) (envOf : Handler → Env P) (adds : Handler → Bool) :
    Node → List (Overlay × Bytes) → Node
  | n, [] => n
  | n, (o, d) :: ds => Node.runHistory G envOf adds (Node.recv G envOf adds n o d) ds

end Ipv8.C01
