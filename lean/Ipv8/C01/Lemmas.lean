/-
  C01 — helper lemmas (slices, varlenH, characterisation of the wrapper programs).
-/
import Ipv8.C01.Guard

namespace Ipv8.C01
open Ipv8

/-! ### Python slices with a signature length -/

theorem normIdx_neg (len n : Nat) (h : 0 < n) : normIdx len (-(n : Int)) = len - n := by
  unfold normIdx
  have : (-(n : Int)) < 0 := by omega
  simp only [this, if_true]
  omega

theorem normIdx_nonneg (len a : Nat) : normIdx len ((a : Int)) = min a len := by
  unfold normIdx
  have : ¬ ((a : Int) < 0) := by omega
  simp only [this, if_false, Int.toNat_natCast]

/-- `data[:-n]` for `n > 0` -/
theorem slice_signed (d : Bytes) (n : Nat) (h : 0 < n) :
    pySlice d none (some (-(n : Int))) = d.take (d.length - n) := by
  simp [pySlice, normIdx_neg _ _ h]

/-- `data[-n:]` for `n > 0` -/
theorem slice_sig (d : Bytes) (n : Nat) (h : 0 < n) :
    pySlice d (some (-(n : Int))) none = d.drop (d.length - n) := by
  simp [pySlice, normIdx_neg _ _ h]

/-- `data[2+kl:-n]` for `n > 0`: a suffix of the signed part -/
theorem slice_remainder (d : Bytes) (kl n : Nat) (h : 0 < n) :
    pySlice d (some ((2 : Int) + (kl : Int))) (some (-(n : Int))) = (d.take (d.length - n)).drop (2 + kl) := by
  have e : ((2 : Int) + (kl : Int)) = ((2 + kl : Nat) : Int) := by omega
  simp only [pySlice, normIdx_neg _ _ h, e, normIdx_nonneg]
  by_cases hc : 2 + kl ≤ d.length
  · rw [Nat.min_eq_left hc]
  · have h1 : min (2 + kl) d.length = d.length := Nat.min_eq_right (by omega)
    rw [h1]
    rw [List.drop_eq_nil_of_le (by simp), List.drop_eq_nil_of_le (by simp; omega)]

/-- `data[:-0]` is empty and `data[-0:]` is everything (the degenerate case the scheme law `0 < sigLen` excludes) -/
theorem slice_zero (d : Bytes) : pySlice d none (some (-((0 : Nat) : Int))) = [] ∧
    pySlice d (some (-((0 : Nat) : Int))) none = d := by
  simp [pySlice, normIdx]

theorem split_at_sig (d : Bytes) (n : Nat) (hn : n ≤ d.length) :
    d = d.take (d.length - n) ++ d.drop (d.length - n) ∧ (d.drop (d.length - n)).length = n := by
  constructor
  · exact (List.take_append_drop _ _).symm
  · simp; omega

/-! ### varlenH -/

theorem unpackVarlenH_some {strict : Bool} {d : Bytes} {off : Nat} {kb : Bytes} {e : Nat}
    (h : unpackVarlenH strict d off = some (kb, e)) :
    ∃ a b rest, d.drop off = a :: b :: rest ∧ kb = rest.take (be16 a b) := by
  unfold unpackVarlenH at h
  split at h
  · rename_i a b rest heq
    simp only at h
    split at h
    · cases h
    · simp only [Option.some.injEq, Prod.mk.injEq] at h
      exact ⟨a, b, rest, heq, h.1.symm⟩
  · cases h

/-- a key field, once extracted, lies inside the datagram: `25 + |key| ≤ |data|` (offset 23) -/
theorem keyField_length {strict : Bool} {d kb : Bytes} (h : keyField strict d = some kb) :
    25 + kb.length ≤ d.length := by
  unfold keyField at h
  cases hu : unpackVarlenH strict d 23 with
  | none => simp [hu] at h
  | some x =>
    obtain ⟨kb', e⟩ := x
    simp [hu] at h
    subst h
    obtain ⟨a, b, rest, hd, hk⟩ := unpackVarlenH_some hu
    have hl : (d.drop 23).length = 2 + rest.length := by rw [hd]; simp; omega
    simp at hl
    subst hk
    simp
    omega

theorem be16_pack (l : Nat) (h : l < 65536) : be16 (UInt8.ofNat (l / 256)) (UInt8.ofNat (l % 256)) = l := by
  simp only [be16, UInt8.toNat_ofNat']
  omega

/-! ### characterisation of the reference programs -/

variable {P : Type}

/-- unfolding of `on_packet` when a handler was entered with a `Peer` -/
theorem onPacket_called {G : Progs} {o : Overlay} {envOf : Handler → Env P} {pl mo : Nat} {data k : Bytes}
    {hd : Handler} {p : P} {wd : Option Bytes}
    (h : onPacket G o envOf pl mo data = .handler hd (.called k p wd)) :
    data.take pl = o.pfx ∧ ∃ m, data[mo]? = some m ∧ o.find m.toNat = some hd ∧
      ((hd.kind = .signed ∧ run (envOf hd) G.signed data = .called k p wd) ∨
       (hd.kind = .signedWd ∧ run (envOf hd) G.signedWd data = .called k p wd) ∨
       (hd.kind = .unsigned ∧ run (envOf hd) G.unsigned data = .called k p wd) ∨
       (hd.kind = .unsignedWd ∧ run (envOf hd) G.unsignedWd data = .called k p wd)) := by
  unfold onPacket at h
  split at h
  · cases h
  · rename_i hpfx
    have hpfx' : data.take pl = o.pfx := Decidable.not_not.mp hpfx
    refine ⟨hpfx', ?_⟩
    split at h
    · cases h
    · rename_i m hm
      refine ⟨m, hm, ?_⟩
      split at h
      · cases h
      · rename_i h' hf
        split at h
        all_goals first
          | (cases h; done)
          | (rename_i hk
             simp only [Dispatch.handler.injEq] at h
             obtain ⟨h1, h2⟩ := h
             subst h1
             simp [hf, hk, h2])

/-- unfolding of `on_packet` when some wrapper ran -/
theorem onPacket_handler {G : Progs} {o : Overlay} {envOf : Handler → Env P} {pl mo : Nat} {data : Bytes}
    {hd : Handler} {out : Outcome P} (h : onPacket G o envOf pl mo data = .handler hd out) :
    hd ∈ o.handlers ∧
      ((hd.kind = .signed ∧ out = run (envOf hd) G.signed data) ∨
       (hd.kind = .signedWd ∧ out = run (envOf hd) G.signedWd data) ∨
       (hd.kind = .unsigned ∧ out = run (envOf hd) G.unsigned data) ∨
       (hd.kind = .unsignedWd ∧ out = run (envOf hd) G.unsignedWd data)) := by
  unfold onPacket at h
  split at h
  · cases h
  · split at h
    · cases h
    · split at h
      · cases h
      · rename_i h' hf
        have hmem : h' ∈ o.handlers := List.mem_of_find?_eq_some hf
        split at h
        all_goals first
          | (cases h; done)
          | (rename_i hk
             simp only [Dispatch.handler.injEq] at h
             obtain ⟨h1, h2⟩ := h
             subst h1
             simp [hmem, hk, h2])

end Ipv8.C01
