/-
  C01 — helper lemmas (slices, varlenH, characterisation of the wrapper programs).
-/
import Ipv8.C01.Guard

namespace Ipv8.C01
open Ipv8

/-! ### Python slices with a signature length -/

theorem normIdx_neg (len n : Nat) (h : 0 < n) : normIdx len (-(n : Int)) = len - n := by
  unfold normIdx
  have : (-(n : Int)) < 0 := by omega
  simp only [this, if_true]
  omega

theorem normIdx_nonneg (len a : Nat) : normIdx len ((a : Int)) = min a len := by
  unfold normIdx
  have : ¬ ((a : Int) < 0) := by omega
  simp only [this, if_false, Int.toNat_natCast]

/-- `data[:-n]` for `n > 0` -/
theorem slice_signed (d : Bytes) (n : Nat) (h : 0 < n) :
    pySlice d none (some (-(n : Int))) = d.take (d.length - n) := by
  simp [pySlice, normIdx_neg _ _ h]

/-- `data[-n:]` for `n > 0` -/
theorem slice_sig (d : Bytes) (n : Nat) (h : 0 < n) :
    pySlice d (some (-(n : Int))) none = d.drop (d.length - n) := by
  simp [pySlice, normIdx_neg _ _ h]

/-- `data[2+kl:-n]` for `n > 0`: a suffix of the signed part -/
theorem slice_remainder (d : Bytes) (kl n : Nat) (h : 0 < n) :
    pySlice d (some ((2 : Int) + (kl : Int))) (some (-(n : Int))) = (d.take (d.length - n)).drop (2 + kl) := by
  have e : ((2 : Int) + (kl : Int)) = ((2 + kl : Nat) : Int) := by omega
  simp only [pySlice, normIdx_neg _ _ h, e, normIdx_nonneg]
  by_cases hc : 2 + kl ≤ d.length
  · rw [Nat.min_eq_left hc]
  · have h1 : min (2 + kl) d.length = d.length := Nat.min_eq_right (by omega)
    rw [h1]
    rw [List.drop_eq_nil_of_le (by simp), List.drop_eq_nil_of_le (by simp; omega)]

/-- `data[:-0]` is empty and `data[-0:]` is everything (the degenerate case the scheme law `0 < sigLen` excludes) -/
theorem slice_zero (d : Bytes) : pySlice d none (some (-((0 : Nat) : Int))) = [] ∧
    pySlice d (some (-((0 : Nat) : Int))) none = d := by
  simp [pySlice, normIdx]

theorem split_at_sig (d : Bytes) (n : Nat) (hn : n ≤ d.length) :
    d = d.take (d.length - n) ++ d.drop (d.length - n) ∧ (d.drop (d.length - n)).length = n := by
  constructor
  · exact (List.take_append_drop _ _).symm
  · simp; omega

/-! ### varlenH -/

theorem unpackVarlenH_some {strict : Bool} {d : Bytes} {off : Nat} {kb : Bytes} {e : Nat}
    (h : unpackVarlenH strict d off = some (kb, e)) :
    ∃ a b rest, d.drop off = a :: b :: rest ∧ kb = rest.take (be16 a b) := by
  unfold unpackVarlenH at h
  split at h
  · rename_i a b rest heq
    simp only at h
    split at h
    · cases h
    · simp only [Option.some.injEq, Prod.mk.injEq] at h
      exact ⟨a, b, rest, heq, h.1.symm⟩
  · cases h

/-- a key field, once extracted, lies inside the datagram: `25 + |key| ≤ |data|` (offset 23) -/
theorem keyField_length {strict : Bool} {d kb : Bytes} (h : keyField strict d = some kb) :
    25 + kb.length ≤ d.length := by
  unfold keyField at h
  cases hu : unpackVarlenH strict d 23 with
  | none => simp [hu] at h
  | some x =>
    obtain ⟨kb', e⟩ := x
    simp [hu] at h
    subst h
    obtain ⟨a, b, rest, hd, hk⟩ := unpackVarlenH_some hu
    have hl : (d.drop 23).length = 2 + rest.length := by rw [hd]; simp; omega
    simp at hl
    subst hk
    simp
    omega

theorem be16_pack (l : Nat) (h : l < 65536) : be16 (UInt8.ofNat (l / 256)) (UInt8.ofNat (l % 256)) = l := by
  simp only [be16, UInt8.toNat_ofNat']
  omega

/-! ### characterisation of the reference programs -/

variable {P : Type}

/-- unfolding of `on_packet` when a handler was entered with a `Peer` -/
theorem onPacket_called {G : Progs} {o : Overlay} {envOf : Handler → Env P} {pl mo : Nat} {data k : Bytes}
    {hd : Handler} {p : P} {wd : Option Bytes}
    (h : onPacket G o envOf pl mo data = .handler hd (.called k p wd)) :
    data.take pl = o.pfx ∧ ∃ m, data[mo]? = some m ∧ o.find m.toNat = some hd ∧
      ((hd.kind = .signed ∧ run (envOf hd) G.signed data = .called k p wd) ∨
       (hd.kind = .signedWd ∧ run (envOf hd) G.signedWd data = .called k p wd) ∨
       (hd.kind = .unsigned ∧ run (envOf hd) G.unsigned data = .called k p wd) ∨
       (hd.kind = .unsignedWd ∧ run (envOf hd) G.unsignedWd data = .called k p wd) ∨
       (hd.kind = .raw ∧ discRaw (envOf hd) G.ezUnpackAuth G.rawCatches data = .called k p wd)) := by
  unfold onPacket at h
  split at h
  · cases h
  · rename_i hpfx
    have hpfx' : data.take pl = o.pfx := Decidable.not_not.mp hpfx
    refine ⟨hpfx', ?_⟩
    split at h
    · cases h
    · rename_i m hm
      refine ⟨m, hm, ?_⟩
      split at h
      · cases h
      · rename_i h' hf
        split at h
        all_goals first
          | (cases h; done)
          | (rename_i hk
             simp only [Dispatch.handler.injEq] at h
             obtain ⟨h1, h2⟩ := h
             subst h1
             simp [hf, hk, h2])

/-- unfolding of `on_packet` when some wrapper ran -/
theorem onPacket_handler {G : Progs} {o : Overlay} {envOf : Handler → Env P} {pl mo : Nat} {data : Bytes}
    {hd : Handler} {out : Outcome P} (h : onPacket G o envOf pl mo data = .handler hd out) :
    hd ∈ o.handlers ∧
      ((hd.kind = .signed ∧ out = run (envOf hd) G.signed data) ∨
       (hd.kind = .signedWd ∧ out = run (envOf hd) G.signedWd data) ∨
       (hd.kind = .unsigned ∧ out = run (envOf hd) G.unsigned data) ∨
       (hd.kind = .unsignedWd ∧ out = run (envOf hd) G.unsignedWd data) ∨
       (hd.kind = .raw ∧ out = discRaw (envOf hd) G.ezUnpackAuth G.rawCatches data)) := by
  unfold onPacket at h
  split at h
  · cases h
  · split at h
    · cases h
    · split at h
      · cases h
      · rename_i h' hf
        have hmem : h' ∈ o.handlers := List.mem_of_find?_eq_some hf
        split at h
        all_goals first
          | (cases h; done)
          | (rename_i hk
             simp only [Dispatch.handler.injEq] at h
             obtain ⟨h1, h2⟩ := h
             subst h1
             simp [hmem, hk, h2])

/-- unfolding of `on_packet` when the handler is one the model does not follow -/
theorem onPacket_other {G : Progs} {o : Overlay} {envOf : Handler → Env P} {pl mo : Nat} {data : Bytes}
    {hd : Handler} (h : onPacket G o envOf pl mo data = .other hd) :
    hd ∈ o.handlers ∧
      (hd.kind = .deprecated ∨ hd.kind = .cell ∨ hd.kind = .cellDirect ∨ hd.kind = .rawOther) := by
  unfold onPacket at h
  split at h
  · cases h
  · split at h
    · cases h
    · split at h
      · cases h
      · rename_i h' hf
        have hmem : h' ∈ o.handlers := List.mem_of_find?_eq_some hf
        split at h
        all_goals first
          | (cases h; done)
          | (rename_i hk1 hk2 hk3 hk4 hk5
             simp only [Dispatch.other.injEq] at h
             subst h
             refine ⟨hmem, ?_⟩
             cases hkk : h'.kind <;> simp_all)

/-- the raw handler never enters anything with a bare address -/
theorem discRaw_not_calledAddr {E : Env P} {prog : List Op} {catches : Bool} {data : Bytes} {p : P}
    {wd : Option Bytes} (hna : noAddrCall prog = true) (h : discRaw E prog catches data = .calledAddr p wd) :
    False := by
  have na : ∀ (E' : Env P) a b, run E' prog data ≠ .calledAddr a b := fun E' a b => runFrom_noAddrCall prog {} hna
  unfold discRaw at h
  simp only [newPeerKey] at h
  cases h1 : run E prog data with
  | returned kb p' =>
    simp only [h1] at h
    cases hpk : E.S.parse kb <;> simp [hpk] at h
  | called a b c => simp [h1] at h
  | calledAddr a b => exact na E a b h1
  | stuck => simp [h1] at h
  | rejected st =>
    simp only [h1] at h
    cases st with
    | keyParse => simp at h
    | keyField | decode | signature =>
      cases catches with
      | false => simp at h
      | true =>
        simp only [if_true] at h
        cases h2 : run { E with decode := E.decodeAlt } prog data with
        | returned kb p' =>
          simp only [h2] at h
          cases hpk : E.S.parse kb <;> simp [hpk] at h
        | called a b c => simp [h2] at h
        | calledAddr a b => exact na _ a b h2
        | stuck => simp [h2] at h
        | rejected st2 => simp [h2] at h

/-! ### hypothesis bundles on the abstract scheme (explicit hypotheses of the theorems, never axioms) -/

/-- signatures have the key's positive, exact length (nothing shorter or longer verifies).  NOT assumed: any relation
    between the length of a key's ENCODING and its signature length — the real parser accepts compressed-point encodings
    that are shorter than the signature (found by the second review); see `header_signed_when_encoding_long`. -/
structure WellSized (S : Scheme) : Prop where
  pos : ∀ kb k, S.parse kb = some k → 0 < S.sigLen k
  exact : ∀ k m s, S.verify k m s = true → s.length = S.sigLen k

def Canon (S : Scheme) : Prop := ∀ kb k, S.parse kb = some k → S.parse k = some k

def NetOK (S : Scheme) (net : Bytes → Option Bytes) : Prop := ∀ kb k, net kb = some k → S.parse kb = some k

/-- unforgeability, as a hypothesis about ONE key: everything that verifies under `k` is one of the messages `msgs`
    that the holder of `k` signed -/
def OnlySigned (S : Scheme) (k : Bytes) (msgs : List Bytes) : Prop := ∀ m s, S.verify k m s = true → m ∈ msgs

/-- laws of an honest signer -/
structure Honest (S : Signer) : Prop where
  parse_pub : ∀ sk, S.parse (S.pub sk) = some (S.pub sk)
  sign_len : ∀ sk m, (S.sign sk m).length = S.sigLen (S.pub sk)
  sign_verifies : ∀ sk m, S.verify (S.pub sk) m (S.sign sk m) = true
  sig_pos : ∀ sk, 0 < S.sigLen (S.pub sk)
  pub_short : ∀ sk, (S.pub sk).length < 65536

/-- what the property promises about one handler invocation with peer key `k` and payloads `p` decoded by `dec` -/
def DeliveredBy (E : Env P) (dec : Bytes → Nat → Option P) (data k : Bytes) (p : P) : Prop :=
  ∃ kb signed sg,
    keyField E.strict data = some kb ∧          -- the key is the varlenH field at offset 23 of this datagram
    E.S.parse kb = some k ∧                      -- the peer handed to the handler is exactly that key
    data = signed ++ sg ∧ sg.length = E.S.sigLen k ∧   -- the datagram ends in a signature of that key's length
    E.S.verify k signed sg = true ∧              -- valid over EVERY byte that precedes it
    25 + kb.length ≤ signed.length + sg.length ∧ -- the key field (offset 23, two length bytes) lies inside the datagram; the
                                                 --   header is inside `signed` when the encoding is long enough or under
                                                 --   unforgeability (`header_signed_when_encoding_long`, tampering theorems)
    dec (signed.drop (2 + kb.length)) 23 = some p      -- and every byte the payload decoder reads

/-- from "the generated signature check accepted the key field at 23" to the split of the datagram -/
theorem checked_core {E : Env P} (hv : E.verifySig = Gen.verifySignature) (hS : WellSized E.S)
    {data kb rem k : Bytes} {e : Nat} (hu : unpackVarlenH E.strict data 23 = some (kb, e))
    (hver : E.verifySig E.S kb data = some (true, rem)) (hpk : E.S.parse kb = some k) :
    ∃ signed sg, keyField E.strict data = some kb ∧ data = signed ++ sg ∧ sg.length = E.S.sigLen k ∧
      E.S.verify k signed sg = true ∧ 25 + kb.length ≤ signed.length + sg.length ∧
      rem = signed.drop (2 + kb.length) := by
  have hg : Gen.verifySignature E.S kb data = refVerifySignature E.S kb data := rfl
  rw [hv, hg] at hver
  unfold refVerifySignature at hver
  rw [hpk] at hver
  simp only [Option.some.injEq, Prod.mk.injEq] at hver
  have hkf : keyField E.strict data = some kb := by simp [keyField, hu]
  have hpos := hS.pos kb k hpk
  have hlen := keyField_length hkf
  rw [slice_signed _ _ hpos, slice_sig _ _ hpos, slice_remainder _ _ _ hpos] at hver
  have hex := hS.exact _ _ _ hver.1
  have hn : E.S.sigLen k ≤ data.length := by
    simp only [List.length_drop] at hex
    omega
  obtain ⟨hsplit, hsl⟩ := split_at_sig data (E.S.sigLen k) hn
  exact ⟨_, _, hkf, hsplit, hsl, hver.1, by simp; omega, hver.2.symm⟩

/-- the three facts an honest `ezr_pack` output establishes at the receiver -/
theorem honest_facts (S : Signer) (hH : Honest S) (E : Env P) (hES : E.S = S.toScheme)
    (hv : E.verifySig = Gen.verifySignature) (sk : S.SK) (pfx : Bytes) (hpfx : pfx.length = 22) (m : UInt8)
    (body : Bytes) :
    let data := Gen.ezrPack S sk pfx m body true
    ∃ rem, unpackVarlenH E.strict data 23 = some (S.pub sk, 23 + 2 + (S.pub sk).length) ∧
      E.verifySig E.S (S.pub sk) data = some (true, rem) ∧ rem.drop 23 = body ∧
      E.S.parse (S.pub sk) = some (S.pub sk) := by
  intro data
  have hl := hH.pub_short sk
  let pub := S.pub sk
  let packet : Bytes := pfx ++ [m] ++ (packVarlenH pub ++ body)
  let sg := S.sign sk packet
  have hdata : data = packet ++ sg := by
    simp [data, Gen.ezrPack, Gen.ezPack, packet, sg, pub]
  rw [hdata]
  have hn : sg.length = S.sigLen pub := hH.sign_len sk packet
  have hpos : 0 < S.sigLen pub := hH.sig_pos sk
  have hdrop : (packet ++ sg).drop 23 =
      UInt8.ofNat (pub.length / 256) :: UInt8.ofNat (pub.length % 256) :: (pub ++ body ++ sg) := by
    have h23 : (pfx ++ [m]).length = 23 := by simp [hpfx]
    have : packet ++ sg = (pfx ++ [m]) ++ (packVarlenH pub ++ body ++ sg) := by simp [packet]
    rw [this, List.drop_left' h23]
    simp [packVarlenH]
  have hU : unpackVarlenH E.strict (packet ++ sg) 23 = some (pub, 23 + 2 + pub.length) := by
    unfold unpackVarlenH
    rw [hdrop]
    have hb : be16 (UInt8.ofNat (pub.length / 256)) (UInt8.ofNat (pub.length % 256)) = pub.length :=
      be16_pack _ hl
    simp [hb]
  have hlen : (packet ++ sg).length - S.sigLen pub = packet.length := by simp [hn]
  have hV : E.verifySig E.S pub (packet ++ sg) = some (true, packet.drop (2 + pub.length)) := by
    have hg : Gen.verifySignature S.toScheme pub (packet ++ sg) = refVerifySignature S.toScheme pub (packet ++ sg) := rfl
    rw [hv, hES, hg]
    unfold refVerifySignature
    have hp : S.toScheme.parse pub = some pub := hH.parse_pub sk
    simp only [hp]
    have e1 : S.toScheme.sigLen pub = S.sigLen pub := rfl
    rw [e1, slice_signed _ _ hpos, slice_sig _ _ hpos, slice_remainder _ _ _ hpos, hlen]
    simp only [List.take_left', List.drop_left']
    have : S.toScheme.verify pub packet sg = true := hH.sign_verifies sk packet
    simp [this]
  have hD : (packet.drop (2 + pub.length)).drop 23 = body := by
    rw [List.drop_drop]
    have h25 : (pfx ++ [m] ++ packVarlenH pub).length = 2 + pub.length + 23 := by
      simp [hpfx, packVarlenH]; omega
    have : packet = (pfx ++ [m] ++ packVarlenH pub) ++ body := by simp [packet]
    rw [this, List.drop_left' h25]
  exact ⟨_, hU, hV, hD, by rw [hES]; exact hH.parse_pub sk⟩

end Ipv8.C01
